(* proofs/OpaqueFourier.v — the library-backed leaves FFT / IFFT of sigpy.linop, connected to the
   function model of sigpy.fourier (model/Fourier.v, theorems of Prop_C05):

     orc_fourier tw isc inv (FFT s axes center)  = fourier.fft (., axes=axes, center=center)   [norm="ortho", oshape=None]
     orc_fourier tw isc inv (IFFT s axes center) = fourier.ifft(., axes=axes, center=center)

   Results (R any commutative *-ring):
     apair_fft / apair_ifft   <FFT x, y> = <x, IFFT y> on the box of the shape, for EVERY axes argument
                              (negative, unsorted, repeated, None, empty) and both values of center;
                              only hypothesis on the oracle data: conj (isc n) = isc n.
     normal_fft / normal_ifft FFT.N = IFFT.N = Identity is right: IFFT (FFT x) = x on the box, for every
                              axes argument the python class accepts (fourier_axes_ok), when the table
                              holds the powers of roots of unity w_n and isc n * isc n * n = 1.
     nodes_fourier            the node lemma for LinopTheory.adj_correct.

   Method: both _fftc (all ifftshifts, all transforms, all fftshifts) and numpy's fftn are folds of
   per-axis operators (FourierND.foldax); per-axis kernels that are conjugate transposes are adjoint
   (FourierND.along_k_adjoint / foldax_adjoint), per-axis index shifts by mutually inverse rotations are
   adjoint (BigSum.gather_adjoint), and a family commutes with itself along ANY two axes, so the reversed
   order produced by taking adjoints is immaterial even when axes are repeated. *)
From Coq Require Import ZArith List Lia Bool Ring Permutation QArith Qcanon.
From SV Require Import lib.Scalar lib.BigSum lib.LoopIR lib.NdArray lib.Gather model.Rearrange model.Block
  model.Linop model.Fourier model.OpaqueFourier
  proofs.Rearrange proofs.Fourier1D proofs.FourierND proofs.FourierModel proofs.FourierExample proofs.LinopTheory.
Import ListNotations.
Local Open Scope Z_scope.

(* ================================================================ index facts *)
Lemma shift_inv_1 n k : 0 < n -> 0 <= k < n -> g_fftshift n (g_ifftshift n k) = k.
Proof.
  intros Hn Hk. unfold g_fftshift, g_ifftshift. rewrite Zminus_mod_idemp_l.
  replace (k + n / 2 - n / 2) with k by ring. apply Z.mod_small. exact Hk.
Qed.

Lemma shift_inv_2 n k : 0 < n -> 0 <= k < n -> g_ifftshift n (g_fftshift n k) = k.
Proof.
  intros Hn Hk. unfold g_fftshift, g_ifftshift. rewrite Zplus_mod_idemp_l.
  replace (k - n / 2 + n / 2) with k by ring. apply Z.mod_small. exact Hk.
Qed.

Lemma nthd_beyond_of (l : list Z) a : (length l <= a)%nat -> nthd l a = 0.
Proof. intros H. unfold nthd. apply nth_overflow. exact H. Qed.

Lemma combine_map_self_of {A B} (f : A -> B) l : combine l (map f l) = map (fun a => (a, f a)) l.
Proof. induction l as [|a l IH]; simpl; [reflexivity| rewrite IH; reflexivity]. Qed.

Lemma all_pos_Forall_of s : all_pos s = true -> Forall (fun n => 0 < n) s.
Proof.
  unfold all_pos. rewrite forallb_forall. intros H. apply Forall_forall. intros n Hn. apply Z.ltb_lt. apply H. exact Hn.
Qed.

Lemma pos_nonneg_of s : Forall (fun n => 0 < n) s -> Forall (fun n => 0 <= n) s.
Proof. intros H. eapply Forall_impl; [|exact H]. simpl. intros; lia. Qed.

Lemma nthd_pos_in_of s a : Forall (fun n => 0 < n) s -> (a < length s)%nat -> In (nthd s a) s /\ 0 < nthd s a.
Proof.
  intros Hp La. assert (I : In (nthd s a) s) by (unfold nthd; apply nth_In; exact La).
  split; [exact I|]. rewrite Forall_forall in Hp. apply Hp. exact I.
Qed.

(* one rotation followed by the inverse rotation along the same axis returns every index of the box *)
Lemma shift_roundtrip s a (g g' : Z -> Z -> Z) :
  grange g -> (forall n k, 0 < n -> 0 <= k < n -> g' n (g n k) = k) ->
  forall o, inbox s o ->
    inbox s (upd o a (g (nthd s a) (nthd o a))) /\
    upd (upd o a (g (nthd s a) (nthd o a))) a (g' (nthd s a) (nthd (upd o a (g (nthd s a) (nthd o a))) a)) = o.
Proof.
  intros Hg Hi o Ho. pose proof (inbox_length s o Ho) as Lo.
  destruct (Nat.lt_ge_cases a (length s)) as [La|La].
  - pose proof (inbox_nthd s o a Ho La) as Hk. assert (Hn : 0 < nthd s a) by lia.
    split; [apply inbox_upd; [exact Ho| left; apply Hg; exact Hn]|].
    rewrite nthd_upd_same by (rewrite Lo; exact La).
    rewrite upd_upd_same, Hi by assumption. apply upd_nthd.
  - split; [apply inbox_upd; [exact Ho| right; exact La]|].
    rewrite !upd_beyond by (rewrite ?upd_length, Lo; exact La). reflexivity.
Qed.

(* ================================================================ folds of self-commuting families *)
Section Folds2.
  Variable R : StarRing.
  Notation farr := (list Z -> R).
  Variable s : list Z.

  Lemma self_comm (P : axfam R) : fam_comm R s P P -> forall a b, commute R s (P a) (P b).
  Proof.
    intros HC a b. destruct (Nat.eq_dec a b) as [->|Hne]; [intros x; apply eqbox_refl| apply HC; exact Hne].
  Qed.

  (* a family whose members commute along ANY two axes can be applied in any order, repetitions included *)
  Lemma foldax_perm_all (P : axfam R) l l' : fam_ext R s P -> (forall a b, commute R s (P a) (P b)) ->
    Permutation l l' -> forall x, eqbox s (foldax P l x) (foldax P l' x).
  Proof.
    intros HP HC Hperm. induction Hperm as [|a l l' Hp IH|a b l|l l' l'' Hp1 IH1 Hp2 IH2]; intros x; simpl.
    - apply eqbox_refl.
    - apply IH.
    - apply foldax_ext; [exact HP|]. apply HC.
    - eapply eqbox_trans; [apply IH1| apply IH2].
  Qed.

  (* pass Q then pass P over the same list of axes cancel when P_a Q_a = Q_a P_a = id along every listed axis *)
  Lemma foldax_cancel (P Q : axfam R) l : fam_ext R s P -> fam_ext R s Q -> fam_comm R s P Q ->
    (forall a, In a l -> forall x, eqbox s (P a (Q a x)) x /\ eqbox s (Q a (P a x)) x) ->
    forall x, eqbox s (foldax P l (foldax Q l x)) x.
  Proof.
    intros HP HQ HC. induction l as [|a l IH]; intros Hinv x; simpl; [apply eqbox_refl|].
    eapply eqbox_trans; [| apply IH; intros b Hb; apply Hinv; right; exact Hb].
    apply foldax_ext; [exact HP|].
    eapply eqbox_trans.
    - apply (op_fold_comm R s (P a) Q l HQ (HP a)).
      intros b Hb y. destruct (Nat.eq_dec a b) as [<-|Hne]; [| apply HC; exact Hne].
      destruct (Hinv a (or_introl eq_refl) y) as [E1 E2].
      eapply eqbox_trans; [exact E1| apply eqbox_sym; exact E2].
    - apply foldax_ext; [exact HQ|]. apply (Hinv a (or_introl eq_refl)).
  Qed.
End Folds2.

(* ================================================================ per-axis rotations are adjoint to their inverses *)
Section Shifts.
  Variable R : StarRing.
  Add Ring RrOF1 : (SRth R).
  Notation farr := (list Z -> R).

  Definition ginv (g g' : Z -> Z -> Z) : Prop :=
    forall n k, 0 < n -> 0 <= k < n -> g' n (g n k) = k /\ g n (g' n k) = k.

  Lemma ginv_shifts : ginv g_ifftshift g_fftshift.
  Proof. intros n k Hn Hk. split; [apply shift_inv_1| apply shift_inv_2]; assumption. Qed.
  Lemma ginv_sym g g' : ginv g g' -> ginv g' g.
  Proof. intros H n k Hn Hk. destruct (H n k Hn Hk). split; assumption. Qed.

  Lemma along_g_adjoint s a g g' : grange g -> grange g' -> ginv g g' ->
    forall x y : farr, inner s (along_g s a g x) y = inner s x (along_g s a g' y).
  Proof.
    intros Hg Hg' Hi x y.
    set (f := fun idx : list Z => upd idx a (g (nthd s a) (nthd idx a))).
    set (f' := fun idx : list Z => upd idx a (g' (nthd s a) (nthd idx a))).
    change (inner s (gather (fun _ => true) f x) y = inner s x (gather (fun _ => true) f' y)).
    apply gather_adjoint. split.
    - intros o Ho _.
      destruct (shift_roundtrip s a g g' Hg (fun n k Hn Hk => proj1 (Hi n k Hn Hk)) o Ho) as [B E].
      split; [exact B|]. split; [reflexivity| exact E].
    - intros i Hib _.
      destruct (shift_roundtrip s a g' g Hg' (fun n k Hn Hk => proj2 (Hi n k Hn Hk)) i Hib) as [B E].
      split; [exact B|]. split; [reflexivity| exact E].
  Qed.

  Lemma foldax_adjoint_G s g g' l : grange g -> grange g' -> ginv g g' ->
    forall x y : farr, inner s (foldax (Gf s g) l x) y = inner s x (foldax (Gf s g') (rev l) y).
  Proof.
    intros Hg Hg' Hi. induction l as [|a l IH]; intros x y; simpl; [reflexivity|].
    rewrite IH. unfold foldax at 2. rewrite fold_left_app. simpl.
    unfold Gf at 1 3. apply along_g_adjoint; assumption.
  Qed.

  Lemma along_g_roundtrip s a g g' : grange g -> (forall n k, 0 < n -> 0 <= k < n -> g' n (g n k) = k) ->
    forall x : farr, eqbox s (along_g s a g (along_g s a g' x)) x.
  Proof.
    intros Hg Hi x idx Hb. unfold along_g.
    destruct (shift_roundtrip s a g g' Hg Hi idx Hb) as [_ E]. rewrite E. reflexivity.
  Qed.

  Lemma Gf_self_comm s g : forall a b, commute R s (Gf (R:=R) s g a) (Gf s g b).
  Proof. apply self_comm. apply comm_GG. Qed.
  Lemma Kf_self_comm s K : forall a b, commute R s (Kf (R:=R) s K a) (Kf s K b).
  Proof. apply self_comm. apply comm_KK. Qed.

  (* numpy pads/crops to the CURRENT length along the axis (s = None): nothing happens on the box *)
  Lemma along_k_pad s a K (y : farr) : eqbox s (along_k s a K (pad_ax s a y)) (along_k s a K y).
  Proof.
    intros idx Hb. unfold along_k. rewrite !osumZ_sumZ. apply sumZ_ext. intros j Hj.
    unfold pad_ax.
    destruct (Nat.lt_ge_cases a (length s)) as [La|La].
    - rewrite nthd_upd_same by (rewrite (inbox_length s idx Hb); exact La).
      destruct (Z.ltb_spec j (nthd s a)); [reflexivity| lia].
    - rewrite nthd_beyond_of in Hj by exact La. lia.
  Qed.
End Shifts.

(* ================================================================ the function model as folds of per-axis operators *)
(* the axes numpy.fft.fftn(axes=axes) transforms, in the order listed (s = None) *)
Definition plain_axes (axes : option (list Z)) (nd : Z) : list nat :=
  map (fun a => Z.to_nat (a mod nd)) (match axes with Some l => l | None => zrange 0 nd 1 end).

Section Unfold.
  Variable R : StarRing.
  Add Ring RrOF2 : (SRth R).
  Local Open Scope sr_scope.
  Notation farr := (list Z -> R).
  Variable tw : Z -> Z -> R.
  Variable isc inv : Z -> R.

  Definition FK (inverse ortho : bool) (s : list Z) : axfam R := Kf s (ker1 tw isc inv inverse ortho).

  (* _fftc / _ifftc with oshape=None: all ifftshifts, all transforms (numpy: reversed list), all fftshifts *)
  Lemma fftc_folds inverse ortho s axes (x x' : farr) :
    Forall (fun n => (0 <= n)%Z) s -> eqbox s x x' ->
    let ax := normalize_axes_sorted axes (Z.of_nat (length s)) in
    eqbox s (snd (fftc tw isc inv inverse ortho s None axes x))
            (foldax (Gf s g_fftshift) ax (foldax (FK inverse ortho s) (rev ax) (foldax (Gf s g_ifftshift) ax x'))).
  Proof.
    intros Hnn Hx ax. unfold fftc. cbn [snd]. fold ax.
    set (K := ker1 tw isc inv inverse ortho).
    set (P := Gf (R:=R) s g_ifftshift). set (Q := Gf (R:=R) s g_fftshift).
    set (FF := fun (a : nat) (y : farr) => forceA s (along_k s a K y)).
    change (eqbox s (foldax Q ax (foldax FF (rev ax) (forceA s (foldax P ax (forceA s (resize s s None None x))))))
                    (foldax Q ax (foldax (Kf s K) (rev ax) (foldax P ax x')))).
    assert (EP : fam_ext R s P) by (apply Gf_ext, grange_ifftshift).
    assert (EQ : fam_ext R s Q) by (apply Gf_ext, grange_fftshift).
    apply foldax_ext; [exact EQ|].
    apply (foldax_ext2 R s FF (Kf s K) (rev ax) (Kf_ext R s K)).
    - intros a y _. unfold FF, Kf. apply forceA_eqbox. exact Hnn.
    - eapply eqbox_trans; [apply forceA_eqbox; exact Hnn|]. apply foldax_ext; [exact EP|].
      eapply eqbox_trans; [apply forceA_eqbox; exact Hnn|].
      eapply eqbox_trans; [apply resize_same_eqbox| exact Hx].
  Qed.

  (* numpy fftn / ifftn with s=None (center=False): one pass per listed axis, last listed first *)
  Lemma plain_fold_state K s l (x : farr) :
    fold_left (fun (st : list Z * farr) (an : nat * Z) =>
                 let '(sh, y) := st in let '(a, n) := an in
                 let sh' := upd sh a n in
                 (sh', forceA sh' (along_k sh' a K (pad_ax sh a y))))
              (map (fun a => (a, nthd s a)) l) (s, x)
    = (s, foldax (fun a y => forceA s (along_k s a K (pad_ax s a y))) l x).
  Proof.
    revert x; induction l as [|a l IH]; intros x; [reflexivity|].
    cbn [map fold_left]. cbv zeta. rewrite upd_nthd. rewrite IH. reflexivity.
  Qed.

  Lemma plain_folds inverse ortho s axes (x x' : farr) :
    Forall (fun n => (0 <= n)%Z) s -> eqbox s x x' ->
    eqbox s (snd (fft_plain tw isc inv inverse ortho s None axes x))
            (foldax (FK inverse ortho s) (rev (plain_axes axes (Z.of_nat (length s)))) x').
  Proof.
    intros Hnn Hx. unfold fft_plain. cbv zeta.
    fold (plain_axes axes (Z.of_nat (length s))). set (axn := plain_axes axes (Z.of_nat (length s))).
    rewrite combine_map_self_of, <- map_rev, plain_fold_state. cbn [snd].
    apply (foldax_ext2 R s _ (FK inverse ortho s) (rev axn)); [apply Kf_ext| | exact Hx].
    intros a y _. unfold FK, Kf.
    eapply eqbox_trans; [apply forceA_eqbox; exact Hnn| apply along_k_pad].
  Qed.
End Unfold.

(* ================================================================ adjoint and inverse of the function call *)
Section Call.
  Variable R : StarRing.
  Add Ring RrOF3 : (SRth R).
  Local Open Scope sr_scope.
  Notation farr := (list Z -> R).
  Variable tw : Z -> Z -> R.
  Variable isc inv : Z -> R.

  (* the orthonormal kernels of fft and ifft are conjugate transposes of each other: no property of the
     table is needed, only that the scaling is real *)
  Lemma ker1_conj inverse n j k : conj (isc n) = isc n ->
    ker1 tw isc inv (negb inverse) true n k j = conj (ker1 tw isc inv inverse true n j k).
  Proof.
    intros Hs. unfold ker1, iker, fker. cbv zeta.
    destruct inverse; cbn [negb]; rewrite conj_mul, ?conj_invol, Hs, (Z.mul_comm k j); reflexivity.
  Qed.

  Hypothesis Hiscr : forall n, (0 < n)%Z -> conj (isc n) = isc n.

  Lemma FK_adjoint inverse s l (x y : farr) :
    inner s (foldax (FK R tw isc inv inverse true s) l x) y =
    inner s x (foldax (FK R tw isc inv (negb inverse) true s) (rev l) y).
  Proof.
    unfold FK. apply foldax_adjoint. intros n j k Hj Hk. apply ker1_conj. apply Hiscr. lia.
  Qed.

  (* <fft x, y> = <x, ifft y> and <ifft x, y> = <x, fft y>: the call made by FFT._apply against the call made by
     IFFT._apply with the SAME axes and center arguments; every axes argument, both values of center *)
  Theorem fourier_call_adjoint inverse s axes center (x y : farr) :
    Forall (fun n => (0 <= n)%Z) s ->
    inner s (fourier_call tw isc inv inverse s axes center x) y =
    inner s x (fourier_call tw isc inv (negb inverse) s axes center y).
  Proof.
    intros Hnn. unfold fourier_call, fft_model. destruct center.
    - set (ax := normalize_axes_sorted axes (Z.of_nat (length s))).
      set (P := Gf (R:=R) s g_ifftshift). set (Q := Gf (R:=R) s g_fftshift).
      assert (EP : fam_ext R s P) by (apply Gf_ext, grange_ifftshift).
      assert (EQ : fam_ext R s Q) by (apply Gf_ext, grange_fftshift).
      rewrite (inner_eqbox R s _ _ y y (fftc_folds R tw isc inv inverse true s axes x x Hnn (eqbox_refl R s x))
                           (eqbox_refl R s y)).
      rewrite (inner_eqbox R s x x _ _ (eqbox_refl R s x)
                           (fftc_folds R tw isc inv (negb inverse) true s axes y y Hnn (eqbox_refl R s y))).
      fold ax. fold P. fold Q.
      rewrite (foldax_adjoint_G R s g_fftshift g_ifftshift ax grange_fftshift grange_ifftshift
                                (ginv_sym _ _ ginv_shifts)).
      rewrite FK_adjoint, rev_involutive.
      rewrite (foldax_adjoint_G R s g_ifftshift g_fftshift ax grange_ifftshift grange_fftshift ginv_shifts).
      fold P. fold Q.
      apply inner_eqbox; [apply eqbox_refl|].
      (* Q_(rev ax) F'_ax P_(rev ax) y  =  Q_ax F'_(rev ax) P_ax y *)
      set (F' := FK R tw isc inv (negb inverse) true s).
      assert (EF : fam_ext R s F') by apply Kf_ext.
      eapply eqbox_trans.
      + apply foldax_perm_all; [exact EQ| apply Gf_self_comm| apply Permutation_sym, Permutation_rev].
      + apply foldax_ext; [exact EQ|].
        eapply eqbox_trans.
        * apply foldax_perm_all; [exact EF| apply Kf_self_comm| apply Permutation_rev].
        * apply foldax_ext; [exact EF|].
          apply foldax_perm_all; [exact EP| apply Gf_self_comm| apply Permutation_sym, Permutation_rev].
    - set (axn := plain_axes axes (Z.of_nat (length s))).
      rewrite (inner_eqbox R s _ _ y y (plain_folds R tw isc inv inverse true s axes x x Hnn (eqbox_refl R s x))
                           (eqbox_refl R s y)).
      rewrite (inner_eqbox R s x x _ _ (eqbox_refl R s x)
                           (plain_folds R tw isc inv (negb inverse) true s axes y y Hnn (eqbox_refl R s y))).
      fold axn. rewrite FK_adjoint, rev_involutive.
      apply inner_eqbox; [apply eqbox_refl|].
      apply foldax_perm_all; [apply Kf_ext| apply Kf_self_comm| apply Permutation_rev].
  Qed.
End Call.

Section Inverse.
  Variable R : StarRing.
  Add Ring RrOF4 : (SRth R).
  Local Open Scope sr_scope.
  Notation farr := (list Z -> R).
  Variable tw : Z -> Z -> R.
  Variable isc inv : Z -> R.
  Variable w : Z -> R.
  Variable s : list Z.
  Hypothesis Hpos : Forall (fun n => (0 < n)%Z) s.
  (* only the axis lengths that occur in the shape matter *)
  Hypothesis Htw : forall n, In n s -> forall m, tw n m = opow (w n) (Z.to_nat m).
  Hypothesis Hroot : forall n, In n s -> root_ok R n (w n).
  Hypothesis Hisc : forall n, In n s -> isc n * isc n * nR n = 1.

  Let Hnn : Forall (fun n => (0 <= n)%Z) s := pos_nonneg_of s Hpos.

  Lemma ker1_delta inverse a : (a < length s)%nat ->
    forall j l, (0 <= j < nthd s a)%Z -> (0 <= l < nthd s a)%Z ->
      sumZ (nthd s a) (fun k => ker1 tw isc inv inverse true (nthd s a) j k *
                                ker1 tw isc inv (negb inverse) true (nthd s a) k l)
      = if (j =? l)%Z then 1 else 0.
  Proof.
    intros La j l Hj Hl. destruct (nthd_pos_in_of s a Hpos La) as [I Hn]. set (n := nthd s a) in *.
    rewrite (sumZ_ext R n _ (fun k => gk R n (w n) inverse (isc n) 0 j k * gk R n (w n) (negb inverse) (isc n) 0 k l)).
    - rewrite (gk_delta R n (w n) (Hroot n I)) by assumption. rewrite (Hisc n I). reflexivity.
    - intros k _. rewrite !(ker1_gk R n (w n) (Hroot n I) tw isc inv (Htw n I)).
      destruct inverse; reflexivity.
  Qed.

  Lemma FK_cancel inverse l : (forall a, In a l -> (a < length s)%nat) ->
    forall x : farr, eqbox s (foldax (FK R tw isc inv (negb inverse) true s) l (foldax (FK R tw isc inv inverse true s) l x)) x.
  Proof.
    intros Hl. apply foldax_cancel; [apply Kf_ext| apply Kf_ext| apply comm_KK|].
    intros a Ha x. unfold FK, Kf. split.
    - apply along_k_inverse; [apply Hl, Ha| apply ker1_delta; apply Hl, Ha].
    - apply along_k_inverse; [apply Hl, Ha|].
      intros j l' Hj Hl'. pose proof (ker1_delta (negb inverse) a (Hl a Ha) j l' Hj Hl') as E.
      rewrite negb_involutive in E. exact E.
  Qed.

  Lemma G_cancel g g' l : grange g -> grange g' -> ginv g g' ->
    forall x : farr, eqbox s (foldax (Gf s g) l (foldax (Gf s g') l x)) x.
  Proof.
    intros Hg Hg' Hi. apply foldax_cancel; [apply Gf_ext, Hg| apply Gf_ext, Hg'| apply comm_GG|].
    intros a _ x. unfold Gf. split.
    - apply along_g_roundtrip; [exact Hg|]. intros n k Hn Hk. apply (Hi n k Hn Hk).
    - apply along_g_roundtrip; [exact Hg'|]. intros n k Hn Hk. apply (Hi n k Hn Hk).
  Qed.

  Lemma plain_axes_lt axes : fourier_axes_ok s axes false = true ->
    forall a, In a (plain_axes axes (Z.of_nat (length s))) -> (a < length s)%nat.
  Proof.
    unfold fourier_axes_ok, plain_axes. cbv zeta. set (nd := Z.of_nat (length s)). intros Hok a Ha.
    apply in_map_iff in Ha. destruct Ha as (v & <- & Hv).
    assert (Hnd : (0 < nd)%Z).
    { destruct axes as [l|].
      - rewrite forallb_forall in Hok. specialize (Hok v Hv). apply andb_true_iff in Hok. destruct Hok as [H1 H2].
        apply Z.leb_le in H1. apply Z.ltb_lt in H2. lia.
      - apply zrange_in in Hv; lia. }
    pose proof (Z.mod_pos_bound v nd Hnd). unfold nd in *. lia.
  Qed.

  (* ifft (fft x) = x and fft (ifft x) = x on the box, with the axes / center arguments of the operator *)
  Theorem fourier_call_inverse inverse axes center (x : farr) :
    fourier_axes_ok s axes center = true ->
    eqbox s (fourier_call tw isc inv (negb inverse) s axes center (fourier_call tw isc inv inverse s axes center x)) x.
  Proof.
    intros Hok. unfold fourier_call, fft_model. destruct center.
    - set (ax := normalize_axes_sorted axes (Z.of_nat (length s))).
      assert (Hlt : forall a, In a (rev ax) -> (a < length s)%nat).
      { intros a Ha. apply in_rev in Ha. unfold fourier_axes_ok in Hok. apply Z.ltb_lt in Hok.
        pose proof (normalize_axes_lt axes _ Hok) as F. rewrite Forall_forall in F.
        specialize (F a Ha). rewrite Nat2Z.id in F. exact F. }
      eapply eqbox_trans.
      { eapply fftc_folds; [exact Hnn|].
        apply (fftc_folds R tw isc inv inverse true s axes x x Hnn). apply eqbox_refl. }
      fold ax.
      eapply eqbox_trans; [| apply (G_cancel g_fftshift g_ifftshift ax grange_fftshift grange_ifftshift (ginv_sym _ _ ginv_shifts))].
      apply foldax_ext; [apply Gf_ext, grange_fftshift|].
      eapply eqbox_trans; [| apply (FK_cancel inverse (rev ax) Hlt)].
      apply foldax_ext; [apply Kf_ext|].
      apply (G_cancel g_ifftshift g_fftshift ax grange_ifftshift grange_fftshift ginv_shifts).
    - set (axn := plain_axes axes (Z.of_nat (length s))).
      eapply eqbox_trans.
      { eapply plain_folds; [exact Hnn|].
        apply (plain_folds R tw isc inv inverse true s axes x x Hnn). apply eqbox_refl. }
      fold axn. apply FK_cancel. intros a Ha. apply in_rev in Ha. apply (plain_axes_lt axes Hok a Ha).
  Qed.
End Inverse.

(* ================================================================ the Linop leaves *)
Lemma wf_fourier_pos_of s : all_pos s && all_pos s = true -> Forall (fun n => 0 < n) s.
Proof. intros H. apply andb_true_iff in H. apply all_pos_Forall_of. apply H. Qed.

Lemma shapes_fft s ax c : wf (FFT s ax c) = true ->
  Forall (fun n => 0 < n) s /\ ishape_of (FFT s ax c) = s /\ oshape_of (FFT s ax c) = s.
Proof.
  unfold wf, ishape_of, oshape_of. cbn [shapes]. unfold finish.
  destruct (all_pos s && all_pos s) eqn:E; [|discriminate]. intros _.
  split; [apply wf_fourier_pos_of; exact E| split; reflexivity].
Qed.

Lemma shapes_ifft s ax c : wf (IFFT s ax c) = true ->
  Forall (fun n => 0 < n) s /\ ishape_of (IFFT s ax c) = s /\ oshape_of (IFFT s ax c) = s.
Proof.
  unfold wf, ishape_of, oshape_of. cbn [shapes]. unfold finish.
  destruct (all_pos s && all_pos s) eqn:E; [|discriminate]. intros _.
  split; [apply wf_fourier_pos_of; exact E| split; reflexivity].
Qed.

Section Leaves.
  Variable R : StarRing.
  Notation farr := (list Z -> R).
  Variable arr : Z -> farr.
  Variable scal : Z -> R.
  Variable orc : linop -> farr -> farr.
  Variable tw : Z -> Z -> R.
  Variable isc inv : Z -> R.

  Notation apair := (apair R arr scal orc).
  Notation D := (D R arr scal orc).

  (* [orc] denotes the leaf L as the function model says *)
  Definition orc_is_fourier (L : linop) : Prop := forall x, orc L x = orc_fourier tw isc inv L x.

  (* ---- C01: FFT.H = IFFT and IFFT.H = FFT are the true adjoints -------------------------------- *)
  Theorem apair_fft s ax c :
    wf (FFT s ax c) = true ->
    (forall n, 0 < n -> conj (isc n) = isc n) ->
    orc_is_fourier (FFT s ax c) -> orc_is_fourier (IFFT s ax c) ->
    apair (FFT s ax c).
  Proof.
    intros Hwf Hs H1 H2. destruct (shapes_fft s ax c Hwf) as (Hpos & Ei & Eo).
    unfold LinopTheory.apair. rewrite Ei, Eo. intros x y.
    change (inner s (orc (FFT s ax c) x) y = inner s x (orc (IFFT s ax c) y)).
    rewrite H1, H2. cbn [orc_fourier].
    apply (fourier_call_adjoint R tw isc inv Hs false s ax c x y). apply pos_nonneg_of. exact Hpos.
  Qed.

  Theorem apair_ifft s ax c :
    wf (IFFT s ax c) = true ->
    (forall n, 0 < n -> conj (isc n) = isc n) ->
    orc_is_fourier (IFFT s ax c) -> orc_is_fourier (FFT s ax c) ->
    apair (IFFT s ax c).
  Proof.
    intros Hwf Hs H1 H2. destruct (shapes_ifft s ax c Hwf) as (Hpos & Ei & Eo).
    unfold LinopTheory.apair. rewrite Ei, Eo. intros x y.
    change (inner s (orc (IFFT s ax c) x) y = inner s x (orc (FFT s ax c) y)).
    rewrite H1, H2. cbn [orc_fourier].
    apply (fourier_call_adjoint R tw isc inv Hs true s ax c x y). apply pos_nonneg_of. exact Hpos.
  Qed.

  (* ---- C04: FFT.N = IFFT.N = Identity is the true normal operator A^H A on the box --------------- *)
  Section Normal.
    Variable w : Z -> R.
    Variable s : list Z.
    Hypothesis Htw : forall n, In n s -> forall m, tw n m = opow (w n) (Z.to_nat m).
    Hypothesis Hroot : forall n, In n s -> root_ok R n (w n).
    Hypothesis Hisc : forall n, In n s -> mul (mul (isc n) (isc n)) (nR n) = one.

    Theorem normal_fft ax c :
      wf (FFT s ax c) = true -> fourier_axes_ok s ax c = true ->
      orc_is_fourier (FFT s ax c) -> orc_is_fourier (IFFT s ax c) ->
      forall x o, inbox (ishape_of (FFT s ax c)) o ->
        D (normal (FFT s ax c)) x o = D (adj (FFT s ax c)) (D (FFT s ax c) x) o.
    Proof.
      intros Hwf Hok H1 H2 x o. destruct (shapes_fft s ax c Hwf) as (Hpos & Ei & _). rewrite Ei. intros Ho.
      change (x o = orc (IFFT s ax c) (orc (FFT s ax c) x) o).
      rewrite H2, H1. cbn [orc_fourier]. symmetry.
      apply (fourier_call_inverse R tw isc inv w s Hpos Htw Hroot Hisc false ax c x Hok o Ho).
    Qed.

    Theorem normal_ifft ax c :
      wf (IFFT s ax c) = true -> fourier_axes_ok s ax c = true ->
      orc_is_fourier (IFFT s ax c) -> orc_is_fourier (FFT s ax c) ->
      forall x o, inbox (ishape_of (IFFT s ax c)) o ->
        D (normal (IFFT s ax c)) x o = D (adj (IFFT s ax c)) (D (IFFT s ax c) x) o.
    Proof.
      intros Hwf Hok H1 H2 x o. destruct (shapes_ifft s ax c Hwf) as (Hpos & Ei & _). rewrite Ei. intros Ho.
      change (x o = orc (FFT s ax c) (orc (IFFT s ax c) x) o).
      rewrite H2, H1. cbn [orc_fourier]. symmetry.
      apply (fourier_call_inverse R tw isc inv w s Hpos Htw Hroot Hisc true ax c x Hok o Ho).
    Qed.
  End Normal.

  (* ---- the node lemma for LinopTheory.adj_correct ------------------------------------------------- *)
  Theorem nodes_fourier :
    (forall L, fourier_leaf L = true -> orc_is_fourier L) ->
    (forall n, 0 < n -> conj (isc n) = isc n) ->
    forall L, proven_node_fourier L = true -> wf L = true -> apair L.
  Proof.
    intros Horc Hs L Hp Hwf. destruct L; try discriminate Hp.
    - apply apair_fft; [exact Hwf| exact Hs| apply Horc; reflexivity| apply Horc; reflexivity].
    - apply apair_ifft; [exact Hwf| exact Hs| apply Horc; reflexivity| apply Horc; reflexivity].
  Qed.

  (* the same for the normal operator: every accepted FFT / IFFT leaf has N = A^H A on the box *)
  Theorem nodes_fourier_normal (w : Z -> R) :
    (forall L, fourier_leaf L = true -> orc_is_fourier L) ->
    (forall n m, 0 < n -> tw n m = opow (w n) (Z.to_nat m)) ->
    (forall n, 0 < n -> root_ok R n (w n)) ->
    (forall n, 0 < n -> mul (mul (isc n) (isc n)) (nR n) = one) ->
    forall L, proven_node_fourier L = true -> wf L = true ->
    forall x o, inbox (ishape_of L) o -> D (normal L) x o = D (adj L) (D L x) o.
  Proof.
    intros Horc Htw Hroot Hisc L Hp Hwf. destruct L; try discriminate Hp.
    - destruct (shapes_fft _ axes center Hwf) as (Hpos & _). rewrite Forall_forall in Hpos.
      apply (normal_fft w shape); try assumption; try (apply Horc; reflexivity).
      + intros n Hn m. apply Htw. apply Hpos, Hn.
      + intros n Hn. apply Hroot. apply Hpos, Hn.
      + intros n Hn. apply Hisc. apply Hpos, Hn.
    - destruct (shapes_ifft _ axes center Hwf) as (Hpos & _). rewrite Forall_forall in Hpos.
      apply (normal_ifft w shape); try assumption; try (apply Horc; reflexivity).
      + intros n Hn m. apply Htw. apply Hpos, Hn.
      + intros n Hn. apply Hroot. apply Hpos, Hn.
      + intros n Hn. apply Hisc. apply Hpos, Hn.
  Qed.
End Leaves.

(* ================================================================ non-vacuity *)
(* parameters the class accepts: negative, unsorted and (modulo ndim) repeated axes, a size-1 axis; center=False with
   a repeated axis *)
Definition of_ex_fft : linop := FFT [4; 1; 4] (Some [-1; 0; 2]) true.
Definition of_ex_ifft : linop := IFFT [4; 4] (Some [-2; 1; 1]) false.

Example ex_fourier_params :
  wf of_ex_fft = true /\ proven_node_fourier of_ex_fft = true /\ wf of_ex_ifft = true /\ proven_node_fourier of_ex_ifft = true /\
  (* rejected: center=False with an axis outside [-ndim, ndim); center=True on a 0-d array *)
  proven_node_fourier (FFT [4; 4] (Some [2]) false) = false /\ proven_node_fourier (FFT [] None true) = false.
Proof. vm_compute. repeat split; reflexivity. Qed.

(* exact oracle data in Q(i): lengths 4 (w = -i, 1/sqrt 4 = 1/2) and 1 (w = 1, scaling 1); the 1/n table is not used *)
Definition of_ex_w (n : Z) : QIRing := if n =? 4 then qi 0 (-1) else one.
Definition of_ex_isc (n : Z) : QIRing := if n =? 4 then qi (1 # 2) 0 else one.
Definition of_ex_inv (n : Z) : QIRing := zero.
Definition of_ex_tw (n m : Z) : QIRing := opow (of_ex_w n) (Z.to_nat m).

Lemma of_ex_isc_real n : conj (of_ex_isc n) = of_ex_isc n.
Proof. unfold of_ex_isc. destruct (n =? 4); apply qi_eq; vm_compute; reflexivity. Qed.

Lemma of_ex_root n : n = 4 \/ n = 1 -> root_ok QIRing n (of_ex_w n) /\ mul (mul (of_ex_isc n) (of_ex_isc n)) (nR n) = one.
Proof.
  intros [-> | ->].
  - split; [exact root_ok_Qi_4| exact (proj1 scalings_Qi_4)].
  - split; [|apply qi_eq; vm_compute; reflexivity].
    unfold root_ok. split; [lia|]. split; [apply qi_eq; vm_compute; reflexivity|].
    split; [intros m Hm; lia| apply qi_eq; vm_compute; reflexivity].
Qed.

Example ex_fourier_adjoint (arr : Z -> list Z -> QIRing) (scal : Z -> QIRing) :
  apair QIRing arr scal (orc_fourier of_ex_tw of_ex_isc of_ex_inv) of_ex_fft /\
  apair QIRing arr scal (orc_fourier of_ex_tw of_ex_isc of_ex_inv) of_ex_ifft.
Proof.
  split; apply (nodes_fourier QIRing arr scal _ of_ex_tw of_ex_isc of_ex_inv);
    try (intros L _ x; reflexivity); try (intros n _; apply of_ex_isc_real); reflexivity.
Qed.

Example ex_fourier_normal (arr : Z -> list Z -> QIRing) (scal : Z -> QIRing) :
  let orc := orc_fourier of_ex_tw of_ex_isc of_ex_inv in
  (forall x o, inbox [4; 1; 4] o ->
     D QIRing arr scal orc (normal of_ex_fft) x o = D QIRing arr scal orc (adj of_ex_fft) (D QIRing arr scal orc of_ex_fft x) o) /\
  (forall x o, inbox [4; 4] o ->
     D QIRing arr scal orc (normal of_ex_ifft) x o = D QIRing arr scal orc (adj of_ex_ifft) (D QIRing arr scal orc of_ex_ifft x) o).
Proof.
  assert (In4 : forall n l, In n l -> Forall (fun v => v = 4 \/ v = 1) l -> n = 4 \/ n = 1).
  { intros n l Hn F. rewrite Forall_forall in F. apply F, Hn. }
  split.
  - apply (normal_fft QIRing arr scal _ of_ex_tw of_ex_isc of_ex_inv of_ex_w [4; 1; 4]); try reflexivity;
      try (intros x; reflexivity);
      intros n Hn; apply of_ex_root; apply (In4 n _ Hn); repeat (apply Forall_cons; [lia|]); apply Forall_nil.
  - apply (normal_ifft QIRing arr scal _ of_ex_tw of_ex_isc of_ex_inv of_ex_w [4; 4]); try reflexivity;
      try (intros x; reflexivity);
      intros n Hn; apply of_ex_root; apply (In4 n _ Hn); repeat (apply Forall_cons; [lia|]); apply Forall_nil.
Qed.

(* the model evaluated exactly in Z[i] (w = -i, all scalings 1: the UNNORMALISED transform): FFT along the repeated
   axis (0, 0) of a delta at index 1 is the delta at index 3 scaled by 4, i.e. F^2 = n * (index reversal) *)
Example ex_orc_value :
  tabulate [4] (orc_fourier (R:=GOps) (fun _ m => opow (R:=GOps) (0, -1) (Z.to_nat m)) (fun _ => (1, 0)) (fun _ => (1, 0))
                            (FFT [4] (Some [0; 0]) false) (of_list (0, 0) [4] [(0, 0); (1, 0); (0, 0); (0, 0)]))
  = [(0, 0); (0, 0); (0, 0); (4, 0)].
Proof. vm_compute. reflexivity. Qed.

(* ================================================================ relation to the C05 statements *)
(* the leaf's function call IS the term the C05 theorems are about (center=True: fftc, center=False: fft_plain) *)
Lemma fourier_call_center (R : Ops) tw isc inv inverse s axes (x : list Z -> R) :
  fourier_call tw isc inv inverse s axes true x = snd (fftc tw isc inv inverse true s None axes x).
Proof. reflexivity. Qed.
Lemma fourier_call_plain (R : Ops) tw isc inv inverse s axes (x : list Z -> R) :
  fourier_call tw isc inv inverse s axes false x = snd (fft_plain tw isc inv inverse true s None axes x).
Proof. reflexivity. Qed.

(* cross-check: for distinct axes and center=True the adjoint pair is literally C05_fft_adjoint_is_ifft *)
Lemma fourier_call_adjoint_is_C05 (R : StarRing) (w isc inv : Z -> R) :
  (forall n, 0 < n -> root_ok R n (w n)) -> (forall n, 0 < n -> conj (isc n) = isc n) ->
  forall inverse s axes (x y : list Z -> R),
    let ax := normalize_axes_sorted axes (Z.of_nat (length s)) in
    Forall (fun n => 0 < n) s -> NoDup ax -> Forall (fun a => (a < length s)%nat) ax ->
    inner s (fourier_call (twf R w) isc inv inverse s axes true x) y =
    inner s x (fourier_call (twf R w) isc inv (negb inverse) s axes true y).
Proof. intros Hroot Hiscr inverse s axes x y. exact (fft_adjoint_nd R w isc inv Hroot Hiscr inverse s axes x y). Qed.
