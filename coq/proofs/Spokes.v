(* proofs/Spokes.v — spokes_grad of model/Spokes.v over the real numbers (instance RUp of proofs/Trap.v).

   Main result [spokes_grad_meets_limits]: whenever every in-plane blip fits inside one slice-select lobe
   (boolean hypothesis [blips_fit], the designer's domain) the three assembled waveforms have the same length
   n*|subgz| + |gref|, start and end at 0, stay within gmax in magnitude, change by at most dgdt*dt per sample,
   the i-th segment of gx / gy moves k-space by exactly k_{i+1} - k_i (k_n = 0), the i-th segment of gz is the
   slice-select lobe with alternating sign, and the tail of gz is minus a trapezoid of half the lobe's total area. *)
From Coq Require Import Reals ZArith List Bool Lra Lia Psatz.
From SV Require Import model.Trap model.Spokes proofs.Trap.
Import ListNotations.
Local Open Scope R_scope.

(* ------------------------------------------------------------------ pulses that start and end at zero *)
Definition zp (g d : R) (l : list R) : Prop :=
  hd 0 l = 0 /\ last l 0 = 0 /\ (forall x, In x l -> Rabs x <= g) /\ steps_ok d l.

Lemma last_cons_ne (a : R) (l : list R) d : l <> [] -> last (a :: l) d = last l d.
Proof. destruct l; [congruence | reflexivity]. Qed.

Lemma last_app2 (l1 l2 : list R) d :
  last (l1 ++ l2) d = match l2 with [] => last l1 d | _ => last l2 d end.
Proof.
  destruct l2 as [|b l2]; [rewrite app_nil_r; reflexivity|].
  induction l1 as [|a l1 IH]; [reflexivity|].
  change ((a :: l1) ++ b :: l2) with (a :: (l1 ++ b :: l2)).
  rewrite last_cons_ne; [exact IH | destruct l1; discriminate].
Qed.

Lemma zp_nil g d : zp g d [].
Proof. repeat split; try reflexivity. intros x []. Qed.

Lemma zp_app g d l1 l2 : 0 <= d -> zp g d l1 -> zp g d l2 -> zp g d (l1 ++ l2).
Proof.
  intros Hd [A1 [A2 [A3 A4]]] [B1 [B2 [B3 B4]]]. repeat split.
  - destruct l1; [exact B1 | exact A1].
  - rewrite last_app2. destruct l2; [exact A2 | exact B2].
  - intros x Hx. apply in_app_or in Hx. destruct Hx; [apply A3 | apply B3]; assumption.
  - apply steps_app; try assumption. rewrite B1, A2. replace (0 - 0) with 0 by ring. rewrite Rabs_R0. exact Hd.
Qed.

Lemma zp_concat g d ls : 0 <= d -> Forall (zp g d) ls -> zp g d (concat ls).
Proof.
  intros Hd H. induction H as [|l ls Hl _ IH]; [apply zp_nil|]. cbn [concat]. apply zp_app; assumption.
Qed.

Lemma last_repeat (x : R) n d : last (repeat x (S n)) d = x.
Proof. induction n as [|n IH]; [reflexivity|]. change (repeat x (S (S n))) with (x :: repeat x (S n)). cbn [last]. exact IH. Qed.

Lemma zp_zeros g d n : 0 <= g -> 0 <= d -> zp g d (repeat 0 n).
Proof.
  intros Hg Hd. repeat split.
  - destruct n; reflexivity.
  - destruct n; [reflexivity | apply last_repeat].
  - intros x Hx. apply repeat_spec in Hx. subst x. rewrite Rabs_R0. exact Hg.
  - apply steps_repeat. exact Hd.
Qed.

Lemma Rabs_m1 : Rabs (IZR (-1)) <= 1.
Proof. unfold Rabs. destruct (Rcase_abs (IZR (-1))); lra. Qed.

Lemma steps_mult d c l : Rabs c <= 1 -> steps_ok d l -> steps_ok d (map (fun x => c * x) l).
Proof.
  intros Hc. induction l as [|a l IH]; intros H; [exact I|].
  destruct l as [|b l]; [exact I|]. destruct H as [Hab H].
  change (map (fun x => c * x) (a :: b :: l)) with (c * a :: map (fun x => c * x) (b :: l)).
  change (map (fun x => c * x) (b :: l)) with (c * b :: map (fun x => c * x) l) at 1.
  split.
  - replace (c * b - c * a) with (c * (b - a)) by ring. rewrite Rabs_mult.
    pose proof (Rabs_pos (b - a)). pose proof (Rabs_pos c). nra.
  - change (c * b :: map (fun x => c * x) l) with (map (fun x => c * x) (b :: l)). apply IH. exact H.
Qed.

Lemma zp_mult g d c l : Rabs c <= 1 -> zp g d l -> zp g d (map (fun x => c * x) l).
Proof.
  intros Hc [A1 [A2 [A3 A4]]]. repeat split.
  - rewrite (hd_map0 (fun x => c * x)) by ring. rewrite A1. ring.
  - rewrite (last_map0 (fun x => c * x)) by ring. rewrite A2. ring.
  - intros x Hx. apply in_map_iff in Hx. destruct Hx as [y [<- Hy]]. rewrite Rabs_mult.
    pose proof (A3 y Hy). pose proof (Rabs_pos y). pose proof (Rabs_pos c). nra.
  - apply steps_mult; assumption.
Qed.

Lemma firstn_repeat_le (x : R) m n : (m <= n)%nat -> firstn m (repeat x n) = repeat x m.
Proof. revert n; induction m as [|m IH]; intros n H; [reflexivity|]. destruct n; [lia|]. cbn [repeat firstn]. f_equal. apply IH. lia. Qed.

Lemma steps_of_nth d (l : list R) :
  (forall i, (S i < length l)%nat -> Rabs (nth (S i) l 0 - nth i l 0) <= d) -> steps_ok d l.
Proof.
  induction l as [|a l IH]; intros H; [exact I|].
  destruct l as [|b l]; [exact I|]. split.
  - apply (H 0%nat). simpl. lia.
  - apply IH. intros i Hi. apply (H (S i)). simpl in Hi |- *. lia.
Qed.

Lemma Rsum_mult c l : Rsum (map (fun x => c * x) l) = c * Rsum l.
Proof. induction l as [|a l IH]; simpl; [ring | rewrite IH; ring]. Qed.

Lemma Rsum_nonneg l : (forall x, In x l -> 0 <= x) -> 0 <= Rsum l.
Proof.
  induction l as [|a l IH]; intros H; simpl; [lra|].
  pose proof (H a (or_introl eq_refl)). assert (0 <= Rsum l) by (apply IH; intros x Hx; apply H; right; exact Hx). lra.
Qed.

(* ------------------------------------------------------------------ what the designers give, as zp *)
Lemma trap_zp area gmax dgdt dt :
  0 < area -> 0 < gmax -> 0 < dgdt -> 0 < dt ->
  let w := fst (trap_grad (T:=RUp) area gmax dgdt dt) in
  zp gmax (dgdt * dt) w /\ Rsum w * dt = area.
Proof.
  intros Ha Hg Hs Ht w. destruct (trap_grad_meets_limits area gmax dgdt dt Ha Hg Hs Ht) as [[H1 [H2 [H3 [H4 H5]]]] _].
  fold w in H1, H2, H3, H4, H5. split; [|exact H3]. repeat split; try assumption.
  - intros x Hx. apply H4 in Hx. rewrite Rabs_right; lra.
  - apply steps_of_nth. exact H5.
Qed.

Lemma mintrap_zp area gmax dgdt dt :
  0 < area -> 0 < gmax -> 0 < dgdt -> 0 < dt ->
  let w := fst (min_trap_grad (T:=RUp) area gmax dgdt dt) in
  zp gmax (dgdt * dt) w /\ 0 < Rsum w /\ (1 <= length w)%nat.
Proof.
  intros Ha Hg Hs Ht w.
  destruct (min_trap_grad_meets_limits area gmax dgdt dt Ha Hg Hs Ht) as [[H1 [H2 [[up [dn [E _]]] [Hl [H5 [_ [H7 H8]]]]]]] _].
  fold w in H1, H2, E, H7, H8. split; [|split].
  - repeat split; try assumption.
    + intros x Hx. apply H7 in Hx. rewrite Rabs_right; lra.
    + apply steps_of_nth. exact H8.
  - rewrite E, !Rsum_app.
    assert (0 <= Rsum up) by (apply Rsum_nonneg; intros x Hx; apply (H7 x); rewrite E; apply in_or_app; left; exact Hx).
    assert (0 <= Rsum dn) by (apply Rsum_nonneg; intros x Hx; apply (H7 x); rewrite E; apply in_or_app; right; apply in_or_app; right; exact Hx).
    assert (0 < Rsum (min_trap_flat_part (T:=RUp) area gmax dgdt dt)) by nra. lra.
  - rewrite E, !app_length. lia.
Qed.

(* ------------------------------------------------------------------ the transverse axes *)
Section Axis.
  Variables (subn : nat) (gmax dgdt dt : R).
  Hypotheses (Hg : 0 < gmax) (Hs : 0 < dgdt) (Ht : 0 < dt).

  Definition axis_seg (a : R) : list R :=
    if Rltb 0 (Rabs a) then repeat 0 (subn - length (blip_of (T:=RUp) gmax dgdt dt a)) ++ blip_of (T:=RUp) gmax dgdt dt a
    else repeat 0 subn.

  Lemma rsign_R a : 0 < Rabs a -> Rabs (IZR (rsign (T:=RUp) a)) <= 1 /\ IZR (rsign (T:=RUp) a) * Rabs a = a.
  Proof.
    intros Ha. unfold rsign. cbn [rltb r0 RUp RReal]. unfold Rltb.
    destruct (Rlt_dec 0 a) as [P|P].
    - rewrite Rabs_R1. split; [lra|]. rewrite (Rabs_right a) by lra. ring.
    - destruct (Rlt_dec a 0) as [N|N].
      + split; [exact Rabs_m1|]. rewrite (Rabs_left a) by lra. ring.
      + exfalso. assert (a = 0) by lra. subst a. rewrite Rabs_R0 in Ha. lra.
  Qed.

  Lemma blip_zp a : 0 < Rabs a ->
    zp gmax (dgdt * dt) (blip_of (T:=RUp) gmax dgdt dt a) /\ Rsum (blip_of (T:=RUp) gmax dgdt dt a) * dt = a.
  Proof.
    intros Ha. destruct (rsign_R a Ha) as [S1 S2].
    destruct (trap_zp (Rabs a) gmax dgdt dt Ha Hg Hs Ht) as [Z A].
    unfold blip_of, zscale. cbn [rmul rofZ rabs RUp RReal]. split.
    - apply zp_mult; assumption.
    - rewrite Rsum_mult, Rmult_assoc, A. exact S2.
  Qed.

  Lemma axis_seg_spec a : blip_fits (T:=RUp) subn gmax dgdt dt a = true ->
    length (axis_seg a) = subn /\ zp gmax (dgdt * dt) (axis_seg a) /\ Rsum (axis_seg a) * dt = a.
  Proof.
    unfold blip_fits, axis_seg. cbn [rltb r0 rabs RUp RReal].
    assert (Hd : 0 <= dgdt * dt) by nra.
    destruct (Rltb 0 (Rabs a)) eqn:E; intros F.
    - assert (Ha : 0 < Rabs a) by (unfold Rltb in E; destruct (Rlt_dec 0 (Rabs a)); [assumption | discriminate]).
      apply Nat.leb_le in F. destruct (blip_zp a Ha) as [Z A]. split; [|split].
      + rewrite app_length, repeat_length. change (RT RUp) with R in *. lia.
      + apply zp_app; [exact Hd | apply zp_zeros; lra | exact Z].
      + rewrite Rsum_app, Rsum_repeat, Rmult_plus_distr_r, A. ring.
    - assert (Ha : a = 0).
      { unfold Rltb in E. destruct (Rlt_dec 0 (Rabs a)); [discriminate|]. pose proof (Rabs_pos a).
        assert (Rabs a = 0) by lra. destruct (Req_dec a 0) as [|N]; [assumption|]. apply Rabs_no_R0 in N. contradiction. }
      split; [apply repeat_length | split; [apply zp_zeros; lra|]]. rewrite Rsum_repeat, Ha. ring.
  Qed.

  Lemma py_take_fit (g : list R) (b : nat) : (b <= subn)%nat ->
    py_take (T:=RUp) (Z.of_nat (length (g ++ zeros (T:=RUp) subn)) - Z.of_nat b) (g ++ zeros (T:=RUp) subn)
    = g ++ repeat 0 (subn - b).
  Proof.
    intros Hb. unfold py_take, zeros. cbn [r0 RUp RReal RT]. rewrite app_length, repeat_length.
    replace (Z.of_nat (length g + subn) - Z.of_nat b <? 0)%Z with false by (symmetry; apply Z.ltb_ge; lia).
    replace (Z.to_nat (Z.of_nat (length g + subn) - Z.of_nat b)) with (length g + (subn - b))%nat by lia.
    rewrite firstn_app_2. f_equal. apply firstn_repeat_le. lia.
  Qed.

  Lemma axis_step_fit g a : blip_fits (T:=RUp) subn gmax dgdt dt a = true ->
    axis_step (T:=RUp) subn gmax dgdt dt g a = g ++ axis_seg a.
  Proof.
    unfold blip_fits, axis_step, axis_seg. cbn [rltb r0 rabs RUp RReal].
    destruct (Rltb 0 (Rabs a)); intros F.
    - apply Nat.leb_le in F. rewrite py_take_fit by exact F. rewrite <- app_assoc. reflexivity.
    - reflexivity.
  Qed.

  Lemma axis_fold_fit areas g : forallb (blip_fits (T:=RUp) subn gmax dgdt dt) areas = true ->
    fold_left (axis_step (T:=RUp) subn gmax dgdt dt) areas g = g ++ concat (map axis_seg areas).
  Proof.
    revert g. induction areas as [|a areas IH]; intros g F; cbn [fold_left map concat].
    - rewrite app_nil_r. reflexivity.
    - cbn [forallb] in F. apply andb_true_iff in F. destruct F as [Fa F].
      rewrite axis_step_fit by exact Fa. rewrite IH by exact F. rewrite <- app_assoc. reflexivity.
  Qed.
End Axis.

(* ------------------------------------------------------------------ equal-length segments *)
Definition seg (i n : nat) (l : list R) : list R := firstn n (skipn (i * n) l).

Lemma skipn_plus_app (l r : list R) m : skipn (length l + m) (l ++ r) = skipn m r.
Proof. induction l as [|a l IH]; [reflexivity|]. cbn [length Nat.add app skipn]. exact IH. Qed.

Lemma seg_concat n (ls : list (list R)) t i :
  Forall (fun l => length l = n) ls -> (i < length ls)%nat -> seg i n (concat ls ++ t) = nth i ls [].
Proof.
  unfold seg. revert i. induction ls as [|l ls IH]; intros i H Hi; [simpl in Hi; lia|].
  inversion H as [|? ? Hl Hls]; subst. cbn [concat]. rewrite <- app_assoc. destruct i as [|i].
  - cbn [Nat.mul skipn nth]. rewrite firstn_app, Nat.sub_diag, firstn_O, app_nil_r. apply firstn_all.
  - cbn [nth]. replace (S i * length l)%nat with (length l + i * length l)%nat by lia.
    rewrite skipn_plus_app. apply IH; [exact Hls | simpl in Hi; lia].
Qed.

Lemma length_concat_eq n (ls : list (list R)) :
  Forall (fun l => length l = n) ls -> length (concat ls) = (length ls * n)%nat.
Proof. intros H. induction H as [|l ls Hl _ IH]; [reflexivity|]. cbn [concat length]. rewrite app_length, IH, Hl. lia. Qed.

Lemma skipn_concat n (ls : list (list R)) t :
  Forall (fun l => length l = n) ls -> skipn (length ls * n) (concat ls ++ t) = t.
Proof.
  intros H. rewrite <- (length_concat_eq n ls H). rewrite skipn_app, skipn_all, Nat.sub_diag. reflexivity.
Qed.

Lemma diffs0_length (k : list R) : length (diffs0 (T:=RUp) k) = length k.
Proof. induction k as [|x k IH]; [reflexivity|]. cbn [diffs0 length]. rewrite IH. reflexivity. Qed.

Lemma diffs0_nth (k : list R) i : (i < length k)%nat ->
  nth i (diffs0 (T:=RUp) k) 0 = nth (S i) k 0 - nth i k 0.
Proof.
  revert i. induction k as [|x k IH]; intros i Hi; [simpl in Hi; lia|].
  destruct i as [|i].
  - cbn [diffs0 nth rsub r0 RUp RReal]. destruct k; reflexivity.
  - cbn [diffs0]. change (nth (S i) (?a :: ?l) 0) with (nth i l 0). rewrite IH by (simpl in Hi; lia). reflexivity.
Qed.

(* ------------------------------------------------------------------ the slice-select axis *)
Section Zaxis.
  Variable subgz : list R.

  Fixpoint zsegs (s : Z) (n : nat) : list (list R) :=
    match n with O => [] | S n' => zscale (T:=RUp) (s * -1) subgz :: zsegs (s * -1) n' end.

  Lemma z_fold (ks : list R) g s :
    fst (fold_left (z_step (T:=RUp) subgz) ks (g, s)) = g ++ concat (zsegs s (length ks)).
  Proof.
    revert g s. induction ks as [|k ks IH]; intros g s; cbn [fold_left length zsegs concat].
    - cbn [fst]. rewrite app_nil_r. reflexivity.
    - unfold z_step at 2. cbn [fst snd]. rewrite IH. rewrite <- app_assoc. reflexivity.
  Qed.

  Lemma zsegs_length s n : length (zsegs s n) = n.
  Proof. revert s. induction n as [|n IH]; intros s; [reflexivity|]. cbn [zsegs length]. rewrite IH. reflexivity. Qed.

  Lemma zsegs_nth s n i : (i < n)%nat ->
    nth i (zsegs s n) [] = zscale (T:=RUp) (if Nat.even i then (- s)%Z else s) subgz.
  Proof.
    revert s i. induction n as [|n IH]; intros s i Hi; [lia|].
    destruct i as [|i]; cbn [zsegs nth].
    - cbn [Nat.even]. f_equal. lia.
    - rewrite IH by lia. rewrite Nat.even_succ, <- Nat.negb_even. destruct (Nat.even i); cbn [negb]; f_equal; lia.
  Qed.

  Lemma zsegs_all (P : list R -> Prop) s n :
    (forall c, (c = 1 \/ c = -1)%Z -> P (zscale (T:=RUp) c subgz)) -> (s = 1 \/ s = -1)%Z -> Forall P (zsegs s n).
  Proof.
    intros H. revert s. induction n as [|n IH]; intros s Hs; [constructor|].
    cbn [zsegs]. constructor; [apply H; lia | apply IH; lia].
  Qed.
End Zaxis.

Lemma zscale_R c (w : list R) : zscale (T:=RUp) c w = map (fun x => IZR c * x) w.
Proof. reflexivity. Qed.

Lemma Rabs_pm1 c : (c = 1 \/ c = -1)%Z -> Rabs (IZR c) <= 1.
Proof. intros [->| ->]; [rewrite Rabs_R1; lra | exact Rabs_m1]. Qed.

Lemma rsum_R (l : list R) : @eq R (rsum (T:=RUp) l) (Rsum l).
Proof. unfold rsum. cbn [radd r0 RUp RReal RT]. rewrite fold_left_Rplus. ring. Qed.

(* ------------------------------------------------------------------ the theorem *)
Definition waveform_ok (gmax d : R) (g : list R) : Prop :=
  hd 0 g = 0 /\ last g 0 = 0 /\ (forall x, In x g -> Rabs x <= gmax) /\
  (forall i, (S i < length g)%nat -> Rabs (nth (S i) g 0 - nth i g 0) <= d).

Lemma zp_waveform gmax d g : zp gmax d g -> waveform_ok gmax d g.
Proof. intros [A [B [C D]]]. repeat split; try assumption. apply steps_nth. exact D. Qed.

Theorem spokes_grad_meets_limits (kx ky : list R) (tbw thick gmax dgdt dt : R) :
  0 < tbw -> 0 < thick -> 0 < gmax -> 0 < dgdt -> 0 < dt -> length kx = length ky ->
  blips_fit (T:=RUp) kx ky tbw thick gmax dgdt dt = true ->
  let g := spokes_grad (T:=RUp) kx ky tbw thick gmax dgdt dt in
  let gx := fst (fst g) in let gy := snd (fst g) in let gz := snd g in
  let area := tbw / (thick / 10) / 4257 in
  let subgz := fst (min_trap_grad (T:=RUp) area gmax dgdt dt) in
  let subn := length subgz in
  let gref := fst (trap_grad (T:=RUp) (dt * rsum (T:=RUp) subgz / 2) gmax dgdt dt) in
  let n := length kx in
  (* equal lengths *)
  (length gx = n * subn + length gref /\ length gy = n * subn + length gref /\ length gz = n * subn + length gref)%nat /\
  (* limits on every axis *)
  waveform_ok gmax (dgdt * dt) gx /\ waveform_ok gmax (dgdt * dt) gy /\ waveform_ok gmax (dgdt * dt) gz /\
  (* k-space increments (the location after the last spoke is 0) *)
  (forall i, (i < n)%nat -> Rsum (seg i subn gx) * dt * 4257 = nth (S i) kx 0 - nth i kx 0) /\
  (forall i, (i < n)%nat -> Rsum (seg i subn gy) * dt * 4257 = nth (S i) ky 0 - nth i ky 0) /\
  Rsum (skipn (n * subn) gx) = 0 /\ Rsum (skipn (n * subn) gy) = 0 /\
  (* slice-select lobes of alternating sign, then the refocusing lobe of half the lobe's area *)
  (forall i, (i < n)%nat -> seg i subn gz = map (fun x => (if Nat.even i then 1 else -1) * x) subgz) /\
  skipn (n * subn) gz = map (fun x => -1 * x) gref /\
  Rsum gref * dt = dt * Rsum subgz / 2 /\ (1 <= subn)%nat.
Proof.
  intros Hb Hth Hg Hs Ht Hlen Hfit g gx gy gz area subgz subn gref n.
  assert (Harea : 0 < area) by (unfold area; repeat apply div_pos; lra).
  destruct (mintrap_zp area gmax dgdt dt Harea Hg Hs Ht) as [Zsub [Spos Hsub1]]. fold subgz in Zsub, Spos, Hsub1.
  pose proof (rsum_R subgz) as Ers.
  assert (Href : 0 < dt * rsum (T:=RUp) subgz / 2) by (rewrite Ers; nra).
  destruct (trap_zp _ gmax dgdt dt Href Hg Hs Ht) as [Zref Aref]. fold gref in Zref, Aref. rewrite Ers in Aref.
  assert (Hd : 0 <= dgdt * dt) by nra.
  set (xa := map (fun d => d / 4257) (diffs0 (T:=RUp) kx)).
  set (ya := map (fun d => d / 4257) (diffs0 (T:=RUp) ky)).
  assert (Fit : forallb (blip_fits (T:=RUp) subn gmax dgdt dt) (xa ++ ya) = true) by exact Hfit.
  rewrite forallb_app in Fit. apply andb_true_iff in Fit. destruct Fit as [Fx Fy].
  assert (Egx : gx = concat (map (axis_seg subn gmax dgdt dt) xa) ++ repeat 0 (length gref)).
  { unfold gx, g, spokes_grad. cbn [fst snd]. apply (f_equal2 (@app R)); [apply (axis_fold_fit subn gmax dgdt dt xa []); exact Fx | reflexivity]. }
  assert (Egy : gy = concat (map (axis_seg subn gmax dgdt dt) ya) ++ repeat 0 (length gref)).
  { unfold gy, g, spokes_grad. cbn [fst snd]. apply (f_equal2 (@app R)); [apply (axis_fold_fit subn gmax dgdt dt ya []); exact Fy | reflexivity]. }
  assert (Egz : gz = concat (zsegs subgz (-1) n) ++ map (fun x => -1 * x) gref).
  { unfold gz, g, spokes_grad. cbn [fst snd]. apply (f_equal2 (@app R)); [apply (z_fold subgz kx [] (-1)%Z) | reflexivity]. }
  assert (Lxa : length xa = n) by (unfold xa; rewrite map_length; apply diffs0_length).
  assert (Lya : length ya = n) by (unfold ya; rewrite map_length, diffs0_length; symmetry; exact Hlen).
  assert (Sx : forall a, In a xa -> length (axis_seg subn gmax dgdt dt a) = subn /\
                                      zp gmax (dgdt * dt) (axis_seg subn gmax dgdt dt a) /\
                                      Rsum (axis_seg subn gmax dgdt dt a) * dt = a).
  { intros a Ha. apply axis_seg_spec; try assumption. rewrite forallb_forall in Fx. apply Fx. exact Ha. }
  assert (Sy : forall a, In a ya -> length (axis_seg subn gmax dgdt dt a) = subn /\
                                      zp gmax (dgdt * dt) (axis_seg subn gmax dgdt dt a) /\
                                      Rsum (axis_seg subn gmax dgdt dt a) * dt = a).
  { intros a Ha. apply axis_seg_spec; try assumption. rewrite forallb_forall in Fy. apply Fy. exact Ha. }
  assert (LFx : Forall (fun l => length l = subn) (map (axis_seg subn gmax dgdt dt) xa)).
  { apply Forall_forall. intros l Hl. apply in_map_iff in Hl. destruct Hl as [a [<- Ha]]. apply (Sx a Ha). }
  assert (LFy : Forall (fun l => length l = subn) (map (axis_seg subn gmax dgdt dt) ya)).
  { apply Forall_forall. intros l Hl. apply in_map_iff in Hl. destruct Hl as [a [<- Ha]]. apply (Sy a Ha). }
  assert (LFz : Forall (fun l => length l = subn) (zsegs subgz (-1) n)).
  { apply zsegs_all; [|lia]. intros c _. rewrite zscale_R, map_length. reflexivity. }
  assert (ZFx : Forall (zp gmax (dgdt * dt)) (map (axis_seg subn gmax dgdt dt) xa)).
  { apply Forall_forall. intros l Hl. apply in_map_iff in Hl. destruct Hl as [a [<- Ha]]. apply (Sx a Ha). }
  assert (ZFy : Forall (zp gmax (dgdt * dt)) (map (axis_seg subn gmax dgdt dt) ya)).
  { apply Forall_forall. intros l Hl. apply in_map_iff in Hl. destruct Hl as [a [<- Ha]]. apply (Sy a Ha). }
  assert (ZFz : Forall (zp gmax (dgdt * dt)) (zsegs subgz (-1) n)).
  { apply zsegs_all; [|lia]. intros c Hc. rewrite zscale_R. apply zp_mult; [apply Rabs_pm1; exact Hc | exact Zsub]. }
  assert (Kx : forall i, (i < n)%nat -> Rsum (seg i subn gx) * dt * 4257 = nth (S i) kx 0 - nth i kx 0).
  { intros i Hi. rewrite Egx, (seg_concat subn _ _ i LFx) by (rewrite map_length, Lxa; exact Hi).
    rewrite (nth_indep _ [] (axis_seg subn gmax dgdt dt 0)) by (rewrite map_length, Lxa; exact Hi).
    rewrite map_nth. destruct (Sx (nth i xa 0)) as [_ [_ A]]; [apply nth_In; rewrite Lxa; exact Hi|].
    rewrite A. unfold xa. rewrite (nth_indep _ 0 (0 / 4257)) by (rewrite map_length, diffs0_length; exact Hi).
    rewrite (map_nth (fun d => d / 4257)). rewrite diffs0_nth by exact Hi. field. }
  assert (Ky : forall i, (i < n)%nat -> Rsum (seg i subn gy) * dt * 4257 = nth (S i) ky 0 - nth i ky 0).
  { intros i Hi. rewrite Egy, (seg_concat subn _ _ i LFy) by (rewrite map_length, Lya; exact Hi).
    rewrite (nth_indep _ [] (axis_seg subn gmax dgdt dt 0)) by (rewrite map_length, Lya; exact Hi).
    rewrite map_nth. destruct (Sy (nth i ya 0)) as [_ [_ A]]; [apply nth_In; rewrite Lya; exact Hi|].
    rewrite A. unfold ya. rewrite (nth_indep _ 0 (0 / 4257)) by (rewrite map_length, diffs0_length, <- Hlen; exact Hi).
    rewrite (map_nth (fun d => d / 4257)). rewrite diffs0_nth by (rewrite <- Hlen; exact Hi). field. }
  split; [|split; [|split; [|split; [|split; [|split; [|split; [|split; [|split; [|split; [|split]]]]]]]]]].
  - rewrite Egx, Egy, Egz, !app_length, repeat_length, map_length.
    rewrite (length_concat_eq subn _ LFx), (length_concat_eq subn _ LFy), (length_concat_eq subn _ LFz).
    rewrite !map_length, Lxa, Lya, zsegs_length. repeat split; reflexivity.
  - apply zp_waveform. rewrite Egx. apply zp_app; [exact Hd | apply zp_concat; assumption | apply zp_zeros; lra].
  - apply zp_waveform. rewrite Egy. apply zp_app; [exact Hd | apply zp_concat; assumption | apply zp_zeros; lra].
  - apply zp_waveform. rewrite Egz. apply zp_app; [exact Hd | apply zp_concat; assumption |].
    apply zp_mult; [exact Rabs_m1 | exact Zref].
  - exact Kx.
  - exact Ky.
  - rewrite Egx. replace (n * subn)%nat with (length (map (axis_seg subn gmax dgdt dt) xa) * subn)%nat by (rewrite map_length, Lxa; reflexivity).
    rewrite (skipn_concat subn _ _ LFx), Rsum_repeat. ring.
  - rewrite Egy. replace (n * subn)%nat with (length (map (axis_seg subn gmax dgdt dt) ya) * subn)%nat by (rewrite map_length, Lya; reflexivity).
    rewrite (skipn_concat subn _ _ LFy), Rsum_repeat. ring.
  - intros i Hi. rewrite Egz, (seg_concat subn _ _ i LFz) by (rewrite zsegs_length; exact Hi).
    rewrite zsegs_nth by exact Hi. rewrite zscale_R. destruct (Nat.even i); reflexivity.
  - rewrite Egz. replace (n * subn)%nat with (length (zsegs subgz (-1) n) * subn)%nat by (rewrite zsegs_length; reflexivity).
    apply (skipn_concat subn _ _ LFz).
  - exact Aref.
  - exact Hsub1.
Qed.

(* non-vacuity of the hypotheses: blips_fit holds whenever all increments vanish (e.g. a single spoke at the origin) *)
Lemma blips_fit_origin tbw thick gmax dgdt dt :
  blips_fit (T:=RUp) [0] [0] tbw thick gmax dgdt dt = true.
Proof.
  unfold blips_fit. cbn [diffs0 map app forallb rsub r0 RUp RReal rdiv rofZ gamma].
  unfold blip_fits. cbn [rltb r0 rabs RUp RReal].
  replace ((0 - 0) / 4257) with 0 by (unfold Rdiv; ring). rewrite Rabs_R0.
  rewrite Rltb_false by lra. reflexivity.
Qed.
