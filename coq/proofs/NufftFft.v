(* proofs/NufftFft.v — the FFT oracle hypothesis of the NUFFT adjoint theorem, derived from the DFT-sum specification of
   numpy.fft (model/Fourier.v, C05): for the unnormalised centred FFT F and the norm=None centred inverse Fi over the
   listed axes,   <F x, y> = (prod_a n_a) * <x, Fi y>. *)
From Coq Require Import ZArith List Lia Bool Ring Permutation.
From SV Require Import lib.Scalar lib.BigSum lib.NdArray model.Rearrange model.Fourier
  proofs.Fourier1D proofs.FourierND proofs.FourierModel proofs.Nufft.
Import ListNotations.
Local Open Scope Z_scope.

Section FP.
  Variable R : StarRing.
  Add Ring RringNF : (SRth R).
  Local Open Scope sr_scope.
  Notation farr := (list Z -> R).
  Variable w isc inv : Z -> R.
  Hypothesis Hroot : forall n, (0 < n)%Z -> root_ok R n (w n).
  Hypothesis Hinv : forall n, (0 < n)%Z -> inv n * nR n = 1.

  Notation K1 := (ckerN R w isc inv false false).
  Notation Ki := (ckerN R w isc inv true false).
  Definition K2 (n k j : Z) : R := conj (K1 n j k).

  Lemma nR_real n : conj (nR n : R) = nR n.
  Proof. unfold nR. rewrite sumZ_conj. apply sumZ_ext. intros _ _. apply conj_one. Qed.

  Lemma K2_Ki n k j : (0 < n)%Z -> K2 n k j = nR n * Ki n k j.
  Proof.
    intros Hn. unfold K2, ckerN, cker. rewrite (gk_conj R n (w n) (Hroot n Hn)). cbn [negb].
    unfold gk, kscale, iscale, fscale. rewrite conj_one.
    transitivity ((inv n * nR n) * zpw R n (w n) ((if true then -1 else 1) * ((k - n / 2) * (j - n / 2)))); [rewrite Hinv by exact Hn; ring | ring].
  Qed.

  (* product of the lengths of the listed axes, as a ring element *)
  Fixpoint cprod (s : list Z) (l : list nat) : R :=
    match l with [] => 1 | a :: l' => nR (nthd s a) * cprod s l' end.

  Lemma cprod_real s l : conj (cprod s l) = cprod s l.
  Proof. induction l as [|a l IH]; simpl; [apply conj_one| rewrite conj_mul, nR_real, IH; reflexivity]. Qed.

  Lemma along_k_scale_arg s a K (c : R) (y : farr) idx :
    along_k s a K (fun i => c * y i) idx = c * along_k s a K y idx.
  Proof.
    unfold along_k. rewrite !osumZ_sumZ, <- sumZ_scale. apply sumZ_ext. intros; ring.
  Qed.

  Lemma along_k_scale_ker s a (c : R) (Ka Kb : Z -> Z -> Z -> R) (y : farr) idx :
    (forall j k, Ka (nthd s a) j k = c * Kb (nthd s a) j k) ->
    along_k s a Ka y idx = c * along_k s a Kb y idx.
  Proof.
    intros H. unfold along_k. rewrite !osumZ_sumZ, <- sumZ_scale. apply sumZ_ext. intros j _. rewrite H. ring.
  Qed.

  Lemma foldax_scale_arg s K l (c : R) : forall y : farr,
    eqbox s (foldax (Kf s K) l (fun i => c * y i)) (fun i => c * foldax (Kf s K) l y i).
  Proof.
    induction l as [|a l IH]; intros y; [apply eqbox_refl|].
    cbn [foldax fold_left]. fold (foldax (Kf s K) l).
    eapply eqbox_trans; [|apply IH].
    apply foldax_ext; [apply Kf_ext|]. intros idx _. unfold Kf. apply along_k_scale_arg.
  Qed.

  Lemma foldax_K2 s l : Forall (fun a => (0 < nthd s a)%Z) l -> forall y : farr,
    eqbox s (foldax (Kf s K2) l y) (fun i => cprod s l * foldax (Kf s Ki) l y i).
  Proof.
    induction 1 as [|a l Ha Hl IH]; intros y.
    - intros idx _. unfold foldax. cbn [fold_left cprod]. symmetry. apply (Rmul_1_l (SRth R)).
    - cbn [foldax fold_left]. fold (foldax (Kf s K2) l). fold (foldax (Kf s Ki) l).
      eapply eqbox_trans; [apply IH|].
      intros idx Hidx. cbn [cprod].
      transitivity (cprod s l * (nR (nthd s a) * foldax (Kf s Ki) l (Kf s Ki a y) idx)); [|unfold foldax; ring].
      f_equal.
      rewrite <- (foldax_scale_arg s Ki l (nR (nthd s a)) (Kf s Ki a y) idx Hidx).
      apply (foldax_ext R s (Kf s Ki) l (Kf_ext R s Ki)); [|exact Hidx].
      intros idx' _. unfold Kf. apply along_k_scale_ker. intros j k. apply K2_Ki. exact Ha.
  Qed.

  Theorem fft_none_pair s axes (x y : farr) :
    let ax := normalize_axes_sorted axes (Z.of_nat (length s)) in
    Forall (fun n => (0 < n)%Z) s -> NoDup ax -> Forall (fun a => (a < length s)%nat) ax ->
    inner s (snd (fftc (twf R w) isc inv false false s None axes x)) y =
    cprod s ax * inner s x (snd (fftc (twf R w) isc inv true false s None axes y)).
  Proof.
    intros ax Hpos ND Hlt.
    rewrite (inner_eqbox R s _ (foldax (Kf s K1) ax x) y y
               (fftc_same R w isc inv Hroot false false s axes x x Hpos ND Hlt (eqbox_refl R s x)) (eqbox_refl R s y)).
    rewrite (inner_eqbox R s x x _ (foldax (Kf s Ki) ax y) (eqbox_refl R s x)
               (fftc_same R w isc inv Hroot true false s axes y y Hpos ND Hlt (eqbox_refl R s y))).
    rewrite (foldax_adjoint R s K1 K2 ax) by (intros; reflexivity).
    rewrite <- (cprod_real s ax), <- inner_scal_r.
    apply inner_eqbox; [apply eqbox_refl|].
    eapply eqbox_trans.
    - apply foldax_perm; [apply Kf_ext| apply comm_KK| apply Permutation_sym, Permutation_rev|].
      apply Permutation_NoDup with (l := ax); [apply Permutation_rev| exact ND].
    - apply foldax_K2. rewrite Forall_forall in *. intros a Ha. specialize (Hlt a Ha).
      assert (Hn : In (nthd s a) s) by (unfold nthd; apply nth_In; exact Hlt). exact (Hpos _ Hn).
  Qed.
End FP.
