(* RnSpace.v — the coordinate spaces R^n as inner-product spaces (nested pairs: R^0 = unit,
   R^(n+1) = R * R^n, built with a generic product of inner-product spaces), and the proof that
   R^n has dimension <= n in the sense of proofs/CGFinite.v ([dim_le]: any n+1 vectors are
   linearly dependent).  Also the small instances R (n = 1) and R^2 (n = 2) of proofs/IPSpace.v.
   This makes the finite-termination theorems of CGFinite.v non-vacuous for every n. *)
From Coq Require Import Reals Lra Lia ZArith Bool.
From SV Require Import model.Alg proofs.IPSpace proofs.CGBasic proofs.CG proofs.CGKrylov proofs.CGFinite.
Local Open Scope R_scope.

(* ------------------------------------------------------------------------- *)
(* R and R^2 of IPSpace.v                                                      *)
(* ------------------------------------------------------------------------- *)
Lemma R1_dim_le : dim_le R1Space 1.
Proof.
  intros f. destruct (Req_dec (f 0%nat) 0) as [Z|NZ].
  - exists (fun i => match i with 0%nat => 1 | _ => 0 end). split.
    + exists 0%nat. split; [lia|lra].
    + cbn. rewrite Z. ring.
  - exists (fun i => match i with 0%nat => f 1%nat | 1%nat => - f 0%nat | _ => 0 end). split.
    + exists 1%nat. split; [lia|lra].
    + cbn. ring.
Qed.

Lemma R2_dim_le : dim_le R2Space 2.
Proof.
  intros f.
  destruct (f 0%nat) as [a0 b0] eqn:E0. destruct (f 1%nat) as [a1 b1] eqn:E1. destruct (f 2%nat) as [a2 b2] eqn:E2.
  destruct (Req_dec (a0 * b1 - a1 * b0) 0) as [D|D].
  - (* f0, f1 dependent *)
    destruct (Req_dec a0 0) as [Za|Za]; [destruct (Req_dec b0 0) as [Zb|Zb]|].
    + exists (fun i => match i with 0%nat => 1 | _ => 0 end). split.
      * exists 0%nat. split; [lia|lra].
      * cbn. rewrite E0, E1, E2. cbn. subst. f_equal; ring.
    + exists (fun i => match i with 0%nat => b1 | 1%nat => - b0 | _ => 0 end). split.
      * exists 1%nat. split; [lia|lra].
      * cbn. rewrite E0, E1, E2. cbn. f_equal; nra.
    + exists (fun i => match i with 0%nat => a1 | 1%nat => - a0 | _ => 0 end). split.
      * exists 1%nat. split; [lia|lra].
      * cbn. rewrite E0, E1, E2. cbn. f_equal; nra.
  - exists (fun i => match i with 0%nat => a1 * b2 - a2 * b1 | 1%nat => a2 * b0 - a0 * b2 | 2%nat => a0 * b1 - a1 * b0 | _ => 0 end).
    split.
    + exists 2%nat. split; [lia|exact D].
    + cbn. rewrite E0, E1, E2. cbn. f_equal; ring.
Qed.

(* ------------------------------------------------------------------------- *)
(* the trivial space and the product of two spaces                             *)
(* ------------------------------------------------------------------------- *)
Definition TrivSpace : IPSpace.
Proof.
  refine (mkIPSpace unit tt (fun _ _ => tt) (fun _ _ => tt) (fun _ _ => tt) (fun _ _ => tt) (fun _ _ => 0)
            _ _ _ _ _ _ _ _ _ _ _); intros; try reflexivity; try ring; try lra.
  - destruct x; reflexivity.
  - destruct x; reflexivity.
Defined.

Definition ProdSpace (H1 H2 : IPSpace) : IPSpace.
Proof.
  refine (mkIPSpace (ipV H1 * ipV H2) (ip0 H1, ip0 H2)
            (fun x y => (ipadd H1 (fst x) (fst y), ipadd H2 (snd x) (snd y)))
            (fun x y => (ipsub H1 (fst x) (fst y), ipsub H2 (snd x) (snd y)))
            (fun a x => (ipscale H1 a (fst x), ipscale H2 a (snd x)))
            (fun x s => (ipdivs H1 (fst x) s, ipdivs H2 (snd x) s))
            (fun x y => ipdot H1 (fst x) (fst y) + ipdot H2 (snd x) (snd y))
            _ _ _ _ _ _ _ _ _ _ _); intros; cbn [fst snd].
  - f_equal; apply ip_add_comm.
  - f_equal; apply ip_add_assoc.
  - destruct x; cbn [fst snd]. f_equal; apply ip_add_0_r.
  - f_equal; apply ip_add_opp.
  - f_equal; apply ip_sub_def.
  - f_equal; apply ip_divs_def.
  - rewrite (ip_dot_sym H1), (ip_dot_sym H2). reflexivity.
  - rewrite (ip_dot_add_l H1), (ip_dot_add_l H2). ring.
  - rewrite (ip_dot_scale_l H1), (ip_dot_scale_l H2). ring.
  - pose proof (ip_dot_pos H1 (fst x)). pose proof (ip_dot_pos H2 (snd x)). lra.
  - destruct x as [x1 x2]; cbn [fst snd] in *.
    pose proof (ip_dot_pos H1 x1). pose proof (ip_dot_pos H2 x2).
    f_equal; apply ip_dot_def; lra.
Defined.

Fixpoint RnSpace (n : nat) : IPSpace :=
  match n with 0%nat => TrivSpace | S m => ProdSpace R1Space (RnSpace m) end.

(* ------------------------------------------------------------------------- *)
(* sums with one index removed                                                 *)
(* ------------------------------------------------------------------------- *)
Definition skip (k i : nat) : nat := if (i <? k)%nat then i else S i.
Definition unskip (k j : nat) : nat := if (j <? k)%nat then j else pred j.

Lemma unskip_skip k i : unskip k (skip k i) = i.
Proof.
  unfold skip, unskip. destruct (Nat.ltb_spec i k) as [L|G].
  - apply Nat.ltb_lt in L. rewrite L. reflexivity.
  - destruct (Nat.ltb_spec (S i) k); [lia|reflexivity].
Qed.
Lemma skip_neq k i : skip k i <> k.
Proof. unfold skip. destruct (Nat.ltb_spec i k); lia. Qed.
Lemma skip_le k i m : (i <= m)%nat -> (skip k i <= S m)%nat.
Proof. unfold skip. destruct (Nat.ltb_spec i k); lia. Qed.

Section SkipSum.
  Variable H : IPSpace.
  Notation V := (ipV H).

  Lemma lincomb_ext_both (f g : nat -> V) c d m :
    (forall i, (i < m)%nat -> f i = g i) -> (forall i, (i < m)%nat -> c i = d i) ->
    lincomb H f c m = lincomb H g d m.
  Proof.
    intros Ef Ec. rewrite (lincomb_ext_f H f g c m Ef). apply lc_ext, Ec.
  Qed.

  (* sum_{j <= m} c_j f_j = sum_{i < m} c_{skip k i} f_{skip k i} + c_k f_k *)
  Lemma lincomb_skip (f : nat -> V) c k : forall m, (k <= m)%nat ->
    lincomb H f c (S m)
    = ipadd H (lincomb H (fun i => f (skip k i)) (fun i => c (skip k i)) m) (ipscale H (c k) (f k)).
  Proof.
    induction m as [|m IH]; intros Hk.
    - assert (k = 0)%nat by lia. subst k. reflexivity.
    - destruct (Nat.eq_dec k (S m)) as [->|Hne].
      + change (lincomb H f c (S (S m))) with (ipadd H (lincomb H f c (S m)) (ipscale H (c (S m)) (f (S m)))).
        f_equal.
        apply lincomb_ext_both; intros i Hi; unfold skip; apply Nat.ltb_lt in Hi; rewrite Hi; reflexivity.
      + change (lincomb H f c (S (S m))) with (ipadd H (lincomb H f c (S m)) (ipscale H (c (S m)) (f (S m)))).
        rewrite IH by lia. cbn [lincomb].
        assert (Es : skip k m = S m).
        { unfold skip. destruct (Nat.ltb_spec m k); [lia|reflexivity]. }
        rewrite Es. vec H.
  Qed.

  (* sum_i d_i (u_i + s_i v) = sum_i d_i u_i + (sum_i d_i s_i) v *)
  Lemma lincomb_shift (u : nat -> V) (s : nat -> R) (v : V) d m :
    lincomb H (fun i => ipadd H (u i) (ipscale H (s i) v)) d m
    = ipadd H (lincomb H u d m) (ipscale H (lincomb R1Space s d m) v).
  Proof.
    induction m as [|m IH]; cbn [lincomb].
    - cbn. vec H.
    - rewrite IH. cbn [ipadd ipscale R1Space]. vec H.
  Qed.
End SkipSum.

Lemma lincomb_prod (H1 H2 : IPSpace) (f : nat -> ipV H1 * ipV H2) c m :
  lincomb (ProdSpace H1 H2) f c m
  = (lincomb H1 (fun i => fst (f i)) c m, lincomb H2 (fun i => snd (f i)) c m).
Proof.
  induction m as [|m IH]; cbn [lincomb]; [reflexivity|]. rewrite IH. reflexivity.
Qed.

Lemma all_zero_or_pivot (a : nat -> R) m :
  (forall i, (i <= m)%nat -> a i = 0) \/ (exists k, (k <= m)%nat /\ a k <> 0).
Proof.
  induction m as [|m IH].
  - destruct (Req_dec (a 0%nat) 0) as [Z|NZ].
    + left. intros i Hi. assert (i = 0)%nat by lia. subst. exact Z.
    + right. exists 0%nat. split; [lia|exact NZ].
  - destruct IH as [Z|(k & Hk & NZ)].
    + destruct (Req_dec (a (S m)) 0) as [Z2|NZ2].
      * left. intros i Hi. destruct (Nat.eq_dec i (S m)) as [->|]; [exact Z2|apply Z; lia].
      * right. exists (S m). split; [lia|exact NZ2].
    + right. exists k. split; [lia|exact NZ].
Qed.

Lemma lincomb_R1_zero (a : nat -> R) c m : (forall i, (i < m)%nat -> a i = 0) -> lincomb R1Space a c m = 0.
Proof.
  induction m as [|m IH]; intros Z; cbn [lincomb]; [reflexivity|].
  rewrite IH by (intros; apply Z; lia). rewrite (Z m) by lia. cbn. ring.
Qed.

Lemma elim_first (q : nat -> R) (ak : R) d m : ak <> 0 ->
  (lincomb R1Space q d m : R) + (lincomb R1Space (fun i => - (q i / ak)) d m : R) * ak = 0.
Proof.
  intros NZ. induction m as [|m IH]; cbn [lincomb].
  - cbn. ring.
  - cbn [ipadd ipscale R1Space] in *.
    set (L1 := lincomb R1Space q d m) in *.
    set (L2 := lincomb R1Space (fun i => - (q i / ak)) d m) in *.
    transitivity ((L1 + L2 * ak) + (d m * q m + d m * - (q m / ak) * ak)); [ring|].
    rewrite IH. field. exact NZ.
Qed.

(* one more real coordinate raises the dimension bound by one *)
Theorem prod_R_dim_le (W : IPSpace) (n : nat) : dim_le W n -> dim_le (ProdSpace R1Space W) (S n).
Proof.
  intros HW f.
  set (a := fun i => fst (f i)). set (w := fun i => snd (f i)).
  destruct (all_zero_or_pivot a (S n)) as [Z|(k & Hk & NZ)].
  - (* all first coordinates vanish: use n+1 of the tails *)
    destruct (HW w) as (c & (i & Hi & Hci) & Ew).
    exists (fun j => if (j <=? n)%nat then c j else 0). split.
    + exists i. split; [lia|]. apply Nat.leb_le in Hi. rewrite Hi. exact Hci.
    + rewrite lincomb_prod. fold a. fold w. change (ip0 (ProdSpace R1Space W)) with (0, ip0 W). f_equal.
      * apply lincomb_R1_zero. intros j Hj. apply Z. lia.
      * cbn [lincomb]. rewrite Nat.leb_refl.
        destruct (Nat.leb_spec (S n) n) as [|_]; [lia|].
        rewrite (lc_ext W w _ c n).
        -- rewrite <- Ew. cbn [lincomb]. vec W.
        -- intros j Hj. destruct (Nat.leb_spec j n); [reflexivity|lia].
  - (* eliminate the first coordinate with the pivot f_k *)
    set (s := fun i => - (a (skip k i) / a k)).
    set (g := fun i => ipadd W (w (skip k i)) (ipscale W (s i) (w k))).
    destruct (HW g) as (d & (i & Hi & Hdi) & Eg).
    unfold g in Eg. rewrite lincomb_shift in Eg.
    set (ck := lincomb R1Space s d (S n)) in *.
    exists (fun j => if (j =? k)%nat then ck else d (unskip k j)). split.
    + exists (skip k i). split; [apply skip_le, Hi|].
      destruct (Nat.eqb_spec (skip k i) k) as [Ek|_]; [exfalso; apply (skip_neq k i Ek)|].
      rewrite unskip_skip. exact Hdi.
    + assert (Ec : forall j, (if (skip k j =? k)%nat then ck else d (unskip k (skip k j))) = d j).
      { intros j. destruct (Nat.eqb_spec (skip k j) k) as [Ek|_]; [exfalso; apply (skip_neq k j Ek)|].
        rewrite unskip_skip. reflexivity. }
      rewrite lincomb_prod. fold a. fold w. change (ip0 (ProdSpace R1Space W)) with (0, ip0 W). f_equal.
      * rewrite (lincomb_skip R1Space a _ k (S n) Hk). rewrite Nat.eqb_refl.
        rewrite (lc_ext R1Space _ _ d (S n)) by (intros; apply Ec).
        unfold ck, s. apply (elim_first (fun i => a (skip k i)) (a k) d (S n) NZ).
      * rewrite (lincomb_skip W w _ k (S n) Hk). rewrite Nat.eqb_refl.
        rewrite (lc_ext W _ _ d (S n)) by (intros; apply Ec).
        exact Eg.
Qed.

Lemma Triv_dim_le : dim_le TrivSpace 0.
Proof.
  intros f. exists (fun _ => 1). split.
  - exists 0%nat. split; [lia|lra].
  - destruct (lincomb TrivSpace f (fun _ => 1) 1). reflexivity.
Qed.

(* [core, non-vacuity] R^n has dimension <= n, for every n *)
Theorem Rn_dim_le (n : nat) : dim_le (RnSpace n) n.
Proof.
  induction n as [|n IH]; [exact Triv_dim_le|]. cbn [RnSpace]. apply prod_R_dim_le, IH.
Qed.

(* the hypotheses of cg_run_solves are satisfiable in every dimension (A = identity) *)
Example finite_hypotheses_satisfiable (n : nat) :
  dim_le (RnSpace n) n /\ selfadjoint (RnSpace n) (fun x => x) /\ posdef (RnSpace n) (fun x => x) /\
  P_ok (RnSpace n) None.
Proof.
  exact (conj (Rn_dim_le n) (conj (id_selfadjoint (RnSpace n)) (conj (id_posdef (RnSpace n)) I))).
Qed.
