(* proofs/LLSCG.v — C14, the two "G is None, smooth" branches of LinearLeastSquares:
   ConjugateGradient: the configured system (A^H A + lamda I) x = A^H y + lamda z is the stationarity
     equation of the documented objective, and stationarity <=> minimiser;
   GradientMethod: the configured gradf is the gradient of the smooth part (with the exact second-order
     expansion, hence convex and (||A||^2 + lamda)-smooth: the hypotheses of C13), and the fixed points
     of the configured proximal-gradient step are exactly the minimisers of smooth part + g. *)
From Coq Require Import Reals Lra Lia Psatz List Bool ZArith.
From SV Require Import model.ProxGrad proofs.ProxGrad model.LLS proofs.LLSBase.
Local Open Scope R_scope.

Lemma convex_on_zero (E : IPS) : convex_on E (fun _ => True) (fun _ => 0).
Proof. intros a b t _ _ Ht. split; [exact I | lra]. Qed.

Section SmoothBranches.
  Variables X Y : IPS.
  Variables (A : X -> Y) (AH : Y -> X).
  Hypothesis A_adj : forall x u, ip (A x) u = ip x (AH u).
  Variables (y : Y) (lam : R) (z : option X).
  Hypothesis lam_nonneg : 0 <= lam.

  Notation XV := (IPSV X).
  Notation YV := (IPSV Y).
  Notation grad := (gradfsm X Y A AH y lam (zz_of z)).
  Notation f := (fsm X Y A y lam (zz_of z)).

  Lemma AH_minus u u' : AH (vminus u u') = vminus (AH u) (AH u').
  Proof. apply (adj_minus Y X AH A). intros. apply (adj_sym X Y A AH A_adj). Qed.

  (* ---- ConjugateGradient ---------------------------------------------------------------- *)
  Lemma cg_residual_is_gradient x :
    vminus (cg_op ROps XV YV A AH lam x) (cg_rhs ROps XV YV AH y lam z) = grad x.
  Proof.
    unfold cg_op, cg_rhs, AHA, gradfsm. rewrite AH_minus.
    destruct (sne0 ROps lam) eqn:E.
    - destruct z as [q|]; cbn [zz_of vadd vscale vsub vt IPSV]; vec_eq.
    - apply sne0_R_false in E. subst lam. destruct z as [q|]; cbn [zz_of vadd vscale vsub vt IPSV]; vec_eq.
  Qed.

  Lemma cg_solves_documented_lemma x :
    (cg_op ROps XV YV A AH lam x = cg_rhs ROps XV YV AH y lam z <-> grad x = v0) /\
    (grad x = v0 <-> forall x', f x <= f x').
  Proof.
    split.
    - rewrite <- cg_residual_is_gradient. split.
      + intro H. change (vt ROps XV) with (vec X) in *. rewrite H. apply vminus_self.
      + intro H. apply vminus_eq_0 in H. exact H.
    - pose proof (min_iff_grad0 X Y X A AH (idX X) (idX X) A_adj (idX_adj X) y lam (zz_of z) lam_nonneg
                                (fun _ => True) (fun _ => 0) (convex_on_zero X) x (fun _ => I) (fun _ => eq_refl)) as H.
      rewrite <- H. unfold is_min, feasible, Fdoc. split.
      + intros [_ Hm] x'. specialize (Hm x' I). lra.
      + intro Hm. split; [exact I|]. intros x' _. specialize (Hm x'). lra.
  Qed.

  (* the configured system operator is self-adjoint and, for lamda > 0, positive definite:
     the hypotheses under which C12 proves that CG solves the system *)
  Lemma cg_op_selfadjoint x x' :
    ip (cg_op ROps XV YV A AH lam x) x' = ip x (cg_op ROps XV YV A AH lam x').
  Proof.
    unfold cg_op, AHA. destruct (sne0 ROps lam); cbn [vadd vscale vt IPSV]; ip_norm;
      rewrite !(adj_sym X Y A AH A_adj), <- A_adj; ip_norm; try ring.
  Qed.
  Lemma cg_op_posdef x : 0 < lam -> x <> v0 -> 0 < ip x (cg_op ROps XV YV A AH lam x).
  Proof.
    intros Hl Hx. unfold cg_op, AHA.
    assert (E : sne0 ROps lam = true) by (apply sne0_R_true; lra). rewrite E. cbn [vadd vscale vt IPSV].
    rewrite ip_plus_r, ip_mul_r, <- A_adj.
    pose proof (ip_pos Y (A x)) as H1. pose proof (ip_pos X x) as H2.
    assert (H3 : ip x x <> 0) by (intro H0; apply Hx, ip_def, H0).
    assert (0 < lam * ip x x) by (apply Rmult_lt_0_compat; lra). lra.
  Qed.

  (* ---- GradientMethod -------------------------------------------------------------------- *)
  Lemma gm_gradient_lemma x : gm_gradf ROps XV YV A AH y lam z x = grad x.
  Proof.
    unfold gm_gradf, AHA, gradfsm. rewrite AH_minus.
    destruct (sne0 ROps lam) eqn:E.
    - destruct z as [q|]; cbn [zz_of vadd vscale vsub vt IPSV]; vec_eq.
    - apply sne0_R_false in E. subst lam. destruct z as [q|]; cbn [zz_of vadd vscale vsub vt IPSV]; vec_eq.
  Qed.

  (* exact expansion of the smooth part around x with the CONFIGURED gradient *)
  Lemma gm_expansion_lemma x x' :
    f x' = f x + ip (gm_gradf ROps XV YV A AH y lam z x) (vminus x' x)
           + 1 / 2 * nrm2 (A (vminus x' x)) + lam / 2 * nrm2 (vminus x' x).
  Proof. rewrite gm_gradient_lemma. apply (fsm_expand X Y A AH A_adj). Qed.

  Variables (dom : X -> Prop) (g : X -> R).
  Hypothesis g_convex : convex_on X dom g.
  Variable proxg : option (R -> X -> X).
  Hypothesis proxg_ok : proxg_spec X dom g proxg.

  Notation is_min0 := (is_min X Y X A (idX X) y lam (zz_of z) dom g).

  (* the point the configured step moves to from x0 *)
  Lemma gm_step_x acc alpha st :
    gm_x (lls_gm_step ROps XV YV A AH y lam z proxg acc alpha st) =
    let x0 := if acc then gm_z st else gm_x st in
    eff_prox X proxg alpha (vplus x0 (vmul (- alpha) (grad x0))).
  Proof.
    unfold lls_gm_step, gm_step. cbv zeta.
    destruct acc; destruct proxg as [p|]; cbn [gm_x eff_prox vadd vscale vt IPSV]; rewrite gm_gradient_lemma; reflexivity.
  Qed.

  Lemma gm_fixed_iff_min_lemma acc alpha st :
    0 < alpha -> (acc = true -> gm_z st = gm_x st) ->
    (gm_x (lls_gm_step ROps XV YV A AH y lam z proxg acc alpha st) = gm_x st <-> is_min0 (gm_x st)).
  Proof.
    intros Ha Hz. rewrite gm_step_x. cbv zeta.
    assert (E0 : (if acc then gm_z st else gm_x st) = gm_x st) by (destruct acc; auto).
    rewrite E0. set (x := gm_x st).
    rewrite (eff_prox_vi X dom g proxg proxg_ok alpha _ x Ha).
    rewrite (min_iff_subgrad X Y A AH A_adj y lam (zz_of z) lam_nonneg dom g g_convex x).
    assert (Ev : vmul (/ alpha) (vminus (vplus x (vmul (- alpha) (grad x))) x) = vmul (-1) (grad x)).
    { vec_eq. lra. }
    rewrite Ev. reflexivity.
  Qed.
End SmoothBranches.
