(* proofs/Poisson.v — safety of the _poisson state machine for EVERY stream and fuel, soundness and
   termination of the slope search, and their composition (model/Poisson.v).

   The kernel theorems are proved for an ARBITRARY operations record T : POps subject to ONE law,
       pleb 0 q = true -> pltb q n = true -> 0 <= ptrunc q < n            (trunc_in_range)
   (int() of a value the code has just tested to lie in [0, n) is an index in [0, n)).  It holds for
   the reals (instance [RP] below, proved) and for binary64 with n < 2^53 (not proved here; the float
   instance is only run).  cos, sin, pow, the radius arrays and the stream are unconstrained.

   The search theorems model floats as an abstract grid G ordered by an integer [rank]
   ("integers of ulps"): hypotheses gltb/geqb are the comparisons of rank, and the midpoint lies
   between its arguments.  Instance: G = Z, mid a b = (a + b) / 2 (proved). *)
From Coq Require Import ZArith List Bool Lia Reals Lra.
From SV Require Import model.Poisson.
Import ListNotations.
Local Open Scope Z_scope.

(* ------------------------------------------------------------------ calibration block arithmetic *)
Lemma calib_lo_nonneg n c : 0 <= c <= n -> 0 <= calib_lo n c.
Proof. intros H. unfold calib_lo. rewrite Z.quot_div_nonneg by lia. apply Z.div_pos; lia. Qed.

Lemma calib_hi_le n c : 0 <= c <= n -> calib_hi n c <= n.
Proof.
  intros H. unfold calib_hi. rewrite Z.quot_div_nonneg by lia.
  apply Z.div_le_upper_bound; lia.
Qed.

Lemma in_calib_range ny nx cy cx y x :
  0 <= cy <= ny -> 0 <= cx <= nx -> in_calib ny nx cy cx y x = true -> 0 <= y < ny /\ 0 <= x < nx.
Proof.
  intros Hy Hx H. unfold in_calib in H.
  rewrite !andb_true_iff, !Z.leb_le, !Z.ltb_lt in H.
  pose proof (calib_lo_nonneg ny cy Hy). pose proof (calib_hi_le ny cy Hy).
  pose proof (calib_lo_nonneg nx cx Hx). pose proof (calib_hi_le nx cx Hx). lia.
Qed.

Section Safety.
  Context {T : POps}.
  Variables nx ny max_attempts : Z.
  Variables RX RY : Z -> Z -> T.
  Hypothesis trunc_in_range :
    forall (q : T) (n : Z), pleb (pofZ 0) q = true -> pltb q (pofZ n) = true -> 0 <= ptrunc q < n.

  Notation accept := (accept nx ny RX RY).
  Notation attempts := (attempts nx ny RX RY).
  Notation step := (step nx ny max_attempts RX RY).
  Notation run := (run nx ny max_attempts RX RY).
  Notation poisson_run := (poisson_run nx ny max_attempts RX RY).
  Notation in_grid := (in_grid nx ny).

  (* the invariant of the state machine, relative to the calibration shape (cy, cx) *)
  Definition inv (cy cx : Z) (st : pstate) : Prop :=
    (forall y x, mask st y x = 0 \/ mask st y x = 1) /\
    (forall y x, mask st y x = 1 -> 0 <= y < ny /\ 0 <= x < nx) /\
    (forall y x, in_calib ny nx cy cx y x = true -> mask st y x = 1) /\
    (0 <= na st <= nx * ny) /\
    (forall k, 0 <= k < na st -> 0 <= pxs st k < nx /\ 0 <= pys st k < ny).

  Lemma in_grid_range (qx qy : T) : in_grid qx qy = true -> 0 <= ptrunc qx < nx /\ 0 <= ptrunc qy < ny.
  Proof.
    unfold Poisson.in_grid. rewrite !andb_true_iff. intros [[[A B] C] D].
    split; apply trunc_in_range; assumption.
  Qed.

  Lemma accept_in_grid m (rx ry qx qy : T) : accept m rx ry qx qy = true -> in_grid qx qy = true.
  Proof. unfold Poisson.accept. destruct (in_grid qx qy); [reflexivity | discriminate]. Qed.

  Lemma attempts_done k : forall m px py rx ry s q qx qy s',
    attempts k m px py rx ry s q = Some (true, (qx, qy), s') -> in_grid qx qy = true.
  Proof.
    induction k as [|k IH]; intros m px py rx ry s q qx qy s' H; simpl in H; [discriminate|].
    destruct s as [|[n|u1] s]; try discriminate.
    destruct s as [|[n|u2] s]; try discriminate.
    match type of H with (if ?c then _ else _) = _ => destruct c eqn:E end.
    - inversion H; subst. eapply accept_in_grid; eassumption.
    - eapply IH; eassumption.
  Qed.

  (* an attempt never lengthens the stream (draws are only consumed) *)
  Lemma attempts_length k : forall m px py rx ry s q r s',
    attempts k m px py rx ry s q = Some (r, s') -> (length s' <= length s)%nat.
  Proof.
    induction k as [|k IH]; intros m px py rx ry s q r s' H; simpl in H.
    - inversion H; subst; lia.
    - destruct s as [|[n|u1] s]; try discriminate.
      destruct s as [|[n|u2] s]; try discriminate.
      match type of H with (if ?c then _ else _) = _ => destruct c end.
      + inversion H; subst; simpl; lia.
      + apply IH in H. simpl; lia.
  Qed.

  Lemma mset_eq m y x y' x' : mset m y x y' x' = if (y' =? y) && (x' =? x) then 1 else m y' x'.
  Proof. reflexivity. Qed.

  Lemma step_inv cy cx st s st' s' :
    inv cy cx st -> running nx ny st = true -> step st s = Some (st', s') -> inv cy cx st'.
  Proof.
    intros (Hbin & Hrng & Hcal & Hna & Hact) Hrun H.
    unfold running in Hrun. rewrite andb_true_iff, Z.ltb_lt, Z.ltb_lt in Hrun.
    unfold Poisson.step in H.
    destruct s as [|[i|u] s1]; try discriminate.
    destruct ((0 <=? i) && (i <? na st)) eqn:Ei; try discriminate.
    rewrite andb_true_iff, Z.leb_le, Z.ltb_lt in Ei.
    destruct (attempts (Z.to_nat max_attempts) (mask st) (pxs st i) (pys st i)
                       (RX (pys st i) (pxs st i)) (RY (pys st i) (pxs st i)) s1 (pofZ 0, pofZ 0))
      as [[[d [qx qy]] s2]|] eqn:Ea; try discriminate.
    destruct d.
    - (* a point is added *)
      inversion H; subst; clear H.
      apply attempts_done in Ea. apply in_grid_range in Ea. destruct Ea as [Hqx Hqy].
      unfold inv; simpl. split; [|split; [|split; [|split]]].
      + intros y x. rewrite mset_eq. destruct ((y =? ptrunc qy) && (x =? ptrunc qx)); [right; reflexivity | apply Hbin].
      + intros y x H. rewrite mset_eq in H. destruct ((y =? ptrunc qy) && (x =? ptrunc qx)) eqn:E.
        * rewrite andb_true_iff, !Z.eqb_eq in E. lia.
        * apply Hrng in H. lia.
      + intros y x H. rewrite mset_eq. destruct ((y =? ptrunc qy) && (x =? ptrunc qx)); [reflexivity | apply Hcal; exact H].
      + lia.
      + intros k Hk. unfold zupd. destruct (k =? na st) eqn:E; [lia|]. apply Z.eqb_neq in E. apply Hact; lia.
    - (* the active point is retired *)
      inversion H; subst; clear H.
      unfold inv; simpl. split; [|split; [|split; [|split]]].
      + exact Hbin.
      + exact Hrng.
      + exact Hcal.
      + lia.
      + intros k Hk. unfold zupd. destruct (k =? i); apply Hact; lia.
  Qed.

  Lemma step_inv_cal cy cx st s st' s' :
    inv cy cx st -> running nx ny st = true -> step st s = Some (st', s') ->
    forall y x, in_calib ny nx cy cx y x = true -> mask st' y x = 1.
  Proof. intros. eapply step_inv; eauto. Qed.

  (* only writes of 1: an entry that is 1 stays 1 *)
  Lemma step_mono st s st' s' : step st s = Some (st', s') -> forall y x, mask st y x = 1 -> mask st' y x = 1.
  Proof.
    intros H y x Hm. unfold Poisson.step in H.
    destruct s as [|[i|u] s1]; try discriminate.
    destruct ((0 <=? i) && (i <? na st)); try discriminate.
    match type of H with match ?a with _ => _ end = _ => destruct a as [[[d [qx qy]] s2]|] end; try discriminate.
    destruct d; inversion H; subst; simpl; [|assumption].
    rewrite mset_eq. destruct ((y =? ptrunc qy) && (x =? ptrunc qx)); [reflexivity | assumption].
  Qed.

  Lemma step_length st s st' s' : step st s = Some (st', s') -> (length s' < length s)%nat.
  Proof.
    intros H. unfold Poisson.step in H.
    destruct s as [|[i|u] s1]; try discriminate.
    destruct ((0 <=? i) && (i <? na st)); try discriminate.
    match type of H with match ?a with _ => _ end = _ => destruct a as [[[d [qx qy]] s2]|] eqn:Ea end; try discriminate.
    apply attempts_length in Ea.
    destruct d; inversion H; subst; simpl; lia.
  Qed.

  Lemma run_inv cy cx fuel : forall st s, inv cy cx st -> inv cy cx (fst (fst (run fuel st s))).
  Proof.
    induction fuel as [|f IH]; intros st s Hi; simpl.
    - destruct (running nx ny st); exact Hi.
    - destruct (running nx ny st) eqn:Er; [|exact Hi].
      destruct (step st s) as [[st' s']|] eqn:Es; [|exact Hi].
      apply IH. eapply step_inv; eassumption.
  Qed.

  Lemma run_mono fuel : forall st s y x, mask st y x = 1 -> mask (fst (fst (run fuel st s))) y x = 1.
  Proof.
    induction fuel as [|f IH]; intros st s y x Hm; simpl.
    - destruct (running nx ny st); exact Hm.
    - destruct (running nx ny st); [|exact Hm].
      destruct (step st s) as [[st' s']|] eqn:Es; [|exact Hm].
      apply IH. eapply step_mono; eassumption.
  Qed.

  (* the loop ends in state Finished exactly when its guard is false *)
  Lemma run_finished fuel : forall st s st' s',
    run fuel st s = (st', s', Finished) -> running nx ny st' = false.
  Proof.
    induction fuel as [|f IH]; intros st s st' s' H; simpl in H.
    - destruct (running nx ny st) eqn:Er; inversion H; subst; assumption.
    - destruct (running nx ny st) eqn:Er; [|inversion H; subst; assumption].
      destruct (step st s) as [[st1 s1]|]; [|discriminate]. eapply IH; eassumption.
  Qed.

  Lemma init_inv cy cx x0 y0 :
    0 <= cy <= ny -> 0 <= cx <= nx -> 0 <= x0 < nx -> 0 <= y0 < ny -> inv cy cx (init_state nx ny cy cx x0 y0).
  Proof.
    intros Hy Hx Hx0 Hy0. unfold inv, init_state, init_mask; simpl. split; [|split; [|split; [|split]]].
    - intros y x. destruct (in_calib ny nx cy cx y x); auto.
    - intros y x H. destruct (in_calib ny nx cy cx y x) eqn:E; [|discriminate]. eapply in_calib_range; eauto.
    - intros y x E. rewrite E. reflexivity.
    - nia.
    - intros k Hk. unfold zupd. replace k with 0 by lia. simpl. lia.
  Qed.

  Theorem poisson_run_inv fuel cy cx s :
    0 < nx -> 0 < ny -> 0 <= cy <= ny -> 0 <= cx <= nx ->
    inv cy cx (fst (fst (poisson_run fuel cy cx s))).
  Proof.
    intros Hnx Hny Hy Hx. unfold Poisson.poisson_run.
    destruct s as [|[x0|u] s]; try (apply init_inv; lia).
    destruct s as [|[y0|u] s]; try (apply init_inv; lia).
    destruct ((0 <=? x0) && (x0 <? nx) && (0 <=? y0) && (y0 <? ny)) eqn:E; [|apply init_inv; lia].
    rewrite !andb_true_iff, !Z.leb_le, !Z.ltb_lt in E.
    apply run_inv. apply init_inv; lia.
  Qed.

  (* ---- the statements used by props/Prop_C18.v ------------------------------------------- *)
  Theorem poisson_mask_binary fuel cy cx s :
    0 < nx -> 0 < ny -> 0 <= cy <= ny -> 0 <= cx <= nx ->
    forall y x, let m := mask (fst (fst (poisson_run fuel cy cx s))) in m y x = 0 \/ m y x = 1.
  Proof. intros. apply (poisson_run_inv fuel cy cx s); assumption. Qed.

  Theorem poisson_calib_sampled fuel cy cx s :
    0 < nx -> 0 < ny -> 0 <= cy <= ny -> 0 <= cx <= nx ->
    forall y x, calib_lo ny cy <= y < calib_hi ny cy -> calib_lo nx cx <= x < calib_hi nx cx ->
      mask (fst (fst (poisson_run fuel cy cx s))) y x = 1.
  Proof.
    intros Hnx Hny Hy Hx y x Hyy Hxx.
    apply (poisson_run_inv fuel cy cx s); try assumption.
    unfold in_calib. rewrite !andb_true_iff, !Z.leb_le, !Z.ltb_lt. lia.
  Qed.

  Theorem poisson_points_in_range fuel cy cx s :
    0 < nx -> 0 < ny -> 0 <= cy <= ny -> 0 <= cx <= nx ->
    let st := fst (fst (poisson_run fuel cy cx s)) in
    (forall y x, mask st y x = 1 -> 0 <= y < ny /\ 0 <= x < nx) /\
    0 <= na st <= nx * ny /\
    (forall k, 0 <= k < na st -> 0 <= pxs st k < nx /\ 0 <= pys st k < ny).
  Proof.
    intros Hnx Hny Hy Hx st.
    destruct (poisson_run_inv fuel cy cx s Hnx Hny Hy Hx) as (_ & H2 & _ & H4 & H5). auto.
  Qed.

  (* mask *= r < 1 : multiplication by the 0/1 indicator *)
  Theorem crop_zero_outside (ind : Z -> Z -> bool) (m : Z -> Z -> Z) y x : ind y x = false -> crop ind m y x = 0.
  Proof. intros H. unfold crop. rewrite H. lia. Qed.

  Theorem crop_keeps_inside (ind : Z -> Z -> bool) (m : Z -> Z -> Z) y x : ind y x = true -> crop ind m y x = m y x.
  Proof. intros H. unfold crop. rewrite H. lia. Qed.

  Theorem crop_binary (ind : Z -> Z -> bool) (m : Z -> Z -> Z) :
    (forall y x, m y x = 0 \/ m y x = 1) -> forall y x, crop ind m y x = 0 \/ crop ind m y x = 1.
  Proof. intros H y x. unfold crop. destruct (ind y x); destruct (H y x); lia. Qed.
End Safety.

(* ------------------------------------------------------------------ the slope search *)
Section SearchProofs.
  Variables (G Res : Type).
  Variable rank : G -> Z.
  Variables (gltb geqb : G -> G -> bool) (mid : G -> G -> G).
  Variable eval : nat -> G -> Res.
  Variables close below : Res -> bool.
  Hypothesis gltb_rank : forall a b, gltb a b = (rank a <? rank b).
  Hypothesis geqb_rank : forall a b, geqb a b = (rank a =? rank b).
  Hypothesis mid_between : forall lo hi, rank lo < rank hi -> rank lo <= rank (mid lo hi) <= rank hi.

  Notation sloop := (sloop G Res gltb geqb mid eval close below).
  Notation search := (search G Res gltb geqb mid eval close below).

  (* the measure: an iteration that does not leave through the "midpoint stopped moving" exit has a
     midpoint strictly inside, so whichever end is replaced the rank gap strictly decreases *)
  Lemma midpoint_strictly_inside lo hi :
    gltb lo hi = true -> geqb (mid lo hi) lo || geqb (mid lo hi) hi = false ->
    rank lo < rank (mid lo hi) < rank hi.
  Proof.
    rewrite gltb_rank, !geqb_rank, Z.ltb_lt, orb_false_iff, !Z.eqb_neq.
    intros Hlt [H1 H2]. pose proof (mid_between lo hi Hlt). lia.
  Qed.

  Lemma interval_shrinks lo hi :
    gltb lo hi = true -> geqb (mid lo hi) lo || geqb (mid lo hi) hi = false ->
    0 <= rank hi - rank (mid lo hi) < rank hi - rank lo /\ 0 <= rank (mid lo hi) - rank lo < rank hi - rank lo.
  Proof. intros A B. pose proof (midpoint_strictly_inside lo hi A B). lia. Qed.

  Lemma sloop_terminates fuel : forall k lo hi last tr,
    (Z.to_nat (rank hi - rank lo) <= fuel)%nat -> sloop fuel k lo hi last tr <> None.
  Proof.
    induction fuel as [|f IH]; intros k lo hi last tr Hf; simpl.
    - destruct (gltb lo hi) eqn:E; [|discriminate].
      rewrite gltb_rank, Z.ltb_lt in E. lia.
    - destruct (gltb lo hi) eqn:E; [|discriminate].
      destruct (geqb (mid lo hi) lo || geqb (mid lo hi) hi) eqn:E2; [discriminate|].
      pose proof (interval_shrinks lo hi E E2) as [S1 S2].
      destruct (close (eval k (mid lo hi))); [discriminate|].
      destruct (below (eval k (mid lo hi))); apply IH; lia.
  Qed.

  (* whatever the loop hands over is the previous value or an evaluation *)
  Lemma sloop_provenance fuel : forall k lo hi last tr r k' tr',
    sloop fuel k lo hi last tr = Some (Some r, k', tr') -> last = Some r \/ exists j s, r = eval j s.
  Proof.
    induction fuel as [|f IH]; intros k lo hi last tr r k' tr' H; simpl in H.
    - destruct (gltb lo hi); [discriminate|]. inversion H; auto.
    - destruct (gltb lo hi); [|inversion H; auto].
      destruct (geqb (mid lo hi) lo || geqb (mid lo hi) hi); [inversion H; auto|].
      destruct (close (eval k (mid lo hi))) eqn:Ec.
      + inversion H; subst. right; eauto.
      + destruct (below (eval k (mid lo hi))); apply IH in H;
          (destruct H as [H|H]; [inversion H; subst; right; eauto | right; exact H]).
  Qed.

  Theorem search_returns_only_within_tol fuel lo hi r : search fuel lo hi = Returned r -> close r = true /\ exists j s, r = eval j s.
  Proof.
    unfold Poisson.search. destruct (sloop fuel 0 lo hi None []) as [[[[r'|] k] tr]|] eqn:E; try discriminate.
    destruct (close r') eqn:Ec; [|discriminate]. intros H; inversion H; subst. split; [assumption|].
    apply sloop_provenance in E. destruct E as [E|E]; [discriminate | exact E].
  Qed.

  Theorem search_raises_when_not_within_tol fuel lo hi :
    search fuel lo hi = Raised -> exists j s, close (eval j s) = false.
  Proof.
    unfold Poisson.search. destruct (sloop fuel 0 lo hi None []) as [[[[r'|] k] tr]|] eqn:E; try discriminate.
    destruct (close r') eqn:Ec; [discriminate|]. intros _.
    apply sloop_provenance in E. destruct E as [E|(j & s & E)]; [discriminate|]. subst. eauto.
  Qed.

  Theorem search_terminates fuel lo hi :
    (Z.to_nat (rank hi - rank lo) <= fuel)%nat -> search fuel lo hi <> SearchFuel.
  Proof.
    intros Hf. unfold Poisson.search.
    pose proof (sloop_terminates fuel 0%nat lo hi None [] Hf) as H.
    destruct (sloop fuel 0 lo hi None []) as [[[[r'|] k] tr]|]; try congruence.
    destruct (close r'); discriminate.
  Qed.

  (* once a value has been evaluated the loop never hands back "nothing" *)
  Lemma sloop_some fuel : forall k lo hi r tr,
    match sloop fuel k lo hi (Some r) tr with Some (None, _, _) => False | _ => True end.
  Proof.
    induction fuel as [|f IH]; intros k lo hi r tr; simpl.
    - destruct (gltb lo hi); exact I.
    - destruct (gltb lo hi); [|exact I].
      destruct (geqb (mid lo hi) lo || geqb (mid lo hi) hi); [exact I|].
      destruct (close (eval k (mid lo hi))); [exact I|].
      destruct (below (eval k (mid lo hi))); apply IH.
  Qed.

  (* the first midpoint is strictly inside (n/2 for the initial interval [0, n]): at least one
     evaluation happens, so actual_accel is bound when the final test reads it *)
  Theorem search_evaluates fuel lo hi :
    rank lo < rank (mid lo hi) < rank hi -> search (S fuel) lo hi <> Unbound.
  Proof.
    intros H. unfold Poisson.search. simpl.
    assert (E1 : gltb lo hi = true) by (rewrite gltb_rank, Z.ltb_lt; lia).
    assert (E2 : geqb (mid lo hi) lo || geqb (mid lo hi) hi = false)
      by (rewrite !geqb_rank, orb_false_iff, !Z.eqb_neq; lia).
    rewrite E1, E2.
    destruct (close (eval 0%nat (mid lo hi))) eqn:Ec; [rewrite Ec; discriminate|].
    destruct (below (eval 0%nat (mid lo hi))).
    - pose proof (sloop_some fuel 1%nat (mid lo hi) hi (eval 0%nat (mid lo hi)) [mid lo hi]) as K.
      destruct (sloop fuel 1 (mid lo hi) hi (Some (eval 0%nat (mid lo hi))) [mid lo hi]) as [[[[r'|] k] tr]|];
        try discriminate; [destruct (close r'); discriminate | contradiction].
    - pose proof (sloop_some fuel 1%nat lo (mid lo hi) (eval 0%nat (mid lo hi)) [mid lo hi]) as K.
      destruct (sloop fuel 1 lo (mid lo hi) (Some (eval 0%nat (mid lo hi))) [mid lo hi]) as [[[[r'|] k] tr]|];
        try discriminate; [destruct (close r'); discriminate | contradiction].
  Qed.
End SearchProofs.

(* ------------------------------------------------------------------ poisson = search o (_poisson, crop, accel) *)
Section Composition.
  Context {T : POps}.
  Variables nx ny max_attempts cy cx : Z.
  Variable radii : T -> (Z -> Z -> T) * (Z -> Z -> T).
  Variable streams : nat -> list (draw T).
  Variable ind : Z -> Z -> bool.
  Variable fuel_k : nat.
  Variables accel tol : T.
  Variable pabs : T -> T.
  Variables (geqb : T -> T -> bool) (mid : T -> T -> T).
  Hypothesis trunc_in_range :
    forall (q : T) (n : Z), pleb (pofZ 0) q = true -> pltb q (pofZ n) = true -> 0 <= ptrunc q < n.

  Theorem poisson_returns_spec fuel m a :
    0 < nx -> 0 < ny -> 0 <= cy <= ny -> 0 <= cx <= nx ->
    poisson nx ny max_attempts cy cx radii streams ind fuel_k accel tol pabs geqb mid fuel = Returned (m, a) ->
    pltb (pabs (psub a accel)) tol = true /\
    a = accel_of nx ny m /\
    (forall y x, m y x = 0 \/ m y x = 1) /\
    (forall y x, m y x = 1 -> 0 <= y < ny /\ 0 <= x < nx) /\
    (forall y x, calib_lo ny cy <= y < calib_hi ny cy -> calib_lo nx cx <= x < calib_hi nx cx ->
                 ind y x = true -> m y x = 1) /\
    (forall y x, ind y x = false -> m y x = 0).
  Proof.
    intros Hnx Hny Hy Hx H. unfold poisson in H.
    apply search_returns_only_within_tol in H. destruct H as [Hc (j & s & He)].
    split; [exact Hc|].
    unfold eval_mask in He.
    pose proof (poisson_run_inv nx ny max_attempts (fst (radii s)) (snd (radii s)) trunc_in_range
                                fuel_k cy cx (streams j) Hnx Hny Hy Hx) as Hi.
    destruct (poisson_run nx ny max_attempts (fst (radii s)) (snd (radii s)) fuel_k cy cx (streams j))
      as [[st rest] stat]. simpl in Hi.
    inversion He; subst; clear He.
    destruct Hi as (Hbin & Hrng & Hcal & _ & _).
    split; [reflexivity|]. split; [|split; [|split]].
    - apply crop_binary; exact Hbin.
    - intros y x Hm. unfold crop in Hm. destruct (ind y x); [|lia]. apply Hrng. lia.
    - intros y x Hyy Hxx Hin. rewrite crop_keeps_inside by exact Hin. apply Hcal.
      unfold in_calib. rewrite !andb_true_iff, !Z.leb_le, !Z.ltb_lt. lia.
    - intros y x Hout. apply crop_zero_outside; exact Hout.
  Qed.

  Theorem poisson_raises_spec fuel :
    poisson nx ny max_attempts cy cx radii streams ind fuel_k accel tol pabs geqb mid fuel = Raised ->
    exists j s, pltb (pabs (psub (snd (eval_mask nx ny max_attempts cy cx radii streams ind fuel_k j s)) accel)) tol = false.
  Proof. intros H. unfold poisson in H. apply search_raises_when_not_within_tol in H. exact H. Qed.
End Composition.

(* ------------------------------------------------------------------ non-vacuity: the instances *)
Local Open Scope R_scope.
Definition Rleb (x y : R) : bool := if Rle_dec x y then true else false.
Definition Rltb (x y : R) : bool := if Rlt_dec x y then true else false.
(* int(x): truncation toward zero, from Coq's [up] (the integer with  x < IZR (up x) <= x + 1) *)
Definition Rtrunc (x : R) : Z := if Rlt_dec x 0 then (- (up (- x) - 1))%Z else (up x - 1)%Z.
Definition RP : POps := mkPOps R IZR Rplus Rminus Rmult Rdiv sqrt cos sin (2 * PI) Rtrunc Rleb Rltb.

Lemma RP_trunc_in_range :
  forall (q : RP) (n : Z), pleb (pofZ 0) q = true -> pltb q (pofZ n) = true -> (0 <= ptrunc q < n)%Z.
Proof.
  intros q n. simpl. unfold Rleb, Rltb, Rtrunc.
  destruct (Rle_dec 0 q) as [H0|]; [|discriminate]. destruct (Rlt_dec q (IZR n)) as [Hn|]; [|discriminate].
  intros _ _. destruct (Rlt_dec q 0) as [Hneg|_]; [lra|].
  destruct (archimed q) as [A B].
  assert (U0 : (0 < up q)%Z) by (apply lt_IZR; lra).
  assert (U1 : (up q < n + 1)%Z) by (apply lt_IZR; rewrite plus_IZR; lra).
  lia.
Qed.

Local Open Scope Z_scope.
Definition zmid (a b : Z) : Z := (b + a) / 2.
Lemma zmid_between lo hi : lo < hi -> lo <= zmid lo hi <= hi.
Proof.
  intros H. unfold zmid. split.
  - apply Z.div_le_lower_bound; lia.
  - apply Z.div_le_upper_bound; lia.
Qed.
