(* proofs/ProxPsd.v — psd_proj over the eigh oracle.

   Matrices are flat vectors of N = n*n entries; <A,B> = dotn N A B is the real Frobenius inner
   product Re tr(A^H B).  The oracle's answer (w, V) enters through its spectral consequences
   (hypotheses of the Section): with P_j = v_j v_j^H the rank-one projectors,
     Hm = (M + M^H)/2 = sum_j w_j P_j,   <P_j, P_l> = delta_jl   (V unitary),
     <P_j, Z> = v_j^H Z v_j >= 0 for Z in the cone,   M - Hm (skew-Hermitian) is orthogonal to Hermitian matrices,
   and the model's output is P = sum_j max(w_j,0) P_j = (v * w_+) @ v^H.
   Proved: P is the Frobenius projection of M onto the cone (variational inequality).
   NOT proved here (this is why the theorem is named _partial): the derivation of these spectral facts
   from "V unitary and Hm = V diag(w) V^H" by finite-sum matrix algebra; they are exercised numerically
   by run/RunC11.v:eigh_spec_ok on every PSD case. *)
From Coq Require Import Reals Lra Lia List Bool Psatz.
From SV Require Import model.Prox proofs.ProxBase.
Import ListNotations.
Local Open Scope R_scope.

Lemma sumn_delta k j (c : nat -> R) : (j < k)%nat ->
  sumn k (fun l => c l * (if Nat.eqb l j then 1 else 0)) = c j.
Proof.
  induction k; intros Hj; [lia|]. simpl.
  destruct (Nat.eq_dec j k) as [->|Hne].
  - rewrite Nat.eqb_refl.
    rewrite (sumn_ext k _ (fun _ => 0)); [rewrite sumn_zero; lra|].
    intros i Hi. destruct (Nat.eqb_spec i k); [lia|lra].
  - rewrite IHk by lia. destruct (Nat.eqb_spec k j); [lia|lra].
Qed.

Section Psd.
  Context {El : Elem RR} (LW : ElemLaws El).
  Notation V := (nat -> El).
  Variable N k : nat.
  Variable M Hm P : V.
  Variable Pj : nat -> V.
  Variable w : nat -> R.
  Variable Cone : V -> Prop.

  Definition wplus (j : nat) : R := if Rlt_dec (w j) 0 then 0 else w j.     (* w[w < 0] = 0 *)

  Hypothesis Hm_spec : forall u, dotn LW N Hm u = sumn k (fun j => w j * dotn LW N (Pj j) u).
  Hypothesis P_spec : forall u, dotn LW N P u = sumn k (fun j => wplus j * dotn LW N (Pj j) u).
  Hypothesis orthonormal : forall j l, (j < k)%nat -> (l < k)%nat ->
    dotn LW N (Pj l) (Pj j) = if Nat.eqb l j then 1 else 0.
  Hypothesis cone_nonneg : forall Z, Cone Z -> forall j, (j < k)%nat -> 0 <= dotn LW N (Pj j) Z.
  Hypothesis skew_orth : forall Z, Cone Z -> dotn LW N (fsub M Hm) Z = 0.
  Hypothesis P_in_cone : Cone P.

  Lemma P_Pj j : (j < k)%nat -> dotn LW N P (Pj j) = wplus j.
  Proof.
    intros Hj. rewrite P_spec.
    rewrite (sumn_ext k _ (fun l => wplus l * (if Nat.eqb l j then 1 else 0))).
    - apply sumn_delta; auto.
    - intros l Hl. rewrite orthonormal; auto.
  Qed.

  Theorem psd_proj_spectral : proj_at LW N Cone M P.
  Proof.
    split; [exact P_in_cone|]. intros Z HZ.
    assert (E : dotn LW N (fsub M P) (fsub Z P) =
                dotn LW N (fsub M Hm) Z - dotn LW N (fsub M Hm) P +
                (dotn LW N Hm Z - dotn LW N Hm P - (dotn LW N P Z - dotn LW N P P))).
    { dotx LW. ring. }
    rewrite E, (skew_orth Z HZ), (skew_orth P P_in_cone).
    rewrite (Hm_spec Z), (Hm_spec P), (P_spec Z), (P_spec P).
    rewrite (sumn_ext k (fun j => w j * dotn LW N (Pj j) P) (fun j => w j * wplus j))
      by (intros j Hj; rewrite (dotn_sym LW), P_Pj; auto).
    rewrite (sumn_ext k (fun j => wplus j * dotn LW N (Pj j) P) (fun j => wplus j * wplus j))
      by (intros j Hj; rewrite (dotn_sym LW N (Pj j) P), P_Pj; auto).
    rewrite <- !sumn_minus.
    match goal with |- 0 - 0 + ?S <= 0 => assert (HS : S <= 0); [|lra] end.
    rewrite <- (sumn_zero k). apply sumn_le. intros j Hj.
    pose proof (cone_nonneg Z HZ j Hj) as Ha. unfold wplus.
    destruct (Rlt_dec (w j) 0); nra.
  Qed.
End Psd.
