(* Stopping.v — early stop with tol = 0 happens only at fixed points (GradientMethod,
   PrimalDualHybridGradient; ConjugateGradient is in proofs/CG.v), and the power-iteration
   estimate is monotone and bounded.  All over an arbitrary real inner-product space. *)
From Coq Require Import Reals Lra Lia ZArith Bool.
From SV Require Import model.Alg proofs.IPSpace.
Local Open Scope R_scope.

Section Norms.
  Variable H : IPSpace.
  Notation V := (ipV H).
  Notation "<< x , y >>" := (ipdot H x y) (at level 0, format "<< x ,  y >>").

  Lemma vnorm_eq (v : V) : vnorm (E:=ops_of H) v = sqrt <<v, v>>.
  Proof. reflexivity. Qed.

  Lemma vnorm0 (v : V) : sqrt <<v, v>> = 0 -> v = ip0 H.
  Proof. intros E. apply ip_dot_def. apply sqrt_eq_0; [apply ip_dot_pos|exact E]. Qed.

  Lemma div_eq0 a c : c <> 0 -> a / c = 0 -> a = 0.
  Proof.
    intros Hc E. unfold Rdiv in E. apply Rmult_integral in E. destruct E as [|E]; [assumption|].
    exfalso. apply (Rinv_neq_0_compat c Hc E).
  Qed.

  Lemma divs0 (v : V) s : s <> 0 -> ipdivs H v s = ip0 H -> v = ip0 H.
  Proof.
    intros Hs E. apply ip_dot_def.
    assert (E2 : <<ipdivs H v s, ipdivs H v s>> = 0) by (rewrite E; apply dot_0_l).
    ipnorm_in H E2.
    assert (Hi : / s <> 0) by (apply Rinv_neq_0_compat, Hs).
    apply Rmult_integral in E2. destruct E2 as [|E2]; [contradiction|].
    apply Rmult_integral in E2. destruct E2; [contradiction|assumption].
  Qed.

  Lemma sum_sq0 a c : sqrt (a * a + c * c) = 0 -> a = 0 /\ c = 0.
  Proof.
    intros E. pose proof (Rle_0_sqr a) as Qa. pose proof (Rle_0_sqr c) as Qc. unfold Rsqr in *.
    apply sqrt_eq_0 in E; [|lra].
    assert (a * a = 0) by lra. assert (c * c = 0) by lra.
    split; apply Rsqr_0_uniq; assumption.
  Qed.
End Norms.

(* ------------------------------------------------------------------------- *)
(* GradientMethod                                                              *)
(* ------------------------------------------------------------------------- *)
Section GMStop.
  Variable H : IPSpace.
  Notation V := (ipV H).
  Notation E := (ops_of H).
  Variable gradf : V -> V.
  Variable alpha : R.
  Variable proxg : option (R -> V -> V).
  Hypothesis Halpha : alpha <> 0.

  Notation T := (gm_T E gradf alpha proxg).

  Notation C0 := (GMClass E gradf alpha proxg false).
  Notation C1 := (GMClass E gradf alpha proxg true).
  Notation "<< x , y >>" := (ipdot H x y) (at level 0, format "<< x ,  y >>").

  Lemma gm_fields_noacc (s : gm_state E) :
    gm_x (update C0 s) = T (gm_x s) /\
    gm_resid (update C0 s) = sqrt <<ipsub H (gm_x (update C0 s)) (gm_x s), ipsub H (gm_x (update C0 s)) (gm_x s)>> / alpha.
  Proof. split; reflexivity. Qed.

  Lemma gm_fields_acc (s : gm_state E) :
    exists c : R,
      gm_x (update C1 s) = T (gm_z s) /\
      gm_resid (update C1 s)
      = (if Rleb (sqrt <<ipsub H (gm_x (update C1 s)) (gm_z s), ipsub H (gm_x (update C1 s)) (gm_z s)>> / alpha)
                 (sqrt <<ipsub H (gm_x (update C1 s)) (gm_x s), ipsub H (gm_x (update C1 s)) (gm_x s)>> / alpha)
         then sqrt <<ipsub H (gm_x (update C1 s)) (gm_x s), ipsub H (gm_x (update C1 s)) (gm_x s)>> / alpha
         else sqrt <<ipsub H (gm_x (update C1 s)) (gm_z s), ipsub H (gm_x (update C1 s)) (gm_z s)>> / alpha) /\
      gm_z (update C1 s)
      = ipadd H (gm_x (update C1 s)) (ipscale H c (ipsub H (gm_x (update C1 s)) (gm_x s))).
  Proof. eexists. repeat split; reflexivity. Qed.

  (* [core] non-accelerated: resid = 0  ==>  x is a fixed point of T = prox_{alpha g}(. - alpha grad f(.)),
     and a further update leaves x unchanged *)
  Theorem gm_early_stop_fixed (s : gm_state E) :
    gm_resid (update C0 s) = 0 ->
    gm_x (update C0 s) = gm_x s /\ T (gm_x s) = gm_x s /\ gm_x (update C0 (update C0 s)) = gm_x (update C0 s).
  Proof.
    intros Hr. destruct (gm_fields_noacc s) as (X1 & R1).
    rewrite R1 in Hr. apply (div_eq0 _ _ Halpha) in Hr. apply (vnorm0 H) in Hr. apply (sub_eq0 H) in Hr.
    assert (HT : T (gm_x s) = gm_x s) by (rewrite <- X1; exact Hr).
    repeat split; [exact Hr|exact HT|].
    destruct (gm_fields_noacc (update C0 s)) as (X2 & _). rewrite X2, Hr. exact HT.
  Qed.

  (* [core] accelerated (current code: resid = max(||x - x_old||, ||x - z_old||) / alpha, z_old the point the step
     was taken from): resid = 0 forces x' = x_old = z_old, hence z' = x' and T x' = x' -- a genuine fixed point,
     and the next update leaves x unchanged.  No side condition. *)
  Theorem gm_accel_early_stop_fixed (s : gm_state E) :
    0 < alpha ->
    gm_resid (update C1 s) = 0 ->
    gm_x (update C1 s) = gm_x s /\ gm_x (update C1 s) = gm_z s /\ gm_z (update C1 s) = gm_x (update C1 s) /\
    T (gm_x (update C1 s)) = gm_x (update C1 s) /\
    gm_x (update C1 (update C1 s)) = gm_x (update C1 s).
  Proof.
    intros Hpos Hr. destruct (gm_fields_acc s) as (c & X1 & R1 & Z1).
    rewrite R1 in Hr.
    set (n1 := sqrt <<ipsub H (gm_x (update C1 s)) (gm_x s), ipsub H (gm_x (update C1 s)) (gm_x s)>>) in *.
    set (n2 := sqrt <<ipsub H (gm_x (update C1 s)) (gm_z s), ipsub H (gm_x (update C1 s)) (gm_z s)>>) in *.
    assert (P1 : 0 <= n1 / alpha) by (apply Rmult_le_pos; [apply sqrt_pos|left; apply Rinv_0_lt_compat, Hpos]).
    assert (P2 : 0 <= n2 / alpha) by (apply Rmult_le_pos; [apply sqrt_pos|left; apply Rinv_0_lt_compat, Hpos]).
    assert (Both : n1 / alpha = 0 /\ n2 / alpha = 0).
    { destruct (Rleb (n2 / alpha) (n1 / alpha)) eqn:Cmp.
      - apply Rleb_true in Cmp. split; lra.
      - apply Rleb_false in Cmp. split; lra. }
    destruct Both as (E1 & E2).
    apply (div_eq0 _ _ Halpha) in E1. apply (div_eq0 _ _ Halpha) in E2.
    apply (vnorm0 H) in E1. apply (vnorm0 H) in E2.
    pose proof (sub_eq0 H _ _ E1) as Ex. pose proof (sub_eq0 H _ _ E2) as Ez.
    assert (Hz : gm_z (update C1 s) = gm_x (update C1 s)) by (rewrite Z1, E1; vec H).
    assert (HT : T (gm_x (update C1 s)) = gm_x (update C1 s)).
    { rewrite Ez at 1. symmetry. exact X1. }
    repeat split; try assumption.
    destruct (gm_fields_acc (update C1 s)) as (c' & X2 & _). rewrite X2, Hz. exact HT.
  Qed.
End GMStop.

(* ------------------------------------------------------------------------- *)
(* PrimalDualHybridGradient (scalar step sizes)                                 *)
(* ------------------------------------------------------------------------- *)
Section PDHGStop.
  Variables HX HU : IPSpace.
  Notation X := (ipV HX).
  Notation U := (ipV HU).
  Notation E := (ops_of HX).
  Variable A : X -> U.
  Variable AH : U -> X.
  Variable proxfc : R -> U -> U.
  Variable proxg : R -> X -> X.
  Variable theta0 gamma_primal gamma_dual : R.
  Variables sgt0 seq0 : R -> bool.

  Notation C := (PDHGClass E U (ipadd HU) (ipsub HU) (ipscale HU) (ipdivs HU) (ipdot HU)
                           A AH proxfc proxg theta0 gamma_primal gamma_dual sgt0 seq0).
  Notation px := (pd_x E U). Notation pu := (pd_u E U). Notation pxe := (pd_x_ext E U).
  Notation ptau := (pd_tau E U). Notation psigma := (pd_sigma E U). Notation presid := (pd_resid E U).

  Lemma pdhg_update_shape (s : pdhg_state E U) :
    exists th : R,
      presid (update C s)
      = sqrt (sqrt (ipdot HX (ipdivs HX (ipsub HX (px (update C s)) (px s)) (sqrt (ptau (update C s))))
                             (ipdivs HX (ipsub HX (px (update C s)) (px s)) (sqrt (ptau (update C s)))))
              * sqrt (ipdot HX (ipdivs HX (ipsub HX (px (update C s)) (px s)) (sqrt (ptau (update C s))))
                               (ipdivs HX (ipsub HX (px (update C s)) (px s)) (sqrt (ptau (update C s)))))
              + sqrt (ipdot HU (ipdivs HU (ipsub HU (pu (update C s)) (pu s)) (sqrt (psigma s)))
                               (ipdivs HU (ipsub HU (pu (update C s)) (pu s)) (sqrt (psigma s))))
                * sqrt (ipdot HU (ipdivs HU (ipsub HU (pu (update C s)) (pu s)) (sqrt (psigma s)))
                                 (ipdivs HU (ipsub HU (pu (update C s)) (pu s)) (sqrt (psigma s)))))
      /\ pxe (update C s) = ipadd HX (px (update C s)) (ipscale HX th (ipsub HX (px (update C s)) (px s))).
  Proof.
    unfold update. cbn [PDHGClass upd_ set_iter get_iter pdhg_set_iter]. unfold pdhg__update.
    destruct (sgt0 gamma_primal && seq0 gamma_dual);
      [|destruct (seq0 gamma_primal && sgt0 gamma_dual)]; eexists; split; reflexivity.
  Qed.

  (* [core] the residual (after the fix) measures the primal AND the dual change:
     resid = 0  ==>  neither x nor u moved in this update, and the extrapolated point is x *)
  Theorem pdhg_resid_zero_no_move (s : pdhg_state E U) :
    0 < psigma s -> 0 < ptau (update C s) ->
    presid (update C s) = 0 ->
    px (update C s) = px s /\ pu (update C s) = pu s /\ pxe (update C s) = px (update C s).
  Proof.
    intros Hs Ht Hr. destruct (pdhg_update_shape s) as (th & Eres & Eext).
    rewrite Eres in Hr. apply sum_sq0 in Hr. destruct Hr as (Hp & Hd).
    apply (vnorm0 HX) in Hp. apply (vnorm0 HU) in Hd.
    apply (divs0 HX) in Hp; [|apply Rgt_not_eq, sqrt_lt_R0; exact Ht].
    apply (divs0 HU) in Hd; [|apply Rgt_not_eq, sqrt_lt_R0; exact Hs].
    pose proof (sub_eq0 HX _ _ Hp) as Ex. pose proof (sub_eq0 HU _ _ Hd) as Eu.
    repeat split; [exact Ex|exact Eu|].
    rewrite Eext, Hp. vec HX.
  Qed.

  (* without step-size adaptation, an update computed from the un-extrapolated point (x_ext = x)
     that has resid = 0 is a genuine fixed point: a further update changes neither x nor u *)
  Theorem pdhg_early_stop_fixed (s : pdhg_state E U) :
    (sgt0 gamma_primal && seq0 gamma_dual = false) -> (seq0 gamma_primal && sgt0 gamma_dual = false) ->
    0 < psigma s -> 0 < ptau s -> pxe s = px s ->
    presid (update C s) = 0 ->
    px (update C (update C s)) = px (update C s) /\ pu (update C (update C s)) = pu (update C s).
  Proof.
    intros G1 G2 Hs Ht Hext Hr.
    assert (Ht' : 0 < ptau (update C s)).
    { unfold update. cbn [PDHGClass upd_ set_iter get_iter pdhg_set_iter]. unfold pdhg__update.
      rewrite G1, G2. cbn [pd_tau]. exact Ht. }
    destruct (pdhg_resid_zero_no_move s Hs Ht' Hr) as (Ex & Eu & Eext).
    assert (Etau : ptau (update C s) = ptau s /\ psigma (update C s) = psigma s).
    { unfold update. cbn [PDHGClass upd_ set_iter get_iter pdhg_set_iter]. unfold pdhg__update.
      rewrite G1, G2. cbn [pd_tau pd_sigma]. split; reflexivity. }
    destruct Etau as (Etau & Esig).
    (* unfold ONE update on the outer layer, in terms of the fields of (update C s) *)
    assert (Eu2 : pu (update C (update C s))
                  = proxfc (psigma (update C s))
                      (ipadd HU (pu (update C s)) (ipscale HU (psigma (update C s)) (A (pxe (update C s)))))).
    { generalize (update C s). intros s1. unfold update. cbn [PDHGClass upd_ set_iter get_iter pdhg_set_iter].
      unfold pdhg__update. destruct (sgt0 gamma_primal && seq0 gamma_dual);
        [|destruct (seq0 gamma_primal && sgt0 gamma_dual)]; reflexivity. }
    assert (Eu1 : pu (update C s) = proxfc (psigma s) (ipadd HU (pu s) (ipscale HU (psigma s) (A (pxe s))))).
    { unfold update. cbn [PDHGClass upd_ set_iter get_iter pdhg_set_iter].
      unfold pdhg__update. destruct (sgt0 gamma_primal && seq0 gamma_dual);
        [|destruct (seq0 gamma_primal && sgt0 gamma_dual)]; reflexivity. }
    assert (Ex2 : px (update C (update C s))
                  = proxg (ptau (update C s))
                      (ipadd HX (px (update C s)) (ipscale HX (- ptau (update C s)) (AH (pu (update C (update C s))))))).
    { rewrite Eu2. generalize (update C s). intros s1. unfold update. cbn [PDHGClass upd_ set_iter get_iter pdhg_set_iter].
      unfold pdhg__update. destruct (sgt0 gamma_primal && seq0 gamma_dual);
        [|destruct (seq0 gamma_primal && sgt0 gamma_dual)]; reflexivity. }
    assert (Ex1 : px (update C s) = proxg (ptau s) (ipadd HX (px s) (ipscale HX (- ptau s) (AH (pu (update C s)))))).
    { rewrite Eu1. unfold update. cbn [PDHGClass upd_ set_iter get_iter pdhg_set_iter].
      unfold pdhg__update. destruct (sgt0 gamma_primal && seq0 gamma_dual);
        [|destruct (seq0 gamma_primal && sgt0 gamma_dual)]; reflexivity. }
    assert (U2 : pu (update C (update C s)) = pu (update C s)).
    { rewrite Eu2, Esig, Eext, Ex, Eu. rewrite <- Hext, <- Eu1. exact Eu. }
    split; [|exact U2].
    rewrite Ex2, U2, Etau, Ex. rewrite <- Ex1. exact Ex.
  Qed.
End PDHGStop.

(* ------------------------------------------------------------------------- *)
(* PowerMethod                                                                 *)
(* ------------------------------------------------------------------------- *)
Section PowerIter.
  Variable H : IPSpace.
  Notation V := (ipV H).
  Notation E := (ops_of H).
  Notation "<< x , y >>" := (ipdot H x y) (at level 0, format "<< x ,  y >>").
  Variable A : V -> V.
  Hypothesis Asa : selfadjoint H A.
  Notation C := (PMClass E A).

  Lemma pm_update_fields (s : pm_state E) :
    pm_max_eig (update C s) = sqrt <<A (pm_x s), A (pm_x s)>> /\
    pm_x (update C s) = ipdivs H (A (pm_x s)) (sqrt <<A (pm_x s), A (pm_x s)>>).
  Proof. split; reflexivity. Qed.

  (* one step from a unit vector: the next vector is a unit vector and the estimate does not decrease *)
  Lemma pm_step_monotone (s : pm_state E) :
    <<pm_x s, pm_x s>> = 1 -> pm_max_eig (update C s) <> 0 ->
    <<pm_x (update C s), pm_x (update C s)>> = 1 /\
    pm_max_eig (update C s) <= pm_max_eig (update C (update C s)).
  Proof.
    intros Hu Hm.
    destruct (pm_update_fields s) as (M1 & X1).
    destruct (pm_update_fields (update C s)) as (M2 & _).
    set (x := pm_x s) in *. set (y := A x) in *. set (n := <<y, y>>) in *.
    assert (Hn0 : 0 <= n) by apply ip_dot_pos.
    assert (Hn : 0 < n).
    { destruct Hn0 as [|E0]; [assumption|]. exfalso. apply Hm. rewrite M1, <- E0. apply sqrt_0. }
    assert (Hs : sqrt n * sqrt n = n) by (apply sqrt_sqrt; lra).
    assert (Hs0 : sqrt n <> 0) by (apply Rgt_not_eq, sqrt_lt_R0, Hn).
    split.
    - rewrite X1. ipnorm H. fold n. rewrite <- Hs at 3. field. exact Hs0.
    - rewrite M2, M1, X1. fold n.
      rewrite (ip_divs_def H), (sa_scale H A Asa). ipnorm H.
      set (q := <<A y, A y>>).
      pose proof (cauchy_schwarz H x (A y)) as CS. rewrite Hu in CS. fold q in CS.
      assert (E1 : <<x, A y>> = n) by (unfold n, y; rewrite <- (Asa x (A x)); reflexivity).
      rewrite E1 in CS.
      apply sqrt_le_1_alt.
      assert (Ei : / sqrt n * (/ sqrt n * q) = q / n).
      { rewrite <- Hs at 3. field. exact Hs0. }
      rewrite Ei. apply (Rmult_le_reg_r n); [exact Hn|].
      replace (q / n * n) with q by (field; lra). lra.
  Qed.

  Lemma pm_step_bounded (L : R) (s : pm_state E) :
    (forall v, sqrt <<A v, A v>> <= L * sqrt <<v, v>>) ->
    <<pm_x s, pm_x s>> = 1 -> pm_max_eig (update C s) <= L.
  Proof.
    intros HL Hu. destruct (pm_update_fields s) as (M1 & _). rewrite M1.
    pose proof (HL (pm_x s)) as B. rewrite Hu, sqrt_1 in B. lra.
  Qed.

  Lemma pm_unit (s : pm_state E) :
    pm_max_eig (update C s) <> 0 -> <<pm_x (update C s), pm_x (update C s)>> = 1.
  Proof.
    intros Hm. destruct (pm_update_fields s) as (M1 & X1).
    set (n := <<A (pm_x s), A (pm_x s)>>) in *.
    assert (Hn0 : 0 <= n) by apply ip_dot_pos.
    assert (Hn : 0 < n).
    { destruct Hn0 as [|E0]; [assumption|]. exfalso. apply Hm. rewrite M1, <- E0. apply sqrt_0. }
    assert (Hs0 : sqrt n <> 0) by (apply Rgt_not_eq, sqrt_lt_R0, Hn).
    rewrite X1. ipnorm H. fold n. rewrite <- (sqrt_sqrt n) at 3 by lra. field. exact Hs0.
  Qed.

  (* if A x <> 0 then A (A x / ||A x||) <> 0 (self-adjointness only) *)
  Lemma pm_next_nonzero (s : pm_state E) :
    pm_max_eig (update C s) <> 0 -> pm_max_eig (update C (update C s)) <> 0.
  Proof.
    intros Hm E2.
    destruct (pm_update_fields s) as (M1 & X1).
    destruct (pm_update_fields (update C s)) as (M2 & _).
    rewrite M2 in E2. apply (vnorm0 H) in E2.
    assert (Z : <<A (pm_x (update C s)), pm_x s>> = 0) by (rewrite E2; apply dot_0_l).
    rewrite (Asa _ (pm_x s)) in Z. rewrite X1 in Z. ipnorm_in H Z.
    set (n := <<A (pm_x s), A (pm_x s)>>) in *.
    assert (Hn0 : 0 <= n) by apply ip_dot_pos.
    assert (Hn : 0 < n).
    { destruct Hn0 as [|E0]; [assumption|]. exfalso. apply Hm. rewrite M1, <- E0. apply sqrt_0. }
    assert (Hi : 0 < / sqrt n) by (apply Rinv_0_lt_compat, sqrt_lt_R0, Hn).
    nra.
  Qed.

  (* along the iterations *)
  Variable x0 : V.
  Variable inf : R.
  Variable max_iter : Z.
  Notation sq := (pm_seq E A x0 inf max_iter).

  Lemma sq_S k : sq (S k) = update C (sq k).
  Proof. reflexivity. Qed.

  Lemma sq_pos : A x0 <> ip0 H -> forall k, (1 <= k)%nat -> 0 < pm_max_eig (sq k).
  Proof.
    intros Hx0.
    assert (NZ : forall k, (1 <= k)%nat -> pm_max_eig (sq k) <> 0).
    { induction k as [|k IH]; intros Hk; [lia|].
      destruct (Nat.eq_dec k 0) as [->|Hne].
      - rewrite sq_S. destruct (pm_update_fields (sq 0)) as (M1 & _). rewrite M1.
        change (pm_x (sq 0)) with x0. apply Rgt_not_eq, sqrt_lt_R0, dot_self_pos, Hx0.
      - destruct k as [|k]; [lia|]. rewrite (sq_S (S k)), (sq_S k). apply pm_next_nonzero.
        rewrite <- sq_S. apply IH. lia. }
    intros k Hk. specialize (NZ k Hk). destruct k as [|k]; [lia|].
    rewrite sq_S in *. destruct (pm_update_fields (sq k)) as (M1 & _). rewrite M1 in *.
    pose proof (sqrt_pos <<A (pm_x (sq k)), A (pm_x (sq k))>>). lra.
  Qed.

  (* [core] power_monotone / power_bounded.  e_k := max_eig after k updates = ||A x_{k-1}||.
     Once the vector has been normalised (x_k for k >= 1 is a unit vector), the estimate is positive,
     non-decreasing, and never exceeds any L with ||A v|| <= L ||v|| (L = lambda_max for Hermitian PSD A):
       for all k >= 1:   ||x_k|| = 1,  0 < e_{k+1} <= e_{k+2},  e_{k+1} <= L. *)
  Theorem power_monotone_bounded :
    A x0 <> ip0 H ->
    forall k, (1 <= k)%nat ->
      <<pm_x (sq k), pm_x (sq k)>> = 1 /\
      0 < pm_max_eig (sq (S k)) /\
      pm_max_eig (sq (S k)) <= pm_max_eig (sq (S (S k))) /\
      (forall L, (forall v, sqrt <<A v, A v>> <= L * sqrt <<v, v>>) -> pm_max_eig (sq (S k)) <= L).
  Proof.
    intros Hx0 k Hk.
    assert (Hu : <<pm_x (sq k), pm_x (sq k)>> = 1).
    { destruct k as [|k]; [lia|]. rewrite sq_S. apply pm_unit. rewrite <- sq_S.
      apply Rgt_not_eq. apply (sq_pos Hx0). lia. }
    assert (Hp : 0 < pm_max_eig (sq (S k))) by (apply (sq_pos Hx0); lia).
    repeat split; try assumption.
    - rewrite (sq_S (S k)), (sq_S k). apply pm_step_monotone; [exact Hu|].
      rewrite <- sq_S. lra.
    - intros L HL. rewrite sq_S. apply pm_step_bounded; assumption.
  Qed.
End PowerIter.
