(* proofs/Interp.v — the 1-D interpolation / gridding kernels, as GENERATED from sigpy/interp.py,
   compute the documented kernel sums, and are exact transposes of each other. *)
From Coq Require Import ZArith List Lia Bool Ring.
From SV Require Import lib.Scalar lib.BigSum lib.LoopIR lib.NdArray lib.Coord gen.Gen_interp proofs.SumTools proofs.Block.
Import ListNotations.
Local Open Scope Z_scope.

Section I.
  Variable R : StarRing.
  Add Ring RringI : (SRth R).
  Variable C : COps.
  Variable kern : C -> C -> C.
  Variable wt : C -> R.
  Local Open Scope sr_scope.

  Variables (input : list Z -> R) (coord width param : list Z -> C).
  Variables (cs ish osh ps ws : list Z).

  (* quantities the kernel derives for point i *)
  Definition kx (i : Z) : C := coord [i; (shape_at cs 1 + (-1))%Z].
  Definition W : C := width [(shape_at ws 0 + (-1))%Z].
  Definition P : C := param [(shape_at ps 0 + (-1))%Z].
  Definition x0 (i : Z) : Z := cceil (csub (kx i) (cdiv W (cofZ 2))).
  Definition x1 (i : Z) : Z := cfloor (cadd (kx i) (cdiv W (cofZ 2))).
  Definition wgt (i x : Z) : R := wt (kern (cdiv (csub (cofZ x) (kx i)) (cdiv W (cofZ 2))) P).

  Theorem interp1_contrib b i :
    (0 <= b < shape_at ish 0)%Z -> (0 <= i < shape_at cs 0)%Z ->
    contrib (k_interpolate1 R C kern wt input coord width param cs ish osh ps ws) [] [b; i] =
    sumL (zrange (x0 i) (x1 i + 1) 1) (fun x => wgt i x * input [b; (x mod shape_at ish 1)%Z]).
  Proof.
    intros Hb Hi. unfold k_interpolate1. cbn [contrib var nth].
    rewrite (sumL_single R (zrange 0 (shape_at cs 0) 1) i); [|apply zrange_nodup|apply zrange0_in; exact Hi|].
    2:{ intros i' _ Hne. apply sumL_none. intros x _. apply sumL_none. intros b' _.
        rewrite idx2_eqb. destruct (Z.eqb_spec i' i); [contradiction|]. rewrite andb_false_r. reflexivity. }
    apply sumL_ext. intros x _.
    rewrite (sumL_single R (zrange 0 (shape_at ish 0) 1) b); [|apply zrange_nodup|apply zrange0_in; exact Hb|].
    2:{ intros b' _ Hne. rewrite idx2_eqb. destruct (Z.eqb_spec b' b); [contradiction|]. reflexivity. }
    rewrite idx2_eqb, !Z.eqb_refl. reflexivity.
  Qed.

  Theorem interp1_exec out b i :
    (0 <= b < shape_at ish 0)%Z -> (0 <= i < shape_at cs 0)%Z ->
    exec (k_interpolate1 R C kern wt input coord width param cs ish osh ps ws) [] out [b; i] =
    out [b; i] + sumL (zrange (x0 i) (x1 i + 1) 1) (fun x => wgt i x * input [b; (x mod shape_at ish 1)%Z]).
  Proof. intros. rewrite exec_is_sum by reflexivity. f_equal. apply interp1_contrib; assumption. Qed.

  (* gridding: every point adds w * input[b, i] to the wrapped grid position; contributions accumulate *)
  Theorem gridding1_contrib b m :
    (0 <= b < shape_at osh 0)%Z ->
    contrib (k_gridding1 R C kern wt input coord width param cs ish osh ps ws) [] [b; m] =
    sumL (zrange 0 (shape_at cs 0) 1) (fun i =>
      sumL (zrange (x0 i) (x1 i + 1) 1) (fun x =>
        if (x mod shape_at osh 1 =? m)%Z then wgt i x * input [b; i] else 0)).
  Proof.
    intros Hb. unfold k_gridding1. cbn [contrib var nth].
    apply sumL_ext. intros i _. apply sumL_ext. intros x _.
    rewrite (sumL_single R (zrange 0 (shape_at osh 0) 1) b); [|apply zrange_nodup|apply zrange0_in; exact Hb|].
    2:{ intros b' _ Hne. rewrite idx2_eqb. destruct (Z.eqb_spec b' b); [contradiction|]. reflexivity. }
    rewrite idx2_eqb, Z.eqb_refl. reflexivity.
  Qed.

  Theorem gridding1_exec out b m :
    (0 <= b < shape_at osh 0)%Z ->
    exec (k_gridding1 R C kern wt input coord width param cs ish osh ps ws) [] out [b; m] =
    out [b; m] + sumL (zrange 0 (shape_at cs 0) 1) (fun i =>
      sumL (zrange (x0 i) (x1 i + 1) 1) (fun x =>
        if (x mod shape_at osh 1 =? m)%Z then wgt i x * input [b; i] else 0)).
  Proof. intros. rewrite exec_is_sum by reflexivity. f_equal. apply gridding1_contrib; assumption. Qed.

  (* the loop bounds ceil(k - W/2) .. floor(k + W/2) select exactly the integers within half a width of k
     (ties included), for any ordering [cle] for which ceil / floor are the usual Galois adjoints *)
  Variable cle : C -> C -> Prop.
  Hypothesis ceil_spec : forall (t : C) (z : Z), (cceil t <= z)%Z <-> cle t (cofZ z).
  Hypothesis floor_spec : forall (t : C) (z : Z), (z <= cfloor t)%Z <-> cle (cofZ z) t.

  Theorem window_is_half_width i x :
    In x (zrange (x0 i) (x1 i + 1) 1) <->
    cle (csub (kx i) (cdiv W (cofZ 2))) (cofZ x) /\ cle (cofZ x) (cadd (kx i) (cdiv W (cofZ 2))).
  Proof.
    rewrite zrange_in by lia. rewrite Z.mod_1_r. unfold x0, x1.
    rewrite <- ceil_spec, <- floor_spec. lia.
  Qed.
End I.

(* interpolate and gridding with the SAME coordinates / width / kernel / parameter are exact adjoints *)
Section Adj.
  Variable R : StarRing.
  Add Ring RringI2 : (SRth R).
  Variable C : COps.
  Variable kern : C -> C -> C.
  Variable wt : C -> R.
  Hypothesis wt_real : forall w, conj (wt w) = wt w.
  Local Open Scope sr_scope.
  Variables (coord width param : list Z -> C) (cs ps ws : list Z).
  Variables (batch nx npts : Z).
  Hypothesis Hnx : (0 < nx)%Z.
  Hypothesis Hnp : shape_at cs 0 = npts.

  Notation wg := (wgt R C kern wt coord width param cs ps ws).
  Notation X0 := (x0 C coord width cs ws).
  Notation X1 := (x1 C coord width cs ws).

  Definition interp_op (x : list Z -> R) : list Z -> R :=
    fun o => match o with [b; i] => sumL (zrange (X0 i) (X1 i + 1) 1) (fun t => wg i t * x [b; (t mod nx)%Z]) | _ => 0 end.
  Definition grid_op (y : list Z -> R) : list Z -> R :=
    fun o => match o with [b; m] => sumL (zrange 0 npts 1) (fun i => sumL (zrange (X0 i) (X1 i + 1) 1)
                                       (fun t => if (t mod nx =? m)%Z then wg i t * y [b; i] else 0)) | _ => 0 end.

  Lemma sumL_conj l (f : Z -> R) : conj (sumL l f) = sumL l (fun v => conj (f v)).
  Proof. induction l as [|v l IH]; simpl; [apply conj_zero| rewrite conj_add, IH; reflexivity]. Qed.

  Lemma sumL_scale_r l (f : Z -> R) c : sumL l f * c = sumL l (fun v => f v * c).
  Proof. induction l as [|v l IH]; simpl; [ring| rewrite <- IH; ring]. Qed.

  Lemma sumL_scale_l l (f : Z -> R) c : c * sumL l f = sumL l (fun v => c * f v).
  Proof. induction l as [|v l IH]; simpl; [ring| rewrite <- IH; ring]. Qed.

  Lemma sumZ_sumL_exchange n l (f : Z -> Z -> R) :
    sumZ n (fun m => sumL l (fun v => f m v)) = sumL l (fun v => sumZ n (fun m => f m v)).
  Proof.
    induction l as [|v l IH]; simpl; [apply sumZ_zero|]. rewrite sumZ_add, IH. reflexivity.
  Qed.

  Theorem interp_gridding_adjoint (x y : list Z -> R) :
    inner [batch; npts] (interp_op x) y = inner [batch; nx] x (grid_op y).
  Proof.
    unfold inner. cbn [sumB]. apply sumZ_ext. intros b Hb.
    (* left: sum_i (sum_t w x[b, t mod nx]) conj y[b,i] *)
    transitivity (sumZ npts (fun i => sumL (zrange (X0 i) (X1 i + 1) 1)
                     (fun t => wg i t * x [b; (t mod nx)%Z] * conj (y [b; i])))).
    { apply sumZ_ext. intros i _. cbn [interp_op]. apply sumL_scale_r. }
    (* right: sum_m x[b,m] conj(sum_i sum_t [t mod nx = m] w y[b,i]) *)
    transitivity (sumZ nx (fun m => sumZ npts (fun i => sumL (zrange (X0 i) (X1 i + 1) 1)
                     (fun t => if (t mod nx =? m)%Z then wg i t * x [b; m] * conj (y [b; i]) else 0)))).
    2:{ apply sumZ_ext. intros m _. cbn [grid_op]. rewrite sumL_conj, sumL_scale_l.
        rewrite sumL_range0. apply sumZ_ext. intros i _.
        rewrite sumL_conj, sumL_scale_l. apply sumL_ext. intros t _.
        destruct (t mod nx =? m)%Z.
        - rewrite !conj_mul. unfold wgt. rewrite wt_real. ring.
        - rewrite conj_zero. ring. }
    rewrite sumZ_exchange. apply sumZ_ext. intros i _.
    rewrite sumZ_sumL_exchange. apply sumL_ext. intros t _.
    rewrite (sumZ_ext R nx _ (fun m => if (m =? t mod nx)%Z then wg i t * x [b; m] * conj (y [b; i]) else 0)).
    - rewrite sumZ_single by (apply Z.mod_pos_bound; exact Hnx). reflexivity.
    - intros m _. rewrite (Z.eqb_sym m). reflexivity.
  Qed.
End Adj.

(* the B-spline kernel GENERATED from _spline_kernel is the documented piecewise polynomial *)
Section Spline.
  Variable C : COps.
  Hypothesis ceqb_ofZ : forall a b : Z, @ceqb C (cofZ a) (cofZ b) = (a =? b)%Z.
  Notation one := (@cofZ C 1). Notation zeroC := (@cofZ C 0).

  Theorem spline_outside x order : cltb one (cabs x) = true -> spline_kernel C x order = zeroC.
  Proof. intros H. unfold spline_kernel. rewrite H. reflexivity. Qed.

  Theorem spline_order0 x : cltb one (cabs x) = false -> spline_kernel C x (cofZ 0) = one.
  Proof. intros H. unfold spline_kernel. rewrite H, ceqb_ofZ. reflexivity. Qed.

  Theorem spline_order1 x : cltb one (cabs x) = false -> spline_kernel C x (cofZ 1) = csub one (cabs x).
  Proof. intros H. unfold spline_kernel. rewrite H, !ceqb_ofZ. reflexivity. Qed.

  Theorem spline_order2 x : cltb one (cabs x) = false ->
    spline_kernel C x (cofZ 2) =
    if cltb (cdiv one (cofZ 3)) (cabs x)
    then cmul (cdiv (cofZ 9) (cofZ 8)) (cmul (csub one (cabs x)) (csub one (cabs x)))
    else cmul (cdiv (cofZ 3) (cofZ 4)) (csub one (cmul (cofZ 3) (cmul x x))).
  Proof. intros H. unfold spline_kernel. rewrite H, !ceqb_ofZ. reflexivity. Qed.
End Spline.
