(* proofs/ProxPsd2.v — psd_proj over the eigh oracle: the FULL theorem.

   sigpy.thresh.psd_proj(X):  w, v = eigh((X + X^H)/2);  w[w < 0] = 0;  return (v * w) @ v^H.
   Oracle specification used (hypotheses, entrywise, indices < n):
     V^H V = I                       sum_i conj(V_ik) V_il = delta_kl          (columns orthonormal)
     (X + X^H)/2 = (V * w) V^H       ((X_ik + conj X_ki))/2 = sum_j w_j V_ij conj(V_kj),   w real.
   (V V^H = I is part of eigh's contract but is not needed.)
   Proved, for every n and every (not necessarily Hermitian) n x n input X, real or complex:
   the LIST returned by the model term [psd_proj n w v] (row-major, n*n entries), read as P = V diag(max(w,0)) V^H,
     (i)   is Hermitian and z^H P z >= 0 for all z,
     (ii)  Re tr((X - P)^H (Z - P)) <= 0 for every Hermitian Z with z^H Z z >= 0 for all z
           (the variational inequality of the Frobenius projection onto the cone
            K_n = { Z in C^{n x n} : Z = Z^H, z^H Z z >= 0 }),
     (iii) hence ||P - X||_F^2 + ||Z - P||_F^2 <= ||Z - X||_F^2 for all Z in K_n: P is THE nearest point of K_n to X
           in the Frobenius norm sum_ij |.|^2 over all n*n entries (unique).
   For non-Hermitian X this is Higham's statement: the nearest Hermitian PSD matrix is the PSD part of the
   Hermitian part, because the skew part of X is Frobenius-orthogonal to every Hermitian matrix (frob_hermpart).

   One proof for R and C: [StarLaws] makes the element type of model/Prox.v a commutative *-ring with a real part
   (instances RealStar on RRe, CplxStar on RCx = pairs, built from the model's own eadd/emul/econj/escale).
   Finite-sum matrix algebra is done on matrices as functions nat -> nat -> El with [esumn]
   (sum exchange esumn_exch/esumn_rot = trace cyclicity in the form needed):
     frobC_vdv    : <V diag(c) V^H, S>  = sum_k c_k v_k^H S v_k
     quad_vdv     : z^H (V diag(c) V^H) z = sum_l c_l |v_l^H z|^2
     quad_col_vdv : v_k^H (V diag(c) V^H) v_k = c_k            (orthonormal columns)
   so  Re<X-P, Z-P> = sum_k (w_k - max(w_k,0)) (v_k^H Z v_k - max(w_k,0)) <= 0  (psd_vi).
   psd_proj_entry ties entry i*n+k of the list term to (V diag(max(w,0)) V^H)_ik (concat/map/map2/fold_left);
   herm_part_entry ties the model's herm_part (chunks/transpose/map2) to (X_ik + conj X_ki)/2, so that
   psdproj_node_is_projection states the oracle specification on the model's own terms (what run/RunC11.v:eigh_spec_ok
   tests numerically) and concludes on the PsdProj node of [apply]. *)
From Coq Require Import Reals Lra Lia List Bool Psatz Ring.
From SV Require Import model.Prox proofs.ProxBase proofs.ProxPsd proofs.ProxMain.
Import ListNotations.
Local Open Scope R_scope.

Record StarLaws {El : Elem RR} (LW : ElemLaws El) := mkStar {
  s1 : El;
  sopp : El -> El;
  sinj : R -> El;
  sre : El -> R;
  s_ring : ring_theory (@e0 RR El) s1 (@eadd RR El) (@emul RR El) (@esub RR El) sopp (@eq El);
  conj_add : forall a b : El, econj (eadd a b) = eadd (econj a) (econj b);
  conj_mul : forall a b : El, econj (emul a b) = emul (econj a) (econj b);
  conj_conj : forall a : El, econj (econj a) = a;
  conj_inj : forall t, econj (sinj t) = sinj t;
  conj_0 : econj (@e0 RR El) = e0;
  conj_1 : econj s1 = s1;
  sre_add : forall a b : El, sre (eadd a b) = sre a + sre b;
  sre_0 : sre e0 = 0;
  sre_1 : sre s1 = 1;
  sre_conj : forall a : El, sre (econj a) = sre a;
  sre_inj : forall t (a : El), sre (emul (sinj t) a) = t * sre a;
  sre_pos : forall a : El, 0 <= sre (emul (econj a) a);
  escale_inj : forall t (a : El), @escale RR El t a = emul (sinj t) a;
  ein_sre : forall a b : El, ein LW a b = sre (emul (econj a) b) }.

Definition RealStar : StarLaws RealLaws.
Proof.
  refine (mkStar RRe RealLaws (1:R) Ropp (fun t => t) (fun a : R => a) _ _ _ _ _ _ _ _ _ _ _ _ _ _ _); simpl; intros; try reflexivity; try ring.
  - constructor; simpl; intros; ring.
  - nra.
Defined.

Definition CplxStar : StarLaws CplxLaws.
Proof.
  refine (mkStar RCx CplxLaws (1, 0) (fun a => (- fst a, - snd a)) (fun t => (t, 0)) (fun a => fst a) _ _ _ _ _ _ _ _ _ _ _ _ _ _ _);
    simpl; intros; try reflexivity; try ring;
    try (repeat match goal with a : (R * R)%type |- _ => destruct a end; simpl; f_equal; ring).
  - constructor; simpl; intros; repeat match goal with a : (R * R)%type |- _ => destruct a end; simpl; f_equal; ring.
  - destruct a; simpl. nra.
Defined.
Arguments s1 {_ _} _. Arguments sopp {_ _} _. Arguments sinj {_ _} _. Arguments sre {_ _} _.

Section Star.
  Context {El : Elem RR} {LW : ElemLaws El} (SL : StarLaws LW).
  Notation "a +! b" := (@eadd RR El a b) (at level 50, left associativity).
  Notation "a -! b" := (@esub RR El a b) (at level 50, left associativity).
  Notation "a *! b" := (@emul RR El a b) (at level 40, left associativity).
  Notation cj := (@econj RR El).
  Notation one := (s1 SL).
  Notation inj := (sinj SL).
  Notation re := (sre SL).
  Notation zero := (@e0 RR El).
  Add Ring ElRing : (s_ring LW SL).

  Lemma conj_sub a b : cj (a -! b) = cj a -! cj b.
  Proof.
    assert (E : a -! b = a +! sopp SL b) by ring. rewrite E, (conj_add LW SL).
    assert (E2 : cj (sopp SL b) = sopp SL (cj b)).
    { assert (H : cj (sopp SL b) +! cj b = zero).
      { rewrite <- (conj_add LW SL). replace (sopp SL b +! b) with zero by ring. apply (conj_0 LW SL). }
      replace (cj (sopp SL b)) with (cj (sopp SL b) +! cj b -! cj b) by ring. rewrite H. ring. }
    rewrite E2. ring.
  Qed.
  Lemma re_sub a b : re (a -! b) = re a - re b.
  Proof.
    assert (H : re (a -! b +! b) = re (a -! b) + re b) by apply (sre_add LW SL).
    replace (a -! b +! b) with a in H by ring. lra.
  Qed.
  Lemma re_inj1 t : re (inj t) = t.
  Proof. replace (inj t) with (inj t *! one) by ring. rewrite (sre_inj LW SL), (sre_1 LW SL). ring. Qed.

  Fixpoint esumn (n : nat) (f : nat -> El) : El :=
    match n with O => zero | S k => esumn k f +! f k end.

  Lemma esumn_ext n f g : (forall i, (i < n)%nat -> f i = g i) -> esumn n f = esumn n g.
  Proof. induction n; intros H; simpl; [reflexivity|]. rewrite IHn, H; auto. Qed.
  Lemma esumn_add n f g : esumn n (fun i => f i +! g i) = esumn n f +! esumn n g.
  Proof. induction n; simpl; [ring|]. rewrite IHn. ring. Qed.
  Lemma esumn_sub n f g : esumn n (fun i => f i -! g i) = esumn n f -! esumn n g.
  Proof. induction n; simpl; [ring|]. rewrite IHn. ring. Qed.
  Lemma esumn_mul_l n c f : esumn n (fun i => c *! f i) = c *! esumn n f.
  Proof. induction n; simpl; [ring|]. rewrite IHn. ring. Qed.
  Lemma esumn_mul_r n c f : esumn n (fun i => f i *! c) = esumn n f *! c.
  Proof. induction n; simpl; [ring|]. rewrite IHn. ring. Qed.
  Lemma esumn_zero n : esumn n (fun _ => zero) = zero.
  Proof. induction n; simpl; [reflexivity|]. rewrite IHn. ring. Qed.
  Lemma esumn_conj n f : cj (esumn n f) = esumn n (fun i => cj (f i)).
  Proof. induction n; simpl; [apply (conj_0 LW SL)|]. rewrite (conj_add LW SL), IHn. reflexivity. Qed.
  Lemma re_esumn n f : re (esumn n f) = sumn n (fun i => re (f i)).
  Proof. induction n; simpl; [apply (sre_0 LW SL)|]. rewrite (sre_add LW SL), IHn. reflexivity. Qed.
  Lemma esumn_exch n m (f : nat -> nat -> El) :
    esumn n (fun i => esumn m (fun j => f i j)) = esumn m (fun j => esumn n (fun i => f i j)).
  Proof.
    induction n; simpl; [rewrite esumn_zero; reflexivity|].
    rewrite IHn, <- esumn_add. reflexivity.
  Qed.
  Lemma esumn_rot a b c (f : nat -> nat -> nat -> El) :
    esumn a (fun i => esumn b (fun j => esumn c (fun k => f i j k))) =
    esumn c (fun k => esumn a (fun i => esumn b (fun j => f i j k))).
  Proof.
    rewrite (esumn_ext a _ (fun i => esumn c (fun k => esumn b (fun j => f i j k))))
      by (intros; apply esumn_exch).
    apply esumn_exch.
  Qed.
  Lemma esumn_delta n k (c : nat -> El) : (k < n)%nat ->
    esumn n (fun l => c l *! (if Nat.eqb l k then one else zero)) = c k.
  Proof.
    induction n; intros Hk; [lia|]. simpl.
    destruct (Nat.eq_dec k n) as [->|Hne].
    - rewrite Nat.eqb_refl.
      rewrite (esumn_ext n _ (fun _ => zero)); [rewrite esumn_zero; ring|].
      intros i Hi. destruct (Nat.eqb_spec i n); [lia|ring].
    - rewrite IHn by lia. destruct (Nat.eqb_spec n k); [lia|ring].
  Qed.

  (* ------------------------------------------------------------ n x n matrices as functions *)
  Notation Mat := (nat -> nat -> El).
  Definition col (V : Mat) (k : nat) : nat -> El := fun i => V i k.
  Definition msub (A B : Mat) : Mat := fun i j => A i j -! B i j.
  (* z^H Z z *)
  Definition quad (n : nat) (z : nat -> El) (Z : Mat) : El :=
    esumn n (fun i => esumn n (fun j => cj (z i) *! Z i j *! z j)).
  (* tr(A^H B) = sum_ij conj(A_ij) B_ij *)
  Definition frobC (n : nat) (A B : Mat) : El :=
    esumn n (fun i => esumn n (fun j => cj (A i j) *! B i j)).
  (* V diag(c) V^H *)
  Definition vdv (n : nat) (c : nat -> R) (V : Mat) : Mat :=
    fun i j => esumn n (fun k => inj (c k) *! V i k *! cj (V j k)).
  Definition herm (n : nat) (Z : Mat) : Prop := forall i j, (i < n)%nat -> (j < n)%nat -> Z j i = cj (Z i j).
  Definition PSD (n : nat) (Z : Mat) : Prop := herm n Z /\ forall z, 0 <= re (quad n z Z).
  Definition orthcols (n : nat) (V : Mat) : Prop :=
    forall k l, (k < n)%nat -> (l < n)%nat ->
      esumn n (fun i => cj (V i k) *! V i l) = if Nat.eqb k l then one else zero.

  Lemma esumn2_ext n (f g : nat -> nat -> El) :
    (forall i j, (i < n)%nat -> (j < n)%nat -> f i j = g i j) ->
    esumn n (fun i => esumn n (fun j => f i j)) = esumn n (fun i => esumn n (fun j => g i j)).
  Proof. intros H. apply esumn_ext; intros i Hi. apply esumn_ext; intros j Hj. auto. Qed.

  Lemma quad_ext n z Z Z' : (forall i j, (i < n)%nat -> (j < n)%nat -> Z i j = Z' i j) -> quad n z Z = quad n z Z'.
  Proof. intros H. apply esumn2_ext. intros. rewrite H; auto. Qed.
  Lemma frobC_ext n A A' B B' :
    (forall i j, (i < n)%nat -> (j < n)%nat -> A i j = A' i j) ->
    (forall i j, (i < n)%nat -> (j < n)%nat -> B i j = B' i j) -> frobC n A B = frobC n A' B'.
  Proof. intros H1 H2. apply esumn2_ext. intros. rewrite H1, H2; auto. Qed.
  Lemma frobC_sub_l n A B C : frobC n (msub A B) C = frobC n A C -! frobC n B C.
  Proof.
    unfold frobC, msub. rewrite <- esumn_sub. apply esumn_ext; intros i _.
    rewrite <- esumn_sub. apply esumn_ext; intros j _. rewrite conj_sub. ring.
  Qed.
  Lemma frobC_sub_r n A B C : frobC n C (msub A B) = frobC n C A -! frobC n C B.
  Proof.
    unfold frobC, msub. rewrite <- esumn_sub. apply esumn_ext; intros i _.
    rewrite <- esumn_sub. apply esumn_ext; intros j _. ring.
  Qed.

  (* <V diag(c) V^H, S> = sum_k c_k v_k^H S v_k *)
  Lemma frobC_vdv n c V S :
    frobC n (vdv n c V) S = esumn n (fun k => inj (c k) *! quad n (col V k) S).
  Proof.
    unfold frobC, vdv, quad, col.
    rewrite (esumn2_ext n _ (fun i j => esumn n (fun k => inj (c k) *! (cj (V i k) *! S i j *! V j k)))).
    2:{ intros i j _ _. rewrite esumn_conj, <- esumn_mul_r. apply esumn_ext; intros k _.
        rewrite !(conj_mul LW SL), (conj_conj LW SL), (conj_inj LW SL). ring. }
    rewrite (esumn_rot n n n (fun i j k => inj (c k) *! (cj (V i k) *! S i j *! V j k))).
    apply esumn_ext; intros k _. rewrite <- esumn_mul_l. apply esumn_ext; intros i _.
    rewrite <- esumn_mul_l. reflexivity.
  Qed.

  (* z^H (V diag(c) V^H) z = sum_l c_l |v_l^H z|^2 *)
  Lemma quad_vdv n c V z :
    quad n z (vdv n c V) =
    esumn n (fun l => inj (c l) *! (cj (esumn n (fun j => cj (V j l) *! z j)) *! esumn n (fun j => cj (V j l) *! z j))).
  Proof.
    unfold quad, vdv.
    rewrite (esumn2_ext n _ (fun i j => esumn n (fun l => inj (c l) *! (cj (z i) *! V i l) *! (cj (V j l) *! z j)))).
    2:{ intros i j _ _. rewrite <- esumn_mul_l, <- esumn_mul_r. apply esumn_ext; intros l _. ring. }
    rewrite (esumn_rot n n n (fun i j l => inj (c l) *! (cj (z i) *! V i l) *! (cj (V j l) *! z j))).
    apply esumn_ext; intros l _.
    rewrite (esumn_ext n _ (fun i => inj (c l) *! (cj (z i) *! V i l) *! esumn n (fun j => cj (V j l) *! z j)))
      by (intros; apply esumn_mul_l).
    rewrite esumn_mul_r.
    rewrite esumn_mul_l, esumn_conj.
    rewrite (esumn_ext n (fun i => cj (cj (V i l) *! z i)) (fun i => cj (z i) *! V i l)).
    2:{ intros. rewrite (conj_mul LW SL), (conj_conj LW SL). ring. }
    ring.
  Qed.

  Lemma quad_col_vdv n c V k : orthcols n V -> (k < n)%nat -> quad n (col V k) (vdv n c V) = inj (c k).
  Proof.
    intros HO Hk. rewrite quad_vdv. unfold col.
    rewrite (esumn_ext n _ (fun l => inj (c l) *! (if Nat.eqb l k then one else zero))).
    - apply esumn_delta; auto.
    - intros l Hl. rewrite (HO l k Hl Hk). destruct (Nat.eqb l k).
      + rewrite (conj_1 LW SL). ring.
      + rewrite (conj_0 LW SL). ring.
  Qed.

  Lemma vdv_herm n c V : herm n (vdv n c V).
  Proof.
    intros i j _ _. unfold vdv. rewrite esumn_conj. apply esumn_ext; intros k _.
    rewrite !(conj_mul LW SL), (conj_conj LW SL), (conj_inj LW SL). ring.
  Qed.

  Lemma vdv_psd n c V : (forall k, (k < n)%nat -> 0 <= c k) -> PSD n (vdv n c V).
  Proof.
    intros Hc. split; [apply vdv_herm|]. intros z. rewrite quad_vdv, re_esumn.
    apply sumn_nonneg. intros l Hl. rewrite (sre_inj LW SL).
    apply Rmult_le_pos; [auto|apply (sre_pos LW SL)].
  Qed.

  (* the Hermitian part sees a Hermitian S like the whole matrix does *)
  Lemma frob_hermpart n X Hm S :
    herm n S ->
    (forall i j, (i < n)%nat -> (j < n)%nat -> Hm i j = inj (/ 2) *! (X i j +! cj (X j i))) ->
    re (frobC n Hm S) = re (frobC n X S).
  Proof.
    intros HS HH.
    assert (E : frobC n Hm S = inj (/ 2) *! frobC n X S +! inj (/ 2) *! cj (frobC n X S)).
    { unfold frobC. rewrite esumn_conj.
      rewrite (esumn_ext n (fun i => cj (esumn n (fun j => cj (X i j) *! S i j))) (fun i => esumn n (fun j => X i j *! cj (S i j)))).
      2:{ intros. rewrite esumn_conj. apply esumn_ext; intros. rewrite (conj_mul LW SL), (conj_conj LW SL). reflexivity. }
      rewrite (esumn_exch n n (fun i j => X i j *! cj (S i j))).
      rewrite <- !esumn_mul_l, <- esumn_add. apply esumn_ext; intros i Hi.
      rewrite <- !esumn_mul_l, <- esumn_add. apply esumn_ext; intros j Hj.
      rewrite (HH i j Hi Hj), (conj_mul LW SL), (conj_add LW SL), (conj_conj LW SL), (conj_inj LW SL).
      rewrite <- (HS j i Hj Hi). ring. }
    rewrite E, (sre_add LW SL), !(sre_inj LW SL), (sre_conj LW SL). lra.
  Qed.

  (* ------------------------------------------------------------ the projection, matrix level *)
  Section Main.
    Variable n : nat.
    Variables X Hm P V : Mat.
    Variable w : nat -> R.
    Hypothesis HO : orthcols n V.
    Hypothesis HH : forall i j, (i < n)%nat -> (j < n)%nat -> Hm i j = vdv n w V i j.
    Hypothesis HX : forall i j, (i < n)%nat -> (j < n)%nat -> Hm i j = inj (/ 2) *! (X i j +! cj (X j i)).
    Hypothesis HP : forall i j, (i < n)%nat -> (j < n)%nat -> P i j = vdv n (wplus w) V i j.

    Lemma wplus_nonneg k : 0 <= wplus w k.
    Proof. unfold wplus. destruct (Rlt_dec (w k) 0); lra. Qed.

    Lemma P_psd : PSD n P.
    Proof.
      destruct (vdv_psd n (wplus w) V (fun k _ => wplus_nonneg k)) as [Hh Hq]. split.
      - intros i j Hi Hj. rewrite !HP by auto. apply Hh; auto.
      - intros z. rewrite (quad_ext n z P (vdv n (wplus w) V)) by auto. apply Hq.
    Qed.

    Lemma frob_vdv_re c A S : (forall i j, (i < n)%nat -> (j < n)%nat -> A i j = vdv n c V i j) ->
      re (frobC n A S) = sumn n (fun k => c k * re (quad n (col V k) S)).
    Proof.
      intros HA. rewrite (frobC_ext n A (vdv n c V) S S) by auto.
      rewrite frobC_vdv, re_esumn. apply sumn_ext; intros. apply (sre_inj LW SL).
    Qed.

    Lemma quad_P k : (k < n)%nat -> re (quad n (col V k) P) = wplus w k.
    Proof.
      intros Hk. rewrite (quad_ext n _ P (vdv n (wplus w) V)) by auto.
      rewrite quad_col_vdv by auto. apply re_inj1.
    Qed.

    Theorem psd_vi Z : PSD n Z -> re (frobC n (msub X P) (msub Z P)) <= 0.
    Proof.
      intros [HZh HZq]. destruct P_psd as [HPh HPq].
      assert (HS : herm n (msub Z P)).
      { intros i j Hi Hj. unfold msub. rewrite conj_sub, <- HZh, <- HPh; auto. }
      rewrite frobC_sub_l, re_sub, <- (frob_hermpart n X Hm _ HS HX).
      rewrite !frobC_sub_r, !re_sub.
      rewrite !(frob_vdv_re w Hm) by auto. rewrite !(frob_vdv_re (wplus w) P) by auto.
      rewrite (sumn_ext n (fun k => w k * re (quad n (col V k) P)) (fun k => w k * wplus w k))
        by (intros k Hk; rewrite quad_P; auto).
      rewrite (sumn_ext n (fun k => wplus w k * re (quad n (col V k) P)) (fun k => wplus w k * wplus w k))
        by (intros k Hk; rewrite quad_P; auto).
      rewrite <- !sumn_minus. rewrite <- (sumn_zero n). apply sumn_le. intros k Hk.
      pose proof (HZq (col V k)) as Hq. unfold wplus. destruct (Rlt_dec (w k) 0); nra.
    Qed.
  End Main.
End Star.

(* ---------------------------------------------------------------- flat row-major vectors and the list model *)
Lemma sumn_flat n m f : sumn (n * m) f = sumn n (fun i => sumn m (fun j => f (i * m + j)%nat)).
Proof.
  induction n; simpl; [reflexivity|].
  rewrite (Nat.add_comm m (n * m)), sumn_app, IHn. reflexivity.
Qed.

Lemma nth_concat_rows {A} (d : A) (n : nat) (rows : list (list A)) :
  (forall r, In r rows -> length r = n) ->
  forall i k, (i < length rows)%nat -> (k < n)%nat -> nth (i * n + k) (concat rows) d = nth k (nth i rows []) d.
Proof.
  induction rows as [|r rs IH]; intros Hr i k Hi Hk; simpl in Hi; [lia|].
  assert (Hl : length r = n) by (apply Hr; left; reflexivity).
  simpl concat. destruct i as [|i].
  - simpl. apply app_nth1. lia.
  - rewrite app_nth2 by (simpl; lia).
    replace (S i * n + k - length r)%nat with (i * n + k)%nat by (simpl; lia).
    simpl nth. apply IH; auto; try lia. intros r' Hr'. apply Hr. right; auto.
Qed.

Lemma length_concat_rows {A} (n : nat) (rows : list (list A)) :
  (forall r, In r rows -> length r = n) -> length (concat rows) = (length rows * n)%nat.
Proof.
  induction rows as [|r rs IH]; intros Hr; simpl; [reflexivity|].
  rewrite app_length, IH by (intros; apply Hr; simpl; auto).
  rewrite (Hr r) by (simpl; auto). reflexivity.
Qed.

Lemma nth_map_lt {A B} (f : A -> B) (l : list A) (i : nat) (d : B) (d' : A) :
  (i < length l)%nat -> nth i (map f l) d = f (nth i l d').
Proof. intros H. rewrite (nth_indep _ d (f d')) by (rewrite map_length; exact H). apply map_nth. Qed.

Section Flat.
  Context {El : Elem RR} {LW : ElemLaws El} (SL : StarLaws LW).
  Notation "a +! b" := (@eadd RR El a b) (at level 50, left associativity).
  Notation "a *! b" := (@emul RR El a b) (at level 40, left associativity).
  Notation cj := (@econj RR El).
  Notation inj := (sinj SL).
  Notation re := (sre SL).
  Add Ring ElRing2 : (s_ring LW SL).

  (* entry (i,j) of the n x n matrix stored row-major in x *)
  Definition mat_of (n : nat) (x : nat -> El) : nat -> nat -> El := fun i j => x (i * n + j)%nat.
  Definition PsdCone (n : nat) (Z : nat -> El) : Prop := PSD SL n (mat_of n Z).

  Lemma dotn_frob n x y : dotn LW (n * n) x y = re (frobC n (mat_of n x) (mat_of n y)).
  Proof.
    unfold dotn, frobC. rewrite sumn_flat, (re_esumn SL). apply sumn_ext; intros i _.
    rewrite (re_esumn SL). apply sumn_ext; intros j _. apply (ein_sre LW SL).
  Qed.

  Theorem psd_flat n (x p : nat -> El) (V : nat -> nat -> El) (w : nat -> R) :
    orthcols SL n V ->
    (forall i j, (i < n)%nat -> (j < n)%nat ->
       inj (/ 2) *! (x (i * n + j)%nat +! cj (x (j * n + i)%nat)) = vdv SL n w V i j) ->
    (forall i j, (i < n)%nat -> (j < n)%nat -> p (i * n + j)%nat = vdv SL n (wplus w) V i j) ->
    proj_at LW (n * n) (PsdCone n) x p.
  Proof.
    intros HO HX HP.
    pose (Hm := fun i j => inj (/ 2) *! (mat_of n x i j +! cj (mat_of n x j i))).
    split.
    - apply (P_psd SL n (mat_of n p) V w). exact HP.
    - intros Z HZ. rewrite dotn_frob.
      apply (psd_vi SL n (mat_of n x) Hm (mat_of n p) V w HO); auto.
  Qed.

  (* esum (sequential fold_left) = the finite sum *)
  Lemma esum_esumn (l : list El) : esum l = esumn (length l) (fn l).
  Proof.
    unfold esum. induction l as [|a l IH] using rev_ind; [reflexivity|].
    rewrite fold_left_app, app_length, Nat.add_comm. simpl. rewrite IH. f_equal.
    - apply esumn_ext. intros i Hi. unfold fn. rewrite app_nth1; auto.
    - unfold fn. rewrite app_nth2, Nat.sub_diag; auto.
  Qed.

  Definition Vf (v : list (list El)) : nat -> nat -> El := fun i j => nth j (nth i v []) e0.
  Definition wf (wl : list R) : nat -> R := fun k => nth k wl 0.

  Lemma psd_proj_length n (wl : list R) (v : list (list El)) :
    length v = n -> length (@psd_proj RR El n wl v) = (n * n)%nat.
  Proof.
    intros Hv. unfold psd_proj. rewrite (length_concat_rows n).
    - rewrite !map_length, Hv. reflexivity.
    - intros r Hr. apply in_map_iff in Hr. destruct Hr as [r' [<- _]]. rewrite map_length. exact Hv.
  Qed.

  Lemma psd_proj_entry n (wl : list R) (v : list (list El)) :
    length wl = n -> length v = n -> (forall r, In r v -> length r = n) ->
    forall i k, (i < n)%nat -> (k < n)%nat ->
      fn (@psd_proj RR El n wl v) (i * n + k)%nat = vdv SL n (wplus (wf wl)) (Vf v) i k.
  Proof.
    intros Hw Hv Hr i k Hi Hk. unfold fn, psd_proj.
    set (w' := map (fun x : RR => if rltb x r0 then r0 else x) wl).
    assert (Hw' : length w' = n) by (unfold w'; rewrite map_length; exact Hw).
    assert (Ew : forall j, (j < n)%nat -> nth j w' 0 = wplus (wf wl) j).
    { intros j Hj. unfold w', wplus, wf.
      rewrite (nth_map_lt _ _ _ _ 0) by (change (j < @length R wl)%nat; lia). simpl. unfold Rltb. destruct (Rlt_dec (nth j wl 0) 0); reflexivity. }
    assert (Hrow : forall i, (i < n)%nat -> length (nth i v []) = n).
    { intros i0 Hi0. apply Hr. apply nth_In. lia. }
    rewrite map_map.
    set (G := fun row : list El => map (fun rowk => esum (map2 (fun a b => a *! cj b)
                (map2 (fun (x : El) (wj : RR) => escale wj x) row w') rowk)) v).
    rewrite (nth_concat_rows e0 n).
    2:{ intros r Hin. apply in_map_iff in Hin. destruct Hin as [r' [<- _]]. unfold G. rewrite map_length. exact Hv. }
    2:{ rewrite map_length. lia. }
    2:{ exact Hk. }
    rewrite (nth_map_lt _ _ _ _ []) by lia.
    unfold G at 1.
    set (H := fun rowk => esum (map2 (fun a b => a *! cj b)
                (map2 (fun (x : El) (wj : RR) => escale wj x) (nth i v []) w') rowk)).
    rewrite (nth_map_lt _ _ _ _ []) by lia. unfold H.
    rewrite esum_esumn.
    assert (L1 : length (map2 (fun (x : El) (wj : RR) => escale wj x) (nth i v []) w') = n).
    { rewrite map2_length; rewrite Hrow; auto. }
    rewrite map2_length by (rewrite L1, Hrow; auto). rewrite L1.
    unfold vdv. apply esumn_ext. intros j Hj. unfold fn.
    rewrite (nth_map2 _ _ _ j e0 e0 e0) by (rewrite ?L1, ?Hrow; auto; lia).
    rewrite (nth_map2 _ _ _ j e0 e0 0) by (rewrite ?Hrow; auto; lia).
    rewrite Ew by auto. rewrite (escale_inj LW SL). unfold Vf. reflexivity.
  Qed.

  (* THE theorem, model level: over the eigh oracle's specification the list returned by psd_proj is the
     Frobenius projection of X onto the Hermitian positive semidefinite cone *)
  Theorem psd_proj_is_projection n (X : list El) (wl : list R) (v : list (list El)) :
    length wl = n -> length v = n -> (forall r, In r v -> length r = n) ->
    orthcols SL n (Vf v) ->
    (forall i k, (i < n)%nat -> (k < n)%nat ->
       @edivr RR El (fn X (i * n + k)%nat +! cj (fn X (k * n + i)%nat)) 2 =
       esumn n (fun j => @escale RR El (wf wl j) (Vf v i j) *! cj (Vf v k j))) ->
    length (@psd_proj RR El n wl v) = (n * n)%nat /\
    proj_at LW (n * n) (PsdCone n) (fn X) (fn (@psd_proj RR El n wl v)).
  Proof.
    intros Hw Hv Hr HO HX. split; [apply psd_proj_length; auto|].
    apply (psd_flat n _ _ (Vf v) (wf wl) HO).
    - intros i j Hi Hj. rewrite <- (escale_inj LW SL), <- (edivr_spec LW). rewrite (HX i j Hi Hj).
      unfold vdv. apply esumn_ext. intros l _. rewrite (escale_inj LW SL). reflexivity.
    - intros i j Hi Hj. apply psd_proj_entry; auto.
  Qed.
End Flat.

(* ---------------------------------------------------------------- consequences and explicit forms *)
Section Nearest.
  Context {El : Elem RR} {LW : ElemLaws El} (SL : StarLaws LW).

  (* the variational inequality makes P THE nearest point of the cone: ||P-X||^2 + ||Z-P||^2 <= ||Z-X||^2 *)
  Theorem psd_proj_nearest n (X : list El) (wl : list R) (v : list (list El)) :
    length wl = n -> length v = n -> (forall r, In r v -> length r = n) ->
    orthcols SL n (Vf v) ->
    (forall i k, (i < n)%nat -> (k < n)%nat ->
       @edivr RR El (@eadd RR El (fn X (i * n + k)%nat) (@econj RR El (fn X (k * n + i)%nat))) 2 =
       esumn n (fun j => @emul RR El (@escale RR El (wf wl j) (Vf v i j)) (@econj RR El (Vf v k j)))) ->
    let P := fn (@psd_proj RR El n wl v) in
    forall Z, PsdCone SL n Z ->
      dotn LW (n * n) (fsub P (fn X)) (fsub P (fn X)) + dotn LW (n * n) (fsub Z P) (fsub Z P)
      <= dotn LW (n * n) (fsub Z (fn X)) (fsub Z (fn X)).
  Proof.
    intros Hw Hv Hr HO HX P Z HZ.
    destruct (psd_proj_is_projection SL n X wl v Hw Hv Hr HO HX) as [_ HP].
    apply (proj_is_prox LW) in HP.
    pose proof (prox_minimiser LW _ _ _ _ _ HP Z HZ) as H. fold P in H. lra.
  Qed.

  Theorem psd_proj_unique n (X : list El) (wl : list R) (v : list (list El)) :
    length wl = n -> length v = n -> (forall r, In r v -> length r = n) ->
    orthcols SL n (Vf v) ->
    (forall i k, (i < n)%nat -> (k < n)%nat ->
       @edivr RR El (@eadd RR El (fn X (i * n + k)%nat) (@econj RR El (fn X (k * n + i)%nat))) 2 =
       esumn n (fun j => @emul RR El (@escale RR El (wf wl j) (Vf v i j)) (@econj RR El (Vf v k j)))) ->
    let P := fn (@psd_proj RR El n wl v) in
    forall Z, PsdCone SL n Z ->
      dotn LW (n * n) (fsub Z (fn X)) (fsub Z (fn X)) <= dotn LW (n * n) (fsub P (fn X)) (fsub P (fn X)) ->
      forall t, (t < n * n)%nat -> Z t = P t.
  Proof.
    intros Hw Hv Hr HO HX P Z HZ Hle.
    destruct (psd_proj_is_projection SL n X wl v Hw Hv Hr HO HX) as [_ HP].
    apply (proj_is_prox LW) in HP.
    apply (prox_unique LW _ _ _ _ _ HP Z HZ). fold P. lra.
  Qed.
End Nearest.

(* real symmetric case, every sum written out over R *)
Lemma esumn_real n (f : nat -> R) : esumn (El:=RRe) n f = sumn n f.
Proof. induction n; simpl; [reflexivity|]. rewrite IHn. reflexivity. Qed.

Lemma quad_real n (z : nat -> R) (Z : nat -> nat -> R) :
  sre RealStar (quad (El:=RRe) n z Z) = sumn n (fun i => sumn n (fun j => z i * Z i j * z j)).
Proof.
  unfold quad. simpl. rewrite esumn_real. apply sumn_ext; intros i _. rewrite esumn_real. reflexivity.
Qed.

Theorem psd_proj_real n (X wl : list R) (v : list (list R)) :
  length wl = n -> length v = n -> (forall r, In r v -> length r = n) ->
  let V := fun i j => nth j (nth i v []) 0 in
  let w := fun k => nth k wl 0 in
  let x := fun t => nth t X 0 in
  (forall k l, (k < n)%nat -> (l < n)%nat -> sumn n (fun i => V i k * V i l) = if Nat.eqb k l then 1 else 0) ->
  (forall i k, (i < n)%nat -> (k < n)%nat ->
     (x (i * n + k)%nat + x (k * n + i)%nat) / 2 = sumn n (fun j => w j * V i j * V k j)) ->
  let p := fun t => nth t (psd_proj (El:=RRe) n wl v) 0 in
  length (psd_proj (El:=RRe) n wl v) = (n * n)%nat /\
  (forall i j, (i < n)%nat -> (j < n)%nat -> p (j * n + i)%nat = p (i * n + j)%nat) /\
  (forall z : nat -> R, 0 <= sumn n (fun i => sumn n (fun j => z i * p (i * n + j)%nat * z j))) /\
  forall Z : nat -> R,
    (forall i j, (i < n)%nat -> (j < n)%nat -> Z (j * n + i)%nat = Z (i * n + j)%nat) ->
    (forall z : nat -> R, 0 <= sumn n (fun i => sumn n (fun j => z i * Z (i * n + j)%nat * z j))) ->
    sumn (n * n) (fun t => (x t - p t) * (Z t - p t)) <= 0 /\
    sumn (n * n) (fun t => (p t - x t) * (p t - x t)) + sumn (n * n) (fun t => (Z t - p t) * (Z t - p t))
    <= sumn (n * n) (fun t => (Z t - x t) * (Z t - x t)).
Proof.
  intros Hw Hv Hr V w x HO HX p.
  assert (HO' : orthcols RealStar n (Vf (El:=RRe) v)).
  { intros k l Hk Hl. rewrite esumn_real. exact (HO k l Hk Hl). }
  assert (HX' : forall i k, (i < n)%nat -> (k < n)%nat ->
       @edivr RR RRe (@eadd RR RRe (fn (El:=RRe) X (i * n + k)%nat) (@econj RR RRe (fn (El:=RRe) X (k * n + i)%nat))) 2 =
       esumn n (fun j => @emul RR RRe (@escale RR RRe (wf wl j) (Vf (El:=RRe) v i j)) (@econj RR RRe (Vf (El:=RRe) v k j)))).
  { intros i k Hi Hk. rewrite esumn_real. exact (HX i k Hi Hk). }
  assert (cone : forall Z : nat -> R, PsdCone RealStar n Z <->
     (forall i j, (i < n)%nat -> (j < n)%nat -> Z (j * n + i)%nat = Z (i * n + j)%nat) /\
     (forall z : nat -> R, 0 <= sumn n (fun i => sumn n (fun j => z i * Z (i * n + j)%nat * z j)))).
  { intros Z. unfold PsdCone, PSD.
    split; intros [H1 H2]; (split; [exact H1|]); intros z; specialize (H2 z).
    - rewrite quad_real in H2. exact H2.
    - rewrite quad_real. exact H2. }
  destruct (psd_proj_is_projection RealStar n X wl v Hw Hv Hr HO' HX') as [HL [HC HVI]].
  apply cone in HC. destruct HC as [HC1 HC2].
  split; [exact HL|]. split; [exact HC1|]. split; [exact HC2|].
  intros Z HZ1 HZ2. assert (HZ : PsdCone RealStar n Z) by (apply cone; split; assumption).
  split.
  - exact (HVI Z HZ).
  - exact (psd_proj_nearest RealStar n X wl v Hw Hv Hr HO' HX' Z HZ).
Qed.

(* the hypotheses are satisfiable with a non-symmetric input and a negative eigenvalue:
   X = [[23/25, 61/25], [11/25, 2/25]], (X+X^T)/2 = V diag(-1, 2) V^T, V = [[3/5, 4/5], [-4/5, 3/5]] *)
Example psd_real_hypotheses_sat :
  let n := 2%nat in
  let X := [23/25; 61/25; 11/25; 2/25] in
  let wl := [-1; 2] in
  let v := [[3/5; 4/5]; [-4/5; 3/5]] in
  let V := fun i j => nth j (nth i v []) 0 in
  let w := fun k => nth k wl 0 in
  let x := fun t => nth t X 0 in
  length wl = n /\ length v = n /\ (forall r, In r v -> length r = n) /\
  (forall k l, (k < n)%nat -> (l < n)%nat -> sumn n (fun i => V i k * V i l) = if Nat.eqb k l then 1 else 0) /\
  (forall i k, (i < n)%nat -> (k < n)%nat ->
     (x (i * n + k)%nat + x (k * n + i)%nat) / 2 = sumn n (fun j => w j * V i j * V k j)).
Proof.
  simpl. repeat split.
  - intros r [<-|[<-|[]]]; reflexivity.
  - intros k l Hk Hl. destruct k as [|[|k]]; [| |lia]; (destruct l as [|[|l]]; [| |lia]); simpl; field.
  - intros i k Hi Hk. destruct i as [|[|i]]; [| |lia]; (destruct k as [|[|k]]; [| |lia]); simpl; field.
Qed.

(* complex Hermitian case, complex numbers as pairs (re, im), every operation written out *)
Definition cadd (a b : R * R) : R * R := (fst a + fst b, snd a + snd b).
Definition cmul (a b : R * R) : R * R := (fst a * fst b - snd a * snd b, fst a * snd b + snd a * fst b).
Definition cconj (a : R * R) : R * R := (fst a, - snd a).
Definition cscale (t : R) (a : R * R) : R * R := (t * fst a, t * snd a).
Definition cdivr (a : R * R) (t : R) : R * R := (fst a / t, snd a / t).
Definition csumn (n : nat) (f : nat -> R * R) : R * R := (sumn n (fun i => fst (f i)), sumn n (fun i => snd (f i))).

Lemma esumn_cplx n (f : nat -> R * R) : esumn (El:=RCx) n f = csumn n f.
Proof. induction n; simpl; [reflexivity|]. rewrite IHn. reflexivity. Qed.

Lemma quad_cplx n (z : nat -> R * R) (Z : nat -> nat -> R * R) :
  sre CplxStar (quad (El:=RCx) n z Z) =
  fst (csumn n (fun i => csumn n (fun j => cmul (cmul (cconj (z i)) (Z i j)) (z j)))).
Proof.
  unfold quad. rewrite esumn_cplx. unfold csumn at 1 2. simpl sre. simpl fst.
  apply sumn_ext; intros i _. rewrite esumn_cplx. reflexivity.
Qed.

Theorem psd_proj_complex n (X : list (R * R)) (wl : list R) (v : list (list (R * R))) :
  length wl = n -> length v = n -> (forall r, In r v -> length r = n) ->
  let V := fun i j => nth j (nth i v []) (0, 0) in
  let w := fun k => nth k wl 0 in
  let x := fun t => nth t X (0, 0) in
  (forall k l, (k < n)%nat -> (l < n)%nat ->
     csumn n (fun i => cmul (cconj (V i k)) (V i l)) = if Nat.eqb k l then (1, 0) else (0, 0)) ->
  (forall i k, (i < n)%nat -> (k < n)%nat ->
     cdivr (cadd (x (i * n + k)%nat) (cconj (x (k * n + i)%nat))) 2 =
     csumn n (fun j => cmul (cscale (w j) (V i j)) (cconj (V k j)))) ->
  let p := fun t => nth t (psd_proj (El:=RCx) n wl v) (0, 0) in
  length (psd_proj (El:=RCx) n wl v) = (n * n)%nat /\
  (forall i j, (i < n)%nat -> (j < n)%nat -> p (j * n + i)%nat = cconj (p (i * n + j)%nat)) /\
  (forall z : nat -> R * R,
     0 <= fst (csumn n (fun i => csumn n (fun j => cmul (cmul (cconj (z i)) (p (i * n + j)%nat)) (z j))))) /\
  forall Z : nat -> R * R,
    (forall i j, (i < n)%nat -> (j < n)%nat -> Z (j * n + i)%nat = cconj (Z (i * n + j)%nat)) ->
    (forall z : nat -> R * R,
       0 <= fst (csumn n (fun i => csumn n (fun j => cmul (cmul (cconj (z i)) (Z (i * n + j)%nat)) (z j))))) ->
    sumn (n * n) (fun t => (fst (x t) - fst (p t)) * (fst (Z t) - fst (p t)) +
                           (snd (x t) - snd (p t)) * (snd (Z t) - snd (p t))) <= 0 /\
    sumn (n * n) (fun t => cdist2 (p t) (x t)) + sumn (n * n) (fun t => cdist2 (Z t) (p t))
    <= sumn (n * n) (fun t => cdist2 (Z t) (x t)).
Proof.
  intros Hw Hv Hr V w x HO HX p.
  assert (HO' : orthcols CplxStar n (Vf (El:=RCx) v)).
  { intros k l Hk Hl. rewrite esumn_cplx. exact (HO k l Hk Hl). }
  assert (HX' : forall i k, (i < n)%nat -> (k < n)%nat ->
       @edivr RR RCx (@eadd RR RCx (fn (El:=RCx) X (i * n + k)%nat) (@econj RR RCx (fn (El:=RCx) X (k * n + i)%nat))) 2 =
       esumn n (fun j => @emul RR RCx (@escale RR RCx (wf wl j) (Vf (El:=RCx) v i j)) (@econj RR RCx (Vf (El:=RCx) v k j)))).
  { intros i k Hi Hk. rewrite esumn_cplx. exact (HX i k Hi Hk). }
  assert (cone : forall Z : nat -> R * R, PsdCone CplxStar n Z <->
     (forall i j, (i < n)%nat -> (j < n)%nat -> Z (j * n + i)%nat = cconj (Z (i * n + j)%nat)) /\
     (forall z : nat -> R * R,
       0 <= fst (csumn n (fun i => csumn n (fun j => cmul (cmul (cconj (z i)) (Z (i * n + j)%nat)) (z j)))))).
  { intros Z. unfold PsdCone, PSD.
    split; intros [H1 H2]; (split; [exact H1|]); intros z; specialize (H2 z).
    - rewrite quad_cplx in H2. exact H2.
    - rewrite quad_cplx. exact H2. }
  destruct (psd_proj_is_projection CplxStar n X wl v Hw Hv Hr HO' HX') as [HL [HC HVI]].
  apply cone in HC. destruct HC as [HC1 HC2].
  split; [exact HL|]. split; [exact HC1|]. split; [exact HC2|].
  intros Z HZ1 HZ2. assert (HZ : PsdCone CplxStar n Z) by (apply cone; split; assumption).
  split.
  - exact (HVI Z HZ).
  - exact (psd_proj_nearest CplxStar n X wl v Hw Hv Hr HO' HX' Z HZ).
Qed.

(* satisfiable, complex: X = [[23/25+i, 1+36i/25], [-1-36i/25, 2/25]] (not Hermitian),
   (X+X^H)/2 = V diag(-1, 2) V^H with the unitary V = [[3/5, 4i/5], [4i/5, 3/5]] *)
Example psd_complex_hypotheses_sat :
  let n := 2%nat in
  let X := [(23/25, 1); (1, 36/25); (-1, -36/25); (2/25, 0)] in
  let wl := [-1; 2] in
  let v := [[(3/5, 0); (0, 4/5)]; [(0, 4/5); (3/5, 0)]] in
  let V := fun i j => nth j (nth i v []) (0, 0) in
  let w := fun k => nth k wl 0 in
  let x := fun t => nth t X (0, 0) in
  length wl = n /\ length v = n /\ (forall r, In r v -> length r = n) /\
  (forall k l, (k < n)%nat -> (l < n)%nat ->
     csumn n (fun i => cmul (cconj (V i k)) (V i l)) = if Nat.eqb k l then (1, 0) else (0, 0)) /\
  (forall i k, (i < n)%nat -> (k < n)%nat ->
     cdivr (cadd (x (i * n + k)%nat) (cconj (x (k * n + i)%nat))) 2 =
     csumn n (fun j => cmul (cscale (w j) (V i j)) (cconj (V k j)))).
Proof.
  simpl. repeat split.
  - intros r [<-|[<-|[]]]; reflexivity.
  - intros k l Hk Hl. destruct k as [|[|k]]; [| |lia]; (destruct l as [|[|l]]; [| |lia]);
      unfold csumn, cmul, cconj; simpl; f_equal; field.
  - intros i k Hi Hk. destruct i as [|[|i]]; [| |lia]; (destruct k as [|[|k]]; [| |lia]);
      unfold csumn, cmul, cconj, cdivr, cadd, cscale; simpl; f_equal; field.
Qed.

(* ---------------------------------------------------------------- the model's herm_part and the PsdProj node *)
Lemma nth_firstn_lt {A} (n k : nat) (l : list A) (d : A) : (k < n)%nat -> nth k (firstn n l) d = nth k l d.
Proof.
  revert k l; induction n; intros k l Hk; [lia|].
  destruct l; simpl; [destruct k; reflexivity|]. destruct k; [reflexivity|]. apply IHn. lia.
Qed.
Lemma nth_skipn_add {A} (m k : nat) (l : list A) (d : A) : nth k (skipn m l) d = nth (m + k) l d.
Proof.
  revert l; induction m; intros l; [reflexivity|].
  destruct l; simpl; [destruct k; reflexivity|]. apply IHm.
Qed.

Lemma skipn_skipn_add {A} (a b : nat) (l : list A) : skipn a (skipn b l) = skipn (b + a) l.
Proof.
  revert l; induction b; intros l; [reflexivity|].
  destruct l; simpl; [apply skipn_nil|]. apply IHb.
Qed.

Section HermPart.
  Context {El : Elem RR}.

  Lemma chunks_length n rows (l : list El) : length (@chunks RR El n rows l) = rows.
  Proof. revert l; induction rows; intros; simpl; auto. Qed.

  Lemma chunks_row n rows (l : list El) i : (i < rows)%nat ->
    nth i (@chunks RR El n rows l) [] = firstn n (skipn (i * n) l).
  Proof.
    revert l i; induction rows; intros l i Hi; [lia|]. destruct i; simpl; [reflexivity|].
    rewrite IHrows by lia. rewrite skipn_skipn_add. f_equal; f_equal; lia.
  Qed.

  Lemma chunks_entry n rows (l : list El) i k : (i < rows)%nat -> (k < n)%nat ->
    nth k (nth i (@chunks RR El n rows l) []) e0 = nth (i * n + k) l e0.
  Proof. intros Hi Hk. rewrite chunks_row, nth_firstn_lt, nth_skipn_add by auto. reflexivity. Qed.

  Lemma transpose_aux_length n (m : list (list El)) : length (@transpose_aux RR El n m) = n.
  Proof. revert m; induction n; intros; simpl; auto. Qed.

  Lemma transpose_aux_row n (m : list (list El)) j : (j < n)%nat ->
    nth j (@transpose_aux RR El n m) [] = map (fun row => nth j row e0) m.
  Proof.
    revert m j; induction n; intros m j Hj; [lia|]. destruct j; simpl.
    - apply map_ext. intros [|a r]; reflexivity.
    - rewrite IHn by lia. rewrite map_map. apply map_ext. intros [|a r]; simpl; [destruct j; reflexivity|reflexivity].
  Qed.

  (* entry (i,k) of the model's herm_part = (X_ik + conj X_ki)/2 *)
  Lemma herm_part_entry n (X : list El) i k : length X = (n * n)%nat -> (i < n)%nat -> (k < n)%nat ->
    nth k (nth i (@herm_part RR El n X) []) e0 =
    @edivr RR El (@eadd RR El (fn X (i * n + k)%nat) (@econj RR El (fn X (k * n + i)%nat))) 2.
  Proof.
    intros HL Hi Hk. unfold herm_part, conjT, transpose.
    set (m := chunks n n X).
    assert (Lm : length m = n) by apply chunks_length.
    assert (Lrow : forall a, (a < n)%nat -> length (nth a m []) = n).
    { intros a Ha. unfold m. rewrite chunks_row by auto. rewrite firstn_length, skipn_length, HL. nia. }
    assert (Lc : length (map (map econj) (transpose_aux n m)) = n) by (rewrite map_length; apply transpose_aux_length).
    rewrite (nth_map2 _ _ _ i [] [] []) by (rewrite ?Lm, ?Lc; auto).
    rewrite (nth_map_lt _ _ _ _ []) by (rewrite transpose_aux_length; auto).
    rewrite transpose_aux_row by auto.
    rewrite (nth_map2 _ _ _ k e0 e0 e0) by (rewrite ?map_length, ?Lrow, ?Lm; auto).
    rewrite (nth_map_lt _ _ _ _ e0) by (rewrite map_length, Lm; auto).
    rewrite (nth_map_lt _ _ _ _ []) by (rewrite Lm; auto).
    unfold m. rewrite !chunks_entry by auto. reflexivity.
  Qed.
End HermPart.

Section Node.
  Context {El : Elem RR} {LW : ElemLaws El} (SL : StarLaws LW).

  (* the oracle specification stated on the model's own herm_part term, and the conclusion on the PsdProj node of
     [apply] (n = number of rows of v; the step size alpha is ignored, as in prox.py) *)
  Theorem psdproj_node_is_projection s (wl : list R) (v : list (list El)) (alpha : sv R) (X : list El) :
    let n := length v in
    length X = (n * n)%nat -> length wl = n -> (forall r, In r v -> length r = n) ->
    orthcols SL n (Vf v) ->
    (forall i k, (i < n)%nat -> (k < n)%nat ->
       nth k (nth i (@herm_part RR El n X) []) e0 =
       esumn n (fun j => @emul RR El (@escale RR El (wf wl j) (Vf v i j)) (@econj RR El (Vf v k j)))) ->
    exists p, @apply RR El (@PsdProj RR El s wl v) alpha X = Some p /\ length p = length X /\
      proj_at LW (n * n) (PsdCone SL n) (fn X) (fn p).
  Proof.
    intros n HL Hw Hr HO HX. eexists. split; [reflexivity|]. fold n.
    destruct (psd_proj_is_projection SL n X wl v Hw eq_refl Hr HO) as [H1 H2].
    - intros i k Hi Hk. rewrite <- herm_part_entry by auto. apply HX; auto.
    - split; [rewrite H1, HL; reflexivity|exact H2].
  Qed.
End Node.
