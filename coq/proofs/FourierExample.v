(* proofs/FourierExample.v — the hypotheses of the C05 theorems are satisfiable (exact instances),
   and the dtype decision table. *)
From Coq Require Import ZArith List Lia Bool Ring QArith Qcanon.
From SV Require Import lib.Scalar lib.BigSum model.Fourier proofs.Fourier1D.
Import ListNotations.
Local Open Scope Z_scope.

Lemma fft_out_dtype_table d : fft_out_dtype d = match d with C64 => C64 | C128 => C128 | _ => C64 end.
Proof. destruct d; reflexivity. Qed.

(* w = -i in the Gaussian integers is a primitive 4th root of unity of modulus one *)
Lemma root_ok_Zi_4 : root_ok GRing 4 (0, -1).
Proof.
  repeat split; try lia; try reflexivity.
  intros m Hm. assert (m = 1 \/ m = 2 \/ m = 3) as [->|[->| ->]] by lia; vm_compute; reflexivity.
Qed.

Lemma root_ok_small : root_ok ZRing 1 1 /\ root_ok GRing 2 (-1, 0).
Proof.
  split; repeat split; try lia; try reflexivity; intros m Hm; try lia.
  assert (m = 1) as -> by lia. vm_compute. reflexivity.
Qed.

(* Q(i): pairs of canonical rationals.  There the scalings exist as well:
   n = 4, w = -i, s = 1/2 (s*s*4 = 1, conj s = s), v = 1/4 (v*4 = 1). *)
Definition QI := (Qc * Qc)%type.
Definition qi_add (a b : QI) : QI := (fst a + fst b, snd a + snd b)%Qc.
Definition qi_mul (a b : QI) : QI := (fst a * fst b - snd a * snd b, fst a * snd b + snd a * fst b)%Qc.
Definition qi_sub (a b : QI) : QI := (fst a - fst b, snd a - snd b)%Qc.
Definition qi_opp (a : QI) : QI := (- fst a, - snd a)%Qc.
Definition qi_conj (a : QI) : QI := (fst a, - snd a)%Qc.
Definition QIOps : Ops := mkOps QI (Q2Qc 0, Q2Qc 0) (Q2Qc 1, Q2Qc 0) qi_add qi_mul qi_sub qi_opp qi_conj.

Lemma QI_ring_theory : ring_theory (R:=QI) (Q2Qc 0, Q2Qc 0) (Q2Qc 1, Q2Qc 0) qi_add qi_mul qi_sub qi_opp eq.
Proof.
  constructor; intros; unfold qi_add, qi_mul, qi_sub, qi_opp;
    repeat match goal with x : QI |- _ => destruct x end;
    apply injective_projections; cbn [fst snd]; ring.
Qed.

Definition QIRing : StarRing.
Proof.
  refine (mkStarRing QIOps QI_ring_theory _ _ _); intros;
    repeat match goal with x : K QIOps |- _ => destruct x end;
    apply injective_projections; cbn; ring.
Defined.

Definition qi (a b : Q) : QI := (Q2Qc a, Q2Qc b).

Lemma qi_eq (a b : QI) : Qeq (this (fst a)) (this (fst b)) -> Qeq (this (snd a)) (this (snd b)) -> a = b.
Proof.
  destruct a as [a1 a2], b as [b1 b2]. cbn [fst snd]. intros H1 H2.
  apply injective_projections; cbn [fst snd]; apply Qc_is_canon; assumption.
Qed.

Lemma root_ok_Qi_4 : root_ok QIRing 4 (qi 0 (-1)).
Proof.
  unfold root_ok. split; [lia|]. split; [apply qi_eq; vm_compute; reflexivity|].
  split; [|apply qi_eq; vm_compute; reflexivity].
  intros m Hm. assert (m = 1 \/ m = 2 \/ m = 3) as [->|[->| ->]] by lia; apply qi_eq; vm_compute; reflexivity.
Qed.

Lemma scalings_Qi_4 :
  let s : QIRing := qi (1 # 2) 0 in let v : QIRing := qi (1 # 4) 0 in
  mul (mul s s) (nR 4) = one /\ conj s = s /\ mul v (nR 4) = one.
Proof. cbv zeta. repeat split; apply qi_eq; vm_compute; reflexivity. Qed.
