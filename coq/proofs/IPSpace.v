(* IPSpace.v — real inner-product spaces as a record with laws (NOT axioms: every theorem
   quantifies over the record), the operations record [ops_of H : IPOps] that instantiates the
   solver models of model/Alg.v on it, and the little algebra the solver proofs need.

   C^n with <x,y> := Re(x^H y) is such a space and a Hermitian matrix is self-adjoint in it,
   so complex Hermitian problems are covered.  Instances R and R^2 at the end (non-vacuity).

   Only the group laws of + are assumed of the vector operations; the scaling laws and the
   linearity of self-adjoint operators are DERIVED from the inner-product laws through
   definiteness ([vec_ext]). *)
From Coq Require Import Reals Lra Lia ZArith Bool.
From SV Require Import model.Alg.
Local Open Scope R_scope.

Record IPSpace := mkIPSpace {
  ipV : Type;
  ip0 : ipV;
  ipadd : ipV -> ipV -> ipV;
  ipsub : ipV -> ipV -> ipV;
  ipscale : R -> ipV -> ipV;
  ipdivs : ipV -> R -> ipV;
  ipdot : ipV -> ipV -> R;
  ip_add_comm : forall x y, ipadd x y = ipadd y x;
  ip_add_assoc : forall x y z, ipadd x (ipadd y z) = ipadd (ipadd x y) z;
  ip_add_0_r : forall x, ipadd x ip0 = x;
  ip_add_opp : forall x, ipadd x (ipscale (-1) x) = ip0;
  ip_sub_def : forall x y, ipsub x y = ipadd x (ipscale (-1) y);
  ip_divs_def : forall x s, ipdivs x s = ipscale (/ s) x;
  ip_dot_sym : forall x y, ipdot x y = ipdot y x;
  ip_dot_add_l : forall x y z, ipdot (ipadd x y) z = ipdot x z + ipdot y z;
  ip_dot_scale_l : forall a x y, ipdot (ipscale a x) y = a * ipdot x y;
  ip_dot_pos : forall x, 0 <= ipdot x x;
  ip_dot_def : forall x, ipdot x x = 0 -> x = ip0 }.

(* Python `a <= b` on reals *)
Definition Rleb (a b : R) : bool := if Rle_dec a b then true else false.
Lemma Rleb_true a b : Rleb a b = true <-> a <= b.
Proof. unfold Rleb. destruct (Rle_dec a b); split; intros; try discriminate; tauto. Qed.
Lemma Rleb_false a b : Rleb a b = false <-> b < a.
Proof. unfold Rleb. destruct (Rle_dec a b); split; intros; try discriminate; try lra; reflexivity. Qed.

(* the operations record on which the models of model/Alg.v are instantiated for the proofs *)
Definition ops_of (H : IPSpace) : IPOps :=
  mkIPOps R (ipV H) 0 1 Rplus Rminus Rmult Rdiv Ropp sqrt Rleb
          (ipadd H) (ipsub H) (ipscale H) (ipdivs H) (ipdot H).

Definition selfadjoint (H : IPSpace) (A : ipV H -> ipV H) : Prop :=
  forall x y, ipdot H (A x) y = ipdot H x (A y).
Definition posdef (H : IPSpace) (A : ipV H -> ipV H) : Prop :=
  forall x, x <> ip0 H -> 0 < ipdot H x (A x).
Definition possemidef (H : IPSpace) (A : ipV H -> ipV H) : Prop :=
  forall x, 0 <= ipdot H x (A x).

Section Theory.
  Variable H : IPSpace.
  Notation V := (ipV H).
  Notation "x +v y" := (ipadd H x y) (at level 50, left associativity).
  Notation "x -v y" := (ipsub H x y) (at level 50, left associativity).
  Notation "a *v x" := (ipscale H a x) (at level 40, left associativity).
  Notation "<< x , y >>" := (ipdot H x y) (at level 0, format "<< x ,  y >>").
  Notation O := (ip0 H).

  Lemma dot_add_r x y z : <<z, x +v y>> = <<z, x>> + <<z, y>>.
  Proof. rewrite ip_dot_sym, ip_dot_add_l, (ip_dot_sym _ x), (ip_dot_sym _ y). reflexivity. Qed.
  Lemma dot_scale_r a x y : <<y, a *v x>> = a * <<y, x>>.
  Proof. rewrite ip_dot_sym, ip_dot_scale_l, (ip_dot_sym _ x). reflexivity. Qed.
  Lemma dot_sub_l x y z : <<x -v y, z>> = <<x, z>> - <<y, z>>.
  Proof. rewrite ip_sub_def, ip_dot_add_l, ip_dot_scale_l. ring. Qed.
  Lemma dot_sub_r x y z : <<z, x -v y>> = <<z, x>> - <<z, y>>.
  Proof. rewrite ip_sub_def, dot_add_r, dot_scale_r. ring. Qed.
  Lemma dot_0_l x : <<O, x>> = 0.
  Proof.
    assert (E : <<O +v O, x>> = <<O, x>>) by (rewrite ip_add_0_r; reflexivity).
    rewrite ip_dot_add_l in E. lra.
  Qed.
  Lemma dot_0_r x : <<x, O>> = 0.
  Proof. rewrite ip_dot_sym. apply dot_0_l. Qed.
  Lemma dot_divs_l x s y : <<ipdivs H x s, y>> = / s * <<x, y>>.
  Proof. rewrite ip_divs_def, ip_dot_scale_l. reflexivity. Qed.
  Lemma dot_divs_r x s y : <<y, ipdivs H x s>> = / s * <<y, x>>.
  Proof. rewrite ip_divs_def, dot_scale_r. reflexivity. Qed.

  Lemma sub_eq0 v w : v -v w = O -> v = w.
  Proof.
    intros E. rewrite ip_sub_def in E.
    rewrite <- (ip_add_0_r H v), <- (ip_add_opp H w).
    rewrite (ip_add_comm H w), ip_add_assoc, E.
    rewrite ip_add_comm. apply ip_add_0_r.
  Qed.

  (* two vectors with the same inner products against everything are equal *)
  Lemma vec_ext v w : (forall t, <<v, t>> = <<w, t>>) -> v = w.
  Proof.
    intros E. apply sub_eq0. apply ip_dot_def.
    rewrite dot_sub_l. rewrite E. lra.
  Qed.

  Lemma vec_eq_dec v : v = O \/ v <> O.
  Proof.
    destruct (Req_dec <<v, v>> 0) as [E|E].
    - left. apply ip_dot_def, E.
    - right. intros ->. apply E, dot_0_l.
  Qed.

  Lemma dot_self_pos v : v <> O -> 0 < <<v, v>>.
  Proof.
    intros Hn. destruct (ip_dot_pos H v) as [|E]; [assumption|].
    exfalso. apply Hn, ip_dot_def. symmetry. exact E.
  Qed.
End Theory.

(* normalisation of inner products to sums of products of atoms *)
Ltac ipnorm H :=
  repeat first
    [ rewrite (ip_dot_add_l H) | rewrite (dot_add_r H)
    | rewrite (ip_dot_scale_l H) | rewrite (dot_scale_r H)
    | rewrite (dot_sub_l H) | rewrite (dot_sub_r H)
    | rewrite (dot_divs_l H) | rewrite (dot_divs_r H)
    | rewrite (dot_0_l H) | rewrite (dot_0_r H) ].
Ltac ipnorm_in H Hyp :=
  repeat first
    [ rewrite (ip_dot_add_l H) in Hyp | rewrite (dot_add_r H) in Hyp
    | rewrite (ip_dot_scale_l H) in Hyp | rewrite (dot_scale_r H) in Hyp
    | rewrite (dot_sub_l H) in Hyp | rewrite (dot_sub_r H) in Hyp
    | rewrite (dot_divs_l H) in Hyp | rewrite (dot_divs_r H) in Hyp
    | rewrite (dot_0_l H) in Hyp | rewrite (dot_0_r H) in Hyp ].
(* vector identities by extensionality + ring *)
Ltac vec H := apply (vec_ext H); intro; ipnorm H; try ring.

Section Derived.
  Variable H : IPSpace.
  Notation V := (ipV H).
  Notation "x +v y" := (ipadd H x y) (at level 50, left associativity).
  Notation "x -v y" := (ipsub H x y) (at level 50, left associativity).
  Notation "a *v x" := (ipscale H a x) (at level 40, left associativity).
  Notation "<< x , y >>" := (ipdot H x y) (at level 0, format "<< x ,  y >>").
  Notation O := (ip0 H).

  Lemma scale_1 x : 1 *v x = x. Proof. vec H. Qed.
  Lemma scale_0 x : 0 *v x = O. Proof. vec H. Qed.
  Lemma scale_O a : a *v O = O. Proof. vec H. Qed.
  Lemma add_0_l x : O +v x = x. Proof. vec H. Qed.
  Lemma scale_scale a b x : a *v (b *v x) = (a * b) *v x. Proof. vec H. Qed.
  Lemma scale_add_r a x y : a *v (x +v y) = a *v x +v a *v y. Proof. vec H. Qed.
  Lemma scale_add_l a b x : (a + b) *v x = a *v x +v b *v x. Proof. vec H. Qed.
  Lemma sub_self x : x -v x = O. Proof. vec H. Qed.
  Lemma add_sub_cancel x y : x +v (y -v x) = y. Proof. vec H. Qed.

  (* an everywhere-defined symmetric operator is linear *)
  Section SA.
    Variable A : V -> V.
    Hypothesis Asa : selfadjoint H A.
    Lemma sa_add x y : A (x +v y) = A x +v A y.
    Proof. apply (vec_ext H); intro t. rewrite Asa. ipnorm H. rewrite <- !Asa. reflexivity. Qed.
    Lemma sa_scale a x : A (a *v x) = a *v A x.
    Proof. apply (vec_ext H); intro t. rewrite Asa. ipnorm H. rewrite <- !Asa. reflexivity. Qed.
    Lemma sa_sub x y : A (x -v y) = A x -v A y.
    Proof. apply (vec_ext H); intro t. rewrite Asa. ipnorm H. rewrite <- !Asa. reflexivity. Qed.
    Lemma sa_0 : A O = O.
    Proof. apply (vec_ext H); intro t. rewrite Asa. ipnorm H. reflexivity. Qed.
    Lemma sa_sym x y : <<x, A y>> = <<y, A x>>.
    Proof. rewrite <- Asa. apply ip_dot_sym. Qed.
  End SA.

  Lemma id_selfadjoint : selfadjoint H (fun x => x).
  Proof. intros x y. reflexivity. Qed.
  Lemma id_posdef : posdef H (fun x => x).
  Proof. intros x Hx. apply dot_self_pos, Hx. Qed.

  Lemma posdef_zero (A : V -> V) : posdef H A -> forall x, <<x, A x>> = 0 -> x = O.
  Proof.
    intros PD x E. destruct (vec_eq_dec H x) as [|N]; [assumption|].
    specialize (PD x N). lra.
  Qed.
  Lemma posdef_nonneg (A : V -> V) : selfadjoint H A -> posdef H A -> forall x, 0 <= <<x, A x>>.
  Proof.
    intros SA PD x. destruct (vec_eq_dec H x) as [->|N].
    - rewrite dot_0_l. lra.
    - left. apply PD, N.
  Qed.

  (* Cauchy-Schwarz: <x,y>^2 <= <x,x><y,y> *)
  Lemma cauchy_schwarz x y : <<x, y>> * <<x, y>> <= <<x, x>> * <<y, y>>.
  Proof.
    destruct (vec_eq_dec H y) as [->|N].
    - rewrite !dot_0_r. lra.
    - pose proof (dot_self_pos H y N) as Py.
      pose proof (ip_dot_pos H (<<y, y>> *v x -v <<x, y>> *v y)) as Q.
      ipnorm_in H Q. rewrite (ip_dot_sym H y x) in Q.
      set (a := <<x, x>>) in *. set (c := <<x, y>>) in *. set (d := <<y, y>>) in *.
      nra.
  Qed.
End Derived.

(* ------------------------------------------------------------------------- *)
(* instances: the hypotheses are satisfiable                                   *)
(* ------------------------------------------------------------------------- *)
Definition R1Space : IPSpace.
Proof.
  refine (mkIPSpace R 0 Rplus Rminus Rmult (fun x s => / s * x) Rmult _ _ _ _ _ _ _ _ _ _ _);
    intros; try ring.
  - nra.
  - nra.
Defined.

Definition R2 := (R * R)%type.
Definition R2Space : IPSpace.
Proof.
  refine (mkIPSpace R2 (0, 0)
            (fun x y => (fst x + fst y, snd x + snd y))
            (fun x y => (fst x + -1 * fst y, snd x + -1 * snd y))
            (fun a x => (a * fst x, a * snd x))
            (fun x s => (/ s * fst x, / s * snd x))
            (fun x y => fst x * fst y + snd x * snd y) _ _ _ _ _ _ _ _ _ _ _);
    intros; try (destruct x); try (destruct y); try (destruct z); cbn [fst snd]; try (f_equal; ring); try ring.
  - pose proof (Rle_0_sqr r) as Q1. pose proof (Rle_0_sqr r0) as Q2. unfold Rsqr in *. lra.
  - cbn [fst snd] in H. pose proof (Rle_0_sqr r) as Q1. pose proof (Rle_0_sqr r0) as Q2. unfold Rsqr in *.
    assert (E1 : r * r = 0) by lra. assert (E2 : r0 * r0 = 0) by lra.
    assert (r = 0) by (apply Rsqr_0_uniq; exact E1). assert (r0 = 0) by (apply Rsqr_0_uniq; exact E2).
    subst. reflexivity.
Defined.

(* a symmetric positive-definite 2x2 matrix acting on R^2 *)
Definition A2 (x : R2) : R2 := (2 * fst x + snd x, fst x + 3 * snd x).
Lemma A2_selfadjoint : selfadjoint R2Space A2.
Proof. intros [a b] [c d]. cbn. ring. Qed.
Lemma A2_posdef : posdef R2Space A2.
Proof.
  intros [a b] N. cbn.
  assert (a <> 0 \/ b <> 0).
  { destruct (Req_dec a 0) as [Ea|Ea]; [|left; exact Ea]. destruct (Req_dec b 0) as [Eb|Eb]; [|right; exact Eb].
    exfalso. apply N. subst. reflexivity. }
  pose proof (Rle_0_sqr (a + b)) as Q0. pose proof (Rle_0_sqr a) as Q1. pose proof (Rle_0_sqr b) as Q2.
  destruct H as [Ha|Hb].
  - pose proof (Rsqr_pos_lt a Ha) as Q3. unfold Rsqr in *. lra.
  - pose proof (Rsqr_pos_lt b Hb) as Q3. unfold Rsqr in *. lra.
Qed.
Lemma A2_e1_nonzero : A2 (1, 0) <> ip0 R2Space.
Proof. unfold A2. cbn. intros E. inversion E. lra. Qed.
