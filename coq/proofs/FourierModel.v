(* proofs/FourierModel.v — theorems about the model of fourier._fftc/_ifftc (model/Fourier.v) when
   its oracle tables hold the powers of roots of unity w_n (one for every axis length n) and the
   scalings s_n with s_n^2 n = 1, v_n with v_n n = 1. *)
From Coq Require Import ZArith List Lia Bool Ring Permutation.
From SV Require Import lib.Scalar lib.BigSum lib.LoopIR lib.NdArray lib.Gather model.Rearrange model.Fourier
  proofs.Rearrange proofs.Fourier1D proofs.FourierND.
Import ListNotations.
Local Open Scope Z_scope.

Lemma grange_fftshift : grange g_fftshift.
Proof. intros n k Hn. unfold g_fftshift. apply Z.mod_pos_bound. exact Hn. Qed.
Lemma grange_ifftshift : grange g_ifftshift.
Proof. intros n k Hn. unfold g_ifftshift. apply Z.mod_pos_bound. exact Hn. Qed.

(* sortZ permutes, so util._normalize_axes returns the listed axes mod ndim in some order *)
Lemma insertZ_perm a l : Permutation (insertZ a l) (a :: l).
Proof.
  induction l as [|b l IH]; simpl; [reflexivity|].
  destruct (a <=? b); [reflexivity|]. rewrite IH. apply perm_swap.
Qed.
Lemma sortZ_perm l : Permutation (sortZ l) l.
Proof. induction l as [|a l IH]; simpl; [reflexivity|]. rewrite insertZ_perm. constructor. exact IH. Qed.

Lemma normalize_axes_perm l nd :
  Permutation (normalize_axes_sorted (Some l) nd) (map (fun a => Z.to_nat (a mod nd)) l).
Proof. unfold normalize_axes_sorted. apply Permutation_map. apply sortZ_perm. Qed.

Lemma normalize_axes_lt axes nd : 0 < nd ->
  Forall (fun a => (a < Z.to_nat nd)%nat) (normalize_axes_sorted axes nd).
Proof.
  intros Hnd. apply Forall_forall. intros a Ha. destruct axes as [l|]; simpl in Ha; apply in_map_iff in Ha.
  - destruct Ha as (v & <- & _). pose proof (Z.mod_pos_bound v nd Hnd). lia.
  - destruct Ha as (v & <- & Hv). apply zrange_in in Hv; lia.
Qed.

(* resize to the same shape with default shifts is the identity on the box *)
Lemma expand_shapes_same (s : list Z) : expand_shapes s s = (s, s).
Proof. unfold expand_shapes. rewrite Nat.max_id, Nat.sub_diag. reflexivity. Qed.

Lemma zlist_eqb_refl s : zlist_eqb s s = true.
Proof. apply zlist_eqb_spec. reflexivity. Qed.

Section Model.
  Variable R : StarRing.
  Add Ring Rr4 : (SRth R).
  Local Open Scope sr_scope.
  Notation farr := (list Z -> R).

  Lemma resize_same_eqbox s (x : farr) : eqbox s (resize s s None None x) x.
  Proof.
    intros idx Hi. unfold resize. rewrite expand_shapes_same, zlist_eqb_refl. cbn [andb].
    unfold reshape. rewrite unravel_ravel by exact Hi. reflexivity.
  Qed.

  (* ---- the oracle tables ---------------------------------------------------------------- *)
  Variable w : Z -> R.
  Variable isc inv : Z -> R.
  Hypothesis Hroot : forall n, (0 < n)%Z -> root_ok R n (w n).
  Hypothesis Hisc : forall n, (0 < n)%Z -> isc n * isc n * nR n = 1.
  Hypothesis Hiscr : forall n, (0 < n)%Z -> conj (isc n) = isc n.
  Hypothesis Hinv : forall n, (0 < n)%Z -> inv n * nR n = 1.

  Definition twf (n m : Z) : R := opow (w n) (Z.to_nat m).

  (* the centred kernel of axis length n:  scale * w_n^(+-(j - n/2)(k - n/2)) *)
  Definition ckerN (inverse ortho : bool) (n j k : Z) : R := cker R n (w n) isc inv inverse ortho j k.

  Lemma fuse_axis inverse ortho s a (x : farr) : (a < length s)%nat ->
    eqbox s (along_g s a g_fftshift (along_k s a (ker1 twf isc inv inverse ortho) (along_g s a g_ifftshift x)))
            (along_k s a (ckerN inverse ortho) x).
  Proof.
    intros La idx Hi.
    assert (Li : (a < length idx)%nat) by (rewrite (inbox_length s idx Hi); exact La).
    pose proof (inbox_nthd s idx a Hi La) as Hk.
    assert (Hn : (0 < nthd s a)%Z) by lia.
    assert (Li' : forall v, (a < length (upd idx a v))%nat) by (intro; rewrite upd_length; exact Li).
    unfold along_g at 1. rewrite along_k_dft1. rewrite nthd_upd_same by exact Li.
    transitivity (cfft1 R (nthd s a) twf isc inv inverse ortho (fun j => x (upd idx a j)) (nthd idx a)).
    - unfold cfft1. apply dft1_ext; [|reflexivity]. intros j _. unfold along_g.
      rewrite upd_upd_same. rewrite (nthd_upd_same _ a j) by apply Li'. rewrite upd_upd_same. reflexivity.
    - rewrite (cfft1_spec R (nthd s a) (w (nthd s a)) (Hroot _ Hn) twf isc inv) by (try reflexivity; exact Hk).
      rewrite <- osumZ_sumZ. reflexivity.
  Qed.

  Section Shape.
    Variable osh : list Z.
    Hypothesis Hpos : Forall (fun n => (0 < n)%Z) osh.

    Let Hnn : Forall (fun n => (0 <= n)%Z) osh.
    Proof. eapply Forall_impl; [|exact Hpos]. simpl. intros; lia. Qed.

    Lemma nthd_pos a : (a < length osh)%nat -> (0 < nthd osh a)%Z.
    Proof. intros La. unfold nthd. rewrite Forall_forall in Hpos. apply Hpos. apply nth_In. exact La. Qed.

    (* all ifftshifts, then all transforms (forced, in reversed order), then all fftshifts
       = one centred transform per axis *)
    Lemma centre_passes inverse ortho ax (t0 t0' : farr) :
      NoDup ax -> Forall (fun a => (a < length osh)%nat) ax -> eqbox osh t0 t0' ->
      eqbox osh (shiftn osh ax g_fftshift (fftn twf isc inv inverse ortho osh ax (forceA osh (shiftn osh ax g_ifftshift t0))))
                (foldax (Kf osh (ckerN inverse ortho)) ax t0').
    Proof.
      intros ND Hlt H0.
      set (K := ker1 twf isc inv inverse ortho).
      set (P := Gf (R:=R) osh g_ifftshift). set (F := Kf osh K). set (Q := Gf (R:=R) osh g_fftshift).
      set (FF := fun (a : nat) (y : farr) => forceA osh (along_k osh a K y)).
      change (eqbox osh (foldax Q ax (foldax FF (rev ax) (forceA osh (foldax P ax t0))))
                    (foldax (Kf osh (ckerN inverse ortho)) ax t0')).
      assert (EP : fam_ext R osh P) by (apply Gf_ext, grange_ifftshift).
      assert (EQ : fam_ext R osh Q) by (apply Gf_ext, grange_fftshift).
      assert (EF : fam_ext R osh F) by apply Kf_ext.
      (* 1: drop the forcing, un-reverse *)
      assert (S1 : eqbox osh (foldax FF (rev ax) (forceA osh (foldax P ax t0))) (foldax F ax (foldax P ax t0'))).
      { eapply eqbox_trans.
        - apply (foldax_ext2 R osh FF F (rev ax) EF).
          + intros a y _. unfold FF, F, Kf. apply forceA_eqbox. exact Hnn.
          + eapply eqbox_trans; [apply forceA_eqbox; exact Hnn|]. apply foldax_ext; [exact EP| exact H0].
        - apply foldax_perm; [exact EF| apply comm_KK| apply Permutation_sym, Permutation_rev|].
          apply Permutation_NoDup with (l := ax); [apply Permutation_rev| exact ND]. }
      (* 2: fuse P then F *)
      assert (S2 : eqbox osh (foldax F ax (foldax P ax t0')) (foldax (fun a y => F a (P a y)) ax t0')).
      { apply foldax_fuse; [exact EP| exact EF| apply comm_KG| exact ND]. }
      assert (EFP : fam_ext R osh (fun a y => F a (P a y))).
      { intros a x y H. apply EF. apply EP. exact H. }
      (* 3: fuse with Q *)
      assert (S3 : eqbox osh (foldax Q ax (foldax (fun a y => F a (P a y)) ax t0'))
                         (foldax (fun a y => Q a (F a (P a y))) ax t0')).
      { apply (foldax_fuse R osh (fun a y => F a (P a y)) Q ax EFP EQ); [|exact ND].
        apply (fam_comm_compose R osh P F Q EQ EF); [apply comm_GG| apply comm_GK]. }
      eapply eqbox_trans; [apply foldax_ext; [exact EQ|]; eapply eqbox_trans; [exact S1| exact S2]|].
      eapply eqbox_trans; [exact S3|].
      apply (foldax_ext2 R osh _ (Kf osh (ckerN inverse ortho)) ax); [apply Kf_ext| | apply eqbox_refl].
      intros a y Ha. unfold Q, F, P, Gf, Kf, K. apply fuse_axis.
      rewrite Forall_forall in Hlt. apply Hlt. exact Ha.
    Qed.

    Lemma ckerN_delta inverse ortho a : (a < length osh)%nat ->
      forall j l, (0 <= j < nthd osh a)%Z -> (0 <= l < nthd osh a)%Z ->
        sumZ (nthd osh a) (fun k => ckerN inverse ortho (nthd osh a) j k * ckerN (negb inverse) ortho (nthd osh a) k l)
        = if (j =? l)%Z then 1 else 0.
    Proof.
      intros La j l Hj Hl. pose proof (nthd_pos a La) as Hn. unfold ckerN, cker.
      apply (gk_pair_delta R _ _ (Hroot _ Hn) isc inv (Hisc _ Hn) (Hinv _ Hn)); assumption.
    Qed.

    Lemma centred_inverse inverse ortho ax (x : farr) :
      NoDup ax -> Forall (fun a => (a < length osh)%nat) ax ->
      eqbox osh (foldax (Kf osh (ckerN (negb inverse) ortho)) ax (foldax (Kf osh (ckerN inverse ortho)) ax x)) x.
    Proof.
      intros ND Hlt.
      eapply eqbox_trans.
      - apply foldax_fuse; [apply Kf_ext| apply Kf_ext| apply comm_KK| exact ND].
      - rewrite <- (foldax_id R ax x) at 2.
        apply (foldax_ext2 R osh _ (fun _ y => y) ax); [intros a u v H; exact H| | apply eqbox_refl].
        intros a y Ha. unfold Kf. apply along_k_inverse.
        + rewrite Forall_forall in Hlt. apply Hlt, Ha.
        + apply ckerN_delta. rewrite Forall_forall in Hlt. apply Hlt, Ha.
    Qed.
  End Shape.

  (* ---- _fftc / _ifftc ---------------------------------------------------------------------- *)
  Definition out_shape (ishape : list Z) (oshape : option (list Z)) : list Z :=
    match oshape with Some o => o | None => ishape end.

  (* centred zero-pad/crop first, then the centred transform along every listed axis *)
  Theorem fftc_nd inverse ortho ishape oshape axes (x : farr) :
    let osh := out_shape ishape oshape in
    let ax := normalize_axes_sorted axes (Z.of_nat (length ishape)) in
    Forall (fun n => (0 < n)%Z) osh -> NoDup ax -> Forall (fun a => (a < length osh)%nat) ax ->
    fst (fftc twf isc inv inverse ortho ishape oshape axes x) = osh /\
    eqbox osh (snd (fftc twf isc inv inverse ortho ishape oshape axes x))
              (foldax (Kf osh (ckerN inverse ortho)) ax (resize ishape osh None None x)).
  Proof.
    intros osh ax Hpos ND Hlt. unfold fftc. cbn [fst snd]. split; [reflexivity|].
    fold (out_shape ishape oshape). fold osh. fold ax.
    apply centre_passes; try assumption.
    apply forceA_eqbox. eapply Forall_impl; [|exact Hpos]. simpl. intros; lia.
  Qed.

  Lemma fftc_same inverse ortho s axes (x x' : farr) :
    let ax := normalize_axes_sorted axes (Z.of_nat (length s)) in
    Forall (fun n => (0 < n)%Z) s -> NoDup ax -> Forall (fun a => (a < length s)%nat) ax -> eqbox s x x' ->
    eqbox s (snd (fftc twf isc inv inverse ortho s None axes x)) (foldax (Kf s (ckerN inverse ortho)) ax x').
  Proof.
    intros ax Hpos ND Hlt Hx.
    destruct (fftc_nd inverse ortho s None axes x Hpos ND Hlt) as [_ E]. cbn [out_shape] in E.
    eapply eqbox_trans; [exact E|]. apply foldax_ext; [apply Kf_ext|].
    eapply eqbox_trans; [apply resize_same_eqbox| exact Hx].
  Qed.

  (* ifft (fft x) = x and fft (ifft x) = x: any distinct axes, odd and even lengths, either norm *)
  Theorem ifft_fft_nd inverse ortho s axes (x : farr) :
    let ax := normalize_axes_sorted axes (Z.of_nat (length s)) in
    Forall (fun n => (0 < n)%Z) s -> NoDup ax -> Forall (fun a => (a < length s)%nat) ax ->
    eqbox s (snd (fftc twf isc inv (negb inverse) ortho s None axes
                       (snd (fftc twf isc inv inverse ortho s None axes x)))) x.
  Proof.
    intros ax Hpos ND Hlt.
    eapply eqbox_trans.
    - apply fftc_same; try assumption. apply fftc_same; try assumption. apply eqbox_refl.
    - apply centred_inverse; assumption.
  Qed.

  Lemma ckerN_conj inverse n j k : (0 < n)%Z ->
    ckerN (negb inverse) true n k j = conj (ckerN inverse true n j k).
  Proof. intros Hn. unfold ckerN, cker. apply (gk_pair_conj R _ _ (Hroot _ Hn) isc inv (Hiscr _ Hn)). Qed.

  (* FFT^H = IFFT (orthonormal scaling): <fft x, y> = <x, ifft y> on the box *)
  Theorem fft_adjoint_nd inverse s axes (x y : farr) :
    let ax := normalize_axes_sorted axes (Z.of_nat (length s)) in
    Forall (fun n => (0 < n)%Z) s -> NoDup ax -> Forall (fun a => (a < length s)%nat) ax ->
    inner s (snd (fftc twf isc inv inverse true s None axes x)) y =
    inner s x (snd (fftc twf isc inv (negb inverse) true s None axes y)).
  Proof.
    intros ax Hpos ND Hlt.
    rewrite (inner_eqbox R s _ (foldax (Kf s (ckerN inverse true)) ax x) y y
               (fftc_same inverse true s axes x x Hpos ND Hlt (eqbox_refl R s x)) (eqbox_refl R s y)).
    rewrite (inner_eqbox R s x x _ (foldax (Kf s (ckerN (negb inverse) true)) ax y) (eqbox_refl R s x)
               (fftc_same (negb inverse) true s axes y y Hpos ND Hlt (eqbox_refl R s y))).
    rewrite (foldax_adjoint R s (ckerN inverse true) (ckerN (negb inverse) true) ax).
    2:{ intros n j k Hj Hk. apply ckerN_conj. lia. }
    apply inner_eqbox; [apply eqbox_refl|].
    apply foldax_perm; [apply Kf_ext| apply comm_KK| apply Permutation_sym, Permutation_rev|].
    apply Permutation_NoDup with (l := ax); [apply Permutation_rev| exact ND].
  Qed.

  (* Parseval: <fft x, fft x> = <x, x> *)
  Theorem parseval_nd inverse s axes (x : farr) :
    let ax := normalize_axes_sorted axes (Z.of_nat (length s)) in
    Forall (fun n => (0 < n)%Z) s -> NoDup ax -> Forall (fun a => (a < length s)%nat) ax ->
    inner s (snd (fftc twf isc inv inverse true s None axes x)) (snd (fftc twf isc inv inverse true s None axes x))
    = inner s x x.
  Proof.
    intros ax Hpos ND Hlt. rewrite fft_adjoint_nd by assumption.
    apply inner_eqbox; [apply eqbox_refl|]. apply ifft_fft_nd; assumption.
  Qed.

  (* the same axes listed in another order and/or with negative indices give the same transform *)
  Theorem fftc_axes_invariance inverse ortho ishape oshape axes axes' (x : farr) :
    let osh := out_shape ishape oshape in
    let nd := Z.of_nat (length ishape) in
    Forall (fun n => (0 < n)%Z) osh -> NoDup (normalize_axes_sorted axes nd) ->
    Forall (fun a => (a < length osh)%nat) (normalize_axes_sorted axes nd) ->
    Permutation (normalize_axes_sorted axes nd) (normalize_axes_sorted axes' nd) ->
    eqbox osh (snd (fftc twf isc inv inverse ortho ishape oshape axes x))
              (snd (fftc twf isc inv inverse ortho ishape oshape axes' x)).
  Proof.
    intros osh nd Hpos ND Hlt Hperm.
    assert (ND' : NoDup (normalize_axes_sorted axes' nd)) by (eapply Permutation_NoDup; eassumption).
    assert (Hlt' : Forall (fun a => (a < length osh)%nat) (normalize_axes_sorted axes' nd)).
    { rewrite Forall_forall in *. intros a Ha. apply Hlt. eapply Permutation_in; [apply Permutation_sym; exact Hperm| exact Ha]. }
    destruct (fftc_nd inverse ortho ishape oshape axes x Hpos ND Hlt) as [_ E].
    destruct (fftc_nd inverse ortho ishape oshape axes' x Hpos ND' Hlt') as [_ E'].
    eapply eqbox_trans; [exact E|]. eapply eqbox_trans; [|apply eqbox_sym; exact E'].
    apply foldax_perm; [apply Kf_ext| apply comm_KK| exact Hperm| exact ND].
  Qed.

  (* in particular: explicit axes l versus l' whenever l' lists the same axes modulo ndim *)
  Corollary fftc_axes_mod_perm inverse ortho ishape oshape l l' (x : farr) :
    let osh := out_shape ishape oshape in
    let nd := Z.of_nat (length ishape) in
    let f := fun a => Z.to_nat (a mod nd) in
    Forall (fun n => (0 < n)%Z) osh -> NoDup (map f l) -> Forall (fun a => (a < length osh)%nat) (map f l) ->
    Permutation (map f l) (map f l') ->
    eqbox osh (snd (fftc twf isc inv inverse ortho ishape oshape (Some l) x))
              (snd (fftc twf isc inv inverse ortho ishape oshape (Some l') x)).
  Proof.
    intros osh nd f Hpos ND Hlt Hperm.
    pose proof (normalize_axes_perm l nd) as P1. pose proof (normalize_axes_perm l' nd) as P2.
    apply fftc_axes_invariance; try assumption.
    - eapply Permutation_NoDup; [apply Permutation_sym; exact P1| exact ND].
    - rewrite Forall_forall in *. intros a Ha. apply Hlt. eapply Permutation_in; [exact P1| exact Ha].
    - eapply Permutation_trans; [exact P1|]. eapply Permutation_trans; [exact Hperm| apply Permutation_sym; exact P2].
  Qed.
End Model.

(* ---- 1-D reading of the centred resize used by _fftc when oshape is given (C09 window lemma) ---- *)
Theorem resize_1d_centre (R : Ops) (i o k : Z) (x : list Z -> R) : 0 < i -> 0 < o -> 0 <= k < o ->
  resize [i] [o] None None x [k] =
  if (0 <=? k - o / 2 + i / 2) && (k - o / 2 + i / 2 <? i) then x [k - o / 2 + i / 2] else zero.
Proof.
  intros Hi Ho Hk. unfold resize. change (expand_shapes [i] [o]) with ([i], [o]).
  assert (Ek : forall n v, 0 <= v -> unravel [n] (ravel [n] [v]) = [v]).
  { intros n v Hv. simpl. rewrite Z.mul_1_r, Z.add_0_r, Z.div_1_r. reflexivity. }
  cbn [zlist_eqb list_eqb andb].
  destruct (Z.eqb_spec i o) as [->|Hne]; cbn [andb].
  - unfold reshape. rewrite Ek by lia.
    replace (k - o / 2 + o / 2) with k by ring.
    destruct (Z.leb_spec 0 k), (Z.ltb_spec k o); try lia. reflexivity.
  - unfold reshape at 1. rewrite Ek by lia. unfold gatherN. cbn [default_ishift default_oshift zip2 zip4 map_axes].
    rewrite resize_default_window by assumption.
    destruct ((0 <=? k - o / 2 + i / 2) && (k - o / 2 + i / 2 <? i)) eqn:E; [|reflexivity].
    unfold reshape. apply andb_true_iff in E. destruct E as [E1 E2]. apply Z.leb_le in E1.
    rewrite Ek by lia. reflexivity.
Qed.
