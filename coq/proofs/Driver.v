(* Driver.v — the base class Alg: `while not alg.done(): alg.update()` performs
   min(max_iter, first stopping k) updates, iter counts the updates, and extra done() queries
   do not matter.  Stated for ANY subclass (state type, _update, _done) that satisfies the
   frame conditions below; each modelled subclass is shown to satisfy them (no laws on the
   scalar / vector operations are needed, so this holds for the float instances too). *)
From Coq Require Import ZArith List Bool Lia.
From SV Require Import model.Alg.
Import ListNotations.
Local Open Scope Z_scope.

(* what a well-behaved subclass guarantees *)
Record AlgLaws {St : Type} (C : AlgClass St) (stop : St -> bool) : Prop := mkAlgLaws {
  law_set_get : forall k s, get_iter C (set_iter C k s) = k;
  law_set_max : forall k s, get_max_iter C (set_iter C k s) = get_max_iter C s;
  law_upd_iter : forall s, get_iter C (upd_ C s) = get_iter C s;          (* _update leaves iter alone *)
  law_upd_max : forall s, get_max_iter C (upd_ C s) = get_max_iter C s;   (* ... and max_iter *)
  law_done : forall s, done_ C s = (get_max_iter C s <=? get_iter C s) || stop s }.

Section Driver.
  Context {St : Type} (C : AlgClass St) (stop : St -> bool).
  Hypothesis L : AlgLaws C stop.

  Lemma update_iter s : get_iter C (update C s) = get_iter C s + 1.
  Proof. unfold update. rewrite (law_set_get C stop L), (law_upd_iter C stop L). reflexivity. Qed.
  Lemma update_max s : get_max_iter C (update C s) = get_max_iter C s.
  Proof. unfold update. rewrite (law_set_max C stop L), (law_upd_max C stop L). reflexivity. Qed.

  Lemma iter_update_iter n s : get_iter C (iter_update C n s) = get_iter C s + Z.of_nat n.
  Proof. induction n as [|n IH]; cbn [iter_update]; [lia|]. rewrite update_iter, IH. lia. Qed.
  Lemma iter_update_max n s : get_max_iter C (iter_update C n s) = get_max_iter C s.
  Proof. induction n as [|n IH]; cbn [iter_update]; [reflexivity|]. rewrite update_max, IH. reflexivity. Qed.
  Lemma iter_update_shift n s : iter_update C (S n) s = iter_update C n (update C s).
  Proof. induction n as [|n IH]; [reflexivity|]. cbn [iter_update] in *. rewrite IH. reflexivity. Qed.

  (* the loop with any fuel *)
  Lemma run_fuel_spec fuel : forall s,
    let n := run_count C fuel s in
    run_fuel C fuel s = iter_update C n s /\
    (n <= fuel)%nat /\
    (forall j, (j < n)%nat -> done C (iter_update C j s) = false) /\
    ((n < fuel)%nat -> done C (iter_update C n s) = true).
  Proof.
    induction fuel as [|f IH]; intros s; cbn [run_count run_fuel].
    - cbn. repeat split; intros; try lia.
    - destruct (done C s) eqn:D; cbn zeta.
      + cbn. repeat split; intros; try lia. exact D.
      + specialize (IH (update C s)). cbv zeta in IH. destruct IH as (I1 & I2 & I3 & I4).
        repeat split.
        * rewrite iter_update_shift. exact I1.
        * lia.
        * intros j Hj. destruct j as [|j]; [exact D|]. rewrite iter_update_shift. apply I3. lia.
        * intros Hn. rewrite iter_update_shift. apply I4. lia.
  Qed.

  (* [core] driver_bound *)
  Theorem driver_bound (s : St) :
    let m := get_max_iter C s in
    let i0 := get_iter C s in
    let N := run_updates C s in
    let s' := run C s in
    s' = iter_update C N s /\                                   (* the loop is N updates *)
    done C s' = true /\                                          (* it exits because done() holds, not for lack of fuel *)
    (forall j, (j < N)%nat -> done C (iter_update C j s) = false) /\   (* ... for the first time *)
    get_iter C s' = i0 + Z.of_nat N /\                           (* iter counts the updates *)
    i0 + Z.of_nat N <= Z.max i0 m /\                             (* never beyond max_iter *)
    (forall j, (j < N)%nat -> stop (iter_update C j s) = false) /\
    (i0 + Z.of_nat N = Z.max i0 m \/ stop s' = true).            (* N = min(budget, first stopping k) *)
  Proof.
    cbv zeta. unfold run, run_updates.
    pose proof (run_fuel_spec (run_budget C s) s) as Hs. cbv zeta in Hs.
    destruct Hs as (H1 & H2 & H3 & H4).
    set (N := run_count C (run_budget C s) s) in *.
    assert (Hb : Z.of_nat (run_budget C s) = Z.max 0 (get_max_iter C s - get_iter C s)).
    { unfold run_budget. lia. }
    assert (Hd : done C (iter_update C N s) = true).
    { destruct (Nat.eq_dec N (run_budget C s)) as [E|NE].
      - unfold done. rewrite (law_done C stop L), iter_update_iter, iter_update_max.
        apply orb_true_iff. left. apply Z.leb_le. lia.
      - apply H4. lia. }
    assert (H3' : forall j, (j < N)%nat -> stop (iter_update C j s) = false).
    { intros j Hj. specialize (H3 j Hj). unfold done in H3. rewrite (law_done C stop L) in H3.
      apply orb_false_iff in H3. tauto. }
    rewrite H1. repeat split; try assumption.
    - apply iter_update_iter.
    - lia.
    - destruct (stop (iter_update C N s)) eqn:Es; [right; reflexivity|left].
      unfold done in Hd. rewrite (law_done C stop L), Es, orb_false_r, iter_update_iter, iter_update_max in Hd.
      apply Z.leb_le in Hd. lia.
  Qed.

  (* extra done() queries anywhere: the state only depends on the number of update() calls,
     iter after the j-th update is i0 + j, and a query answers done of the state it is asked in *)
  Fixpoint query_positions (acts : list action) (n : nat) : list nat :=
    match acts with
    | [] => []
    | ADone :: r => n :: query_positions r n
    | AUpdate :: r => query_positions r (S n)
    end.

  Lemma exec_actions_spec acts : forall s,
    let '(s', ds, its) := exec_actions C acts s in
    s' = iter_update C (count_updates acts) s /\
    ds = map (fun j => done C (iter_update C j s)) (query_positions acts 0) /\
    its = map (fun j => get_iter C s + Z.of_nat j) (seq 1 (count_updates acts)).
  Proof.
    induction acts as [|a acts IH]; intros s; cbn [exec_actions].
    - cbn. repeat split.
    - destruct a.
      + specialize (IH s). destruct (exec_actions C acts s) as [[s' ds] its].
        destruct IH as (I1 & I2 & I3). cbn [count_updates query_positions map]. repeat split; try assumption.
        rewrite I2. reflexivity.
      + specialize (IH (update C s)). destruct (exec_actions C acts (update C s)) as [[s' ds] its].
        destruct IH as (I1 & I2 & I3). cbn [count_updates query_positions]. repeat split.
        * rewrite iter_update_shift. exact I1.
        * rewrite I2. clear.
          assert (G : forall l n, map (fun j => done C (iter_update C j (update C s))) (query_positions l n)
                               = map (fun j => done C (iter_update C j s)) (query_positions l (S n))).
          { induction l as [|a l IHl]; intros n; [reflexivity|]. destruct a; cbn [query_positions map].
            - rewrite iter_update_shift, IHl. reflexivity.
            - apply IHl. }
          apply G.
        * rewrite I3, update_iter. cbn [seq map]. f_equal; try lia.
          rewrite <- (seq_shift (count_updates acts) 1), map_map. apply map_ext. intros j. lia.
  Qed.

  Theorem driver_interleaving (acts : list action) (s : St) :
    fst (fst (exec_actions C acts s)) = iter_update C (count_updates acts) s /\
    snd (fst (exec_actions C acts s)) = map (fun j => done C (iter_update C j s)) (query_positions acts 0) /\
    snd (exec_actions C acts s) = map (fun j => get_iter C s + Z.of_nat j) (seq 1 (count_updates acts)).
  Proof.
    pose proof (exec_actions_spec acts s) as E. destruct (exec_actions C acts s) as [[s' ds] its]. exact E.
  Qed.
End Driver.

(* ---- every modelled subclass satisfies the frame laws -------------------------------- *)
Section Instances.
  Variable E : IPOps.

  Lemma CG_laws (A : Vec E -> Vec E) (P : option (Vec E -> Vec E)) :
    AlgLaws (CGClass E A P) (fun s => cg_npd s || sleb (cg_resid s) (cg_tol s)).
  Proof.
    constructor; intros; cbn [CGClass get_iter get_max_iter set_iter upd_ done_]; try reflexivity.
    - unfold cg__update. destruct (sleb _ _); [reflexivity|]. destruct (_ <? _); reflexivity.
    - unfold cg__update. destruct (sleb _ _); [reflexivity|]. destruct (_ <? _); reflexivity.
    - unfold cg__done. rewrite orb_assoc. reflexivity.
  Qed.

  Lemma PM_laws (A : Vec E -> Vec E) : AlgLaws (PMClass E A) (fun _ => false).
  Proof.
    constructor; intros; cbn [PMClass get_iter get_max_iter set_iter upd_ done_]; try reflexivity.
    unfold pm__done. rewrite orb_false_r. reflexivity.
  Qed.

  Lemma GM_laws gradf alpha proxg acc :
    AlgLaws (GMClass E gradf alpha proxg acc) (fun s => sleb (gm_resid s) (gm_tol s)).
  Proof.
    constructor; intros; cbn [GMClass get_iter get_max_iter set_iter upd_ done_]; try reflexivity.
    - unfold gm__update. destruct acc; reflexivity.
    - unfold gm__update. destruct acc; reflexivity.
  Qed.

  Lemma PDHG_laws U uadd usub uscale udivs udot A AH proxfc proxg theta0 gp gd sgt0 seq0 :
    AlgLaws (PDHGClass E U uadd usub uscale udivs udot A AH proxfc proxg theta0 gp gd sgt0 seq0)
            (fun s => sleb (pd_resid E U s) (pd_tol E U s)).
  Proof.
    constructor; intros; cbn [PDHGClass get_iter get_max_iter set_iter upd_ done_]; try reflexivity.
    - unfold pdhg__update. destruct (sgt0 gp && seq0 gd); [reflexivity|]. destruct (seq0 gp && sgt0 gd); reflexivity.
    - unfold pdhg__update. destruct (sgt0 gp && seq0 gd); [reflexivity|]. destruct (seq0 gp && sgt0 gd); reflexivity.
  Qed.
End Instances.
