(* proofs/LLSBase.v — common theory for C14 (LinearLeastSquares):
   - the real instance of the vector operations of model/LLS.v on an abstract real inner-product
     space [IPS] (proofs/ProxGrad.v): [IPSV];
   - linearity of an operator that has an adjoint;
   - the DOCUMENTED objective  F(x) = 1/2 ||A x - y||^2 + lamda/2 ||x - z||^2 + g(G x)  with g an
     extended-real convex function given as (dom, g) (indicator functions such as the box constraint
     are covered: g = 0 on dom), its exact second-order expansion, and the optimality conditions:
       [kkt_min]          KKT (w in dg(Gx), grad f(x) + G^H w = 0)  ==>  x minimises F
       [min_stationary]   x minimises F  ==>  directional derivative >= 0 in every feasible direction
       [min_iff_subgrad]  G = id:  x minimises F  <=>  -grad f(x) in dg(x)
   - proximal operators characterised by their variational inequality, with domain;
   - [lls_reject]: the decision function rejects exactly CG+proxg, GM+G, unknown solver. *)
From Coq Require Import Reals Lra Lia Psatz List Bool ZArith.
From SV Require Import model.ProxGrad proofs.ProxGrad model.LLS.
Import ListNotations.
Local Open Scope R_scope.

(* ---------------------------------------------------------------------------------------- *)
(* the decision function                                                                       *)
(* ---------------------------------------------------------------------------------------- *)
Lemma lls_reject_lemma fl :
  (exists e, get_alg fl = Reject e) <->
  ((fl_solver fl = SolCG /\ fl_proxg fl = true) \/ (fl_solver fl = SolGM /\ fl_G fl = true) \/ fl_solver fl = SolOther).
Proof.
  destruct fl as [s p g l z]; unfold get_alg, effective_solver, default_solver; cbn [fl_solver fl_proxg fl_G].
  split.
  - intros [e He]. destruct s, p, g; cbn in He; try discriminate; auto.
  - intros [[-> ->] | [[-> ->] | ->]]; cbn.
    + eexists; reflexivity.
    + destruct p; eexists; reflexivity.
    + eexists; reflexivity.
Qed.

Lemma lls_reject_kind_lemma fl :
  (get_alg fl = Reject ErrCGProxg <-> fl_solver fl = SolCG /\ fl_proxg fl = true) /\
  (get_alg fl = Reject ErrGMG <-> fl_solver fl = SolGM /\ fl_G fl = true) /\
  (get_alg fl = Reject ErrInvalidSolver <-> fl_solver fl = SolOther).
Proof.
  destruct fl as [s p g l z]; unfold get_alg, effective_solver, default_solver; cbn [fl_solver fl_proxg fl_G].
  destruct s, p, g; vm_compute; intuition congruence.
Qed.

(* solver=None never raises, and chooses CG without proxg, GradientMethod with proxg and no G, PDHG with both *)
Lemma lls_default_lemma p g l z :
  get_alg (mkFlags SolNone p g l z) =
  Accept (if negb p then BrCG else if negb g then BrGM else BrPDHG).
Proof. destruct p, g; reflexivity. Qed.

(* every accepted explicit solver gets its own branch *)
Lemma lls_accept_lemma fl b :
  get_alg fl = Accept b ->
  match effective_solver fl with
  | SolCG => b = BrCG /\ fl_proxg fl = false
  | SolGM => b = BrGM /\ fl_G fl = false
  | SolPDHG => b = BrPDHG
  | SolADMM => b = BrADMM
  | _ => False
  end.
Proof.
  unfold get_alg. destruct (effective_solver fl); try discriminate.
  - destruct (fl_proxg fl); [discriminate|]. intros [= <-]. auto.
  - destruct (fl_G fl); [discriminate|]. intros [= <-]. auto.
  - intros [= <-]. reflexivity.
  - intros [= <-]. reflexivity.
Qed.

(* ---------------------------------------------------------------------------------------- *)
(* the R / IPS instance of the model's operations                                               *)
(* ---------------------------------------------------------------------------------------- *)
Definition IPSV (E : IPS) : VOps ROps :=
  mkVOps ROps E (@vplus E) (@vminus E) (@vmul E) (fun v c => vmul (/ c) v) (@vnorm E).

Lemma sne0_R_true a : sne0 ROps a = true <-> a <> 0.
Proof. unfold sne0. cbn. destruct (Req_EM_T a 0); cbn; split; intros; try discriminate; try tauto; auto. Qed.
Lemma sne0_R_false a : sne0 ROps a = false <-> a = 0.
Proof. unfold sne0. cbn. destruct (Req_EM_T a 0); cbn; split; intros; try discriminate; try tauto; auto. Qed.
Lemma sgt0_R_true a : @sgt0 ROps a = true <-> 0 < a.
Proof. cbn. destruct (Rlt_dec 0 a); split; intros; try discriminate; try tauto; auto. Qed.
Lemma sgt0_R_false a : @sgt0 ROps a = false <-> a <= 0.
Proof. cbn. destruct (Rlt_dec 0 a); split; intros; try discriminate; try lra; auto. Qed.

(* if a t + b t^2 >= 0 for all small t > 0 then a >= 0 *)
Lemma lin_quad_nonneg a b : (forall t, 0 < t <= 1 -> 0 <= a * t + b * (t * t)) -> 0 <= a.
Proof.
  intro H. destruct (Rle_lt_dec 0 a) as [|Ha]; [assumption|]. exfalso.
  pose proof (Rabs_pos b) as Hb0. pose proof (Rle_abs b) as Hb1.
  set (c := Rabs b + 1) in *. assert (Hc : 0 < c) by (unfold c; lra).
  set (t := Rmin 1 (- a / (2 * c))).
  assert (Hq : 0 < - a / (2 * c)) by (apply Rdiv_lt_0_compat; lra).
  assert (Ht0 : 0 < t) by (unfold t; apply Rmin_glb_lt; lra).
  assert (Ht1 : t <= 1) by apply Rmin_l.
  assert (Ht2 : t <= - a / (2 * c)) by apply Rmin_r.
  assert (Ht3 : t * (2 * c) <= - a).
  { apply (Rmult_le_compat_r (2 * c)) in Ht2; [|lra].
    unfold Rdiv in Ht2. rewrite Rmult_assoc, Rinv_l, Rmult_1_r in Ht2; lra. }
  specialize (H t (conj Ht0 Ht1)).
  assert (Hbt : b * t <= c * t) by (apply Rmult_le_compat_r; unfold c; lra).
  assert (Hbtt : b * t * t <= c * t * t) by (apply Rmult_le_compat_r; lra).
  assert (Hctt : c * t * t <= - a / 2 * t) by (apply Rmult_le_compat_r; lra).
  assert (Hat : a * t < 0) by nra.
  nra.
Qed.

Section VecFacts.
  Variable E : IPS.
  Implicit Types a b c : E.
  Lemma vminus_self a : vminus a a = v0. Proof. vec_eq. Qed.
  Lemma eq_iff_vminus_0 a b : a = b <-> vminus a b = v0.
  Proof. split; [intros ->; apply vminus_self | apply vminus_eq_0]. Qed.
  Lemma vmul_cancel k a b : k <> 0 -> vmul k a = vmul k b -> a = b.
  Proof.
    intros Hk H. apply ip_ext. intro t.
    apply (f_equal (fun v => ip v t)) in H. rewrite !ip_mul_l in H. nra.
  Qed.
  Lemma vmul_0_r k : vmul k (@v0 E) = v0. Proof. vec_eq. Qed.
  Lemma vplus_0_r' a : vplus a v0 = a. Proof. vec_eq. Qed.
  Lemma nrm2_0_eq a : nrm2 a = 0 -> a = v0. Proof. apply ip_def. Qed.
End VecFacts.

(* an operator with an adjoint is linear (both of them) *)
Section Adjoint.
  Variables E1 E2 : IPS.
  Variables (A : E1 -> E2) (AH : E2 -> E1).
  Hypothesis adj : forall x u, ip (A x) u = ip x (AH u).
  Lemma adj_plus x x' : A (vplus x x') = vplus (A x) (A x').
  Proof. apply ip_ext. intro t. rewrite adj. ip_norm. rewrite <- !adj. reflexivity. Qed.
  Lemma adj_mul c x : A (vmul c x) = vmul c (A x).
  Proof. apply ip_ext. intro t. rewrite adj. ip_norm. rewrite <- !adj. reflexivity. Qed.
  Lemma adj_minus x x' : A (vminus x x') = vminus (A x) (A x').
  Proof. unfold vminus. rewrite adj_plus, adj_mul. reflexivity. Qed.
  Lemma adj_0 : A v0 = v0.
  Proof. apply ip_ext. intro t. rewrite adj. ip_norm. reflexivity. Qed.
  Lemma adj_sym : forall u x, ip (AH u) x = ip u (A x).
  Proof. intros. rewrite ip_sym, <- adj, ip_sym. reflexivity. Qed.
End Adjoint.

(* ---------------------------------------------------------------------------------------- *)
(* convex extended-real functions and proximal operators                                        *)
(* ---------------------------------------------------------------------------------------- *)
Section ConvexFn.
  Variable E : IPS.
  Variables (dom : E -> Prop) (g : E -> R).

  (* (dom, g) is a convex function with values in R on the convex set dom, +infinity outside *)
  Definition convex_on : Prop :=
    forall a b t, dom a -> dom b -> 0 <= t <= 1 ->
      dom (vplus a (vmul t (vminus b a))) /\ g (vplus a (vmul t (vminus b a))) <= g a + t * (g b - g a).

  (* w is a subgradient of g at p *)
  Definition subgrad (p w : E) : Prop := dom p /\ forall v, dom v -> g p + ip w (vminus v p) <= g v.

  (* p = prox_{a g}(v)  <=>  (v - p) / a  in  dg(p)      (DESIGN 2.6, with domain) *)
  Definition prox_vi_dom (prox : R -> E -> E) : Prop :=
    forall a v p, 0 < a -> (prox a v = p <-> subgrad p (vmul (/ a) (vminus v p))).

  (* the user's proxg argument: a Prox object characterised by its inequality, or None (then g = 0 everywhere) *)
  Definition proxg_spec (proxg : option (R -> E -> E)) : Prop :=
    match proxg with
    | Some p => prox_vi_dom p
    | None => (forall x, dom x) /\ (forall x, g x = 0)
    end.
  Definition eff_prox (proxg : option (R -> E -> E)) : R -> E -> E :=
    match proxg with Some p => p | None => fun _ v => v end.

  Lemma eff_prox_vi proxg : proxg_spec proxg -> prox_vi_dom (eff_prox proxg).
  Proof.
    destruct proxg as [p|]; cbn; [auto|]. intros [Hd Hg] a v p Ha. unfold subgrad. split.
    - intros <-. split; [apply Hd|]. intros w _. rewrite !Hg. rewrite vminus_self. ip_norm. lra.
    - intros [_ H]. specialize (H v (Hd v)). rewrite !Hg in H.
      assert (Hia : 0 < / a) by (apply Rinv_0_lt_compat; exact Ha).
      rewrite ip_mul_l in H. pose proof (ip_pos E (vminus v p)) as Hp.
      apply vminus_eq_0. apply ip_def.
      set (q := ip (vminus v p) (vminus v p)) in *.
      assert (Hq : 0 <= / a * q) by (apply Rmult_le_pos; lra).
      assert (E0 : / a * q = 0) by lra. apply Rmult_integral in E0. destruct E0; lra.
  Qed.

  (* subgradients only depend on the vector *)
  Lemma subgrad_ext p w w' : w = w' -> subgrad p w -> subgrad p w'.
  Proof. intros ->. auto. Qed.
End ConvexFn.

(* ---------------------------------------------------------------------------------------- *)
(* the documented objective                                                                    *)
(* ---------------------------------------------------------------------------------------- *)
Definition zz_of {E : IPS} (z : option E) : E := match z with Some q => q | None => v0 end.

Section Documented.
  Variables X Y W : IPS.
  Variables (A : X -> Y) (AH : Y -> X) (G : X -> W) (GH : W -> X).
  Hypothesis A_adj : forall x u, ip (A x) u = ip x (AH u).
  Hypothesis G_adj : forall x u, ip (G x) u = ip x (GH u).
  Variables (y : Y) (lam : R) (zz : X).
  Hypothesis lam_nonneg : 0 <= lam.
  Variables (dom : W -> Prop) (g : W -> R).
  Hypothesis g_convex : convex_on W dom g.

  (* smooth part, its gradient, the documented objective, its minimisers *)
  Definition fsm (x : X) : R := 1 / 2 * nrm2 (vminus (A x) y) + lam / 2 * nrm2 (vminus x zz).
  Definition gradfsm (x : X) : X := vplus (AH (vminus (A x) y)) (vmul lam (vminus x zz)).
  Definition Fdoc (x : X) : R := fsm x + g (G x).
  Definition feasible (x : X) : Prop := dom (G x).
  Definition is_min (x : X) : Prop := feasible x /\ forall x', feasible x' -> Fdoc x <= Fdoc x'.
  (* w in dg(Gx) and grad f(x) + G^H w = 0 *)
  Definition kkt (x : X) (w : W) : Prop := subgrad W dom g (G x) w /\ vplus (gradfsm x) (GH w) = v0.

  (* F(x') = F(x) + <grad, x'-x> + 1/2 ||A(x'-x)||^2 + lamda/2 ||x'-x||^2   (smooth part, exact) *)
  Lemma fsm_expand x x' :
    fsm x' = fsm x + ip (gradfsm x) (vminus x' x) + 1 / 2 * nrm2 (A (vminus x' x)) + lam / 2 * nrm2 (vminus x' x).
  Proof.
    unfold fsm, gradfsm. rewrite ip_plus_l, (adj_sym X Y A AH A_adj).
    rewrite (adj_minus X Y A AH A_adj x' x).
    unfold nrm2, vminus. ip_norm. lra.
  Qed.

  Lemma fsm_convex x x' : fsm x + ip (gradfsm x) (vminus x' x) <= fsm x'.
  Proof.
    rewrite (fsm_expand x x'). pose proof (nrm2_nonneg Y (A (vminus x' x))). pose proof (nrm2_nonneg X (vminus x' x)).
    assert (0 <= lam / 2 * nrm2 (vminus x' x)) by (apply Rmult_le_pos; lra). lra.
  Qed.

  (* the smooth part is L-smooth with L = ||A||^2 + lamda: the hypotheses of C13's ISTA / FISTA theorems *)
  Lemma fsm_descent Lq x x' : (forall d, nrm2 (A d) <= Lq * nrm2 d) ->
    fsm x' <= fsm x + ip (gradfsm x) (vminus x' x) + (Lq + lam) / 2 * nrm2 (vminus x' x).
  Proof. intro HA. rewrite (fsm_expand x x'). pose proof (HA (vminus x' x)). lra. Qed.

  (* sufficiency of the KKT system, any G *)
  Lemma kkt_min x w : kkt x w -> is_min x.
  Proof.
    intros [[Hd Hs] Hk]. split; [exact Hd|]. intros x' Hf. unfold Fdoc.
    pose proof (fsm_convex x x') as Hc. specialize (Hs (G x') Hf).
    assert (E0 : ip (vplus (gradfsm x) (GH w)) (vminus x' x) = 0) by (rewrite Hk; apply ip_0_l).
    rewrite ip_plus_l, (adj_sym X W G GH G_adj), (adj_minus X W G GH G_adj) in E0. lra.
  Qed.

  (* necessity: at a minimiser the directional derivative is non-negative in every feasible direction *)
  Lemma min_stationary x : is_min x ->
    forall x', feasible x' -> 0 <= ip (gradfsm x) (vminus x' x) + (g (G x') - g (G x)).
  Proof.
    intros [Hf Hm] x' Hf'.
    apply (lin_quad_nonneg _ (1 / 2 * nrm2 (A (vminus x' x)) + lam / 2 * nrm2 (vminus x' x))).
    intros t Ht.
    set (xt := vplus x (vmul t (vminus x' x))).
    assert (EG : G xt = vplus (G x) (vmul t (vminus (G x') (G x)))).
    { unfold xt. rewrite (adj_plus X W G GH G_adj), (adj_mul X W G GH G_adj), (adj_minus X W G GH G_adj). reflexivity. }
    destruct (g_convex (G x) (G x') t Hf Hf' ltac:(lra)) as [Hdt Hgt]. rewrite <- EG in Hdt, Hgt.
    specialize (Hm xt Hdt). unfold Fdoc in Hm. rewrite (fsm_expand x xt) in Hm.
    assert (Ed : vminus xt x = vmul t (vminus x' x)) by (unfold xt; vec_eq).
    rewrite Ed in Hm. rewrite (adj_mul X Y A AH A_adj) in Hm.
    unfold nrm2 in *. rewrite !ip_mul_l, !ip_mul_r in Hm.
    set (q1 := ip (A (vminus x' x)) (A (vminus x' x))) in *. set (q2 := ip (vminus x' x) (vminus x' x)) in *.
    set (d := ip (gradfsm x) (vminus x' x)) in *. nra.
  Qed.

  (* g = 0 everywhere: x minimises  <=>  the gradient of the smooth part vanishes (any G) *)
  Lemma min_iff_grad0 x : (forall w, dom w) -> (forall w, g w = 0) -> (is_min x <-> gradfsm x = v0).
  Proof.
    intros Hd Hg. split.
    - intro Hm. apply ip_def.
      pose proof (min_stationary x Hm (vminus x (gradfsm x)) (Hd _)) as H.
      rewrite !Hg in H.
      replace (vminus (vminus x (gradfsm x)) x) with (vmul (-1) (gradfsm x)) in H by vec_eq.
      rewrite ip_mul_r in H. pose proof (ip_pos X (gradfsm x)). lra.
    - intro H0. split; [apply Hd|]. intros x' _. unfold Fdoc. rewrite !Hg.
      pose proof (fsm_convex x x') as Hc. rewrite H0, ip_0_l in Hc. lra.
  Qed.
End Documented.

(* G = identity (the `G is None` branches): minimiser <=> -grad f(x) in dg(x) *)
Section DocumentedNoG.
  Variables X Y : IPS.
  Variables (A : X -> Y) (AH : Y -> X).
  Hypothesis A_adj : forall x u, ip (A x) u = ip x (AH u).
  Variables (y : Y) (lam : R) (zz : X).
  Hypothesis lam_nonneg : 0 <= lam.
  Variables (dom : X -> Prop) (g : X -> R).
  Hypothesis g_convex : convex_on X dom g.

  Definition idX (x : X) : X := x.
  Lemma idX_adj : forall x u : X, ip (idX x) u = ip x (idX u).
  Proof. reflexivity. Qed.

  Notation is_min0 := (is_min X Y X A idX y lam zz dom g).
  Notation grad0 := (gradfsm X Y A AH y lam zz).

  Lemma min_iff_subgrad x : is_min0 x <-> subgrad X dom g x (vmul (-1) (grad0 x)).
  Proof.
    split.
    - intro Hm. split; [exact (proj1 Hm)|]. intros v Hv.
      pose proof (min_stationary X Y X A AH idX idX A_adj idX_adj y lam zz dom g g_convex x Hm v Hv) as H.
      unfold idX in H. rewrite ip_mul_l. lra.
    - intro Hs. apply (kkt_min X Y X A AH idX idX A_adj idX_adj y lam zz lam_nonneg dom g x (vmul (-1) (grad0 x))).
      split; [exact Hs|]. unfold idX. vec_eq.
  Qed.
End DocumentedNoG.
