(* proofs/Pdhg.v — theory of the PrimalDualHybridGradient model (model/ProxGrad.v, [pd_step]):
   saddle point <-> fixed point of the coded step (scalar or positive diagonal step sizes, any theta,
   every step-size branch), and Fejer monotonicity of the M-metric in the skewed pairing
   w_k = (x_k, u_{k+1}) for theta = 1 and constant scalar steps. *)
From Coq Require Import Reals Lra Lia Psatz List Bool.
From SV Require Import model.ProxGrad proofs.ProxGrad.
Local Open Scope R_scope.

(* ------------------------------------------------------------------------------ *)
(* saddle point <-> fixed point, abstract step types                                 *)
(* ------------------------------------------------------------------------------ *)
Section PdhgFixed.
  Variables X U : IPS.
  Variables (A : X -> U) (AH : U -> X).
  Variables (g : X -> R) (fc : U -> R).
  (* step types: anything that acts on vectors invertibly (scalars > 0, positive diagonals) *)
  Variables TX TU : Type.
  Variables (goodx : TX -> Prop) (goodu : TU -> Prop).
  Variables (txact tinvx : TX -> X -> X) (txneg : TX -> TX) (txmuls txdivs : TX -> R -> TX) (txdivsqrt : X -> TX -> X).
  Variables (tuact tinvu : TU -> U -> U) (tumuls tudivs : TU -> R -> TU) (tudivsqrt : U -> TU -> U).
  Variables (proxfc : TU -> U -> U) (proxg : TX -> X -> X).

  Hypothesis tinvx_act : forall t v, goodx t -> tinvx t (txact t v) = v.
  Hypothesis tinvu_act : forall t v, goodu t -> tinvu t (tuact t v) = v.
  Hypothesis txact_neg : forall t v, txact (txneg t) v = txact t (vmul (-1) v).
  (* prox in the metric of the step: p = prox_{T g}(v) <-> forall z, g z >= g p + <T^-1 (v - p), z - p> *)
  Hypothesis proxg_vi : forall t v p, goodx t ->
    (proxg t v = p <-> forall z, g p + ip (tinvx t (vminus v p)) (vminus z p) <= g z).
  Hypothesis proxfc_vi : forall t v p, goodu t ->
    (proxfc t v = p <-> forall w, fc p + ip (tinvu t (vminus v p)) (vminus w p) <= fc w).

  (* KKT system: 0 in dg(xs) + AH us and 0 in dfc(us) - A xs, written with subgradient inequalities *)
  Definition saddle (xs : X) (us : U) : Prop :=
    (forall z, g xs + ip (vmul (-1) (AH us)) (vminus z xs) <= g z) /\
    (forall w, fc us + ip (A xs) (vminus w us) <= fc w).

  Notation pstep := (pd_step ROps X U TX TU vplus vminus vmul vnorm vplus vminus vnorm
                             txact txneg txmuls txdivs txdivsqrt tuact tumuls tudivs tudivsqrt A AH proxfc proxg).

  Lemma vplus_minus_cancel (E : IPS) (a b : E) : vminus (vplus a b) a = b.
  Proof. vec_eq. Qed.
  Lemma vplus_scale_self (E : IPS) (a : E) (c : R) : vplus a (vmul c (vminus a a)) = a.
  Proof. vec_eq. Qed.

  (* components of one update that do not depend on the step-size branch *)
  Definition next_u (st : pd_state ROps X U TX TU) : U :=
    proxfc (pd_sigma st) (vplus (pd_u st) (tuact (pd_sigma st) (A (pd_xext st)))).
  Definition next_x (st : pd_state ROps X U TX TU) : X :=
    proxg (pd_tau st) (vplus (pd_x st) (txact (txneg (pd_tau st)) (AH (next_u st)))).

  Lemma pd_step_u theta gp gd st : pd_u (pstep theta gp gd st) = next_u st.
  Proof.
    unfold pd_step.
    destruct (sgt0 gp && seq0 gd); [reflexivity|]. destruct (seq0 gp && sgt0 gd); reflexivity.
  Qed.
  Lemma pd_step_x theta gp gd st : pd_x (pstep theta gp gd st) = next_x st.
  Proof.
    unfold pd_step.
    destruct (sgt0 gp && seq0 gd); [reflexivity|]. destruct (seq0 gp && sgt0 gd); reflexivity.
  Qed.
  Lemma pd_step_xext theta gp gd st :
    exists th, pd_xext (pstep theta gp gd st) = vplus (next_x st) (vmul th (vminus (next_x st) (pd_x st))).
  Proof.
    unfold pd_step.
    destruct (sgt0 gp && seq0 gd); [eexists; reflexivity|]. destruct (seq0 gp && sgt0 gd); eexists; reflexivity.
  Qed.

  Lemma saddle_next_u st xs us : goodu (pd_sigma st) ->
    pd_u st = us -> pd_xext st = xs -> (next_u st = us <-> forall w, fc us + ip (A xs) (vminus w us) <= fc w).
  Proof.
    intros Hg Hu Hx. unfold next_u. rewrite Hu, Hx.
    rewrite (proxfc_vi _ _ us Hg). rewrite vplus_minus_cancel, tinvu_act by exact Hg. reflexivity.
  Qed.

  Lemma saddle_next_x st xs us : goodx (pd_tau st) ->
    pd_x st = xs -> next_u st = us ->
    (next_x st = xs <-> forall z, g xs + ip (vmul (-1) (AH us)) (vminus z xs) <= g z).
  Proof.
    intros Hg Hx Hu. unfold next_x. rewrite Hu, Hx.
    rewrite (proxg_vi _ _ xs Hg). rewrite vplus_minus_cancel, txact_neg, tinvx_act by exact Hg. reflexivity.
  Qed.

  (* a saddle point is a fixed point of the coded step: every theta, every gamma branch, every good step *)
  Lemma pdhg_fixed_lemma theta gp gd st xs us :
    goodx (pd_tau st) -> goodu (pd_sigma st) -> saddle xs us ->
    pd_x st = xs -> pd_u st = us -> pd_xext st = xs ->
    pd_x (pstep theta gp gd st) = xs /\ pd_u (pstep theta gp gd st) = us /\ pd_xext (pstep theta gp gd st) = xs.
  Proof.
    intros Hgx Hgu [Hs1 Hs2] Hx Hu He.
    assert (Hnu : next_u st = us) by (apply (saddle_next_u st xs us Hgu Hu He); exact Hs2).
    assert (Hnx : next_x st = xs) by (apply (saddle_next_x st xs us Hgx Hx Hnu); exact Hs1).
    rewrite pd_step_x, pd_step_u. destruct (pd_step_xext theta gp gd st) as [th Hth].
    rewrite Hth, Hnx, Hx. repeat split; auto. apply vplus_scale_self.
  Qed.

  (* conversely a state (x, u, x_ext = x) reproduced by the step is a saddle point *)
  Lemma pdhg_fixed_conv_lemma theta gp gd st :
    goodx (pd_tau st) -> goodu (pd_sigma st) -> pd_xext st = pd_x st ->
    pd_x (pstep theta gp gd st) = pd_x st -> pd_u (pstep theta gp gd st) = pd_u st ->
    saddle (pd_x st) (pd_u st).
  Proof.
    intros Hgx Hgu He Hx Hu. rewrite pd_step_x in Hx. rewrite pd_step_u in Hu.
    split.
    - apply (saddle_next_x st (pd_x st) (pd_u st) Hgx eq_refl Hu). exact Hx.
    - apply (saddle_next_u st (pd_x st) (pd_u st) Hgu eq_refl He). exact Hu.
  Qed.
End PdhgFixed.

(* ------------------------------------------------------------------------------ *)
(* Fejer monotonicity, scalar constant steps, theta = 1                              *)
(* ------------------------------------------------------------------------------ *)
Section PdhgFejer.
  Variables X U : IPS.
  Variables (A : X -> U) (AH : U -> X).
  Variables (g : X -> R) (fc : U -> R).
  Variables (proxfc : R -> U -> U) (proxg : R -> X -> X).

  Hypothesis A_plus : forall x y, A (vplus x y) = vplus (A x) (A y).
  Hypothesis A_mul : forall a x, A (vmul a x) = vmul a (A x).
  Hypothesis adj : forall x u, ip (A x) u = ip x (AH u).
  Hypothesis proxg_vi : forall a v p, 0 < a ->
    (proxg a v = p <-> forall z, g p + ip (vmul (/ a) (vminus v p)) (vminus z p) <= g z).
  Hypothesis proxfc_vi : forall a v p, 0 < a ->
    (proxfc a v = p <-> forall w, fc p + ip (vmul (/ a) (vminus v p)) (vminus w p) <= fc w).

  (* the model with scalar step sizes: tau * v, -tau, tau * c, tau / c, v / tau**0.5 *)
  Notation sstep := (pd_step ROps X U R R vplus vminus vmul vnorm vplus vminus vnorm
                             vmul Ropp Rmult Rdiv (fun v t => vmul (/ sqrt t) v)
                             vmul Rmult Rdiv (fun v t => vmul (/ sqrt t) v) A AH proxfc proxg).

  Definition ssaddle (xs : X) (us : U) : Prop :=
    (forall z, g xs + ip (vmul (-1) (AH us)) (vminus z xs) <= g z) /\
    (forall w, fc us + ip (A xs) (vminus w us) <= fc w).

  (* ||(dx,du)||_M^2 = ||dx||^2/tau - 2 <A dx, du> + ||du||^2/sigma *)
  Definition Mn2 (tau sigma : R) (dx : X) (du : U) : R :=
    nrm2 dx / tau - 2 * ip (A dx) du + nrm2 du / sigma.
  (* the same multiplied by tau * sigma *)
  Definition M2s (tau sigma : R) (dx : X) (du : U) : R :=
    sigma * nrm2 dx - 2 * (tau * sigma) * ip (A dx) du + tau * nrm2 du.

  Lemma Mn2_M2s tau sigma dx du : 0 < tau -> 0 < sigma -> Mn2 tau sigma dx du = M2s tau sigma dx du / (tau * sigma).
  Proof. intros. unfold Mn2, M2s. field. lra. Qed.

  Lemma sgt0_0 : @sgt0 ROps 0 = false.
  Proof. cbn. destruct (Rlt_dec 0 0); [lra | reflexivity]. Qed.

  Definition snext_u (st : pd_state ROps X U R R) : U :=
    proxfc (pd_sigma st) (vplus (pd_u st) (vmul (pd_sigma st) (A (pd_xext st)))).
  Definition snext_x (st : pd_state ROps X U R R) : X :=
    proxg (pd_tau st) (vplus (pd_x st) (vmul (- pd_tau st) (AH (snext_u st)))).

  Lemma sstep_const theta st :
    pd_u (sstep theta 0 0 st) = snext_u st /\ pd_x (sstep theta 0 0 st) = snext_x st /\
    pd_xext (sstep theta 0 0 st) = vplus (snext_x st) (vmul theta (vminus (snext_x st) (pd_x st))) /\
    pd_tau (sstep theta 0 0 st) = pd_tau st /\ pd_sigma (sstep theta 0 0 st) = pd_sigma st.
  Proof.
    unfold pd_step. change (@sgt0 ROps (@s0 ROps)) with (@sgt0 ROps 0). rewrite sgt0_0. cbn [andb].
    rewrite andb_false_r. repeat split; reflexivity.
  Qed.

  (* one transition w = (x0, u1) |-> (x1, u2) of the skewed pairing *)
  Lemma fejer_core tau sigma (x0 : X) (u1 : U) xs us :
    0 < tau -> 0 < sigma -> ssaddle xs us ->
    let x1 := proxg tau (vplus x0 (vmul (- tau) (AH u1))) in
    let u2 := proxfc sigma (vplus u1 (vmul sigma (A (vplus x1 (vmul 1 (vminus x1 x0)))))) in
    M2s tau sigma (vminus x1 xs) (vminus u2 us) + M2s tau sigma (vminus x1 x0) (vminus u2 u1)
      <= M2s tau sigma (vminus x0 xs) (vminus u1 us).
  Proof.
    intros Ht Hs [S1 S2] x1 u2.
    pose proof (prox_vi_mul X g proxg proxg_vi tau (vplus x0 (vmul (- tau) (AH u1))) xs Ht) as V1.
    pose proof (prox_vi_mul U fc proxfc proxfc_vi sigma (vplus u1 (vmul sigma (A (vplus x1 (vmul 1 (vminus x1 x0)))))) us Hs) as V2.
    fold x1 in V1. fold u2 in V2.
    specialize (S1 x1). specialize (S2 u2).
    clearbody u2. clearbody x1.
    set (gs := g xs) in *. set (g1 := g x1) in *. set (fs := fc us) in *. set (f2 := fc u2) in *. clearbody gs g1 fs f2.
    revert V1 V2 S1 S2. unfold M2s, nrm2, vminus. repeat (rewrite A_plus || rewrite A_mul). autorewrite with ipdb.
    repeat match goal with |- context [@ip X (AH ?u) ?x] => rewrite (ip_sym X (AH u) x), <- (adj x u) end.
    repeat match goal with |- context [@ip X ?x (AH ?u)] => rewrite <- (adj x u) end.
    ip_norm. ip_abstract. intros V1 V2 S1 S2.
    match type of V1 with ?l <= ?r => assert (B1 : 0 <= 2 * sigma * (r - l)) by (apply Rmult_le_pos; lra) end.
    match type of V2 with ?l <= ?r => assert (B2 : 0 <= 2 * tau * (r - l)) by (apply Rmult_le_pos; lra) end.
    match type of S1 with ?l <= ?r => assert (B3 : 0 <= 2 * (tau * sigma) * (r - l)) by (apply Rmult_le_pos; nra) end.
    match type of S2 with ?l <= ?r => assert (B4 : 0 <= 2 * (tau * sigma) * (r - l)) by (apply Rmult_le_pos; nra) end.
    clear V1 V2 S1 S2. lra.
  Qed.

  (* M is positive semidefinite when tau * sigma * ||A||^2 <= 1 *)
  Lemma M2s_nonneg tau sigma Ln2 dx du :
    0 < tau -> 0 < sigma -> (forall x, nrm2 (A x) <= Ln2 * nrm2 x) -> tau * sigma * Ln2 <= 1 ->
    0 <= M2s tau sigma dx du.
  Proof.
    intros Ht Hs HA HL. unfold M2s.
    pose proof (nrm2_nonneg U (vminus du (vmul sigma (A dx)))) as H1.
    pose proof (HA dx) as H2. pose proof (nrm2_nonneg X dx) as H3. pose proof (nrm2_nonneg U (A dx)) as H4.
    revert H1 H2 H3 H4. ip_norm. ip_abstract. intros H1 H2 H3 H4.
    match type of H1 with 0 <= ?q => assert (B1 : 0 <= tau * q) by (apply Rmult_le_pos; lra) end.
    match type of H2 with ?l <= ?r => assert (B2 : 0 <= tau * sigma * sigma * (r - l)) by (apply Rmult_le_pos; [nra | lra]) end.
    match type of H3 with 0 <= ?q => assert (B3 : 0 <= sigma * (1 - tau * sigma * Ln2) * q) by (apply Rmult_le_pos; [nra | lra]) end.
    clear H1 H2. lra.
  Qed.

  Lemma Mn2_nonneg tau sigma Ln2 dx du :
    0 < tau -> 0 < sigma -> (forall x, nrm2 (A x) <= Ln2 * nrm2 x) -> tau * sigma * Ln2 <= 1 ->
    0 <= Mn2 tau sigma dx du.
  Proof.
    intros Ht Hs HA HL. rewrite Mn2_M2s by assumption.
    apply Rmult_le_pos; [eapply M2s_nonneg; eauto | left; apply Rinv_0_lt_compat; nra].
  Qed.

  Notation siter := (pd_iter ROps X U R R vplus vminus vmul vnorm vplus vminus vnorm
                             vmul Ropp Rmult Rdiv (fun v t => vmul (/ sqrt t) v)
                             vmul Rmult Rdiv (fun v t => vmul (/ sqrt t) v) A AH proxfc proxg).

  (* the proximal-point inequality of the coded iteration in the pairing (x_k, u_{k+1}) *)
  Lemma pdhg_fejer_step st xs us :
    0 < pd_tau st -> 0 < pd_sigma st -> ssaddle xs us ->
    let st1 := sstep 1 0 0 st in
    let st2 := sstep 1 0 0 st1 in
    Mn2 (pd_tau st) (pd_sigma st) (vminus (pd_x st1) xs) (vminus (pd_u st2) us)
      <= Mn2 (pd_tau st) (pd_sigma st) (vminus (pd_x st) xs) (vminus (pd_u st1) us)
         - Mn2 (pd_tau st) (pd_sigma st) (vminus (pd_x st1) (pd_x st)) (vminus (pd_u st2) (pd_u st1)).
  Proof.
    intros Ht Hs Hsad st1 st2.
    destruct (sstep_const 1 st) as (Hu1 & Hx1 & He1 & Ht1 & Hs1).
    destruct (sstep_const 1 st1) as (Hu2 & _).
    fold st1 in Hu1, Hx1, He1, Ht1, Hs1. fold st2 in Hu2.
    rewrite <- Hx1 in He1.
    unfold snext_x in Hx1. rewrite <- Hu1 in Hx1.
    unfold snext_u in Hu2. rewrite He1, Hs1 in Hu2.
    pose proof (fejer_core (pd_tau st) (pd_sigma st) (pd_x st) (pd_u st1) xs us Ht Hs Hsad) as H.
    cbv zeta in H. rewrite <- Hx1 in H. rewrite <- Hu2 in H.
    rewrite !Mn2_M2s by assumption.
    assert (Hts : 0 < / (pd_tau st * pd_sigma st)) by (apply Rinv_0_lt_compat; nra).
    unfold Rdiv. set (c := / (pd_tau st * pd_sigma st)) in *. clearbody c.
    set (a1 := M2s _ _ _ _) in *. set (a2 := M2s _ _ _ _) in *. set (a3 := M2s _ _ _ _) in *. clearbody a1 a2 a3.
    nra.
  Qed.

  Lemma siter_steps k st : pd_tau (siter 1 0 0 k st) = pd_tau st /\ pd_sigma (siter 1 0 0 k st) = pd_sigma st.
  Proof.
    induction k as [|k [IH1 IH2]]; [split; reflexivity|].
    cbn [pd_iter]. destruct (sstep_const 1 (siter 1 0 0 k st)) as (_ & _ & _ & H1 & H2).
    rewrite H1, H2. auto.
  Qed.

  (* d_k := || (x_k, u_{k+1}) - (xs, us) ||_M^2 along the coded iteration *)
  Definition fejer_dist (st : pd_state ROps X U R R) (xs : X) (us : U) (k : nat) : R :=
    Mn2 (pd_tau st) (pd_sigma st) (vminus (pd_x (siter 1 0 0 k st)) xs) (vminus (pd_u (siter 1 0 0 (S k) st)) us).

  Lemma pdhg_fejer_lemma st xs us Ln2 k :
    0 < pd_tau st -> 0 < pd_sigma st -> ssaddle xs us ->
    (forall x, nrm2 (A x) <= Ln2 * nrm2 x) -> pd_tau st * pd_sigma st * Ln2 <= 1 ->
    0 <= fejer_dist st xs us (S k) <= fejer_dist st xs us k.
  Proof.
    intros Ht Hs Hsad HA HL. unfold fejer_dist.
    destruct (siter_steps k st) as [Htk Hsk].
    pose proof (pdhg_fejer_step (siter 1 0 0 k st) xs us ltac:(rewrite Htk; exact Ht) ltac:(rewrite Hsk; exact Hs) Hsad) as H.
    cbv zeta in H. rewrite Htk, Hsk in H. cbn [pd_iter].
    split.
    - eapply Mn2_nonneg; eauto.
    - match type of H with _ <= _ - ?m => assert (Hm : 0 <= m) by (eapply Mn2_nonneg; eauto) end.
      cbn [pd_iter] in H. lra.
  Qed.

  (* summability of the M-lengths of the steps: sum_{j<n} ||w_{j+1}-w_j||_M^2 + d_n <= d_0 *)
  Fixpoint sumf (h : nat -> R) (n : nat) : R := match n with O => 0 | S k => sumf h k + h k end.

  Definition fejer_steplen (st : pd_state ROps X U R R) (j : nat) : R :=
    Mn2 (pd_tau st) (pd_sigma st) (vminus (pd_x (siter 1 0 0 (S j) st)) (pd_x (siter 1 0 0 j st)))
        (vminus (pd_u (siter 1 0 0 (S (S j)) st)) (pd_u (siter 1 0 0 (S j) st))).

  Lemma pdhg_fejer_sum st xs us n :
    0 < pd_tau st -> 0 < pd_sigma st -> ssaddle xs us ->
    sumf (fejer_steplen st) n + fejer_dist st xs us n <= fejer_dist st xs us 0.
  Proof.
    intros Ht Hs Hsad. induction n as [|n IH]; [cbn [sumf]; lra|].
    cbn [sumf]. unfold fejer_dist, fejer_steplen in *.
    destruct (siter_steps n st) as [Htk Hsk].
    pose proof (pdhg_fejer_step (siter 1 0 0 n st) xs us ltac:(rewrite Htk; exact Ht) ltac:(rewrite Hsk; exact Hs) Hsad) as H.
    cbv zeta in H. rewrite Htk, Hsk in H. cbn [pd_iter] in *. lra.
  Qed.

  (* ---- saddle <-> fixed point for scalar steps, as an instance of the general statement ------ *)
  Lemma scalar_tinv_act (E : IPS) (t : R) (v : E) : 0 < t -> vmul (/ t) (vmul t v) = v.
  Proof. intro. vec_eq. lra. Qed.
  Lemma scalar_act_neg (E : IPS) (t : R) (v : E) : vmul (- t) v = vmul t (vmul (-1) v).
  Proof. vec_eq. Qed.

  Lemma pdhg_fixed_scalar theta gp gd st xs us :
    0 < pd_tau st -> 0 < pd_sigma st -> ssaddle xs us ->
    pd_x st = xs -> pd_u st = us -> pd_xext st = xs ->
    pd_x (sstep theta gp gd st) = xs /\ pd_u (sstep theta gp gd st) = us /\ pd_xext (sstep theta gp gd st) = xs.
  Proof.
    intros Ht Hs Hsad.
    apply (pdhg_fixed_lemma X U A AH g fc R R (fun t => 0 < t) (fun t => 0 < t)
             vmul (fun t v => vmul (/ t) v) Ropp Rmult Rdiv (fun v t => vmul (/ sqrt t) v)
             vmul (fun t v => vmul (/ t) v) Rmult Rdiv (fun v t => vmul (/ sqrt t) v) proxfc proxg
             (scalar_tinv_act X) (scalar_tinv_act U) (scalar_act_neg X) proxg_vi proxfc_vi theta gp gd st xs us Ht Hs Hsad).
  Qed.

  Lemma pdhg_fixed_conv_scalar theta gp gd st :
    0 < pd_tau st -> 0 < pd_sigma st -> pd_xext st = pd_x st ->
    pd_x (sstep theta gp gd st) = pd_x st -> pd_u (sstep theta gp gd st) = pd_u st ->
    ssaddle (pd_x st) (pd_u st).
  Proof.
    intros Ht Hs.
    apply (pdhg_fixed_conv_lemma X U A AH g fc R R (fun t => 0 < t) (fun t => 0 < t)
             vmul (fun t v => vmul (/ t) v) Ropp Rmult Rdiv (fun v t => vmul (/ sqrt t) v)
             vmul (fun t v => vmul (/ t) v) Rmult Rdiv (fun v t => vmul (/ sqrt t) v) proxfc proxg
             (scalar_tinv_act X) (scalar_tinv_act U) (scalar_act_neg X) proxg_vi proxfc_vi theta gp gd st Ht Hs).
  Qed.

  (* the step sizes stay positive along the accelerated schedules *)
  Lemma theta_acc_pos gamma m : 0 <= gamma -> 0 <= m -> 0 < theta_acc ROps gamma m.
  Proof.
    intros Hg Hm. unfold theta_acc. cbn.
    assert (H : 0 < sqrt (1 + 2 * gamma * m)) by (apply sqrt_lt_R0; nra).
    unfold Rdiv. rewrite Rmult_1_l. apply Rinv_0_lt_compat. exact H.
  Qed.

  Lemma sgt0_true a : @sgt0 ROps a = true -> 0 < a.
  Proof. cbn. destruct (Rlt_dec 0 a); [auto | discriminate]. Qed.

  Definition steps_ok (st : pd_state ROps X U R R) : Prop :=
    0 < pd_tau st /\ 0 < pd_sigma st /\ 0 <= pd_tau_min st /\ 0 <= pd_sigma_min st.

  Lemma sstep_steps_ok theta gp gd st : steps_ok st -> steps_ok (sstep theta gp gd st).
  Proof.
    intros (Ht & Hs & Htm & Hsm). unfold steps_ok, pd_step.
    destruct (sgt0 gp && seq0 gd) eqn:B1.
    - apply andb_true_iff in B1. destruct B1 as [B1 _]. apply sgt0_true in B1.
      pose proof (theta_acc_pos gp (pd_tau_min st) ltac:(lra) Htm) as Hth.
      cbn [pd_tau pd_sigma pd_tau_min pd_sigma_min]. cbn [smul ROps].
      repeat split; try assumption.
      + apply Rmult_lt_0_compat; assumption.
      + unfold Rdiv. apply Rmult_lt_0_compat; [assumption | apply Rinv_0_lt_compat; assumption].
      + apply Rmult_le_pos; lra.
    - destruct (seq0 gp && sgt0 gd) eqn:B2.
      + apply andb_true_iff in B2. destruct B2 as [_ B2]. apply sgt0_true in B2.
        pose proof (theta_acc_pos gd (pd_sigma_min st) ltac:(lra) Hsm) as Hth.
        cbn [pd_tau pd_sigma pd_tau_min pd_sigma_min]. cbn [smul ROps].
        repeat split; try assumption.
        * unfold Rdiv. apply Rmult_lt_0_compat; [assumption | apply Rinv_0_lt_compat; assumption].
        * apply Rmult_lt_0_compat; assumption.
        * apply Rmult_le_pos; lra.
      + cbn [pd_tau pd_sigma pd_tau_min pd_sigma_min]. repeat split; assumption.
  Qed.

  Notation siter_g := (pd_iter ROps X U R R vplus vminus vmul vnorm vplus vminus vnorm
                             vmul Ropp Rmult Rdiv (fun v t => vmul (/ sqrt t) v)
                             vmul Rmult Rdiv (fun v t => vmul (/ sqrt t) v) A AH proxfc proxg).

  (* ... so a saddle point stays fixed for every number of updates, in every gamma branch *)
  Lemma pdhg_fixed_iter_scalar theta gp gd st xs us n :
    steps_ok st -> ssaddle xs us ->
    pd_x st = xs -> pd_u st = us -> pd_xext st = xs ->
    let stn := siter_g theta gp gd n st in
    steps_ok stn /\ pd_x stn = xs /\ pd_u stn = us /\ pd_xext stn = xs.
  Proof.
    intros Hok Hsad Hx Hu He. induction n as [|n IH]; cbn [pd_iter].
    - auto.
    - cbv zeta in IH. destruct IH as (Hok' & Hx' & Hu' & He').
      split; [apply sstep_steps_ok; exact Hok'|].
      destruct Hok' as (Ht & Hs & _).
      apply pdhg_fixed_scalar; auto.
  Qed.
End PdhgFejer.

(* ------------------------------------------------------------------------------ *)
(* the hypotheses are satisfiable: positive DIAGONAL primal steps on R^2, scalar dual  *)
(* ------------------------------------------------------------------------------ *)
Section DiagExample.
  Definition R2 : IPS := prod_IPS R_IPS R_IPS.
  Definition dact (t : R * R) (v : R2) : R2 := (fst t * fst v, snd t * snd v).
  Definition dinv (t : R * R) (v : R2) : R2 := (fst v / fst t, snd v / snd t).
  Definition dneg (t : R * R) : R * R := (- fst t, - snd t).
  Definition dgood (t : R * R) : Prop := 0 < fst t /\ 0 < snd t.
  Definition dmuls (t : R * R) (c : R) : R * R := (fst t * c, snd t * c).
  Definition ddivs (t : R * R) (c : R) : R * R := (fst t / c, snd t / c).
  Definition ddivsqrt (v : R2) (t : R * R) : R2 := (fst v / sqrt (fst t), snd v / sqrt (snd t)).

  Lemma dinv_act t v : dgood t -> dinv t (dact t v) = v.
  Proof. intros [H1 H2]. destruct v as [a b]. unfold dinv, dact. apply injective_projections; cbn [fst snd]; (match goal with |- @eq _ ?l ?r => change (@eq R l r) end); field; lra. Qed.
  Lemma dact_neg t (v : R2) : dact (dneg t) v = dact t (vmul (-1) v).
  Proof. destruct v as [a b]. unfold dact, dneg. apply injective_projections; cbn; (match goal with |- @eq _ ?l ?r => change (@eq R l r) end); ring. Qed.

  (* g = 0: the identity is the prox in every diagonal metric *)
  Lemma diag_prox0_vi : forall (t : R * R) (v p : R2), dgood t ->
    ((fun (_ : R * R) (w : R2) => w) t v = p <-> forall z : R2, 0 + ip (dinv t (vminus v p)) (vminus z p) <= 0).
  Proof.
    intros [t1 t2] [v1 v2] [p1 p2] [H1 H2]; cbn [fst snd] in *. split.
    - intros Heq z. inversion Heq; subst. destruct z as [z1 z2]. cbn. unfold Rdiv. change (vec R_IPS) with R in *. nra.
    - intro H. specialize (H (v1, v2)). cbn in H.
      assert (Hi1 : 0 < / t1) by (apply Rinv_0_lt_compat; lra).
      assert (Hi2 : 0 < / t2) by (apply Rinv_0_lt_compat; lra).
      unfold Rdiv in H. change (vec R_IPS) with R in *.
      set (d1 := v1 + -1 * p1) in *. set (d2 := v2 + -1 * p2) in *.
      assert (Hq1 : 0 <= d1 * d1) by nra. assert (Hq2 : 0 <= d2 * d2) by nra.
      assert (Ha : 0 <= / t1 * (d1 * d1)) by (apply Rmult_le_pos; lra).
      assert (Hb : 0 <= / t2 * (d2 * d2)) by (apply Rmult_le_pos; lra).
      assert (Ha0 : / t1 * (d1 * d1) = 0) by lra.
      assert (Hb0 : / t2 * (d2 * d2) = 0) by lra.
      assert (Hd1 : d1 * d1 = 0) by (apply Rmult_integral in Ha0; destruct Ha0; lra).
      assert (Hd2 : d2 * d2 = 0) by (apply Rmult_integral in Hb0; destruct Hb0; lra).
      assert (d1 = 0) by nra. assert (d2 = 0) by nra.
      unfold d1, d2 in *. apply injective_projections; cbn [fst snd]; lra.
  Qed.

  Variables (c1 c2 y : R).
  Definition exA (x : R2) : R_IPS := c1 * fst x + c2 * snd x.
  Definition exAH (u : R_IPS) : R2 := (c1 * u, c2 * u).

  Lemma pdhg_fixed_diag_example theta gp gd (st : pd_state ROps R2 R_IPS (R * R) R) xs us :
    dgood (pd_tau st) -> 0 < pd_sigma st ->
    saddle R2 R_IPS exA exAH (fun _ => 0) (hquad R_IPS 1 y) xs us ->
    pd_x st = xs -> pd_u st = us -> pd_xext st = xs ->
    let st' := pd_step ROps R2 R_IPS (R * R) R vplus vminus vmul vnorm vplus vminus vnorm
                       dact dneg dmuls ddivs ddivsqrt vmul Rmult Rdiv (fun v t => vmul (/ sqrt t) v)
                       exA exAH (prox_quad R_IPS 1 y) (fun _ w => w) theta gp gd st in
    pd_x st' = xs /\ pd_u st' = us /\ pd_xext st' = xs.
  Proof.
    intros Hg Hs.
    apply (pdhg_fixed_lemma R2 R_IPS exA exAH (fun _ => 0) (hquad R_IPS 1 y) (R * R)%type R dgood (fun t => 0 < t)
             dact dinv dneg dmuls ddivs ddivsqrt vmul (fun t v => vmul (/ t) v) Rmult Rdiv (fun v t => vmul (/ sqrt t) v)
             (prox_quad R_IPS 1 y) (fun _ w => w)
             dinv_act (scalar_tinv_act R_IPS) dact_neg diag_prox0_vi (prox_quad_vi R_IPS 1 y ltac:(lra))
             theta gp gd st xs us Hg Hs).
  Qed.
End DiagExample.

(* ------------------------------------------------------------------------------ *)
(* Fejer hypotheses are satisfiable: X = U = R, A x = c x, g = lam/2 x^2, f = 1/2 (. - y)^2  *)
(* ------------------------------------------------------------------------------ *)
Section RFejerExample.
  Variables (c y lam : R).
  Hypothesis Hlam : 0 <= lam.
  Let A1 : R_IPS -> R_IPS := exA1 c.

  Lemma fejer_R_example (st : pd_state ROps R_IPS R_IPS R R) (xs us : R_IPS) k :
    0 < pd_tau st -> 0 < pd_sigma st -> pd_tau st * pd_sigma st * (c * c) <= 1 ->
    ssaddle R_IPS R_IPS A1 A1 (hquad R_IPS lam 0) (hquad R_IPS 1 y) xs us ->
    0 <= fejer_dist R_IPS R_IPS A1 A1 (prox_quad R_IPS 1 y) (prox_quad R_IPS lam 0) st xs us (S k)
      <= fejer_dist R_IPS R_IPS A1 A1 (prox_quad R_IPS 1 y) (prox_quad R_IPS lam 0) st xs us k.
  Proof.
    intros Ht Hs HL Hsad.
    apply (pdhg_fejer_lemma R_IPS R_IPS A1 A1 (hquad R_IPS lam 0) (hquad R_IPS 1 y) (prox_quad R_IPS 1 y) (prox_quad R_IPS lam 0)
             (exA1_plus c) (exA1_mul c) (exA1_adj c) (prox_quad_vi R_IPS lam 0 Hlam) (prox_quad_vi R_IPS 1 y ltac:(lra))
             st xs us (c * c) k Ht Hs Hsad (exA1_bound c) HL).
  Qed.

  (* and a saddle point exists: the minimiser of 1/2 (c x - y)^2 + lam/2 x^2 when c^2 + lam > 0 *)
  Lemma saddle_R_example : 0 < c * c + lam ->
    ssaddle R_IPS R_IPS A1 A1 (hquad R_IPS lam 0) (hquad R_IPS 1 y) (c * y / (c * c + lam)) (c * (c * y / (c * c + lam)) - y).
  Proof.
    intro Hpos. set (xs := c * y / (c * c + lam)).
    assert (Hxs : (c * c + lam) * xs = c * y) by (unfold xs; field; lra).
    unfold ssaddle, hquad, A1, exA1, nrm2. cbn. change (vec R_IPS) with R in *. clearbody xs. split; intro z; change (vec R_IPS) with R in *.
    - assert (E1 : -1 * (c * (c * xs - y)) = lam * xs) by (transitivity (- (c * c) * xs + c * y); [ring | rewrite <- Hxs; ring]). rewrite E1.
      assert (Hq : 0 <= lam * ((z - xs) * (z - xs))) by (apply Rmult_le_pos; [exact Hlam | apply (Rle_0_sqr (z - xs))]).
      clear - Hq. lra.
    - set (w := c * xs - y). replace (c * xs) with (w + y) by (unfold w; ring). clearbody w.
      assert (Hq : 0 <= (z - w) * (z - w)) by apply (Rle_0_sqr (z - w)). clear - Hq. lra.
  Qed.
End RFejerExample.
