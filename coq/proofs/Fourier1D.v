(* proofs/Fourier1D.v — one-dimensional theory of the DFT over a commutative *-ring with a
   root of unity:  powers with integer exponents, orthogonality, the centred kernel
   (fftshift . dft . ifftshift), inverse pair, adjoint pair.
   Hypotheses on w (bundled in [root_ok]):  0 < n,  w^n = 1,
   sum_{k<n} w^(k m) = 0 for 0 < m < n,  conj w * w = 1. *)
From Coq Require Import ZArith List Lia Bool Ring.
From SV Require Import lib.Scalar lib.BigSum model.Fourier.
Import ListNotations.
Local Open Scope Z_scope.

Definition root_ok (R : StarRing) (n : Z) (w : R) : Prop :=
  0 < n /\ opow w (Z.to_nat n) = one /\
  (forall m, 0 < m < n -> sumZ n (fun k => opow w (Z.to_nat (k * m))) = zero) /\
  mul (conj w) w = one.

Lemma root_ok_unfold (R : StarRing) n (w : R) :
  root_ok R n w <->
  (0 < n /\ opow w (Z.to_nat n) = one /\
   (forall m, 0 < m < n -> sumZ n (fun k => opow w (Z.to_nat (k * m))) = zero) /\
   mul (conj w) w = one).
Proof. reflexivity. Qed.

Section Gen.
  Variable R : StarRing.
  Add Ring Rr0 : (SRth R).
  Local Open Scope sr_scope.

  Lemma osum_nat_sum_nat k (f : nat -> R) : osum_nat k f = sum_nat k f.
  Proof. induction k as [|k IH]; simpl; [reflexivity| rewrite IH; reflexivity]. Qed.

  Lemma osumZ_sumZ n (f : Z -> R) : osumZ n f = sumZ n f.
  Proof. apply osum_nat_sum_nat. Qed.

  Lemma opow_add (w : R) a b : opow w (a + b) = opow w a * opow w b.
  Proof. induction a as [|a IH]; simpl; [ring| rewrite IH; ring]. Qed.

  Lemma opow_one k : opow (1 : R) k = 1.
  Proof. induction k as [|k IH]; simpl; [reflexivity| rewrite IH; ring]. Qed.

  Lemma opow_mul (w : R) a b : opow w (a * b) = opow (opow w a) b.
  Proof.
    induction b as [|b IH]; simpl.
    - rewrite Nat.mul_0_r. reflexivity.
    - rewrite Nat.mul_succ_r, Nat.add_comm, opow_add, IH. reflexivity.
  Qed.

  Lemma opow_mulbase (u v : R) k : opow (u * v) k = opow u k * opow v k.
  Proof. induction k as [|k IH]; simpl; [ring| rewrite IH; ring]. Qed.

  Lemma opow_conj (w : R) k : conj (opow w k) = opow (conj w) k.
  Proof. induction k as [|k IH]; simpl; [apply conj_one| rewrite conj_mul, IH; reflexivity]. Qed.

  (* rotation of the summation index *)
  Lemma sumZ_rot n h (F : Z -> R) : (0 <= h <= n)%Z -> (0 < n)%Z ->
    sumZ n (fun j => F ((j + h) mod n)%Z) = sumZ n F.
  Proof.
    intros Hh Hn.
    transitivity (sumZ ((n - h) + h) (fun j => F ((j + h) mod n)%Z)); [f_equal; lia|].
    rewrite sumZ_split by lia.
    transitivity (sumZ (h + (n - h)) F); [|f_equal; lia].
    rewrite (sumZ_split R h (n - h)) by lia.
    rewrite (Radd_comm (SRth R)). f_equal.
    - apply sumZ_ext. intros i Hi. f_equal.
      replace (n - h + i + h)%Z with (i + 1 * n)%Z by ring. rewrite Z_mod_plus_full. apply Z.mod_small. lia.
    - apply sumZ_ext. intros i Hi. f_equal. rewrite Z.mod_small by lia. lia.
  Qed.

  (* n as a ring element *)
  Definition nR (n : Z) : R := sumZ n (fun _ => 1).

  (* kernel form of a 1-D operator; two kernels that multiply to the identity matrix are inverse *)
  Lemma dft1_inverse (K1 K2 : Z -> Z -> Z -> R) n :
    (forall j l, (0 <= j < n)%Z -> (0 <= l < n)%Z ->
                 sumZ n (fun k => K1 n j k * K2 n k l) = if (j =? l)%Z then 1 else 0) ->
    forall (x : Z -> R) l, (0 <= l < n)%Z -> dft1 K2 n (dft1 K1 n x) l = x l.
  Proof.
    intros H x l Hl. unfold dft1. rewrite !osumZ_sumZ.
    rewrite (sumZ_ext R n _ (fun k => sumZ n (fun j => x j * (K1 n j k * K2 n k l)))).
    2:{ intros k _. rewrite osumZ_sumZ. rewrite (Rmul_comm (SRth R)), <- sumZ_scale. apply sumZ_ext. intros; ring. }
    rewrite sumZ_exchange.
    rewrite (sumZ_ext R n _ (fun j => if (j =? l)%Z then x j else 0)).
    - apply sumZ_single. exact Hl.
    - intros j Hj. rewrite sumZ_scale, H by assumption. destruct (j =? l)%Z; ring.
  Qed.

  (* kernels that are conjugate transposes give adjoint operators (1-D inner product) *)
  Lemma dft1_adjoint (K1 K2 : Z -> Z -> Z -> R) n :
    (forall j k, (0 <= j < n)%Z -> (0 <= k < n)%Z -> K2 n k j = conj (K1 n j k)) ->
    forall x y : Z -> R,
      sumZ n (fun k => dft1 K1 n x k * conj (y k)) = sumZ n (fun j => x j * conj (dft1 K2 n y j)).
  Proof.
    intros H x y. unfold dft1.
    rewrite (sumZ_ext R n _ (fun k => sumZ n (fun j => x j * K1 n j k * conj (y k)))).
    2:{ intros k _. rewrite osumZ_sumZ, (Rmul_comm (SRth R)), <- sumZ_scale. apply sumZ_ext. intros; ring. }
    rewrite sumZ_exchange. apply sumZ_ext. intros j Hj.
    rewrite osumZ_sumZ, sumZ_conj, <- sumZ_scale. apply sumZ_ext. intros k Hk.
    rewrite conj_mul, H, conj_invol by assumption. ring.
  Qed.
End Gen.

Arguments nR {R}.

Section Root.
  Variable R : StarRing.
  Add Ring Rr1 : (SRth R).
  Local Open Scope sr_scope.
  Variable n : Z.
  Variable w : R.
  Hypothesis Hroot : root_ok R n w.

  Let Hn : (0 < n)%Z := proj1 Hroot.
  Let Hwn : opow w (Z.to_nat n) = 1 := proj1 (proj2 Hroot).
  Let Horth := proj1 (proj2 (proj2 Hroot)).
  Let Hunit : conj w * w = 1 := proj2 (proj2 (proj2 Hroot)).

  (* w^e for an integer exponent, through the exponent's residue *)
  Definition zpw (e : Z) : R := opow w (Z.to_nat (e mod n)).

  Lemma zpw_congr a b : (a mod n = b mod n)%Z -> zpw a = zpw b.
  Proof. unfold zpw. intros ->. reflexivity. Qed.

  Lemma opow_n_mult q : opow w (Z.to_nat n * q) = 1.
  Proof. rewrite opow_mul, Hwn. apply opow_one. Qed.

  Lemma zpw_nonneg e : (0 <= e)%Z -> zpw e = opow w (Z.to_nat e).
  Proof.
    intros He. unfold zpw.
    pose proof (Z.div_mod e n ltac:(lia)) as E. pose proof (Z.mod_pos_bound e n Hn) as B.
    assert (Hq : (0 <= e / n)%Z) by (apply Z.div_pos; lia).
    replace (Z.to_nat e) with (Z.to_nat n * Z.to_nat (e / n) + Z.to_nat (e mod n))%nat by nia.
    rewrite opow_add, opow_n_mult. ring.
  Qed.

  Lemma zpw_0 : zpw 0 = 1.
  Proof. rewrite zpw_nonneg by lia. reflexivity. Qed.

  Lemma zpw_add a b : zpw (a + b) = zpw a * zpw b.
  Proof.
    pose proof (Z.mod_pos_bound a n Hn). pose proof (Z.mod_pos_bound b n Hn).
    rewrite (zpw_congr (a + b) (a mod n + b mod n)) by (rewrite <- Zplus_mod; reflexivity).
    rewrite zpw_nonneg by lia. rewrite Z2Nat.inj_add by lia. rewrite opow_add. reflexivity.
  Qed.

  Lemma zpw_neg e : zpw (- e) * zpw e = 1.
  Proof. rewrite <- zpw_add. replace (- e + e)%Z with 0%Z by ring. apply zpw_0. Qed.

  Lemma zpw_conj e : conj (zpw e) = zpw (- e).
  Proof.
    assert (U : conj (zpw e) * zpw e = 1).
    { unfold zpw. rewrite opow_conj, <- opow_mulbase, Hunit. apply opow_one. }
    transitivity (zpw (- e) * (conj (zpw e) * zpw e)); [|rewrite U; ring].
    transitivity (conj (zpw e) * (zpw (- e) * zpw e)); [rewrite zpw_neg; ring | ring].
  Qed.

  Lemma zpw_n_mult q : zpw (q * n) = 1.
  Proof. rewrite (zpw_congr (q * n) 0); [apply zpw_0| rewrite Z_mod_mult; reflexivity]. Qed.

  (* orthogonality with integer exponents *)
  Lemma zpw_orth m : (m mod n <> 0)%Z -> sumZ n (fun k => zpw (k * m)) = 0.
  Proof.
    intros Hm. pose proof (Z.mod_pos_bound m n Hn) as B.
    rewrite <- (Horth (m mod n)%Z) by lia.
    apply sumZ_ext. intros k Hk.
    rewrite (zpw_congr (k * m) (k * (m mod n))) by (rewrite Z.mul_mod_idemp_r by lia; reflexivity).
    apply zpw_nonneg. nia.
  Qed.

  Lemma zpw_sum_all m : (m mod n = 0)%Z -> sumZ n (fun k => zpw (k * m)) = nR n.
  Proof.
    intros Hm. apply sumZ_ext. intros k _.
    rewrite (zpw_congr (k * m) 0); [apply zpw_0|].
    rewrite <- Z.mul_mod_idemp_r, Hm, Z.mul_0_r by lia. reflexivity.
  Qed.

  (* ---- the family of kernels  c * w^(+-(j-h)(k-h))  (h = 0: plain, h = n/2: centred) ---- *)
  Definition gk (inverse : bool) (c : R) (h : Z) (j k : Z) : R :=
    c * zpw ((if inverse then -1 else 1) * ((j - h) * (k - h))).

  Lemma gk_conj inverse c h j k : conj (gk inverse c h j k) = gk (negb inverse) (conj c) h k j.
  Proof.
    unfold gk. rewrite conj_mul, zpw_conj. f_equal. apply zpw_congr. f_equal. destruct inverse; cbn [negb]; ring.
  Qed.

  Lemma gk_delta inverse c c' h j l : (0 <= j < n)%Z -> (0 <= l < n)%Z ->
    sumZ n (fun k => gk inverse c h j k * gk (negb inverse) c' h k l) =
    if (j =? l)%Z then c * c' * nR n else 0.
  Proof.
    intros Hj Hl. set (sg := (if inverse then -1 else 1)%Z).
    rewrite (sumZ_ext R n _ (fun k => (c * c' * zpw (- (h * (sg * (j - l))))) * zpw (k * (sg * (j - l))))).
    2:{ intros k _. unfold gk. fold sg.
        replace (if negb inverse then -1 else 1)%Z with (- sg)%Z by (unfold sg; destruct inverse; reflexivity).
        transitivity (c * c' * (zpw (sg * ((j - h) * (k - h))) * zpw (- sg * ((k - h) * (l - h))))); [ring|].
        rewrite <- zpw_add.
        transitivity (c * c' * (zpw (- (h * (sg * (j - l)))) * zpw (k * (sg * (j - l))))); [|ring].
        rewrite <- zpw_add. f_equal. apply zpw_congr. f_equal. ring. }
    rewrite sumZ_scale.
    destruct (Z.eqb_spec j l) as [->|Hne].
    - replace (sg * (l - l))%Z with 0%Z by ring.
      rewrite zpw_sum_all by (apply Z.mod_0_l; lia).
      replace (- (h * 0))%Z with 0%Z by ring. rewrite zpw_0. ring.
    - rewrite zpw_orth; [ring|].
      intros E. apply Z.mod_divide in E; [|lia]. destruct E as [q Hq].
      assert (A : (Z.abs (j - l) < n)%Z) by lia.
      assert (B : (Z.abs (j - l) = Z.abs q * n)%Z).
      { assert (E1 : Z.abs (sg * (j - l)) = Z.abs (j - l)) by (unfold sg; destruct inverse; lia).
        rewrite <- E1, Hq, Z.abs_mul. lia. }
      assert (Z.abs q = 0 \/ 1 <= Z.abs q)%Z as [Q|Q] by lia; [|nia].
      rewrite Q in B. lia.
  Qed.

  (* ---- fftshift (K (ifftshift x)) is the centred kernel ------------------------------- *)
  Lemma shift_exponent j k h : (0 <= j < n)%Z ->
    ((j * ((k - h) mod n)) mod n = ((((j + h) mod n - h) * (k - h))) mod n)%Z.
  Proof.
    intros Hj.
    rewrite Z.mul_mod_idemp_r by lia.
    rewrite (Z.mod_eq (j + h) n) by lia.
    replace ((j + h - n * ((j + h) / n) - h) * (k - h))%Z with (j * (k - h) + (- ((j + h) / n) * (k - h)) * n)%Z by ring.
    rewrite Z_mod_plus_full. reflexivity.
  Qed.

  Theorem fftc_1d_gen inverse c (x : Z -> R) k : (0 <= k < n)%Z ->
    dft1 (fun _ => gk inverse c 0) n (fun j => x (g_ifftshift n j)) (g_fftshift n k) =
    dft1 (fun _ => gk inverse c (n / 2)) n x k.
  Proof.
    intros Hk. unfold dft1. rewrite !osumZ_sumZ. unfold g_ifftshift, g_fftshift. cbv beta.
    assert (Hh : (0 <= n / 2 <= n)%Z).
    { pose proof (Z.div_mod n 2 ltac:(lia)). pose proof (Z.mod_pos_bound n 2 ltac:(lia)). lia. }
    transitivity (sumZ n (fun j => (fun j' => x j' * gk inverse c (n / 2) j' k) ((j + n / 2) mod n)%Z)).
    2:{ apply (sumZ_rot R n (n / 2) (fun j' => x j' * gk inverse c (n / 2) j' k)); lia. }
    apply sumZ_ext. intros j Hj. cbv beta. f_equal. unfold gk. f_equal. apply zpw_congr.
    rewrite !Z.sub_0_r.
    rewrite <- (Z.mul_mod_idemp_r _ (j * _)) by lia. rewrite (shift_exponent j k (n / 2) Hj).
    rewrite Z.mul_mod_idemp_r by lia. reflexivity.
  Qed.

  (* ---- the model's kernels (model/Fourier.v) when the table holds the powers of w ------ *)
  Variable tw : Z -> Z -> R.
  Variable isc inv : Z -> R.
  Hypothesis Htw : forall m, tw n m = opow w (Z.to_nat m).

  Definition fscale (ortho : bool) : R := if ortho then isc n else 1.
  Definition iscale (ortho : bool) : R := if ortho then isc n else inv n.
  Definition kscale (inverse ortho : bool) : R := if inverse then iscale ortho else fscale ortho.

  Lemma fker_gk ortho j k : fker tw isc ortho n j k = gk false (fscale ortho) 0 j k.
  Proof.
    unfold fker, gk, fscale. cbv zeta. rewrite Htw. fold (zpw (j * k)).
    rewrite (zpw_congr (1 * ((j - 0) * (k - 0))) (j * k)) by (f_equal; ring).
    destruct ortho; [reflexivity | ring].
  Qed.

  Lemma iker_gk ortho j k : iker tw isc inv ortho n j k = gk true (iscale ortho) 0 j k.
  Proof.
    unfold iker, gk, iscale. rewrite Htw. fold (zpw (j * k)). rewrite zpw_conj.
    rewrite (zpw_congr (-1 * ((j - 0) * (k - 0))) (- (j * k))) by (f_equal; ring).
    reflexivity.
  Qed.

  Lemma ker1_gk inverse ortho j k :
    ker1 tw isc inv inverse ortho n j k = gk inverse (kscale inverse ortho) 0 j k.
  Proof. unfold ker1, kscale. destruct inverse; [apply iker_gk | apply fker_gk]. Qed.

  Lemma dft1_ext (K K' : Z -> Z -> Z -> R) (x y : Z -> R) k :
    (forall j, (0 <= j < n)%Z -> x j = y j) -> (forall j, (0 <= j < n)%Z -> K n j k = K' n j k) ->
    dft1 K n x k = dft1 K' n y k.
  Proof.
    intros Hx HK. unfold dft1. rewrite !osumZ_sumZ. apply sumZ_ext. intros j Hj. rewrite Hx, HK by assumption. reflexivity.
  Qed.

  (* the centred kernel of the model: scale * w^(+-(j - n/2)(k - n/2)) *)
  Definition cker (inverse ortho : bool) (j k : Z) : R := gk inverse (kscale inverse ortho) (n / 2) j k.

  (* 1-D _fftc / _ifftc without the resize: fftshift . (i)fft . ifftshift *)
  Definition cfft1 (inverse ortho : bool) (x : Z -> R) : Z -> R :=
    fun k => dft1 (ker1 tw isc inv inverse ortho) n (fun j => x (g_ifftshift n j)) (g_fftshift n k).

  Theorem cfft1_spec inverse ortho x k : (0 <= k < n)%Z ->
    cfft1 inverse ortho x k = sumZ n (fun j => x j * cker inverse ortho j k).
  Proof.
    intros Hk. unfold cfft1.
    rewrite (dft1_ext _ (fun _ => gk inverse (kscale inverse ortho) 0) _ (fun j => x (g_ifftshift n j)))
      by (intros; try apply ker1_gk; reflexivity).
    rewrite fftc_1d_gen by exact Hk. unfold dft1. rewrite osumZ_sumZ. reflexivity.
  Qed.

  (* DESIGN C05 fftc_1d: the origin is index n/2 on both sides, odd and even n in one statement *)
  Theorem fftc_1d x k : (0 <= k < n)%Z ->
    dft1 (fker tw isc false) n (fun j => x (g_ifftshift n j)) (g_fftshift n k) =
    sumZ n (fun j => x j * zpw ((j - n / 2) * (k - n / 2))).
  Proof.
    intros Hk. change (cfft1 false false x k = sumZ n (fun j => x j * zpw ((j - n / 2) * (k - n / 2)))).
    rewrite cfft1_spec by exact Hk. apply sumZ_ext. intros j _. unfold cker, gk, kscale, fscale.
    rewrite (zpw_congr (1 * ((j - n / 2) * (k - n / 2))) ((j - n / 2) * (k - n / 2))) by (f_equal; ring). ring.
  Qed.

  Hypothesis Hisc : isc n * isc n * nR n = 1.
  Hypothesis Hiscr : conj (isc n) = isc n.
  Hypothesis Hinv : inv n * nR n = 1.

  Lemma kscale_prod inverse ortho : kscale inverse ortho * kscale (negb inverse) ortho * nR n = 1.
  Proof.
    unfold kscale, iscale, fscale. destruct inverse, ortho; cbn [negb]; try exact Hisc.
    - transitivity (inv n * nR n); [ring | exact Hinv].
    - transitivity (inv n * nR n); [ring | exact Hinv].
  Qed.

  Lemma gk_pair_delta inverse ortho h j l : (0 <= j < n)%Z -> (0 <= l < n)%Z ->
    sumZ n (fun k => gk inverse (kscale inverse ortho) h j k * gk (negb inverse) (kscale (negb inverse) ortho) h k l)
    = if (j =? l)%Z then 1 else 0.
  Proof.
    intros Hj Hl. rewrite gk_delta by assumption. rewrite kscale_prod. reflexivity.
  Qed.

  Lemma gk_pair_conj inverse h j k :
    gk (negb inverse) (kscale (negb inverse) true) h k j = conj (gk inverse (kscale inverse true) h j k).
  Proof.
    rewrite gk_conj. f_equal. unfold kscale, iscale, fscale. destruct inverse; cbn [negb]; symmetry; exact Hiscr.
  Qed.

  Lemma cfft1_ext inverse ortho x y k : (forall j, (0 <= j < n)%Z -> x j = y j) ->
    cfft1 inverse ortho x k = cfft1 inverse ortho y k.
  Proof.
    intros H. unfold cfft1. apply dft1_ext; [|reflexivity].
    intros j _. apply H. unfold g_ifftshift. apply Z.mod_pos_bound. exact Hn.
  Qed.

  (* ifft (fft x) = x and fft (ifft x) = x, centred, either normalisation *)
  Theorem ifft_fft_1d inverse ortho x l : (0 <= l < n)%Z ->
    cfft1 (negb inverse) ortho (cfft1 inverse ortho x) l = x l.
  Proof.
    intros Hl.
    rewrite (cfft1_ext _ _ _ (fun k => dft1 (fun _ => cker inverse ortho) n x k))
      by (intros k Hk; rewrite cfft1_spec by exact Hk; unfold dft1; rewrite osumZ_sumZ; reflexivity).
    rewrite cfft1_spec by exact Hl. rewrite <- osumZ_sumZ.
    change (dft1 (fun _ => cker (negb inverse) ortho) n (dft1 (fun _ => cker inverse ortho) n x) l = x l).
    apply dft1_inverse; [|exact Hl]. intros j l' Hj Hl'. apply gk_pair_delta; assumption.
  Qed.

  (* center=False: the plain transform (origin at index 0) and its inverse *)
  Theorem plain_ifft_fft_1d inverse ortho x l : (0 <= l < n)%Z ->
    dft1 (ker1 tw isc inv (negb inverse) ortho) n (dft1 (ker1 tw isc inv inverse ortho) n x) l = x l.
  Proof.
    intros Hl. apply dft1_inverse; [|exact Hl]. intros j l' Hj Hl'.
    rewrite (sumZ_ext R n _ (fun k => gk inverse (kscale inverse ortho) 0 j k * gk (negb inverse) (kscale (negb inverse) ortho) 0 k l')).
    - apply gk_pair_delta; assumption.
    - intros k _. rewrite !ker1_gk. reflexivity.
  Qed.

  (* FFT^H = IFFT under the orthonormal scaling (1-D inner product sum_k a_k conj b_k) *)
  Theorem fft_adjoint_1d inverse x y :
    sumZ n (fun k => cfft1 inverse true x k * conj (y k)) =
    sumZ n (fun j => x j * conj (cfft1 (negb inverse) true y j)).
  Proof.
    rewrite (sumZ_ext R n _ (fun k => dft1 (fun _ => cker inverse true) n x k * conj (y k))).
    2:{ intros k Hk. rewrite cfft1_spec by exact Hk. unfold dft1. rewrite osumZ_sumZ. reflexivity. }
    rewrite (sumZ_ext R n (fun j => x j * conj (cfft1 (negb inverse) true y j))
                      (fun j => x j * conj (dft1 (fun _ => cker (negb inverse) true) n y j))).
    2:{ intros k Hk. rewrite cfft1_spec by exact Hk. unfold dft1. rewrite osumZ_sumZ. reflexivity. }
    apply dft1_adjoint. intros j k _ _. apply gk_pair_conj.
  Qed.

  (* Parseval: the centred orthonormal transform preserves sum |x_k|^2 *)
  Theorem parseval_1d inverse x :
    sumZ n (fun k => cfft1 inverse true x k * conj (cfft1 inverse true x k)) = sumZ n (fun j => x j * conj (x j)).
  Proof.
    rewrite fft_adjoint_1d. apply sumZ_ext. intros j Hj. rewrite ifft_fft_1d by exact Hj. reflexivity.
  Qed.
End Root.

(* orthogonality of the powers follows from primitivity when the ring has no zero divisors *)
Section Primitive.
  Variable R : StarRing.
  Add Ring Rr2 : (SRth R).
  Local Open Scope sr_scope.
  Hypothesis integral : forall a b : R, a * b = 0 -> a = 0 \/ b = 0.

  Lemma geom_sum (u : R) k : (u - 1) * sum_nat k (fun i => opow u i) = opow u k - 1.
  Proof. induction k as [|k IH]; simpl; [ring|]. rewrite (Rdistr_l (SRth R)) || idtac. transitivity ((u - 1) * sum_nat k (fun i => opow u i) + (u - 1) * opow u k); [ring|]. rewrite IH. ring. Qed.

  Theorem primitive_root_ok n (w : R) :
    0 < n -> opow w (Z.to_nat n) = 1 -> (forall m, 0 < m < n -> opow w (Z.to_nat m) <> 1) ->
    conj w * w = 1 -> root_ok R n w.
  Proof.
    intros Hn Hwn Hprim Hunit. repeat split; try assumption; try lia.
    intros m Hm.
    assert (G := geom_sum (opow w (Z.to_nat m)) (Z.to_nat n)).
    assert (E : opow (opow w (Z.to_nat m)) (Z.to_nat n) = 1).
    { rewrite <- opow_mul, Nat.mul_comm, opow_mul, Hwn. apply opow_one. }
    rewrite E in G. replace (1 - 1 : R) with (0 : R) in G by ring.
    destruct (integral _ _ G) as [Z0|S0].
    - exfalso. apply (Hprim m Hm). transitivity (opow w (Z.to_nat m) - 1 + 1); [ring| rewrite Z0; ring].
    - unfold sumZ. rewrite <- S0. apply sum_nat_ext. intros i Hi.
      rewrite <- opow_mul. f_equal. nia.
  Qed.
End Primitive.
