(* LinopTheory.v — C01-C04 over the deep embedding, for an arbitrary commutative *-ring.
   [D A] is the mathematical denotation  den arr scal orc noforce A. *)
From Coq Require Import ZArith List Lia Bool Ring.
From SV Require Import lib.Scalar lib.BigSum lib.LoopIR lib.NdArray lib.Gather model.Rearrange model.Block model.Linop.
Import ListNotations.
Local Open Scope Z_scope.

(* ---- induction principle for the nested inductive ---- *)
Section Ind.
  Variable P : linop -> Prop.
  Hypothesis Hleaf : forall A, (match A with Conj _ | Add _ | Compose _ | Hstack _ _ | Vstack _ _ | Diag _ _ _ => False | _ => True end) -> P A.
  Hypothesis Hconj : forall A, P A -> P (Conj A).
  Hypothesis Hadd : forall ls, Forall P ls -> P (Add ls).
  Hypothesis Hcomp : forall ls, Forall P ls -> P (Compose ls).
  Hypothesis Hh : forall ls ax, Forall P ls -> P (Hstack ls ax).
  Hypothesis Hv : forall ls ax, Forall P ls -> P (Vstack ls ax).
  Hypothesis Hd : forall ls oa ia, Forall P ls -> P (Diag ls oa ia).

  Fixpoint linop_rect2 (A : linop) : P A :=
    let fix go (l : list linop) : Forall P l :=
      match l with [] => Forall_nil P | a :: l' => Forall_cons a (linop_rect2 a) (go l') end in
    match A with
    | Conj a => Hconj a (linop_rect2 a)
    | Add l => Hadd l (go l)
    | Compose l => Hcomp l (go l)
    | Hstack l ax => Hh l ax (go l)
    | Vstack l ax => Hv l ax (go l)
    | Diag l oa ia => Hd l oa ia (go l)
    | A' => Hleaf A' I
    end.
End Ind.

Definition is_comb (A : linop) : bool :=
  match A with Conj _ | Add _ | Compose _ | Hstack _ _ | Vstack _ _ | Diag _ _ _ => true | _ => false end.

Section Theory.
  Variable R : StarRing.
  Add Ring RringL : (SRth R).
  Notation farr := (list Z -> R).
  Variable arr : Z -> farr.
  Variable scal : Z -> R.
  Variable orc : linop -> farr -> farr.
  Local Open Scope sr_scope.

  Definition D (A : linop) : farr -> farr := den arr scal orc noforce A.

  Definition adjoint_pair (si so : list Z) (F G : farr -> farr) : Prop :=
    forall x y, inner so (F x) y = inner si x (G y).

  Definition linear (F : farr -> farr) : Prop :=
    forall (a : R) x y o, F (fun i => a * x i + y i) o = a * F x o + F y o.

  (* ---- inner-product algebra ---- *)
  Lemma inner_add_l s (f g y : farr) : inner s (fun i => f i + g i) y = inner s f y + inner s g y.
  Proof. unfold inner. rewrite <- sumB_add. apply sumB_ext. intros; ring. Qed.

  Lemma inner_add_r s (x f g : farr) : inner s x (fun i => f i + g i) = inner s x f + inner s x g.
  Proof. unfold inner. rewrite <- sumB_add. apply sumB_ext. intros. rewrite conj_add. ring. Qed.

  Lemma inner_zero_l s (y : farr) : inner s (fun _ => (0:R)) y = 0.
  Proof. unfold inner. apply sumB_none. intros; ring. Qed.

  Lemma inner_zero_r s (x : farr) : inner s x (fun _ => (0:R)) = 0.
  Proof. unfold inner. apply sumB_none. intros. rewrite conj_zero. ring. Qed.

  Lemma inner_conj s (x y : farr) : inner s (fun i => conj (x i)) y = conj (inner s x (fun i => conj (y i))).
  Proof.
    unfold inner. rewrite sumB_conj. apply sumB_ext. intros. rewrite conj_mul, conj_invol. reflexivity.
  Qed.

  (* ---- combinators: adjoint pairs compose ---- *)
  Lemma adjoint_pair_id s : adjoint_pair s s (fun x => x) (fun y => y).
  Proof. intros x y. reflexivity. Qed.

  Lemma adjoint_pair_compose s1 s2 s3 F1 G1 F2 G2 :
    adjoint_pair s1 s2 F1 G1 -> adjoint_pair s2 s3 F2 G2 ->
    adjoint_pair s1 s3 (fun x => F2 (F1 x)) (fun y => G1 (G2 y)).
  Proof. intros H1 H2 x y. rewrite H2, H1. reflexivity. Qed.

  Lemma adjoint_pair_add si so F1 G1 F2 G2 :
    adjoint_pair si so F1 G1 -> adjoint_pair si so F2 G2 ->
    adjoint_pair si so (fun x o => F1 x o + F2 x o) (fun y i => G1 y i + G2 y i).
  Proof. intros H1 H2 x y. rewrite inner_add_l, inner_add_r, H1, H2. reflexivity. Qed.

  Lemma adjoint_pair_conj si so F G :
    adjoint_pair si so F G ->
    adjoint_pair si so (fun x o => conj (F (fun i => conj (x i)) o)) (fun y i => conj (G (fun o => conj (y o)) i)).
  Proof.
    intros H x y. rewrite inner_conj, H.
    unfold inner. rewrite sumB_conj. apply sumB_ext. intros i _.
    rewrite conj_mul, !conj_invol. reflexivity.
  Qed.

  Lemma adjoint_pair_zero si so : adjoint_pair si so (fun _ _ => (0:R)) (fun _ _ => (0:R)).
  Proof. intros x y. rewrite inner_zero_l, inner_zero_r. reflexivity. Qed.

  Lemma adjoint_pair_sym si so F G : adjoint_pair si so F G -> adjoint_pair so si G F.
  Proof.
    intros H y x. 
    assert (E : forall s (a b : farr), inner s a b = conj (inner s b a)).
    { intros s a b. unfold inner. rewrite sumB_conj. apply sumB_ext. intros. rewrite conj_mul, conj_invol. ring. }
    rewrite (E si), <- H, <- (E so). reflexivity.
  Qed.

  (* ---- unfolding lemmas for the nested fixpoints ---- *)
  Lemma D_compose ls x : D (Compose ls) x = fold_right (fun a acc => D a acc) x ls.
  Proof. unfold D. induction ls as [|a ls IH]; [reflexivity|]. simpl. unfold noforce at 1. simpl in IH. rewrite IH. reflexivity. Qed.

  Lemma D_add ls x o : D (Add ls) x o = fold_right (fun a acc => D a x o + acc) 0 ls.
  Proof. unfold D. induction ls as [|a ls IH]; [reflexivity|]. simpl. simpl in IH. rewrite IH. reflexivity. Qed.

  Lemma D_conj a x o : D (Conj a) x o = conj (D a (fun i => conj (x i)) o).
  Proof. reflexivity. Qed.

  Lemma shapes_compose ls :
    shapes (Compose ls) =
    (ss <- mapM shapes ls ;;
     if negb (compose_ok ss) then Err E_compose else
     match ss with [] => Err E_compose | s0 :: _ => finish (fst s0) (snd (last ss s0)) end).
  Proof.
    simpl. f_equal. induction ls as [|a ls IH]; [reflexivity|]. simpl. rewrite IH. reflexivity.
  Qed.

  Lemma shapes_add ls :
    shapes (Add ls) =
    (ss <- mapM shapes ls ;;
     match ss with
     | [] => Err E_same
     | s0 :: _ => if same_all (map snd ss) && same_all (map fst ss) then finish (fst s0) (snd s0) else Err E_same
     end).
  Proof.
    simpl. f_equal. induction ls as [|a ls IH]; [reflexivity|]. simpl. rewrite IH. reflexivity.
  Qed.

  Lemma finish_ok o i r : finish o i = Ok r -> r = (o, i).
  Proof. unfold finish. destruct (all_pos o && all_pos i); [intros H; inversion H; reflexivity| discriminate]. Qed.

  Lemma mapM_ok {A B} (f : A -> result B) l r : mapM f l = Ok r -> Forall2 (fun a b => f a = Ok b) l r.
  Proof.
    revert r; induction l as [|a l IH]; simpl; intros r H.
    - inversion H. constructor.
    - destruct (f a) eqn:E; [|discriminate]. simpl in H. destruct (mapM f l) eqn:E2; [|discriminate].
      simpl in H. inversion H; subst. constructor; auto.
  Qed.

  Definition apair (A : linop) : Prop := adjoint_pair (ishape_of A) (oshape_of A) (D A) (D (adj A)).

  (* every node that is not Conj/Add/Compose (leaves, and the stacking combinators treated separately) satisfies Q *)
  Fixpoint nodes_ok (Q : linop -> Prop) (A : linop) : Prop :=
    let fix all (l : list linop) : Prop := match l with [] => True | a :: l' => nodes_ok Q a /\ all l' end in
    match A with
    | Conj a => nodes_ok Q a
    | Add l | Compose l => all l
    | _ => Q A
    end.

  Lemma nodes_ok_list Q l :
    (fix all (l : list linop) : Prop := match l with [] => True | a :: l' => nodes_ok Q a /\ all l' end) l
    <-> Forall (nodes_ok Q) l.
  Proof. induction l as [|a l IH]; simpl; [split; auto|]. rewrite IH. split; [intros [? ?]; constructor; auto| intros H; inversion H; auto]. Qed.

  (* adjoint of a chain: apply the adjoints in the opposite order *)
  Lemma fold_adj_chain ls y :
    fold_right (fun a acc => D a acc) y (rev (map adj ls)) = fold_left (fun acc a => D (adj a) acc) ls y.
  Proof.
    revert y; induction ls as [|a ls IH]; intros y; [reflexivity|].
    simpl. rewrite fold_right_app. simpl. apply IH.
  Qed.

  Lemma D_flatten l x :
    fold_right (fun a acc => D a acc) x (flatten_compose l) = fold_right (fun a acc => D a acc) x l.
  Proof.
    induction l as [|a l IH]; [reflexivity|]. unfold flatten_compose in *. simpl. rewrite fold_right_app, IH.
    destruct a; try reflexivity. cbn [fold_right]. rewrite D_compose. reflexivity.
  Qed.

  Lemma D_mkCompose l x : D (mkCompose l) x = fold_right (fun a acc => D a acc) x l.
  Proof. unfold mkCompose. rewrite D_compose. apply D_flatten. Qed.

  (* shape chain: ss are the (oshape, ishape) of ls, adjacent ones fit *)
  Lemma chain_adjoint ls ss :
    Forall2 (fun a s => shapes a = Ok s) ls ss -> compose_ok ss = true ->
    Forall apair ls ->
    forall s0, ss <> [] ->
    adjoint_pair (snd (last ss s0)) (fst (hd s0 ss))
      (fun x => fold_right (fun a acc => D a acc) x ls)
      (fun y => fold_left (fun acc a => D (adj a) acc) ls y).
  Proof.
    intros HF. induction HF as [|a s ls ss Ha HF IH]; intros Hc Hp s0 Hne; [congruence|].
    inversion Hp as [|? ? Hpa Hpl]; subst.
    assert (Eo : oshape_of a = fst s) by (unfold oshape_of; rewrite Ha; destruct s; reflexivity).
    assert (Ei : ishape_of a = snd s) by (unfold ishape_of; rewrite Ha; destruct s; reflexivity).
    unfold apair in Hpa. rewrite Eo, Ei in Hpa.
    destruct ss as [|s' ss'].
    - inversion HF; subst. simpl. exact Hpa.
    - simpl in Hc. apply andb_true_iff in Hc. destruct Hc as [Hfit Hc].
      apply zlist_eqb_spec in Hfit.
      assert (IH' := IH Hc Hpl s0 ltac:(discriminate)).
      simpl hd in IH'. simpl hd. 
      change (last (s :: s' :: ss') s0) with (last (s' :: ss') s0).
      intros x y. simpl fold_right. simpl fold_left.
      rewrite Hpa. rewrite Hfit. rewrite (IH' x (D (adj a) y)). reflexivity.
  Qed.

  Lemma shapes_of_ok a s : shapes a = Ok s -> wf a = true /\ oshape_of a = fst s /\ ishape_of a = snd s.
  Proof. intros H. unfold wf, oshape_of, ishape_of. rewrite H. destruct s; auto. Qed.

  Lemma wf_shapes a : wf a = true -> exists s, shapes a = Ok s.
  Proof. unfold wf. destruct (shapes a) as [s|]; [eauto|discriminate]. Qed.

  Lemma add_adjoint ls o i :
    Forall (fun a => apair a /\ oshape_of a = o /\ ishape_of a = i) ls ->
    adjoint_pair i o (fun x p => fold_right (fun a acc => D a x p + acc) 0 ls)
                     (fun y p => fold_right (fun a acc => D a y p + acc) 0 (map adj ls)).
  Proof.
    induction 1 as [|a ls [Ha [Eo Ei]] _ IH]; simpl; [apply adjoint_pair_zero|].
    unfold apair in Ha. rewrite Eo, Ei in Ha.
    apply (adjoint_pair_add i o (D a) (D (adj a)) _ _ Ha IH).
  Qed.

  Lemma same_all_spec (l : list (list Z)) s0 : same_all (s0 :: l) = true -> Forall (fun s => s = s0) (s0 :: l).
  Proof.
    simpl. intros H. constructor; [reflexivity|]. rewrite forallb_forall in H. apply Forall_forall.
    intros s Hs. symmetry. apply zlist_eqb_spec. apply H. exact Hs.
  Qed.

  Lemma members_ok ls l2 :
    Forall2 (fun a b => shapes a = Ok b) ls l2 ->
    Forall (fun A : linop => wf A = true -> nodes_ok apair A -> apair A) ls ->
    Forall (nodes_ok apair) ls -> Forall apair ls.
  Proof.
    induction 1 as [|a s ls l2 Ha _ IH]; intros HP Hn; [constructor|].
    inversion HP; subst. inversion Hn; subst.
    destruct (shapes_of_ok _ _ Ha) as (Hw & _). constructor; auto.
  Qed.

  Lemma members_shapes ls l2 o i :
    Forall2 (fun a b => shapes a = Ok b) ls l2 ->
    Forall (fun s => s = i) (map snd l2) -> Forall (fun s => s = o) (map fst l2) ->
    Forall (fun a => oshape_of a = o /\ ishape_of a = i) ls.
  Proof.
    induction 1 as [|a s ls l2 Ha _ IH]; simpl; intros Fi Fo; [constructor|].
    inversion Fi; subst. inversion Fo; subst.
    destruct (shapes_of_ok _ _ Ha) as (_ & E1 & E2). constructor; auto.
  Qed.

  Theorem adj_correct A : wf A = true -> nodes_ok apair A -> apair A.
  Proof.
    induction A using linop_rect2; intros Hwf Hn.
    - (* leaves and stacking nodes: by the node hypothesis *)
      destruct A; try contradiction; exact Hn.
    - (* Conj *)
      assert (Hwa : wf A = true) by exact Hwf.
      specialize (IHA Hwa Hn). unfold apair in *.
      change (ishape_of (Conj A)) with (ishape_of A). change (oshape_of (Conj A)) with (oshape_of A).
      change (adj (Conj A)) with (Conj (adj A)).
      intros x y. exact (adjoint_pair_conj _ _ _ _ IHA x y).
    - (* Add *)
      destruct (wf_shapes _ Hwf) as [s Hs]. destruct (shapes_of_ok _ _ Hs) as (_ & Eo & Ei).
      rewrite shapes_add in Hs.
      destruct (mapM shapes ls) as [ss|] eqn:Hm; [|discriminate]. simpl in Hs.
      destruct ss as [|s0 ss]; [discriminate|].
      destruct (same_all (map snd (s0 :: ss)) && same_all (map fst (s0 :: ss))) eqn:Hsame; [|discriminate].
      apply andb_true_iff in Hsame. destruct Hsame as [Hsi Hso].
      apply finish_ok in Hs. subst s. simpl in Eo, Ei.
      unfold apair. rewrite Eo, Ei. change (adj (Add ls)) with (Add (map adj ls)).
      intros x y.
      transitivity (inner (fst s0) (fun p => fold_right (fun a acc => D a x p + acc) 0 ls) y).
      { unfold inner. apply sumB_ext. intros p _. rewrite D_add. reflexivity. }
      transitivity (inner (snd s0) x (fun p => fold_right (fun a acc => D a y p + acc) 0 (map adj ls))).
      2:{ unfold inner. apply sumB_ext. intros p _. rewrite D_add. reflexivity. }
      apply add_adjoint.
      apply mapM_ok in Hm. apply nodes_ok_list in Hn.
      pose proof (same_all_spec _ _ Hsi) as Fi. pose proof (same_all_spec _ _ Hso) as Fo.
      pose proof (members_ok _ _ Hm H Hn) as Hp.
      pose proof (members_shapes _ _ _ _ Hm Fi Fo) as Hsh.
      clear -Hp Hsh. induction ls as [|a ls IHl]; [constructor|].
      inversion Hp; subst. inversion Hsh; subst. constructor; [tauto| auto].
    - (* Compose *)
      destruct (wf_shapes _ Hwf) as [s Hs]. destruct (shapes_of_ok _ _ Hs) as (_ & Eo & Ei).
      rewrite shapes_compose in Hs.
      destruct (mapM shapes ls) as [ss|] eqn:Hm; [|discriminate]. simpl in Hs.
      destruct (compose_ok ss) eqn:Hc; [|discriminate]. simpl in Hs.
      destruct ss as [|s0 ss]; [discriminate|]. apply finish_ok in Hs. subst s. cbn [fst snd] in Eo, Ei.
      unfold apair. rewrite Eo, Ei.
      change (adj (Compose ls)) with (mkCompose (rev (map adj ls))).
      apply mapM_ok in Hm. apply nodes_ok_list in Hn.
      pose proof (members_ok _ _ Hm H Hn) as Hp.
      pose proof (chain_adjoint ls (s0 :: ss) Hm Hc Hp s0 ltac:(discriminate)) as Hch.
      intros x y. rewrite D_compose, D_mkCompose, fold_adj_chain. apply Hch.
    - exact Hn.
    - exact Hn.
    - exact Hn.
  Qed.
End Theory.
