(* proofs/ConvReject.v — rejection theorems for the convolution model: whenever _get_convolve_params
   raises (stride length, channel mismatch, mixed valid axes) all three functions return Err. *)
From Coq Require Import ZArith List Lia Bool.
From SV Require Import lib.Scalar lib.BigSum lib.LoopIR lib.NdArray model.Rearrange model.Block model.Linop model.Conv.
Import ListNotations.
Local Open Scope Z_scope.

Section Rej.
  Variable R : Ops.
  Notation farr := (list Z -> R).

  Lemma params_err_all dsh fsh full st mc e :
    conv_params dsh fsh full st mc = Err e ->
    (forall d f : farr, convolve dsh fsh full st mc d f = Err e) /\
    (forall osh (y f : farr), convolve_data_adjoint osh fsh dsh full st mc y f = Err e) /\
    (forall osh (y d : farr), convolve_filter_adjoint osh dsh fsh full st mc y d = Err e).
  Proof.
    intros H. repeat split; intros; unfold convolve, convolve_data_adjoint, convolve_filter_adjoint; rewrite H; reflexivity.
  Qed.

  (* len(strides) != D *)
  Lemma params_bad_strides dsh fsh full s mc :
    length s <> cv_D fsh mc -> conv_params dsh fsh full (Some s) mc = Err E_conv.
  Proof.
    intros H. unfold conv_params, cv_D in *.
    destruct (length fsh <? (if mc then 2 else 0) + 1)%nat; [reflexivity|].
    destruct (length dsh <? _)%nat; [reflexivity|].
    destruct (negb _); [reflexivity|].
    destruct (Nat.eqb_spec (length s) (length fsh - (if mc then 2 else 0))) as [E|E]; [contradiction|reflexivity].
  Qed.

  (* multi_channel and filt_shape[-D-1] != data_shape[-D-1] *)
  Lemma params_channel_mismatch dsh fsh full st :
    pyget fsh (- Z.of_nat (cv_D fsh true) - 1) <> pyget dsh (- Z.of_nat (cv_D fsh true) - 1) ->
    conv_params dsh fsh full st true = Err E_conv.
  Proof.
    intros H. unfold conv_params, cv_D in *.
    destruct (length fsh <? 2 + 1)%nat; [reflexivity|].
    destruct (length dsh <? _)%nat; [reflexivity|].
    destruct (Z.eqb_spec (pyget fsh (- Z.of_nat (length fsh - 2) - 1)) (pyget dsh (- Z.of_nat (length fsh - 2) - 1))) as [E|E];
      [contradiction|reflexivity].
  Qed.

  (* valid mode, some axis with m_d >= n_d and some axis with m_d < n_d *)
  Lemma params_mixed dsh fsh st mc :
    let D := cv_D fsh mc in
    let m := lastn D dsh in let n := lastn D fsh in
    existsb (fun p => snd p <=? fst p) (combine m n) = true ->
    existsb (fun p => fst p <? snd p) (combine m n) = true ->
    conv_params dsh fsh false st mc = Err E_conv.
  Proof.
    intros D m n H1 H2. unfold conv_params. fold (cv_D fsh mc). fold D. fold m. fold n.
    destruct (length fsh <? _)%nat; [reflexivity|].
    destruct (length dsh <? _)%nat; [reflexivity|].
    destruct (negb _); [reflexivity|].
    destruct st as [s|].
    - destruct (negb _); [reflexivity|]. rewrite H1, H2. reflexivity.
    - rewrite H1, H2. reflexivity.
  Qed.
End Rej.
