(* RunC07.v — executable checkers for interpolate / gridding on PrimFloat complex data. *)
From Coq Require Import ZArith List Bool PrimFloat.
From SV Require Import lib.Scalar lib.BigSum lib.LoopIR lib.NdArray lib.Coord lib.FloatRun gen.Gen_interp model.Block model.Interp.
Import ListNotations.
Local Open Scope Z_scope.

Fixpoint failing_aux (k : Z) (l : list bool) : list Z :=
  match l with [] => [] | b :: l' => (if b then [] else [k]) ++ failing_aux (k + 1) l' end.
Definition failing (l : list bool) : list Z := failing_aux 0 l.

Definition wtF (w : float) : CF := (w, 0%float).

(* kernel selection: 1 = spline (generated from _spline_kernel), 2 = table of values measured on the
   implementation's Kaiser-Bessel kernel, keyed by the bit-exact arguments *)
Definition table_kern (tbl : list ((float * float) * float)) (t p : float) : float :=
  match find (fun e => PrimFloat.eqb (fst (fst e)) t && PrimFloat.eqb (snd (fst e)) p) tbl with
  | Some e => snd e
  | None => nan
  end.
Definition pick_kern (k : Z) (tbl : list ((float * float) * float)) : float -> float -> float :=
  if k =? 1 then spline_kernel FCOps else table_kern tbl.

Definition mkwp (l : list float) (scalar : bool) : wp FCOps :=
  if scalar then WScalar FCOps (hd 0%float l) else WList FCOps l.

Definition cfin (s : list Z) (l : list CF) : list Z -> CF := of_list (0, 0)%float s l.
Definition fin (s : list Z) (l : list float) : list Z -> float := of_list 0%float s l.
Definition closeCF := cfclose 0x1p-40 0x1p-36.
(* entrywise 2^-36 relative, with an absolute floor of 2^-36 of the LARGEST entry: Kaiser-Bessel weights reach 1e3 per axis, and an
   entry that cancels to (almost) zero carries the rounding noise of its large terms, whose order of summation differs between
   the numba loops, the modelled loops and the N-D specification *)
Definition cf_maxabs (l : list CF) : float := fold_left (fun m v => fmax m (cf_abs v)) l 0%float.
Definition close_arr (model expect : list CF) : bool :=
  all2 (cfclose (0x1p-40 + 0x1p-36 * fmax (cf_maxabs model) (cf_maxabs expect))%float 0x1p-36) model expect.

Definition chk_interp (k : Z) tbl (ishape cshape : list Z) (coord : list float) (width param : list float) (ws ps : bool)
           (xin expect : list CF) (osh : list Z) : bool :=
  let kern := pick_kern k tbl in
  match interpolate CFOps FCOps kern wtF ishape cshape (fin cshape coord) (mkwp width ws) (mkwp param ps) (cfin ishape xin) with
  | Ok (osh', y) =>
      zlist_eqb osh' osh && close_arr (tabulate osh y) expect
      && close_arr (tabulate osh (interp_spec CFOps FCOps kern wtF ishape cshape (fin cshape coord) (mkwp width ws) (mkwp param ps) (cfin ishape xin))) expect
  | Err _ => false
  end.

Definition chk_gridding (k : Z) tbl (in_shape cshape oshape : list Z) (coord : list float) (width param : list float) (ws ps : bool)
           (xin expect : list CF) : bool :=
  let kern := pick_kern k tbl in
  match gridding CFOps FCOps kern wtF in_shape cshape oshape (fin cshape coord) (mkwp width ws) (mkwp param ps) (cfin in_shape xin) with
  | Ok y =>
      close_arr (tabulate oshape y) expect
      && close_arr (tabulate oshape (gridding_spec CFOps FCOps kern wtF cshape oshape (fin cshape coord) (mkwp width ws) (mkwp param ps) (cfin in_shape xin))) expect
  | Err _ => false
  end.
