(* RunOpaqueInterp.v — executable checker of the opaque-leaf correspondence for the Interpolate / Gridding family:
   [orc_interp] (model/OpaqueInterp.v) instantiated on PrimFloat complex data (CFOps) and PrimFloat coordinates
   (FCOps), evaluated by vm_compute and compared with the output of the REAL classes sp.linop.Interpolate /
   sp.linop.Gridding (flat row-major (re, im) lists, tolerance of run/RunC07.v), together with the advertised output
   shape, well-formedness, the validity predicate of proofs/OpaqueInterp.v and the width / param length condition.

   Environment literals (built by props/opaque_interp.py from vlib/linser.Serializer):
     carrs   : [(tag, (shape, flat float list))]        captured coordinate arrays
     kerns   : [(code, 1 | 2)]                          kernel code -> 1 = 'spline' (GENERATED _spline_kernel),
                                                                       2 = 'kaiser_bessel' (value table)
     tbl     : Kaiser-Bessel values measured on the implementation at the bit-exact arguments (props/C07.kb_table)
     widths  : [(code, (is_scalar, floats))]            width code  -> scalar or per-axis sequence
     params  : [(code, (is_scalar, floats))]            param code  -> scalar or per-axis sequence *)
From Coq Require Import ZArith List Bool PrimFloat.
From SV Require Import lib.Scalar lib.BigSum lib.LoopIR lib.NdArray lib.Coord lib.FloatRun gen.Gen_interp
  model.Rearrange model.Block model.Interp model.Linop model.OpaqueInterp run.RunC07 run.RunLinop.
Import ListNotations.
Local Open Scope Z_scope.

Definition fenv := list (Z * (list Z * list float)).
Definition wpenv := list (Z * (bool * list float)).

Definition mk_carr (tbl : fenv) : Z -> list Z -> float :=
  fun tag => match find (fun p => fst p =? tag) tbl with
             | Some (_, (s, l)) => of_list 0%float s l
             | None => fun _ => nan
             end.
Definition mk_kern (kerns : list (Z * Z)) (tbl : list ((float * float) * float)) : Z -> float -> float -> float :=
  fun code => pick_kern (lookup 0 kerns code) tbl.
Definition mk_wp (env : wpenv) : Z -> wp FCOps :=
  fun code => match find (fun p => fst p =? code) env with
              | Some (_, (sc, l)) => mkwp l sc
              | None => WList FCOps []
              end.

Definition orc_interp_F (carrs : fenv) (kerns : list (Z * Z)) tbl (widths params : wpenv) : linop -> (list Z -> CF) -> list Z -> CF :=
  orc_interp CFOps FCOps wtF (mk_carr carrs) (mk_kern kerns tbl) (mk_wp widths) (mk_wp params).

(* leaf term, environment, input (flat), implementation's output shape and output (flat) *)
Definition chk_opaque_interp (L : linop) (carrs : fenv) (kerns : list (Z * Z)) tbl (widths params : wpenv)
           (xin : list CF) (esh : list Z) (expect : list CF) : bool :=
  wf L && proven_node_interp L && interp_env_ok (mk_wp widths) (mk_wp params) L && zlist_eqb (oshape_of L) esh &&
  close_arr
    (tabulate (oshape_of L) (orc_interp_F carrs kerns tbl widths params L (cfin (ishape_of L) xin))) expect.

(* the same leaf against its serialised adjoint: the term of A.H is [adj L] *)
Definition chk_opaque_interp_adj (L LH : linop) : bool := linop_eqb (adj L) LH && linop_eqb (adj LH) L.

(* a whole operator tree with the Interpolate / Gridding leaves denoted by orc_interp (captured data arrays of
   MatMul / Multiply leaves in [arrs], scalars in [scals]) *)
Definition chk_apply_interp (T : linop) (arrs : list (Z * (list Z * list CF))) (scals : list (Z * CF))
           (carrs : fenv) (kerns : list (Z * Z)) tbl (widths params : wpenv) (xin expect : list CF) : bool :=
  wf T &&
  close_arr
    (tabulate (oshape_of T)
       (den (mk_arr CFOps arrs) (mk_scal CFOps scals) (orc_interp_F carrs kerns tbl widths params) retab T
            (cfin (ishape_of T) xin))) expect.

(* the constructor / the first application raised: the term is ill-formed or outside the validity predicate *)
Definition chk_opaque_interp_reject (L : linop) : bool := negb (wf L && proven_node_interp L).
