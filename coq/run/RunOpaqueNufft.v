(* RunOpaqueNufft.v — executable checker tying model/OpaqueNufft.orc_nufft to the REAL classes sp.linop.NUFFT /
   sp.linop.NUFFTAdjoint: the leaf term serialised by vlib/linser.py is denoted on hardware floats (CFOps data,
   FCOps coordinates) and compared with the output of the class.

   Environment literals (same conventions as run/RunC06.v, whose helpers are reused):
     pi                      the float numpy.pi
     kb     : (t, K(t, beta)) the implementation's Kaiser-Bessel values at the bit-exact kernel arguments
     sinhs  : (a, sinh a)     numpy's sinh at the apodisation arguments
     tab    : twiddle rows    (n, ([w_n^m], (1/sqrt n, 1/n))) for the oversampled lengths
     coords : (tag, (shape, values))   captured coordinate arrays
     params : (code, value)            the parameter codes of the Serializer (oversamp and width) *)
From Coq Require Import ZArith List Bool PrimFloat.
From SV Require Import lib.Scalar lib.BigSum lib.LoopIR lib.NdArray lib.Coord lib.FloatRun gen.Gen_interp
  model.Rearrange model.Block model.Interp model.Fourier model.Nufft model.Linop model.OpaqueNufft run.RunC06.
Import ListNotations.
Local Open Scope Z_scope.

Definition carr_of (cs : list (Z * (list Z * list float))) (t : Z) : list Z -> float :=
  match find (fun e => fst e =? t) cs with
  | Some e => fin (fst (snd e)) (snd (snd e))
  | None => fun _ => nan
  end.

Definition pv_of (ps : list (Z * float)) (c : Z) : float :=
  match find (fun e => fst e =? c) ps with Some e => snd e | None => nan end.

Definition orc_nufft_run (pi : float) (kb sinhs : list (float * float)) (tab : list twrow)
           (coords : list (Z * (list Z * list float))) (params : list (Z * float)) : linop -> (list Z -> CF) -> list Z -> CF :=
  orc_nufft CFOps FCOps (kb_tbl kb) wtF PrimFloat.sqrt pi (sinh_tbl sinhs) (tw_of tab) (isc_of tab) (inv_of tab)
            (carr_of coords) (pv_of params) (pv_of params).

Definition real_branch (pi : float) (params : list (Z * float)) (L : linop) : bool :=
  match L with
  | NUFFT s c os wd _ | NUFFTAdjoint s c os wd =>
      nufft_real_okb FCOps PrimFloat.sqrt pi s (ashape_of c) (pv_of params os) (pv_of params wd)
  | _ => false
  end.

(* L: the literal leaf; osh/ish: the shapes the python object advertises; xin: the input; expect: A(xin) *)
Definition chk_opaque_nufft (L : linop) (pi : float) (kb sinhs : list (float * float)) (tab : list twrow)
           (coords : list (Z * (list Z * list float))) (params : list (Z * float))
           (osh ish : list Z) (xin expect : list CF) (rtol : float) : bool :=
  is_nufft L && wf L && proven_node_nufft FCOps (pv_of params) L && real_branch pi params L &&
  zlist_eqb (oshape_of L) osh && zlist_eqb (ishape_of L) ish &&
  close_list rtol (tabulate osh (orc_nufft_run pi kb sinhs tab coords params L (cfin ish xin))) expect.

(* the class's .H: the python object A.H must serialise to [adj L] (compared as terms) *)
Definition chk_adj_term (L LH : linop) : bool := linop_eqb (adj L) LH.

(* a constructor call that python rejects / that cannot run must fail the validity predicate *)
Definition chk_rejected (pi : float) (L : linop) (params : list (Z * float)) : bool :=
  negb (wf L && proven_node_nufft FCOps (pv_of params) L && real_branch pi params L).
