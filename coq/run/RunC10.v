(* RunC10.v — executable checkers of the C10 wrapper correspondence.  Arrays are exact: every float is
   passed as an integer label of its IEEE bit pattern (injective per case, +0.0 = 0), complex numbers as pairs, so the model
   (pure data movement around the PyWavelets calls) runs on Z[i] and is compared exactly.
   The PyWavelets results recorded from the implementation's own calls are handed to the model as the
   data of W / Wr:  W z = wout when z is exactly the recorded argument, a poison value otherwise. *)
From Coq Require Import ZArith List Bool.
From SV Require Import lib.Scalar lib.BigSum lib.NdArray model.Rearrange model.Wavelet.
Import ListNotations.
Local Open Scope Z_scope.

Definition gzlist_eqb := list_eqb gz_eqb.
Definition gin (s : list Z) (l : list (Z * Z)) : list Z -> Z * Z := of_list (0, 0) s l.
Fixpoint all2z {A} (p : A -> A -> bool) (a b : list A) : bool :=
  match a, b with [], [] => true | x :: a', y :: b' => p x y && all2z p a' b' | _, _ => false end.
Definition poison : Z * Z := (-1, -1).

(* the oracle as data: defined only at the recorded padded shape [key] and argument (compared on the box argshape) *)
Definition data_op (key argshape : list Z) (arg : list (Z * Z)) (resshape : list Z) (res : list (Z * Z))
  : list Z -> (list Z -> Z * Z) -> (list Z -> Z * Z) :=
  fun sh z => if zlist_eqb sh key && gzlist_eqb (tabulate argshape z) arg then gin resshape res else (fun _ => poison).

(* fwt: ishape, input, the array sigpy handed to wavedecn (shape, data), pywt's packed result (shape, data),
   sigpy's output (shape, data), the shape advertised by get_wavelet_shape / linop.Wavelet, dtype codes *)
Definition chk_fwt (ishape : list Z) (xin : list (Z * Z)) (zsh_impl : list Z) (zin : list (Z * Z))
           (csh : list Z) (wout : list (Z * Z)) (osh_impl : list Z) (out : list (Z * Z))
           (advertised : list Z) (din dout : Z) : bool :=
  let '(osh, y) := fwt (R:=GOps) (fun _ => csh) (data_op zsh_impl zsh_impl zin csh wout) ishape (gin ishape xin) in
  zlist_eqb (zshape ishape) zsh_impl &&
  gzlist_eqb (tabulate (zshape ishape) (fwt_padded (R:=GOps) ishape (gin ishape xin))) zin &&
  zlist_eqb osh osh_impl && gzlist_eqb (tabulate osh y) out &&
  zlist_eqb (wavelet_shape (fun _ => csh) ishape) advertised && zlist_eqb advertised osh_impl &&
  (wavelet_out_dtype din =? dout).

(* iwt: coefficient array given to iwt (shape, data), the same array re-packed from what sigpy handed to
   waverecn, waverecn's result (shape, data), requested oshape, sigpy's output *)
Definition chk_iwt (csh : list Z) (cin : list (Z * Z)) (cin_seen : list (Z * Z))
           (rsh : list Z) (rec : list (Z * Z)) (oshape : list Z) (osh_impl : list Z) (out : list (Z * Z))
           (din dout : Z) : bool :=
  let '(osh, y) := iwt (R:=GOps) (data_op rsh csh cin rsh rec) rsh oshape (gin csh cin) in
  (* what reached waverecn is the given array, except on cells of the packed layout that belong to no
     coefficient block (array_to_coeffs ignores them, coeffs_to_array writes 0 there) *)
  all2z (fun a b => gz_eqb a b || gz_eqb b (0, 0)) cin cin_seen && zlist_eqb rsh (zshape oshape) &&
  zlist_eqb osh osh_impl && gzlist_eqb (tabulate osh y) out &&
  (wavelet_out_dtype din =? dout).

Fixpoint failing_aux (k : Z) (l : list bool) : list Z :=
  match l with [] => [] | b :: l' => (if b then [] else [k]) ++ failing_aux (k + 1) l' end.
Definition failing (l : list bool) : list Z := failing_aux 0 l.
