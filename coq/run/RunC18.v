(* RunC18.v — model/Poisson.v instantiated on hardware floats, and the boolean checkers used by
   the C18 correspondence.

   cos / sin / pow(., 0.5) are not available for PrimFloat; they are passed per case as finite
   TABLES (argument, value) of what the implementation's own libm returned on exactly these
   arguments (recorded on the Python side).  The theorems of proofs/Poisson.v hold for arbitrary
   functions in their place.  Everything compared here is an integer (mask entries, number of
   draws consumed, number of evaluations, outcome) or an exact float (the slopes of the search). *)
From Coq Require Import ZArith List Bool PrimFloat.
From SV Require Import lib.FloatRun model.Poisson.
Import ListNotations.
Local Open Scope Z_scope.

Definition flookup (tbl : list (float * float)) (x : float) : float :=
  match find (fun p => PrimFloat.eqb (fst p) x) tbl with Some p => snd p | None => nan end.
(* int(x) for a finite float *)
Definition ftrunc (x : float) : Z := if PrimFloat.ltb x 0%float then float_to_Z_ceil x else float_to_Z_floor x.
Definition ftwopi : float := 0x1.921fb54442d18p+2%float.      (* 2 * np.pi *)

Definition FP (tpow tcos tsin : list (float * float)) : POps :=
  mkPOps float Z_to_float PrimFloat.add PrimFloat.sub PrimFloat.mul PrimFloat.div
         (flookup tpow) (flookup tcos) (flookup tsin) ftwopi ftrunc PrimFloat.leb PrimFloat.ltb.

Definition arr2 (nx : Z) (l : list float) : Z -> Z -> float :=
  fun y x => nth (Z.to_nat (y * nx + x)) l nan.

Fixpoint zlist_eqb (a b : list Z) : bool :=
  match a, b with
  | [], [] => true
  | x :: a', y :: b' => (x =? y) && zlist_eqb a' b'
  | _, _ => false
  end.

Definition tabulate2 (ny nx : Z) (m : Z -> Z -> Z) : list Z :=
  flat_map (fun y => map (fun x => m y x) (prange 0 nx)) (prange 0 ny).

(* _poisson.py_func replayed on the recorded stream: final mask, status, and the number of draws.
   Fuel = length of the stream: every iteration of the outer loop consumes at least one draw (the number of
   iterations is NOT bounded by the grid size: a sample may be accepted in a pixel that is already set). *)
Definition chk_poisson (nx ny ma cy cx : Z) (rxl ryl : list float) (tpow tcos tsin : list (float * float))
           (stream : list (draw float)) (expect : list Z) (consumed : Z) : bool :=
  let P := FP tpow tcos tsin in
  let '(st, rest, stat) := poisson_run (T:=P) nx ny ma (arr2 nx rxl) (arr2 nx ryl) (length stream) cy cx stream in
  match stat with Finished => true | _ => false end &&
  zlist_eqb (tabulate2 ny nx (mask st)) expect &&
  (Z.of_nat (length stream) - Z.of_nat (length rest) =? consumed).

(* the same followed by mask *= (r < 1) and np.sum *)
Definition chk_crop_sum (nx ny : Z) (m ind expect : list Z) (total : Z) : bool :=
  let mf := fun y x => nth (Z.to_nat (y * nx + x)) m 0 in
  let indf := fun y x => Z.eqb (nth (Z.to_nat (y * nx + x)) ind 0) 1 in
  zlist_eqb (tabulate2 ny nx (crop indf mf)) expect && (msum nx ny (crop indf mf) =? total).

(* the slope search of poisson() replayed on the recorded accelerations:
   kind 0 = returned, 1 = ValueError;  nev = number of _poisson calls;  slopes in call order *)
Definition fsearch (nmax : Z) (accel tol : float) (actuals : list float) :=
  sloop float float PrimFloat.ltb PrimFloat.eqb (fun lo hi => ((hi + lo) / 2)%float)
        (fun k _ => nth k actuals nan)
        (fun r => PrimFloat.ltb (PrimFloat.abs (r - accel)%float) tol)
        (fun r => PrimFloat.ltb r accel)
        5000%nat O 0%float (Z_to_float nmax) None [].
Definition chk_search (nmax : Z) (accel tol : float) (actuals : list float) (kind nev : Z) (slopes : list float) : bool :=
  match fsearch nmax accel tol actuals with
  | Some (Some r, k, tr) =>
      (Z.of_nat k =? nev) && all2 PrimFloat.eqb (rev tr) slopes &&
      (if PrimFloat.ltb (PrimFloat.abs (r - accel)%float) tol then kind =? 0 else kind =? 1)
  | _ => false
  end.

Fixpoint failing_aux (k : Z) (l : list bool) : list Z :=
  match l with [] => [] | b :: l' => (if b then [] else [k]) ++ failing_aux (k + 1) l' end.
Definition failing (l : list bool) : list Z := failing_aux 0 l.
