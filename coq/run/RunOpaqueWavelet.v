(* RunOpaqueWavelet.v — executable checker tying model/OpaqueWavelet.orc_wavelet to the REAL classes
   sp.linop.Wavelet / sp.linop.InverseWavelet.  Conventions of run/RunC10.v: arrays are exact (every float is an
   integer label of its IEEE bit pattern, injective per case, +0.0 = 0; complex = pair), so the model — pure data
   movement around the PyWavelets calls — runs on Z[i] and is compared exactly.  The environment (cs, WW, WWr) is
   given as DATA recorded from the implementation's own PyWavelets calls, keyed by the arguments PyWavelets actually
   received (axes, wavelet code, level, shape of the array): the model only gets the recorded result when it asks for
   exactly that call, a poison value otherwise — so a class that passed other axes / wavelet / level to the function
   than modelled is detected. *)
From Coq Require Import ZArith List Bool.
From SV Require Import lib.Scalar lib.BigSum lib.NdArray model.Rearrange model.Wavelet model.Linop model.OpaqueWavelet
  run.RunC10.
Import ListNotations.
Local Open Scope Z_scope.

(* arguments of one PyWavelets call: axes (as received: None or the raw sequence), wavelet code, level, shape of the
   padded box *)
Definition wkey := (option (list Z) * Z * option Z * list Z)%type.
Definition wkey_eqb (a b : wkey) : bool :=
  let '(a1, a2, a3, a4) := a in let '(b1, b2, b3, b4) := b in
  ozl_eqb a1 b1 && (a2 =? b2) && oz_eqb a3 b3 && zlist_eqb a4 b4.

(* one recorded call: key, (shape, data) of the array argument, (shape, data) of the result *)
Definition wcall := (wkey * (list Z * list (Z * Z)) * (list Z * list (Z * Z)))%type.

Definition rec_op (c : wcall)
  : option (list Z) -> Z -> option Z -> list Z -> (list Z -> Z * Z) -> (list Z -> Z * Z) :=
  let '(k, (ash, a), (rsh, r)) := c in
  fun ax w l sh z =>
    if wkey_eqb (ax, w, l, sh) k && gzlist_eqb (tabulate ash z) a then gin rsh r else (fun _ => poison).

(* get_wavelet_shape as data: the packed shape recorded for the wavedecn call of __init__ *)
Definition rec_cs (k : wkey) (csh : list Z) : option (list Z) -> Z -> option Z -> list Z -> list Z :=
  fun ax w l sh => if wkey_eqb (ax, w, l, sh) k then csh else [].

Definition no_call : wcall := ((None, -1, None, []), ([], []), ([], [])).

(* L            literal leaf term (vlib/linser.py)
   orthl        codes of the orthogonal wavelets (haar/dbN/symN/coifN) among the codes in use
   expect_ok    whether the parameters are in the proven family (false only for non-orthogonal wavelets here)
   ck, csh      the wavedecn call made by __init__ (through get_wavelet_shape) and the packed shape it produced
   cW, cWr      the PyWavelets call made by _apply: wavedecn for Wavelet, waverecn for InverseWavelet (other: no_call)
   seen         InverseWavelet: the coefficients that reached waverecn, re-packed ([] for Wavelet)
   xin          input of the operator;  osh_impl, out: shape and data of the implementation's output *)
Definition chk_opaque_wavelet (L : linop) (orthl : list Z) (expect_ok : bool)
    (ck : wkey) (csh : list Z) (cW cWr : wcall) (seen : list (Z * Z))
    (xin : list (Z * Z)) (osh_impl : list Z) (out : list (Z * Z)) : bool :=
  let cs := rec_cs ck csh in
  let orth := fun w => existsb (Z.eqb w) orthl in
  is_wavelet_leaf L && wf L &&
  Bool.eqb (wavelet_leaf_ok orth cs L) expect_ok &&
  match wavelet_init_shapes cs L with
  | Some (o, i) => zlist_eqb o (oshape_of L) && zlist_eqb i (ishape_of L)
  | None => false
  end &&
  zlist_eqb (oshape_of L) osh_impl &&
  gzlist_eqb (tabulate (oshape_of L)
                (orc_wavelet (R:=GOps) cs (rec_op cW) (rec_op cWr) L (gin (ishape_of L) xin))) out &&
  match L with
  | InverseWavelet _ _ _ _ _ => all2z (fun a b => gz_eqb a b || gz_eqb b (0, 0)) xin seen
  | _ => true
  end.

(* the adjoint leaf constructed by _adjoint_linop is the modelled one *)
Definition chk_opaque_wavelet_adj (L LH : linop) : bool := linop_eqb (adj L) LH.

(* sanity: the checker accepts a correct record and rejects a wrong key / wrong output *)
Example chk_opaque_wavelet_selfcheck :
  let L := Wavelet [3] (Some [-1]) 2 None [4] in
  let k : wkey := (Some [-1], 2, None, [4]) in
  let call : wcall := (k, ([4], [(0, 0); (1, 0); (2, 0); (3, 0)]), ([4], [(5, 0); (6, 0); (7, 0); (8, 0)])) in
  let x := [(1, 0); (2, 0); (3, 0)] in
  chk_opaque_wavelet L [2] true k [4] call no_call [] x [4] [(5, 0); (6, 0); (7, 0); (8, 0)] = true /\
  chk_opaque_wavelet L [2] true k [4] call no_call [] x [4] [(5, 0); (6, 0); (7, 0); (9, 0)] = false /\
  (* pywt was called with other axes than the class holds *)
  chk_opaque_wavelet L [2] true k [4]
    ((Some [0], 2, None, [4]), ([4], [(0, 0); (1, 0); (2, 0); (3, 0)]), ([4], [(5, 0); (6, 0); (7, 0); (8, 0)]))
    no_call [] x [4] [(5, 0); (6, 0); (7, 0); (8, 0)] = false /\
  (* the padding put the samples elsewhere *)
  chk_opaque_wavelet L [2] true k [4]
    (k, ([4], [(1, 0); (2, 0); (3, 0); (0, 0)]), ([4], [(5, 0); (6, 0); (7, 0); (8, 0)]))
    no_call [] x [4] [(5, 0); (6, 0); (7, 0); (8, 0)] = false.
Proof. vm_compute. repeat split; reflexivity. Qed.
