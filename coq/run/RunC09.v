(* RunC09.v — executable checkers used by the C09 correspondence: each takes
   the parameters, the input data and the implementation's output (flat,
   row-major integer lists) and says whether the model reproduces it exactly. *)
From Coq Require Import ZArith List Bool.
From SV Require Import lib.Scalar lib.BigSum lib.LoopIR lib.NdArray model.Rearrange model.Block.
Import ListNotations.
Local Open Scope Z_scope.

Definition zin (s : list Z) (l : list Z) : list Z -> Z := of_list 0 s l.
Definition same (s : list Z) (f : list Z -> Z) (expect : list Z) : bool := zlist_eqb (tabulate s f) expect.

Definition chk_resize ish osh isf osf xin expect :=
  same osh (resize (R:=ZOps) ish osh isf osf (zin ish xin)) expect.
Definition chk_flip sh axes xin expect :=
  same sh (flip (R:=ZOps) sh axes (zin sh xin)) expect.
Definition chk_circshift sh shifts axes xin expect :=
  same sh (circshift (R:=ZOps) sh shifts axes (zin sh xin)) expect.
Definition chk_downsample ish osh factors shift xin expect :=
  zlist_eqb (downsample_oshape ish factors shift) osh &&
  same osh (downsample (R:=ZOps) ish factors shift (zin ish xin)) expect.
Definition chk_upsample ish osh factors shift xin expect :=
  same osh (upsample (R:=ZOps) osh factors shift (zin ish xin)) expect.

(* array_to_blocks: generated kernel inside the hand-written wrapper == implementation == closed form *)
Definition chk_a2b ish osh bshape bstrides xin expect :=
  match array_to_blocks (R:=ZOps) ish bshape bstrides (zin ish xin) with
  | Ok (osh', y) => zlist_eqb osh' osh && same osh y expect
                    && same osh (a2b_spec (R:=ZOps) ish bshape bstrides (zin ish xin)) expect
  | Err _ => false
  end.

Definition chk_b2a ish osh bshape bstrides xin expect :=
  match blocks_to_array (R:=ZOps) ish osh bshape bstrides (zin ish xin) with
  | Ok y => same osh y expect
            && same osh (b2a_spec (R:=ZOps) (firstn (length bshape) (lastn (2 * length bshape) ish)) osh bshape bstrides (zin ish xin)) expect
  | Err _ => false
  end.

Fixpoint failing_aux (k : Z) (l : list bool) : list Z :=
  match l with [] => [] | b :: l' => (if b then [] else [k]) ++ failing_aux (k + 1) l' end.
Definition failing (l : list bool) : list Z := failing_aux 0 l.
