(* RunC05.v — executable checker of the C05 correspondence.  The model of model/Fourier.v is
   instantiated on complex pairs of hardware floats; the twiddle tables (cos, -sin of 2 pi m / n)
   and the scalings 1/sqrt n, 1/n come from the harness as exact hex literals; the checker first
   validates the table against what it can check without trigonometry (w^0 = 1, |w^m| = 1,
   w^(m+1) = w^m * w^1, w^n = 1 up to rounding, scalings) and then compares the implementation's output. *)
From Coq Require Import ZArith List Bool PrimFloat.
From SV Require Import lib.Scalar lib.BigSum lib.NdArray lib.FloatRun model.Rearrange model.Fourier.
Import ListNotations.
Local Open Scope Z_scope.

(* one table row: length n, [w^0 .. w^(n-1)], 1/sqrt n, 1/n *)
Definition twrow := (Z * (list CF * (float * float)))%type.

Fixpoint lookup (tab : list twrow) (n : Z) : list CF * (float * float) :=
  match tab with
  | [] => ([], (0, 0)%float)
  | (m, r) :: tab' => if m =? n then r else lookup tab' n
  end.

Definition tw_of (tab : list twrow) (n m : Z) : CF := nth (Z.to_nat m) (fst (lookup tab n)) (0, 0)%float.
Definition isc_of (tab : list twrow) (n : Z) : CF := (fst (snd (lookup tab n)), 0%float).
Definition inv_of (tab : list twrow) (n : Z) : CF := (snd (snd (lookup tab n)), 0%float).

Definition eps : float := 0x1p-40%float.

(* sanity of one table row (no trigonometry needed): group law of the powers and the scalings *)
Definition row_ok (r : twrow) : bool :=
  let '(n, (tws, (s, iv))) := r in
  let nf := Z_to_float n in
  let w1 := nth 1 tws (1, 0)%float in
  (Z.of_nat (length tws) =? n) && (0 <? n) &&
  cfclose eps eps (nth 0 tws (0, 0)%float) (1, 0)%float &&
  forallb (fun w => fclose eps eps (cf_abs2 w) 1%float) tws &&
  (fix chain (l : list CF) : bool :=
     match l with
     | a :: ((b :: _) as l') => cfclose eps eps (cf_mul a w1) b && chain l'
     | [a] => cfclose eps eps (cf_mul a w1) (1, 0)%float
     | [] => true
     end) tws &&
  (* the table really is the FORWARD one: Im w^1 <= 0, and w^1 is the first root counter-clockwise
     from 1 going through negative imaginary parts: no other power has a larger real part except w^0 *)
  (PrimFloat.leb (snd w1) 0%float) && ((n =? 1) || PrimFloat.ltb (fst w1) (1 - eps)%float) &&
  forallb (fun w => PrimFloat.leb (fst w) (fst w1 + eps)%float) (tl tws) &&
  fclose eps eps (s * s * nf)%float 1%float && fclose eps eps (iv * nf)%float 1%float.

Definition cfin (s : list Z) (l : list CF) : list Z -> CF := of_list (0, 0)%float s l.

Definition maxabs (l : list CF) : float := fold_left (fun m v => fmax m (cf_abs v)) l 0%float.

(* entries agree to rtol relative to the largest magnitude of the expected array *)
Definition close_list (rtol : float) (model impl : list CF) : bool :=
  let sc := fmax (maxabs impl) (maxabs model) in
  all2 (cfclose (rtol * sc)%float rtol) model impl.

Definition chk_fft (inverse center ortho : bool) (ishape : list Z) (oshape axes : option (list Z))
           (tab : list twrow) (rtol : float) (din dout : Z)
           (xin : list CF) (oshape_impl : list Z) (expect : list CF) : bool :=
  let '(osh, y) := fft_model (R:=CFOps) (tw_of tab) (isc_of tab) (inv_of tab)
                             inverse center ortho ishape oshape axes (cfin ishape xin) in
  forallb row_ok tab &&
  zlist_eqb osh oshape_impl &&
  (dtype_code (fft_out_dtype (dtype_of_code din)) =? dout) &&
  close_list rtol (tabulate osh y) expect.

Fixpoint failing_aux (k : Z) (l : list bool) : list Z :=
  match l with [] => [] | b :: l' => (if b then [] else [k]) ++ failing_aux (k + 1) l' end.
Definition failing (l : list bool) : list Z := failing_aux 0 l.
