(* RunLinop.v — executable checkers for the operator-language correspondences (C01-C04, C16). *)
From Coq Require Import ZArith List Bool PrimFloat.
From SV Require Import lib.Scalar lib.BigSum lib.LoopIR lib.NdArray lib.Gather lib.FloatRun
  model.Rearrange model.Block model.Linop.
Import ListNotations.
Local Open Scope Z_scope.

Fixpoint failing_aux (k : Z) (l : list bool) : list Z :=
  match l with [] => [] | b :: l' => (if b then [] else [k]) ++ failing_aux (k + 1) l' end.
Definition failing (l : list bool) : list Z := failing_aux 0 l.

(* pre-order list of (oshape, ishape) of every node; [] for an ill-formed node *)
Fixpoint all_shapes (A : linop) : list (list Z * list Z) :=
  let subs := fix go (l : list linop) : list (list Z * list Z) :=
    match l with [] => [] | a :: l' => all_shapes a ++ go l' end in
  (match shapes A with Ok s => [s] | Err _ => [([], [])] end) ++
  match A with
  | Conj a => all_shapes a
  | Add l | Compose l | Hstack l _ | Vstack l _ | Diag l _ _ => subs l
  | _ => []
  end.

Definition shape_pair_eqb (a b : list Z * list Z) := zlist_eqb (fst a) (fst b) && zlist_eqb (snd a) (snd b).

Definition chk_adj (T TH : linop) : bool := linop_eqb (adj T) TH.
Definition chk_normal (T TN : linop) : bool := linop_eqb (normal T) TN.
Definition chk_shapes (T : linop) (l : list (list Z * list Z)) : bool := list_eqb shape_pair_eqb (all_shapes T) l.
Definition chk_rejected (T : linop) : bool := negb (wf T).
Definition chk_same (A B : linop) : bool := linop_eqb A B.

(* ---- values ---- *)
Definition lookup {T} (d : T) (tbl : list (Z * T)) (k : Z) : T :=
  match find (fun p => fst p =? k) tbl with Some p => snd p | None => d end.

Section Exec.
  Variable R : Ops.
  Variable eqR : R -> R -> bool.
  Definition mk_arr (tbl : list (Z * (list Z * list R))) : Z -> (list Z -> R) :=
    fun tag => match find (fun p => fst p =? tag) tbl with
               | Some (_, (s, l)) => of_list zero s l
               | None => fun _ => zero
               end.
  Definition mk_scal (tbl : list (Z * R)) : Z -> R := lookup zero tbl.
  (* opaque leaves as dense matrices: rows indexed by flat output index *)
  Fixpoint dotl (a b : list R) : R :=
    match a, b with x :: a', y :: b' => add (mul x y) (dotl a' b') | _, _ => zero end.
  Definition mk_orc (tbl : list (linop * list (list R))) : linop -> (list Z -> R) -> (list Z -> R) :=
    fun L x =>
      match find (fun p => linop_eqb (fst p) L) tbl with
      | Some (_, rows) =>
          let xv := tabulate (ishape_of L) x in
          fun o => dotl (nth (Z.to_nat (ravel (oshape_of L) o)) rows []) xv
      | None => fun _ => zero
      end.
  Definition run_apply (T : linop) arrs scals mats (xin : list R) : list R :=
    tabulate (oshape_of T) (den (mk_arr arrs) (mk_scal scals) (mk_orc mats) retab T (of_list zero (ishape_of T) xin)).
  Definition chk_apply (T : linop) arrs scals mats (xin expect : list R) : bool :=
    all2 eqR (run_apply T arrs scals mats xin) expect.
End Exec.

Definition chk_apply_G := chk_apply GOps gz_eqb.
Definition chk_apply_F (atol rtol : float) := chk_apply CFOps (cfclose atol rtol).
