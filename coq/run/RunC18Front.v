(* RunC18Front.v — model/PoissonFront.v instantiated on hardware floats, and the boolean checker used by the C18
   correspondence for the lines of poisson() that model/Poisson.v leaves abstract: the radius grid r and the radius arrays
   (radius_x, radius_y) of the first slope the search evaluates.  abs / maximum / sqrt / division are correctly rounded IEEE
   operations on both sides and x ** 2 is x * x in numpy, so every entry is compared EXACTLY (PrimFloat.eqb). *)
From Coq Require Import ZArith List Bool PrimFloat.
From SV Require Import lib.FloatRun model.Poisson model.PoissonFront run.RunC18.
Import ListNotations.
Local Open Scope Z_scope.

Definition FPF : POps := FP [] [] [].                        (* cos / sin / pow are not used by the front end *)
Definition fmaxf (a b : float) : float := if PrimFloat.ltb a b then b else a.      (* np.maximum without NaN *)

Definition ftab2 (ny nx : Z) (f : Z -> Z -> float) : list float :=
  flat_map (fun y => map (fun x => f y x) (prange 0 nx)) (prange 0 ny).

(* r, radius_x, radius_y as seen in the frame of poisson() at its first call of _poisson (row-major) *)
Definition chk_front (ny nx cy cx : Z) (slope : float) (rl rxl ryl : list float) : bool :=
  let rr := radii_t (T:=FPF) PrimFloat.abs fmaxf PrimFloat.sqrt ny nx cy cx slope in
  all2 PrimFloat.eqb (ftab2 ny nx (rfield (T:=FPF) PrimFloat.abs fmaxf PrimFloat.sqrt ny nx cy cx)) rl &&
  all2 PrimFloat.eqb (ftab2 ny nx (fst rr)) rxl &&
  all2 PrimFloat.eqb (ftab2 ny nx (snd rr)) ryl.
