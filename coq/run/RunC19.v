(* RunC19.v — the Bloch-simulator models of model/Bloch.v on hardware floats.  The trig oracle is a table
   (angle, cos, sin) written by the harness; it is looked up BY THE ANGLE THE MODEL COMPUTES (closeness 1e-12
   absolute + 1e-11 relative), so a table made for other arguments does not match and the check fails closed
   (nan).  Each checker takes the inputs and, per spatial position, the implementation's (a, b). *)
From Coq Require Import ZArith List Bool PrimFloat.
From SV Require Import lib.FloatRun model.Bloch.
Import ListNotations.

Definition FFl : FOps :=
  mkFOps float 0%float 1%float PrimFloat.add PrimFloat.sub PrimFloat.mul PrimFloat.div PrimFloat.opp PrimFloat.sqrt
         PrimFloat.abs Z_to_float (fun x => PrimFloat.eqb x 0%float).

Fixpoint failing_aux (k : Z) (l : list bool) : list Z :=
  match l with [] => [] | b :: l' => (if b then [] else [k]) ++ failing_aux (k + 1) l' end.
Definition failing (l : list bool) : list Z := failing_aux 0%Z l.

Definition Tab := list (float * (float * float)).
Definition key_atol : float := 0x1.19799812dea11p-40%float.   (* 1e-12 *)
Definition key_rtol : float := 0x1.5fd7fe1796495p-37%float.   (* 1e-11 *)
Fixpoint tlookup (tab : Tab) (t : float) : float * float :=
  match tab with
  | [] => (nan, nan)
  | (a, v) :: tab' => if fclose key_atol key_rtol a t then v else tlookup tab' t
  end.

Definition tol : float := 0x1.12e0be826d695p-30%float.   (* 1e-9 *)
Definition eps16 : float := 0x1.cd2b297d889bcp-54%float. (* 1e-16 *)
Definition CFl := (float * float)%type.
Definition cclose (a b : CFl) : bool := cfclose tol tol a b.
Definition st_close (s : State (F:=FFl)) (a b : CFl) : bool := cclose (fst s) a && cclose (snd s) b.

(* one entry per spatial position: (position data, trig table, a, b) *)
Definition chk_abrm (pi : float) (rf : list CFl) (balanced : bool) (pos : list (float * Tab * CFl * CFl)) : bool :=
  forallb (fun p => let '(x, tab, a, b) := p in
                    st_close (abrm (F:=FFl) (tlookup tab) pi eps16 rf x balanced) a b) pos.
Definition chk_abrm_nd (rfg : list (CFl * list float)) (pos : list (list float * Tab * CFl * CFl)) : bool :=
  forallb (fun p => let '(x, tab, a, b) := p in
                    st_close (abrm_nd (F:=FFl) (tlookup tab) eps16 rfg x) a b) pos.
Definition chk_abrm_hp (rfg : list (CFl * float)) (dom0dt : float) (pos : list (float * Tab * CFl * CFl)) : bool :=
  forallb (fun p => let '(x, tab, a, b) := p in
                    st_close (abrm_hp (F:=FFl) (tlookup tab) rfg x dom0dt) a b) pos.
Definition chk_blochsim (rfg : list (CFl * list float)) (pos : list (list float * Tab * CFl * CFl)) : bool :=
  forallb (fun p => let '(x, tab, a, b) := p in
                    st_close (blochsim (F:=FFl) (tlookup tab) rfg x) a b) pos.
Definition chk_abrm_ptx (dtgam : float) (b1g : list (list CFl * list float))
           (pos : list (list float * list CFl * float * Tab * CFl * CFl)) : bool :=
  forallb (fun p => let '(x, sens, boff, tab, a, b) := p in
                    st_close (abrm_ptx (F:=FFl) (tlookup tab) dtgam boff sens x b1g) a b) pos.

(* ab2rf: the rotation parameters (cos(|rf_j|/2), exp(1j*angle(rf_j))*sin(|rf_j|/2)) recovered from (a, b) *)
Definition chk_ab2cs (a b : list CFl) (expect : list (float * CFl)) : bool :=
  all2 (fun m e => fclose tol tol (fst m) (fst e) && cclose (snd m) (snd e))
       (ab2cs (F:=FFl) a b) expect.
