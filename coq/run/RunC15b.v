(* RunC15b.v — the models of model/Alg2.v (NewtonsMethod, GerchbergSaxton, PDHG with array-valued
   step sizes) instantiated on hardware floats, and boolean checkers comparing a model trajectory
   with the attributes observed on the Python objects after every update().
   Vectors are lists of binary64; complex vectors of length n are embedded as 2n reals
   (real parts, then imaginary parts), so that vdot = Re<.,.>. *)
From Coq Require Import ZArith List Bool PrimFloat.
From SV Require Import lib.Scalar lib.FloatRun model.Alg model.Alg2 run.RunC12.
Import ListNotations.

Definition vmulf (a b : list float) : list float := map (fun p => (fst p * snd p)%float) (combine a b).
Definition vdivf (a b : list float) : list float := map (fun p => (fst p / snd p)%float) (combine a b).
Definition vsqrtf (a : list float) : list float := map PrimFloat.sqrt a.
Definition vcl (at_ rt : float) (a b : list float) : bool := all2 (fclose at_ rt) a b.

(* ---------------- NewtonsMethod on f(v) = 1/2 v^T diag(d) v - b^T v, inverse Hessian w |-> w / dh ---------- *)
Section NewtonRun.
  Variables (d dh b : list float) (beta : float) (fuel : nat).
  Definition nw_gradf (v : list float) : list float := FloatRun.vsub (vmulf d v) b.
  Definition nw_invh (_ : list float) (w : list float) : list float := vdivf w dh.
  Definition nw_f (v : list float) : float := (0.5 * vdotf v (vmulf d v) - vdotf b v)%float.
  Definition nw_class := NMClass FIP nw_gradf nw_invh beta nw_f PrimFloat.ltb (fun a c => PrimFloat.ltb c a) fuel.
  Definition nw_update := update nw_class.
End NewtonRun.

(* observation after an update: x, lamda2, residual, done() *)
Definition nw_obs := (list float * float * float * bool)%type.
Fixpoint chk_newton_aux (d dh b : list float) (beta : float) (fuel : nat) (at_ rt : float)
         (st : nm_state FIP) (obs : list nw_obs) : bool :=
  match obs with
  | [] => true
  | (ox, ol, ores, od) :: rest =>
      let st' := nw_update d dh b beta fuel st in
      vcl at_ rt (nm_x st') ox && fclose at_ rt (nm_lamda2 st') ol && fclose at_ rt (nm_residual st') ores
      && Bool.eqb (done (nw_class d dh b beta fuel) st') od
      && negb (nm_raised st')
      && chk_newton_aux d dh b beta fuel at_ rt st' rest
  end.
Definition chk_newton (d dh b : list float) (beta : float) (fuel : nat) (x0 : list float) (max_iter : Z) (tol : float)
           (at_ rt : float) (obs : list nw_obs) : bool :=
  chk_newton_aux d dh b beta fuel at_ rt (nm_init FIP x0 infinity max_iter tol) obs.

(* ---------------- PDHG with array steps: A = dense matrix, f^* = 1/2|u|^2, g = 1/2|x - c|^2 -------- *)
Section PdhgaRun.
  Variables (M Mt : mat) (c : list float) (theta0 gp gd : float).
  Definition pa_proxfc (sigma u : list float) : list float := vdivf u (map (fun s => (1 + s)%float) sigma).
  Definition pa_proxg (tau x : list float) : list float :=
    vdivf (FloatRun.vadd x (vmulf tau c)) (map (fun t => (1 + t)%float) tau).
  Definition pa_class :=
    PDHGAClass FIP (list float) FloatRun.vadd FloatRun.vsub FloatRun.vscale vdivsf vdotf
               vmulf vdivf vsqrtf vmulf vdivf vsqrtf (matvec M) (matvec Mt) pa_proxfc pa_proxg
               theta0 gp gd (fun a => PrimFloat.ltb 0 a) (fun a => PrimFloat.eqb a 0).
End PdhgaRun.

(* observation after an update: x, u, x_ext, tau, sigma, resid *)
Definition pa_obs := (list float * list float * list float * list float * list float * float)%type.
Fixpoint chk_pdhga_aux (M Mt : mat) (c : list float) (theta0 gp gd at_ rt : float)
         (st : pdhga_state FIP (list float)) (obs : list pa_obs) : bool :=
  match obs with
  | [] => true
  | (ox, ou, oxe, otau, osig, ores) :: rest =>
      let st' := update (pa_class M Mt c theta0 gp gd) st in
      vcl at_ rt (pa_x FIP _ st') ox && vcl at_ rt (pa_u FIP _ st') ou && vcl at_ rt (pa_x_ext FIP _ st') oxe
      && vcl at_ rt (pa_tau FIP _ st') otau && vcl at_ rt (pa_sigma FIP _ st') osig
      && fclose at_ rt (pa_resid FIP _ st') ores
      && chk_pdhga_aux M Mt c theta0 gp gd at_ rt st' rest
  end.
Definition chk_pdhga (M Mt : mat) (c : list float) (theta0 gp gd : float) (x0 u0 tau sigma : list float)
           (tau_min sigma_min : float) (max_iter : Z) (tol at_ rt : float) (obs : list pa_obs) : bool :=
  chk_pdhga_aux M Mt c theta0 gp gd at_ rt
    (pdhga_init FIP (list float) x0 u0 tau sigma tau_min sigma_min infinity max_iter tol) obs.

(* ---------------- GerchbergSaxton: A = dense complex m x n matrix ------------------------------- *)
Definition cmat := list (list CF).
Fixpoint split_at {T} (n : nat) (l : list T) : list T * list T :=
  match n, l with
  | O, _ => ([], l)
  | S k, [] => ([], [])
  | S k, a :: r => let '(p, q) := split_at k r in (a :: p, q)
  end.
Definition unembed (x : list float) : list CF :=
  let '(re, im) := split_at (Nat.div (length x) 2) x in combine re im.
Definition embed (v : list CF) : list float := map fst v ++ map snd v.
Definition cdot (row v : list CF) : CF := fold_left cf_add (map (fun p => cf_mul (fst p) (snd p)) (combine row v)) (0, 0)%float.
Definition gsA (M : cmat) (x : list float) : list CF := map (fun row => cdot row (unembed x)) M.
(* MH = the conjugate transpose, given explicitly *)
Definition gsAH (MH : cmat) (v : list CF) : list float := embed (map (fun row => cdot row v) MH).
Definition cphasef (w : CF) : CF :=
  let m := cf_abs w in if PrimFloat.eqb m 0 then (1, 0)%float else (fst w / m, snd w / m)%float.

Definition gs_class (M MH : cmat) (y : list float) (lamb : float) :=
  GSClass FIP PrimFloat.abs cphasef (gsA M) (gsAH MH) y lamb.

(* observation after an update: x (embedded), residual *)
Fixpoint chk_gs_aux (M MH : cmat) (y : list float) (lamb at_ rt : float) (st : gs_state FIP)
         (obs : list (list float * float)) : bool :=
  match obs with
  | [] => true
  | (ox, ores) :: rest =>
      let st' := update (gs_class M MH y lamb) st in
      vcl at_ rt (gs_x st') ox && fclose at_ rt (gs_residual st') ores
      && chk_gs_aux M MH y lamb at_ rt st' rest
  end.
Definition chk_gs (M MH : cmat) (y : list float) (lamb : float) (x0 : list float) (max_iter : Z) (tol at_ rt : float)
           (obs : list (list float * float)) : bool :=
  chk_gs_aux M MH y lamb at_ rt (gs_init FIP x0 infinity max_iter tol) obs.
