(* RunC06.v — executable checkers of the C06 correspondence: the NUFFT model (model/Nufft.v) on hardware floats.
   Oracle data supplied by the harness as exact hex literals: pi, a table of numpy's sinh at the apodisation
   arguments (looked up by nearest key), the implementation's Kaiser-Bessel kernel values at the bit-exact kernel
   arguments formed by the generated loops, DFT twiddle tables with 1/sqrt n and 1/n. *)
From Coq Require Import ZArith List Bool PrimFloat.
From SV Require Import lib.Scalar lib.BigSum lib.LoopIR lib.NdArray lib.Coord lib.FloatRun gen.Gen_interp
  model.Rearrange model.Block model.Interp model.Fourier model.Nufft.
Import ListNotations.
Local Open Scope Z_scope.

Fixpoint failing_aux (k : Z) (l : list bool) : list Z :=
  match l with [] => [] | b :: l' => (if b then [] else [k]) ++ failing_aux (k + 1) l' end.
Definition failing (l : list bool) : list Z := failing_aux 0 l.

Definition wtF (w : float) : CF := (w, 0%float).
Definition near (a b : float) : bool := fclose 0x1p-40 0x1p-36 a b.
Definition close12 (a b : float) : bool := fclose 0x1p-40 0x1p-40 a b.        (* ~ 1e-12 *)

Definition sinh_tbl (tbl : list (float * float)) (a : float) : float :=
  match find (fun e => near (fst e) a) tbl with Some e => snd e | None => nan end.
(* Kaiser-Bessel values keyed by the bit-exact first argument (the second, beta, is fixed per call) *)
Definition kb_tbl (tbl : list (float * float)) (t p : float) : float :=
  match find (fun e => PrimFloat.eqb (fst e) t) tbl with Some e => snd e | None => nan end.

Definition twrow := (Z * (list CF * (float * float)))%type.
Fixpoint lookup (tab : list twrow) (n : Z) : list CF * (float * float) :=
  match tab with
  | [] => ([], (0, 0)%float)
  | (m, r) :: tab' => if m =? n then r else lookup tab' n
  end.
Definition tw_of (tab : list twrow) (n m : Z) : CF := nth (Z.to_nat m) (fst (lookup tab n)) (0, 0)%float.
Definition isc_of (tab : list twrow) (n : Z) : CF := (fst (snd (lookup tab n)), 0%float).
Definition inv_of (tab : list twrow) (n : Z) : CF := (snd (snd (lookup tab n)), 0%float).

Definition cfin (s : list Z) (l : list CF) : list Z -> CF := of_list (0, 0)%float s l.
Definition fin (s : list Z) (l : list float) : list Z -> float := of_list 0%float s l.
Definition maxabs (l : list CF) : float := fold_left (fun m v => fmax m (cf_abs v)) l 0%float.
Definition close_list (rtol : float) (model impl : list CF) : bool :=
  let sc := fmax (maxabs impl) (maxabs model) in
  all2 (cfclose (rtol * sc)%float rtol) model impl.

(* ---- parameter functions ---- *)
Definition chk_os_shape (shape : list Z) (ndim : Z) (oversamp : float) (expect : list Z) : bool :=
  zlist_eqb (oversamp_shape FCOps shape (Z.to_nat ndim) oversamp) expect.
Definition chk_scale_coord (cshape shape : list Z) (oversamp : float) (coord expect : list float) : bool :=
  all2 close12 (tabulate cshape (scale_coord FCOps cshape shape oversamp (fin cshape coord))) expect.
Definition chk_scale_shift (oversamp : float) (n : Z) (escale : float) (eshift : Z) : bool :=
  close12 (coord_scale FCOps oversamp n) escale && (coord_shift FCOps oversamp n =? eshift).
Definition chk_beta (pi width oversamp expect : float) : bool :=
  close12 (beta_of FCOps PrimFloat.sqrt pi width oversamp) expect.
Definition chk_apod (pi oversamp width : float) (i : Z) (sinhs : list (float * float)) (expect : list float) : bool :=
  let beta := beta_of FCOps PrimFloat.sqrt pi width oversamp in
  all2 close12 (map (apod_factor FCOps PrimFloat.sqrt pi (sinh_tbl sinhs) oversamp width beta i) (zrange 0 i 1)) expect.

(* ---- step structure ---- *)
Definition chk_nufft (pi : float) (kb sinhs : list (float * float)) (tab : list twrow)
           (ishape cshape : list Z) (coord : list float) (oversamp width : float)
           (xin : list CF) (osh : list Z) (expect : list CF) (rtol : float) : bool :=
  match nufft CFOps FCOps (kb_tbl kb) wtF PrimFloat.sqrt pi (sinh_tbl sinhs) (tw_of tab) (isc_of tab) (inv_of tab)
              ishape cshape (fin cshape coord) oversamp width (cfin ishape xin) with
  | Ok (osh', y) => zlist_eqb osh' osh && close_list rtol (tabulate osh y) expect
  | Err _ => false
  end.

Definition chk_nufft_adjoint (pi : float) (kb sinhs : list (float * float)) (tab : list twrow)
           (in_shape cshape oshape : list Z) (coord : list float) (oversamp width : float)
           (yin : list CF) (expect : list CF) (rtol : float) : bool :=
  match nufft_adjoint CFOps FCOps (kb_tbl kb) wtF PrimFloat.sqrt pi (sinh_tbl sinhs) (tw_of tab) (isc_of tab) (inv_of tab)
              in_shape cshape oshape (fin cshape coord) oversamp width (cfin in_shape yin) with
  | Ok (osh', y) => zlist_eqb osh' oshape && close_list rtol (tabulate oshape y) expect
  | Err _ => false
  end.
