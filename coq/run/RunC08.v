(* RunC08.v — executable checkers of the C08 correspondence: the convolution model (model/Conv.v)
   instantiated on Gaussian integers, evaluated by vm_compute and compared EXACTLY with the
   implementation's output (flat row-major lists of (re, im) pairs). *)
From Coq Require Import ZArith List Bool.
From SV Require Import lib.Scalar lib.BigSum lib.LoopIR lib.NdArray model.Rearrange model.Block model.Linop model.Conv.
Import ListNotations.
Local Open Scope Z_scope.

Fixpoint failing_aux (k : Z) (l : list bool) : list Z :=
  match l with [] => [] | b :: l' => (if b then [] else [k]) ++ failing_aux (k + 1) l' end.
Definition failing (l : list bool) : list Z := failing_aux 0 l.

Definition gin (s : list Z) (l : list GZ) : list Z -> GZ := of_list (0, 0) s l.
Definition gsame (s : list Z) (f : list Z -> GZ) (expect : list GZ) : bool :=
  list_eqb gz_eqb (tabulate s f) expect.

(* the scipy oracles' recorded specifications vs the real scipy *)
Definition chk_sp_convolve (full : bool) (sa sv : list Z) (a v : list GZ) (esh : list Z) (expect : list GZ) : bool :=
  match sp_shape full sa sv with
  | Ok sh => zlist_eqb sh esh && gsame sh (sp_convolve_val (R:=GOps) full sa sv (gin sa a) (gin sv v)) expect
  | Err _ => false
  end.
Definition chk_sp_correlate (full : bool) (sa sv : list Z) (a v : list GZ) (esh : list Z) (expect : list GZ) : bool :=
  match sp_shape full sa sv with
  | Ok sh => zlist_eqb sh esh && gsame sh (sp_correlate_val (R:=GOps) full sa sv (gin sa a) (gin sv v)) expect
  | Err _ => false
  end.
Definition chk_sp_reject (full : bool) (sa sv : list Z) : bool :=
  match sp_shape full sa sv with Ok _ => false | Err _ => true end.

(* convolve: model == implementation == documented closed form; shapes exact *)
Definition chk_convolve (dsh fsh : list Z) (full : bool) (strides : option (list Z)) (mc : bool)
           (data filt : list GZ) (esh : list Z) (expect : list GZ) : bool :=
  match convolve (R:=GOps) dsh fsh full strides mc (gin dsh data) (gin fsh filt) with
  | Ok (osh, y) =>
      zlist_eqb osh esh && gsame osh y expect
      && gsame osh (conv_spec (R:=GOps) dsh fsh full strides mc (gin dsh data) (gin fsh filt)) expect
  | Err _ => false
  end.

Definition chk_data_adjoint (osh fsh dsh : list Z) (full : bool) (strides : option (list Z)) (mc : bool)
           (output filt : list GZ) (esh : list Z) (expect : list GZ) : bool :=
  match convolve_data_adjoint (R:=GOps) osh fsh dsh full strides mc (gin osh output) (gin fsh filt) with
  | Ok (sh, y) => zlist_eqb sh esh && gsame sh y expect
  | Err _ => false
  end.

Definition chk_filter_adjoint (osh dsh fsh : list Z) (full : bool) (strides : option (list Z)) (mc : bool)
           (output data : list GZ) (esh : list Z) (expect : list GZ) : bool :=
  match convolve_filter_adjoint (R:=GOps) osh dsh fsh full strides mc (gin osh output) (gin dsh data) with
  | Ok (sh, y) => zlist_eqb sh esh && gsame sh y expect
  | Err _ => false
  end.

(* rejection: the model returns Err (data irrelevant) *)
Definition is_err {A} (r : result A) : bool := match r with Ok _ => false | Err _ => true end.
Definition gz0 : list Z -> GZ := fun _ => (0, 0).
Definition chk_conv_reject (dsh fsh : list Z) (full : bool) (strides : option (list Z)) (mc : bool) : bool :=
  is_err (convolve (R:=GOps) dsh fsh full strides mc gz0 gz0).
Definition chk_data_adjoint_reject (osh fsh dsh : list Z) (full : bool) (strides : option (list Z)) (mc : bool) : bool :=
  is_err (convolve_data_adjoint (R:=GOps) osh fsh dsh full strides mc gz0 gz0).
Definition chk_filter_adjoint_reject (osh dsh fsh : list Z) (full : bool) (strides : option (list Z)) (mc : bool) : bool :=
  is_err (convolve_filter_adjoint (R:=GOps) osh dsh fsh full strides mc gz0 gz0).
(* the operator constructors (ConvolveData etc.) accept exactly the shapes the model accepts *)
Definition chk_linop_accepts (dsh fsh : list Z) (full : bool) (strides : option (list Z)) (mc : bool) (esh : list Z) : bool :=
  match convolve (R:=GOps) dsh fsh full strides mc gz0 gz0 with
  | Ok (osh, _) => zlist_eqb osh esh
  | Err _ => false
  end.
