(* RunOpaqueStd.v — the operator-tree correspondence with the STANDARD oracle: a hardware-float instance
   [orc_std_run] of model/OpaqueStd.orc_std built from literal environment data, and the whole-tree checkers
   [chk_apply_std] (floats) / [chk_apply_std_G] (exact, Gaussian integers) that evaluate  den  with it — so that the
   library-backed leaves of a tree are judged through their FUNCTION MODELS (what the theorems of Prop_C01 / C03 /
   C04 are about) and no longer through dense matrices measured on the implementation itself.

   Environment literals (built by props/opaque_std.py from the vlib/linser.Serializer that serialised the tree):
     tab     twiddle rows (n, ([w_n^m], (1/sqrt n, 1/n))) for the axis lengths of the FFT / IFFT leaves and the
             oversampled lengths of the NUFFT leaves; validated inside Coq by RunC05.row_ok
     pi      numpy.pi
     kb      Kaiser-Bessel values ((t, beta), K(t, beta)) measured on the implementation's _kaiser_bessel_kernel at the
             bit-exact first arguments the generated kernel loops form (second argument matched to ~1e-11: the model
             computes NUFFT's beta itself) — used by Interpolate / Gridding with kernel='kaiser_bessel' and by NUFFT
     sinhs   (a, numpy.sinh a) at the apodisation arguments of the NUFFT leaves
     coords  captured coordinate arrays by tag
     kerns   kernel-name code -> 1 ('spline': the GENERATED _spline_kernel) | 2 ('kaiser_bessel': the table)
     wps     parameter code -> (is_scalar, values): widths / params of Interpolate / Gridding, oversamp / width of NUFFT
     wavs    PyWavelets as data, one entry per (axes as given, wavelet code, level, padded shape): the packed coefficient
             shape and the REAL matrices of  coeffs_to_array . wavedecn(mode='zero')  and of
             waverecn(mode='zero') . array_to_coeffs , measured on PyWavelets itself (NOT on the sigpy class)
     orthl   codes of the orthogonal wavelet families
   A leaf the validity predicate rejects (std_leaf_ok = false; e.g. a NUFFT whose beta leaves the reals, a
   non-orthogonal wavelet) falls back to a dense matrix passed in [mats]; the checker REJECTS a matrix supplied for a
   leaf that the predicate accepts, so the fallback cannot hide a modelled leaf. *)
From Coq Require Import ZArith List Bool PrimFloat.
From SV Require Import lib.Scalar lib.BigSum lib.LoopIR lib.NdArray lib.Gather lib.Coord lib.FloatRun gen.Gen_interp
  model.Rearrange model.Block model.Interp model.Fourier model.Conv model.Wavelet model.Nufft model.Linop
  model.OpaqueFourier model.OpaqueConv model.OpaqueInterp model.OpaqueWavelet model.OpaqueNufft model.OpaqueStd.
From SV Require run.RunC05 run.RunC06 run.RunC07 run.RunOpaqueInterp.
From SV Require Import run.RunLinop.
Import ListNotations.
Local Open Scope Z_scope.

(* ---------------------------------------------------------------- environment data *)
Definition wkey := (option (list Z) * Z * option Z * list Z)%type.
Definition wkey_eqb (a b : wkey) : bool :=
  let '(a1, a2, a3, a4) := a in let '(b1, b2, b3, b4) := b in
  ozl_eqb a1 b1 && (a2 =? b2) && oz_eqb a3 b3 && zlist_eqb a4 b4.
(* key, (packed shape, (rows of W : |packed| x |padded|, rows of Wr : |padded| x |packed|)) *)
Definition wrec := (wkey * (list Z * (list (list float) * list (list float))))%type.

Record run_env := mkRunEnv {
  r_tab : list RunC05.twrow;
  r_pi : float;
  r_kb : list ((float * float) * float);
  r_sinh : list (float * float);
  r_coords : RunOpaqueInterp.fenv;
  r_kerns : list (Z * Z);
  r_wps : RunOpaqueInterp.wpenv;
  r_wavs : list wrec;
  r_orth : list Z
}.

Definition near (a b : float) : bool := fclose 0x1p-40 0x1p-36 a b.
(* Kaiser-Bessel values keyed by the bit-exact first argument and the (approximately matched) second *)
Definition kb_std (tbl : list ((float * float) * float)) (t p : float) : float :=
  match find (fun e => PrimFloat.eqb (fst (fst e)) t && near (snd (fst e)) p) tbl with
  | Some e => snd e
  | None => nan
  end.

(* real matrix times complex vector *)
Fixpoint dot_rc (r : list float) (x : list CF) : CF :=
  match r, x with
  | a :: r', (re, im) :: x' => let '(sr, si) := dot_rc r' x' in ((a * re + sr)%float, (a * im + si)%float)
  | _, _ => (0, 0)%float
  end.

Definition wav_find (tbl : list wrec) (ax : option (list Z)) (w : Z) (l : option Z) (sh : list Z) : option wrec :=
  find (fun e => wkey_eqb (ax, w, l, sh) (fst e)) tbl.
Definition cs_run (tbl : list wrec) ax w l sh : list Z :=
  match wav_find tbl ax w l sh with Some (_, (csh, _)) => csh | None => [] end.
Definition WW_run (tbl : list wrec) ax w l sh (z : list Z -> CF) : list Z -> CF :=
  match wav_find tbl ax w l sh with
  | Some (_, (csh, (MW, _))) =>
      let zv := tabulate sh z in
      fun o => dot_rc (nth (Z.to_nat (ravel csh o)) MW []) zv
  | None => fun _ => (nan, nan)
  end.
Definition WWr_run (tbl : list wrec) ax w l sh (c : list Z -> CF) : list Z -> CF :=
  match wav_find tbl ax w l sh with
  | Some (_, (csh, (_, MWr))) =>
      let cv := tabulate csh c in
      fun o => dot_rc (nth (Z.to_nat (ravel sh o)) MWr []) cv
  | None => fun _ => (nan, nan)
  end.

(* the float instance of the environment record *)
Definition std_env_run (e : run_env) : std_env CFOps FCOps :=
  mkStdEnv CFOps FCOps
    (RunC05.tw_of (r_tab e)) (RunC05.isc_of (r_tab e)) (RunC05.inv_of (r_tab e))
    RunC07.wtF (RunOpaqueInterp.mk_carr (r_coords e))
    (fun code => if lookup 0 (r_kerns e) code =? 1 then spline_kernel FCOps else kb_std (r_kb e))
    (RunOpaqueInterp.mk_wp (r_wps e))
    (kb_std (r_kb e)) PrimFloat.sqrt (r_pi e) (RunC06.sinh_tbl (r_sinh e))
    (cs_run (r_wavs e)) (WW_run (r_wavs e)) (WWr_run (r_wavs e))
    (fun w => existsb (Z.eqb w) (r_orth e)).

Definition carrs := list (Z * (list Z * list CF)).
Definition orc_std_run (e : run_env) (arrs : carrs) : linop -> (list Z -> CF) -> list Z -> CF :=
  orc_std (std_env_run e) (mk_arr CFOps arrs).

(* ---------------------------------------------------------------- which leaves go through the function models *)
(* the validity predicate of the theorems, plus what the FLOAT evaluation additionally needs: width / param sequences
   long enough (Interpolate / Gridding), NUFFT's beta and apodisation arguments real *)
Definition std_leaf_ok (e : run_env) (L : linop) : bool :=
  let E := std_env_run e in
  wf L && proven_node_opaque E L &&
  match L with
  | Interpolate _ _ _ _ _ | Gridding _ _ _ _ _ => interp_env_ok (e_wp E) (e_wp E) L
  | NUFFT s c os wd _ | NUFFTAdjoint s c os wd =>
      nufft_real_okb FCOps PrimFloat.sqrt (r_pi e) s (ashape_of c) (e_pv E os) (e_pv E wd)
  | _ => true
  end.

(* pre-order list of the library-backed leaves of a tree *)
Fixpoint opaque_leaves (A : linop) : list linop :=
  let subs := fix go (l : list linop) : list linop := match l with [] => [] | a :: l' => opaque_leaves a ++ go l' end in
  match A with
  | Conj a => opaque_leaves a
  | Add l | Compose l | Hstack l _ | Vstack l _ | Diag l _ _ => subs l
  | _ => if 0 <? opaque_family A then [A] else []
  end.

Definition cmats := list (linop * list (list CF)).
Definition in_mats (mats : cmats) (L : linop) : bool := existsb (fun p => linop_eqb (fst p) L) mats.

(* the oracle of the run: function model where the predicate accepts, dense fallback (from [mats]) elsewhere *)
Definition orc_run (e : run_env) (arrs : carrs) (mats : cmats) : linop -> (list Z -> CF) -> list Z -> CF :=
  fun L x => if std_leaf_ok e L then orc_std_run e arrs L x else mk_orc CFOps mats L x.

(* every leaf of the tree is either accepted by the predicate or has a fallback matrix; no matrix for an accepted leaf *)
Definition leaves_covered (e : run_env) (mats : cmats) (T : linop) : bool :=
  forallb (fun L => std_leaf_ok e L || in_mats mats L) (opaque_leaves T) &&
  forallb (fun p => negb (std_leaf_ok e (fst p))) mats.

(* number of leaves of T that went through the dense fallback (for the evidence) *)
Definition n_fallback (e : run_env) (T : linop) : Z :=
  Z.of_nat (length (filter (fun L => negb (std_leaf_ok e L)) (opaque_leaves T))).

Definition run_apply_std (e : run_env) (T : linop) (arrs : carrs) (scals : list (Z * CF)) (mats : cmats) (xin : list CF) : list CF :=
  tabulate (oshape_of T)
    (den (mk_arr CFOps arrs) (mk_scal CFOps scals) (orc_run e arrs mats) retab T (of_list (0, 0)%float (ishape_of T) xin)).

(* den T x == y: entries agree to rtol relative to the largest entry (as run/RunC05.v, RunC06.v) *)
Definition chk_apply_std (rtol : float) (e : run_env) (T : linop) (arrs : carrs) (scals : list (Z * CF)) (mats : cmats)
           (nfb : Z) (xin expect : list CF) : bool :=
  forallb RunC05.row_ok (r_tab e) && wf T && leaves_covered e mats T && (n_fallback e T =? nfb) &&
  RunC05.close_list rtol (run_apply_std e T arrs scals mats xin) expect.

(* ---- split mode, for trees whose evaluation by vm_compute would be prohibitive ----
   model/Linop.den re-evaluates an operand once per output index of every enclosing Conj / Add / Hstack / Vstack / Diag
   (only Compose tabulates its stages), so a function-model leaf deep inside nested stacks is run thousands of times.
   For such trees (props/opaque_std.tree_cost above its budget) the tie is split into its two halves:
     (a) every library-backed leaf L of the tree that the predicate accepts is compared with its function model on an input
         of its own:  orc_std_run e arrs L x_L == L(x_L)  [leafcases];
     (b) the tree is evaluated with the leaves as dense matrices (cheap per index), which ties the combinator structure.
   The checker demands a leaf case for EVERY accepted leaf of the tree. *)
Definition leafcase := (linop * (list CF * list CF))%type.
Definition chk_leaf_std (rtol : float) (e : run_env) (arrs : carrs) (c : leafcase) : bool :=
  let '(L, (xin, expect)) := c in
  std_leaf_ok e L &&
  RunC05.close_list rtol (tabulate (oshape_of L) (orc_std_run e arrs L (of_list (0, 0)%float (ishape_of L) xin))) expect.

Definition chk_apply_split (rtol : float) (e : run_env) (T : linop) (arrs : carrs) (scals : list (Z * CF)) (mats : cmats)
           (leafcases : list leafcase) (nfb : Z) (xin expect : list CF) : bool :=
  forallb RunC05.row_ok (r_tab e) && wf T && (n_fallback e T =? nfb) &&
  forallb (fun L => in_mats mats L &&
                    (negb (std_leaf_ok e L) || existsb (fun c => linop_eqb (fst c) L) leafcases)) (opaque_leaves T) &&
  forallb (chk_leaf_std rtol e arrs) leafcases &&
  RunC05.close_list rtol
    (tabulate (oshape_of T)
       (den (mk_arr CFOps arrs) (mk_scal CFOps scals) (mk_orc CFOps mats) retab T (of_list (0, 0)%float (ishape_of T) xin)))
    expect.

(* the same two checkers with an ABSOLUTE tolerance floor: a tree such as  A - Conj (Conj A)  cancels to (almost) zero, and a
   tolerance relative to the size of the OUTPUT alone would then demand bit-exactness of rounding noise.  [atol] is supplied by the
   harness as rtol * (magnitude of the input) * (a fixed gain allowance). *)
Definition close_list_a (atol rtol : float) (model impl : list CF) : bool :=
  let sc := fmax (RunC05.maxabs impl) (RunC05.maxabs model) in
  all2 (cfclose (atol + rtol * sc)%float rtol) model impl.

Definition chk_apply_std_a (atol rtol : float) (e : run_env) (T : linop) (arrs : carrs) (scals : list (Z * CF)) (mats : cmats)
           (nfb : Z) (xin expect : list CF) : bool :=
  forallb RunC05.row_ok (r_tab e) && wf T && leaves_covered e mats T && (n_fallback e T =? nfb) &&
  close_list_a atol rtol (run_apply_std e T arrs scals mats xin) expect.

Definition chk_apply_split_a (atol rtol : float) (e : run_env) (T : linop) (arrs : carrs) (scals : list (Z * CF)) (mats : cmats)
           (leafcases : list leafcase) (nfb : Z) (xin expect : list CF) : bool :=
  forallb RunC05.row_ok (r_tab e) && wf T && (n_fallback e T =? nfb) &&
  forallb (fun L => in_mats mats L &&
                    (negb (std_leaf_ok e L) || existsb (fun c => linop_eqb (fst c) L) leafcases)) (opaque_leaves T) &&
  forallb (chk_leaf_std rtol e arrs) leafcases &&
  close_list_a atol rtol
    (tabulate (oshape_of T)
       (den (mk_arr CFOps arrs) (mk_scal CFOps scals) (mk_orc CFOps mats) retab T (of_list (0, 0)%float (ishape_of T) xin)))
    expect.

(* ---- exact: Gaussian-integer trees whose only library-backed leaves are convolutions (the model is exact over Z[i]) ---- *)
Definition garrs := list (Z * (list Z * list GZ)).
Definition chk_apply_std_G (T : linop) (arrs : garrs) (scals : list (Z * GZ)) (xin expect : list GZ) : bool :=
  wf T &&
  forallb (fun L => (opaque_family L =? 2) && wf L && proven_node_conv L) (opaque_leaves T) &&
  list_eqb gz_eqb
    (tabulate (oshape_of T)
       (den (mk_arr GOps arrs) (mk_scal GOps scals) (orc_conv (R:=GOps) (mk_arr GOps arrs)) retab T
            (of_list (0, 0) (ishape_of T) xin))) expect.

(* on convolution leaves orc_conv IS the standard oracle (for any environment): the exact checker evaluates orc_std *)
Lemma chk_apply_std_G_oracle (C : COps) (E : std_env GOps C) (arr : Z -> list Z -> GOps) L :
  opaque_family L = 2 -> forall x, orc_std E arr L x = orc_conv (R:=GOps) arr L x.
Proof. destruct L; try discriminate; reflexivity. Qed.

(* the structural checkers of run/RunLinop.v do not involve the oracle: chk_adj, chk_normal, chk_shapes, chk_rejected,
   chk_same are used unchanged *)

(* sanity: an FFT leaf through the standard oracle, its table validated; the same leaf with a dense matrix supplied is
   refused (the predicate accepts it); a leaf without table data is not silently accepted *)
Example chk_apply_std_selfcheck :
  let tab := [(2, ([(1, 0)%float; ((-1)%float, 0%float)], (0x1.6a09e667f3bcdp-1, 0x1p-1)%float))] in
  let e := mkRunEnv tab 0x1.921fb54442d18p+1 [] [] [] [] [] [] [] in
  let T := Compose [FFT [2] None false; Multiply [2] (MScalar 1) false] in
  let x := [(1, 0)%float; (3, 0)%float] in
  let y := [(0x1.6a09e667f3bcdp+2, 0)%float; ((-0x1.6a09e667f3bcdp+1)%float, 0%float)] in      (* 2 * (4, -2) / sqrt 2 *)
  chk_apply_std 0x1p-30 e T [] [(1, (2, 0)%float)] [] 0 x y = true /\
  chk_apply_std 0x1p-30 e T [] [(1, (2, 0)%float)] [(FFT [2] None false, [[(1, 0)%float; (1, 0)%float]; [(1, 0)%float; ((-1)%float, 0%float)]])] 0 x y = false /\
  chk_apply_std 0x1p-30 (mkRunEnv [] 0x1.921fb54442d18p+1 [] [] [] [] [] [] []) T [] [(1, (2, 0)%float)] [] 0 x y = false /\
  chk_apply_std 0x1p-30 e T [] [(1, (2, 0)%float)] [] 0 x [(0x1.6a09e667f3bcdp+2, 0)%float; (0x1.6a09e667f3bcdp+1, 0)%float] = false.
Proof. vm_compute. repeat split; reflexivity. Qed.
