(* RunC11.v — executable checkers of the C11 correspondence.  The model of model/Prox.v is
   instantiated on hardware binary64 floats (real elements) and pairs of floats (complex
   elements); each checker takes literal data (parameters, input, the implementation's output and
   its shape) and says whether the model reproduces the implementation within
   |a-b| <= atol + rtol*max(|a|,|b|) per entry (shapes: exact). *)
From Coq Require Import ZArith List Bool PrimFloat.
From SV Require Import lib.Scalar lib.FloatRun model.Prox.
Import ListNotations.

Definition FR : ROps :=
  mkROps float 0%float 1%float 2%float PrimFloat.add PrimFloat.sub PrimFloat.mul PrimFloat.div
         PrimFloat.opp PrimFloat.abs PrimFloat.sqrt PrimFloat.ltb PrimFloat.eqb.
Definition FRe : Elem FR := RealElem FR.
Definition FCx : Elem FR := CplxElem FR.

Definition rtol : float := 0x1.19799812dea11p-40%float.    (* 1e-12 *)

Definition close_r (atol : float) (a b : float) : bool := fclose atol rtol a b.
Definition close_c (atol : float) (a b : float * float) : bool := cfclose atol rtol a b.

Definition same_r (atol : float) (got : option (list float)) (expect : list float) : bool :=
  match got with Some l => all2 (close_r atol) l expect | None => false end.
Definition same_c (atol : float) (got : option (list (float * float))) (expect : list (float * float)) : bool :=
  match got with Some l => all2 (close_c atol) l expect | None => false end.

(* Prox objects: P(alpha, input) has Prox.shape and the model's values *)
Definition chk_prox_r (p : prox FRe) (alpha : sv float) (input : list float)
           (oshape : list Z) (expect : list float) (atol : float) : bool :=
  zl_eqb (pshape p) oshape && same_r atol (apply p alpha input) expect.
Definition chk_prox_c (p : prox FCx) (alpha : sv float) (input : list (float * float))
           (oshape : list Z) (expect : list (float * float)) (atol : float) : bool :=
  zl_eqb (pshape p) oshape && same_c atol (apply p alpha input) expect.

(* thresh.py functions called directly: output shape must be the input shape *)
Definition chk_soft_r ishape oshape lam input expect atol :=
  zl_eqb ishape oshape && same_r atol (Some (soft_thresh (El:=FRe) lam input)) expect.
Definition chk_soft_c ishape oshape lam input expect atol :=
  zl_eqb ishape oshape && same_c atol (Some (soft_thresh (El:=FCx) lam input)) expect.
Definition chk_hard_r ishape oshape lam input expect atol :=
  zl_eqb ishape oshape && same_r atol (Some (hard_thresh (El:=FRe) lam input)) expect.
Definition chk_hard_c ishape oshape lam input expect atol :=
  zl_eqb ishape oshape && same_c atol (Some (hard_thresh (El:=FCx) lam input)) expect.
Definition chk_l1proj_r ishape oshape eps input expect atol :=
  zl_eqb ishape oshape && same_r atol (l1_proj (El:=FRe) eps input) expect.
Definition chk_l1proj_c ishape oshape eps input expect atol :=
  zl_eqb ishape oshape && same_c atol (l1_proj (El:=FCx) eps input) expect.
Definition l2p {El : Elem FR} (ishape : list Z) (axes : option (list Z)) eps (input : list El) :=
  match axes with None => l2_proj eps input | Some ax => l2_proj_axes ishape ax eps input end.
Definition chk_l2proj_r ishape oshape axes eps input expect atol :=
  zl_eqb ishape oshape && same_r atol (Some (l2p (El:=FRe) ishape axes eps input)) expect.
Definition chk_l2proj_c ishape oshape axes eps input expect atol :=
  zl_eqb ishape oshape && same_c atol (Some (l2p (El:=FCx) ishape axes eps input)) expect.
Definition chk_linfproj_r ishape oshape eps bias input expect atol :=
  zl_eqb ishape oshape && same_r atol (Some (linf_proj (El:=FRe) eps input bias)) expect.
Definition chk_linfproj_c ishape oshape eps bias input expect atol :=
  zl_eqb ishape oshape && same_c atol (Some (linf_proj (El:=FCx) eps input bias)) expect.

(* eigh oracle: the recorded answer (w, v) must satisfy the recorded specification on THIS input:
   v^H v = I  and  v diag(w) v^H = (input + input^H)/2, within atol (entrywise). *)
Section Eigh.
  Context {El : Elem FR}.
  Variable close : float -> El -> El -> bool.
  Variable eone : El.
  Definition ident (n : nat) : list (list El) :=
    map (fun i => map (fun j => if Nat.eqb i j then eone else e0) (seq 0 n)) (seq 0 n).
  Definition matmulH (a b : list (list El)) : list (list El) :=   (* a @ b^H *)
    map (fun ra => map (fun rb => esum (map2 (fun x y => emul x (econj y)) ra rb)) b) a.
  Definition mat_close atol (a b : list (list El)) : bool := all2 (all2 (close atol)) a b.
  Definition eigh_spec_ok (n : nat) (input : list El) (w : list (T FR)) (v : list (list El)) (atol : float) : bool :=
    let vt := transpose n v in                         (* rows of vt = columns of v *)
    let vH := map (map econj) vt in                    (* v^H *)
    (* (v^H) @ (v^H)^H = v^H v *)
    mat_close atol (matmulH vH vH) (ident n) &&
    mat_close atol (matmulH v v) (ident n) &&
    let vw := map (fun row => map2 (fun x wj => escale wj x) row w) v in
    mat_close atol (matmulH vw v) (herm_part n input) &&
    Nat.eqb (length w) n && Nat.eqb (length v) n && forallb (fun r => Nat.eqb (length r) n) v.
End Eigh.

Definition chk_psd_r (n : nat) ishape oshape (input : list float) (w : list float) (v : list (list float))
           (expect : list float) (atol : float) : bool :=
  zl_eqb ishape oshape && eigh_spec_ok (El:=FRe) close_r 1%float n input w v atol &&
  same_r atol (Some (psd_proj (El:=FRe) n w v)) expect.
Definition chk_psd_c (n : nat) ishape oshape (input : list (float * float)) (w : list float)
           (v : list (list (float * float))) (expect : list (float * float)) (atol : float) : bool :=
  zl_eqb ishape oshape && eigh_spec_ok (El:=FCx) close_c (1%float, 0%float) n input w v atol &&
  same_c atol (Some (psd_proj (El:=FCx) n w v)) expect.

Fixpoint failing_aux (k : Z) (l : list bool) : list Z :=
  match l with [] => [] | b :: l' => (if b then [] else [k]) ++ failing_aux (k + 1) l' end.
Definition failing (l : list bool) : list Z := failing_aux 0 l.

(* smoke tests *)
Example soft_smoke :
  soft_thresh (El:=FRe) (SS 1%float) [3; -0.5; 1; -4; 0]%float = [2; -0; 0; -3; 0]%float.
Proof. vm_compute. reflexivity. Qed.
