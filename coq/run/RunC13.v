(* RunC13.v — float instances of the GradientMethod / PDHG models (model/ProxGrad.v) and the
   boolean trajectory checkers used by the C13 correspondence.  Vectors are lists of binary64
   floats; complex data arrive in the interleaved real embedding [re0; im0; re1; im1; ...]
   (a complex matrix becomes the real matrix of 2x2 blocks [[re, -im], [im, re]]).
   A step size is a scalar or an array (positive diagonal). *)
From Coq Require Import ZArith List Bool PrimFloat.
From SV Require Import lib.Scalar lib.FloatRun model.ProxGrad.
Import ListNotations.
Local Open Scope float_scope.

Definition FS : SOps :=
  mkSOps float 0 1 2 4 PrimFloat.add PrimFloat.sub PrimFloat.mul PrimFloat.div PrimFloat.opp PrimFloat.sqrt
         (fun a b => if PrimFloat.ltb a b then b else a)
         (fun a => PrimFloat.ltb 0 a) (fun a => PrimFloat.eqb a 0).

Definition fvec := list float.
Definition vnormf (v : fvec) : float := PrimFloat.sqrt (vnorm2 v).
Definition vmul2 (a b : fvec) : fvec := map (fun p => fst p * snd p) (combine a b).
Definition vdiv2 (a b : fvec) : fvec := map (fun p => fst p / snd p) (combine a b).

Fixpoint transpose_aux (ncols : nat) (m : list fvec) : list fvec :=
  match ncols with
  | O => []
  | S k => map (fun r => hd 0 r) m :: transpose_aux k (map (@tl float) m)
  end.
Definition transpose (ncols : nat) (m : list fvec) : list fvec := transpose_aux ncols m.

(* ---- step sizes ---------------------------------------------------------- *)
Inductive fstep := FScal (a : float) | FArr (l : fvec).

Definition st_expand (t : fstep) (n : nat) : fvec := match t with FScal a => repeat a n | FArr l => l end.
Definition st_act (t : fstep) (v : fvec) : fvec := match t with FScal a => vscale a v | FArr l => vmul2 l v end.
Definition st_neg (t : fstep) : fstep := match t with FScal a => FScal (- a) | FArr l => FArr (map PrimFloat.opp l) end.
Definition st_muls (t : fstep) (c : float) : fstep :=
  match t with FScal a => FScal (a * c) | FArr l => FArr (map (fun a => a * c) l) end.
Definition st_divs (t : fstep) (c : float) : fstep :=
  match t with FScal a => FScal (a / c) | FArr l => FArr (map (fun a => a / c) l) end.
Definition st_divsqrt (v : fvec) (t : fstep) : fvec :=
  match t with
  | FScal a => let r := PrimFloat.sqrt a in map (fun x => x / r) v
  | FArr l => vdiv2 v (map PrimFloat.sqrt l)
  end.
Definition st_min (t : fstep) : float :=
  match t with
  | FScal a => fabs a
  | FArr l => match l with [] => 0 | a :: l' => fold_left (fun m b => fmin m (fabs b)) l' (fabs a) end
  end.

(* ---- concrete proximal operators (sigpy.prox / sigpy.thresh) ---------------- *)
(* thresh._soft_thresh, real input *)
Definition soft_r (lam x : float) : float :=
  let a := fabs x in
  let sign := if PrimFloat.eqb a 0 then 0 else x / a in
  let mag := a - lam in
  let mag := (fabs mag + mag) / 2 in
  mag * sign.
(* thresh._soft_thresh, complex input (re, im) *)
Definition soft_c (lam re im : float) : float * float :=
  let a := PrimFloat.sqrt (re * re + im * im) in
  let sr := if PrimFloat.eqb a 0 then 0 else re / a in
  let si := if PrimFloat.eqb a 0 then 0 else im / a in
  let mag := a - lam in
  let mag := (fabs mag + mag) / 2 in
  (mag * sr, mag * si).

Fixpoint soft_c_list (lam : float) (al : fvec) (v : fvec) : fvec :=
  match v, al with
  | re :: im :: v', a :: _ :: al' => let p := soft_c (lam * a) re im in fst p :: snd p :: soft_c_list lam al' v'
  | _, _ => []
  end.

Inductive pspec :=
| PNone                                      (* prox.NoOp *)
| PL1 (lam : float)                          (* prox.L1Reg, real data *)
| PL1c (lam : float)                         (* prox.L1Reg, complex data (interleaved) *)
| PL2 (lam : float) (y : option fvec)        (* prox.L2Reg(shape, lam, y) *)
| PBox (lo hi : float).                      (* prox.BoxConstraint, real data *)

Definition prox_apply (p : pspec) (t : fstep) (v : fvec) : fvec :=
  let al := st_expand t (length v) in
  match p with
  | PNone => v
  | PL1 lam => map (fun q => soft_r (lam * fst q) (snd q)) (combine al v)
  | PL1c lam => soft_c_list lam al v
  | PL2 lam None => map (fun q => snd q / (1 + lam * fst q)) (combine al v)
  | PL2 lam (Some y) =>
      map (fun q => (snd (fst q) + (lam * fst (fst q)) * snd q) / (1 + lam * fst (fst q))) (combine (combine al v) y)
  | PBox lo hi => map (fun x => fmin (fmax x lo) hi) v
  end.

Fixpoint all2h {A B} (p : A -> B -> bool) (a : list A) (b : list B) : bool :=
  match a, b with
  | [], [] => true
  | x :: a', y :: b' => p x y && all2h p a' b'
  | _, _ => false
  end.

(* ---- closeness -------------------------------------------------------------- *)
Definition vmaxabs (v : fvec) : float := fold_left (fun m b => fmax m (fabs b)) v 0.
(* |a_i - b_i| <= atol + rtol * max|b|  (+ rtol * max(|a_i|,|b_i|)) *)
Definition vclose (atol rtol : float) (a b : fvec) : bool := all2 (fclose (atol + rtol * vmaxabs b) rtol) a b.
Definition stclose (atol rtol : float) (a b : fstep) : bool :=
  match a, b with
  | FScal x, FScal y => fclose atol rtol x y
  | FArr x, FArr y => vclose atol rtol x y
  | _, _ => false
  end.

(* ---- GradientMethod on  min 1/2 ||A x - y||^2 + g(x) -------------------------- *)
Definition lsq_gradf (A AT : list fvec) (y : fvec) (x : fvec) : fvec := matvec AT (vsub (matvec A x) y).

Definition gm_run (acc : bool) (alpha : float) (pg : option pspec) (A : list fvec) (y x0 : fvec) (n : nat) :=
  let AT := transpose (length x0) A in
  gm_traj FS fvec vadd vsub vscale vnormf (lsq_gradf A AT y) acc alpha
          (match pg with Some p => Some (fun a v => prox_apply p (FScal a) v) | None => None end)
          n (gm_init FS fvec x0 infinity).

Definition gm_obs := (fvec * fvec * float * float)%type.     (* x, z, t, resid  (z, t ignored when not accelerated) *)

Definition gm_close (acc : bool) (atol rtol atol_r : float) (m : gm_state FS fvec) (o : gm_obs) : bool :=
  let '(x, z, t, r) := o in
  vclose atol rtol (gm_x m) x && fclose atol_r rtol (gm_resid m) r &&
  (if acc then vclose atol rtol (gm_z m) z && fclose 0 rtol (gm_t m) t else true).

Definition chk_gm (acc : bool) (alpha : float) (pg : option pspec) (A : list fvec) (y x0 : fvec)
           (atol rtol atol_r : float) (obs : list gm_obs) : bool :=
  all2h (fun m o => gm_close acc atol rtol atol_r m o)
       (gm_run acc alpha pg A y x0 (length obs)) obs.

(* ---- PDHG on the saddle form of  min f(A x) + g(x) ----------------------------- *)
Definition pd_run (theta gp gd : float) (pfc pg : pspec) (A : list fvec) (x0 u0 : fvec) (tau sigma : fstep) (n : nat) :=
  let AT := transpose (length x0) A in
  pd_traj FS fvec fvec fstep fstep vadd vsub vscale vnormf vadd vsub vnormf
          st_act st_neg st_muls st_divs st_divsqrt
          st_act st_muls st_divs st_divsqrt
          (matvec A) (matvec AT) (prox_apply pfc) (prox_apply pg)
          theta gp gd n
          (pd_init FS fvec fvec fstep fstep st_min st_min x0 u0 tau sigma gp gd infinity).

Definition pd_obs := (fvec * fvec * fvec * fstep * fstep * float)%type.    (* x, u, x_ext, tau, sigma, resid *)

Definition pd_close (atol rtol atol_r : float) (m : pd_state FS fvec fvec fstep fstep) (o : pd_obs) : bool :=
  let '(x, u, xe, tau, sigma, r) := o in
  vclose atol rtol (pd_x m) x && vclose atol rtol (pd_u m) u && vclose atol rtol (pd_xext m) xe &&
  stclose 0 rtol (pd_tau m) tau && stclose 0 rtol (pd_sigma m) sigma && fclose atol_r rtol (pd_resid m) r.

Definition chk_pd (theta gp gd : float) (pfc pg : pspec) (A : list fvec) (x0 u0 : fvec) (tau sigma : fstep)
           (atol rtol atol_r : float) (obs : list pd_obs) : bool :=
  all2h (fun m o => pd_close atol rtol atol_r m o)
       (pd_run theta gp gd pfc pg A x0 u0 tau sigma (length obs)) obs.

Fixpoint failing_aux (k : Z) (l : list bool) : list Z :=
  match l with [] => [] | b :: l' => (if b then [] else [k]) ++ failing_aux (k + 1) l' end.
Definition failing (l : list bool) : list Z := failing_aux 0 l.
