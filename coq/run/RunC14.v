(* RunC14.v — float instance of the LinearLeastSquares configuration model (model/LLS.v) and the boolean
   checkers used by the C14 correspondence.  Vectors are lists of binary64 floats; complex data arrive in the
   interleaved real embedding [re0; im0; re1; im1; ...] (a complex matrix becomes the real matrix of 2x2 blocks
   [[re, -im], [im, re]]; only used with proxg in {None, L2Reg}, which commute with the embedding).
   Operators A, G are dense matrices (rows); adjoint = transpose.  Every checker takes the configuration, the
   data, what was OBSERVED on the implementation's objects, and says whether the model reproduces it. *)
From Coq Require Import ZArith List Bool PrimFloat.
From SV Require Import lib.Scalar lib.FloatRun model.ProxGrad model.LLS.
Import ListNotations.
Local Open Scope float_scope.

Definition FS : SOps :=
  mkSOps float 0 1 2 4 PrimFloat.add PrimFloat.sub PrimFloat.mul PrimFloat.div PrimFloat.opp PrimFloat.sqrt
         (fun a b => if PrimFloat.ltb a b then b else a)
         (fun a => PrimFloat.ltb 0 a) (fun a => PrimFloat.eqb a 0).

Definition fvec := list float.
Definition vnormf (v : fvec) : float := PrimFloat.sqrt (vnorm2 v).
Definition FV : VOps FS := mkVOps FS fvec FloatRun.vadd FloatRun.vsub FloatRun.vscale (fun v c => map (fun x => x / c) v) vnormf.

Fixpoint transpose_aux (ncols : nat) (m : list fvec) : list fvec :=
  match ncols with
  | O => []
  | S k => map (fun r => hd 0 r) m :: transpose_aux k (map (@tl float) m)
  end.

(* ---- the user's Prox objects (sigpy.prox / sigpy.thresh), real data --------------------------- *)
Definition soft_r (lam x : float) : float :=      (* thresh._soft_thresh *)
  let a := fabs x in
  let sign := if PrimFloat.eqb a 0 then 0 else x / a in
  let mag := a - lam in
  let mag := (fabs mag + mag) / 2 in
  mag * sign.
Inductive pspec :=
| PL1 (lam : float)              (* prox.L1Reg(shape, lam) *)
| PL2 (lam : float)              (* prox.L2Reg(shape, lam) *)
| PBox (lo hi : float).          (* prox.BoxConstraint(shape, lo, hi) *)
Definition prox_apply (p : pspec) (alpha : float) (v : fvec) : fvec :=
  match p with
  | PL1 lam => map (soft_r (lam * alpha)) v
  | PL2 lam => l2reg (S := FS) (V := FV) lam None None alpha v
  | PBox lo hi => map (fun x => fmin (fmax x lo) hi) v
  end.
Definition pfun (p : option pspec) : option (float -> fvec -> fvec) :=
  match p with Some q => Some (prox_apply q) | None => None end.

(* ---- closeness ------------------------------------------------------------------------------ *)
Definition vmaxabs (v : fvec) : float := fold_left (fun m b => fmax m (fabs b)) v 0.
Definition vclose (atol rtol : float) (a b : fvec) : bool := all2 (fclose (atol + rtol * vmaxabs b) rtol) a b.

Fixpoint zl_eqb (a b : list Z) : bool :=
  match a, b with
  | [], [] => true
  | x :: a', y :: b' => Z.eqb x y && zl_eqb a' b'
  | _, _ => false
  end.

(* ---- (a) the decision table ------------------------------------------------------------------ *)
Definition mkfl (s : Z) (p g l z : bool) : lls_flags :=
  mkFlags (match s with 0 => SolNone | 1 => SolCG | 2 => SolGM | 3 => SolPDHG | 4 => SolADMM | _ => SolOther end)%Z p g l z.
Definition chk_describe (s : Z) (p g l z : bool) (obs : list Z) : bool := zl_eqb (describe (mkfl s p g l z)) obs.

(* ---- (b) the configured data ------------------------------------------------------------------ *)
Record prob := mkProb {
  pn : nat;                       (* length of x (real embedding) *)
  pA : list fvec;
  pG : list fvec;                 (* [] when G is None *)
  py : fvec;
  plam : float;
  pz : option fvec;
  pprox : option pspec }.
Definition opA (P : prob) : fvec -> fvec := matvec (pA P).
Definition opAH (P : prob) : fvec -> fvec := matvec (transpose_aux (pn P) (pA P)).
Definition opG (P : prob) : fvec -> fvec := matvec (pG P).
Definition opGH (P : prob) : fvec -> fvec := matvec (transpose_aux (pn P) (pG P)).

Definition T := 0x1p-30.          (* 9.3e-10: tolerance of the direct comparisons *)
Definition TL := 0x1p-20.         (* 9.5e-7: the x-update of ADMM is an iterative solve *)

(* ConjugateGradient: alg.A applied to a probe vector, alg.b *)
Definition chk_cg (P : prob) (probe opx rhs : fvec) : bool :=
  vclose T T (cg_op FS FV FV (opA P) (opAH P) (plam P) probe) opx &&
  vclose T T (cg_rhs FS FV FV (opAH P) (py P) (plam P) (pz P)) rhs.

(* GradientMethod: alg.gradf on a probe, alg.alpha (given, or from MaxEig started at the recorded random vector),
   alg.x after the first update *)
Definition chk_gm (P : prob) (probe gradp : fvec) (alpha_opt : option float) (npow : nat) (xrand : fvec)
           (alpha_obs : float) (acc : bool) (x0 x1 : fvec) : bool :=
  vclose T T (gm_gradf FS FV FV (opA P) (opAH P) (py P) (plam P) (pz P) probe) gradp &&
  fclose 0 T (gm_alpha FS FV FV (opA P) (opAH P) (plam P) alpha_opt npow xrand infinity) alpha_obs &&
  vclose T T (gm_x (lls_gm_step FS FV FV (opA P) (opAH P) (py P) (plam P) (pz P) (pfun (pprox P)) acc alpha_obs
                                (gm_init FS fvec x0 infinity))) x1.

(* PDHG without G: tau, sigma (given or defaulted through MaxEig), gamma_primal, gamma_dual, state after one update *)
Definition chk_pd (P : prob) (tau_opt sigma_opt : option float) (npow : nat) (xrand urand : fvec)
           (tau_obs sigma_obs gp_obs gd_obs : float) (x0 u0 x1 u1 xe1 : fvec) (tau1 sigma1 : float) : bool :=
  let ts := pdhg_steps FS FV FV (opA P) (opAH P) tau_opt sigma_opt npow xrand urand infinity in
  let gp := pdhg_gamma_primal FS (plam P) in
  let gd := pdhg_gamma_dual_noG FS in
  let st0 := pd_init FS fvec fvec float float fabs fabs x0 u0 tau_obs sigma_obs gp gd infinity in
  let st1 := lls_pdhg_step FS FV FV (opA P) (opAH P) (py P) (plam P) (pz P) (pfun (pprox P)) st0 in
  fclose 0 T (fst ts) tau_obs && fclose 0 T (snd ts) sigma_obs &&
  PrimFloat.eqb gp gp_obs && PrimFloat.eqb gd gd_obs &&
  vclose T T (pd_x st1) x1 && vclose T T (pd_u st1) u1 && vclose T T (pd_xext st1) xe1 &&
  fclose 0 T (pd_tau st1) tau1 && fclose 0 T (pd_sigma st1) sigma1.

(* PDHG with G: the dual variable is the pair (block of A, block of G) *)
Definition chk_pdG (P : prob) (tau_opt sigma_opt : option float) (npow : nat) (xrand ury urw : fvec)
           (tau_obs sigma_obs gp_obs gd_obs : float) (x0 u0y u0w x1 u1y u1w xe1 : fvec) (tau1 sigma1 : float) : bool :=
  let K := stackA FS FV FV FV (opA P) (opG P) in
  let KH := stackAH FS FV FV FV (opAH P) (opGH P) in
  let ts := pdhg_steps FS FV (stackU FS FV FV) K KH tau_opt sigma_opt npow xrand (ury, urw) infinity in
  let gp := pdhgG_gamma_primal FS (plam P) in
  let gd := pdhgG_gamma_dual FS in
  let st0 := pd_init FS fvec (fvec * fvec) float float fabs fabs x0 (u0y, u0w) tau_obs sigma_obs gp gd infinity in
  let st1 := lls_pdhgG_step FS FV FV FV (opA P) (opAH P) (opG P) (opGH P) (py P) (plam P) (pz P) (pfun (pprox P)) st0 in
  fclose 0 T (fst ts) tau_obs && fclose 0 T (snd ts) sigma_obs &&
  PrimFloat.eqb gp gp_obs && PrimFloat.eqb gd gd_obs &&
  vclose T T (pd_x st1) x1 && vclose T T (fst (pd_u st1)) u1y && vclose T T (snd (pd_u st1)) u1w &&
  vclose T T (pd_xext st1) xe1 &&
  fclose 0 T (pd_tau st1) tau1 && fclose 0 T (pd_sigma st1) sigma1.

(* ADMM: the system handed to the inner CG at the first x-update (operator on a probe, right-hand side),
   the x it returned (must solve the MODEL's system), then the v- and u-updates *)
Definition chk_admm (P : prob) (rho : float) (probe opx rhs x0 x1 v1 u1 : fvec) : bool :=
  let v0 := x0 in
  let u0 := FloatRun.vscale 0 x0 in
  let op := admm_op FS FV FV (opA P) (opAH P) (plam P) rho in
  let b := admm_rhs FS FV FV (opAH P) (py P) (plam P) (pz P) rho v0 u0 in
  vclose T T (op probe) opx && vclose T T b rhs && vclose TL TL (op x1) b &&
  vclose T T (admm_v FS FV (pfun (pprox P)) rho x1 u0) v1 &&
  vclose T T (admm_u FS FV x1 v1 u0) u1.

Definition chk_admmG (P : prob) (rho : float) (probe opx rhs x0 x1 v1 u1 : fvec) : bool :=
  let v0 := opG P x0 in
  let u0 := FloatRun.vscale 0 v0 in
  let op := admmG_op FS FV FV FV (opA P) (opAH P) (opG P) (opGH P) (plam P) rho in
  let b := admmG_rhs FS FV FV FV (opAH P) (opGH P) (py P) (plam P) (pz P) rho v0 u0 in
  vclose T T (op probe) opx && vclose T T b rhs && vclose TL TL (op x1) b &&
  vclose T T (admmG_v FS FV FV (opG P) (pfun (pprox P)) rho x1 u0) v1 &&
  vclose T T (admmG_u FS FV FV (opG P) x1 v1 u0) u1.

Fixpoint failing_aux (k : Z) (l : list bool) : list Z :=
  match l with [] => [] | b :: l' => (if b then [] else [k]) ++ failing_aux (k + 1) l' end.
Definition failing (l : list bool) : list Z := failing_aux 0 l.
