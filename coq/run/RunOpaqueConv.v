(* RunOpaqueConv.v — executable checker of the opaque-leaf correspondence for the convolution family:
   [orc_conv] (model/OpaqueConv.v) instantiated on Gaussian integers, evaluated by vm_compute and compared
   EXACTLY with the output of the real classes sp.linop.ConvolveData / ConvolveDataAdjoint / ConvolveFilter /
   ConvolveFilterAdjoint (flat row-major lists of (re, im) pairs), together with the advertised output shape,
   well-formedness and the validity predicate of proofs/OpaqueConv.v. *)
From Coq Require Import ZArith List Bool.
From SV Require Import lib.Scalar lib.BigSum lib.LoopIR lib.NdArray lib.Gather model.Rearrange model.Block model.Linop
  model.Conv model.OpaqueConv run.RunLinop.
Import ListNotations.
Local Open Scope Z_scope.

Definition garrs := list (Z * (list Z * list GZ)).

(* leaf term, captured arrays by tag, input (flat), implementation's output shape and output (flat) *)
Definition chk_opaque_conv (L : linop) (arrs : garrs) (xin : list GZ) (esh : list Z) (expect : list GZ) : bool :=
  wf L && proven_node_conv L && zlist_eqb (oshape_of L) esh &&
  list_eqb gz_eqb
    (tabulate (oshape_of L) (orc_conv (R:=GOps) (mk_arr GOps arrs) L (of_list (0, 0) (ishape_of L) xin))) expect.

(* a whole operator tree with the convolution leaves denoted by orc_conv (every other library-backed leaf: identity) *)
Definition chk_apply_conv (T : linop) (arrs : garrs) (scals : list (Z * GZ)) (xin expect : list GZ) : bool :=
  wf T &&
  list_eqb gz_eqb
    (tabulate (oshape_of T)
       (den (mk_arr GOps arrs) (mk_scal GOps scals) (orc_conv (R:=GOps) (mk_arr GOps arrs)) retab T
            (of_list (0, 0) (ishape_of T) xin))) expect.

(* the constructor raised: the term is ill-formed *)
Definition chk_opaque_conv_reject (L : linop) : bool := negb (wf L).
