(* RunOpaqueFourier.v — executable checker tying model/OpaqueFourier.orc_fourier to the REAL classes
   sigpy.linop.FFT / IFFT:  the leaf term (as serialised by vlib/linser.py), the twiddle tables of the axis
   lengths (exact hex floats, validated inside Coq by RunC05.row_ok), the input and the output of
   `sp.linop.FFT(shape, axes, center)(x)`; the model is evaluated by vm_compute on complex pairs of binary64
   floats and compared to rtol relative to the largest entry (RunC05.close_list). *)
From Coq Require Import ZArith List Bool PrimFloat.
From SV Require Import lib.Scalar lib.BigSum lib.NdArray lib.FloatRun model.Rearrange model.Block model.Linop
  model.Fourier model.OpaqueFourier run.RunC05.
Import ListNotations.
Local Open Scope Z_scope.

Definition run_opaque_fourier (L : linop) (tab : list twrow) (xin : list CF) : list CF :=
  tabulate (oshape_of L)
           (orc_fourier (R:=CFOps) (tw_of tab) (isc_of tab) (inv_of tab) L (cfin (ishape_of L) xin)).

(* accepted leaf: a well-formed FFT/IFFT with parameters the class accepts, advertised shapes as observed, values *)
Definition chk_opaque_fourier (L : linop) (tab : list twrow) (rtol : float)
           (oshape_impl ishape_impl : list Z) (xin expect : list CF) : bool :=
  forallb row_ok tab &&
  fourier_leaf L && wf L && proven_node_fourier L &&
  zlist_eqb (oshape_of L) oshape_impl && zlist_eqb (ishape_of L) ishape_impl &&
  close_list rtol (run_opaque_fourier L tab xin) expect.

(* the class raised (in the constructor or when applied): the model's validity predicate must reject as well *)
Definition chk_opaque_fourier_rejected (L : linop) : bool :=
  fourier_leaf L && negb (wf L && proven_node_fourier L).

(* the operators returned by .H and .N are the modelled ones (the terms the theorems speak about) *)
Definition chk_opaque_fourier_adj_normal (L LH LN : linop) : bool :=
  linop_eqb (adj L) LH && linop_eqb (normal L) LN.
