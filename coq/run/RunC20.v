(* RunC20.v — the trapezoid designers of model/Trap.v instantiated on hardware floats, and the
   boolean checkers used by the C20 correspondence.  Each checker takes the parameters and what the
   implementation returned (ramp count, waveform length, samples) and says whether the model
   reproduces it: integers exactly, samples with fclose. *)
From Coq Require Import ZArith List Bool PrimFloat.
From SV Require Import lib.FloatRun model.Trap.
Import ListNotations.

Definition FReal : RealOps :=
  mkRealOps float 0%float 1%float PrimFloat.add PrimFloat.sub PrimFloat.mul PrimFloat.div PrimFloat.sqrt PrimFloat.abs
            float_to_Z_ceil float_to_Z_floor Z_to_float PrimFloat.ltb.

Fixpoint failing_aux (k : Z) (l : list bool) : list Z :=
  match l with [] => [] | b :: l' => (if b then [] else [k]) ++ failing_aux (k + 1) l' end.
Definition failing (l : list bool) : list Z := failing_aux 0%Z l.

Definition rtol : float := 0x1.12e0be826d695p-30%float.   (* 1e-9 *)
Definition atol : float := 0%float.
Definition close (a b : float) : bool := fclose atol rtol a b.

(* whole waveform *)
Definition chk_full (res : list float * Z) (ramppts : Z) (w : list float) : bool :=
  Z.eqb (snd res) ramppts && all2 close (fst res) w.
(* long waveform: length, ramp count, and the listed (index, sample) pairs *)
Definition chk_sparse (res : list float * Z) (ramppts len : Z) (pts : list (Z * float)) : bool :=
  Z.eqb (snd res) ramppts && Z.eqb (Z.of_nat (length (fst res))) len &&
  forallb (fun p => match nth_error (fst res) (Z.to_nat (fst p)) with
                    | Some v => close v (snd p) | None => false end) pts.

Definition chk_trap area gmax dgdt dt ramppts w := chk_full (trap_grad (T:=FReal) area gmax dgdt dt) ramppts w.
Definition chk_trap_sparse area gmax dgdt dt ramppts len pts :=
  chk_sparse (trap_grad (T:=FReal) area gmax dgdt dt) ramppts len pts.
Definition chk_mintrap area gmax dgdt dt ramppts w := chk_full (min_trap_grad (T:=FReal) area gmax dgdt dt) ramppts w.
Definition chk_mintrap_sparse area gmax dgdt dt ramppts len pts :=
  chk_sparse (min_trap_grad (T:=FReal) area gmax dgdt dt) ramppts len pts.

(* ---- spokes_grad (model/Spokes.v) on floats ---------------------------------------------------------------------
   The implementation's three waveforms are compared with the model's on: the common length, ~50 indexed samples per
   axis (segment boundaries and random positions), and the sum of every spoke segment and of the tail (per axis).
   [fit] is the harness's own evaluation of the domain condition (lengths of the implementation's blips vs its lobe) and must agree with
   the model's blips_fit.  Outside the domain the python slice eats into earlier samples: the model mirrors that (py_take) and is
   compared all the same.  When the implementation raised (numpy.vstack on unequal lengths), the model must be outside its domain
   and produce unequal lengths. *)
From SV Require Import model.Spokes.

Definition seg_sums (subn : nat) (n : nat) (g : list float) : list float :=
  map (fun i => vsum (firstn subn (skipn (i * subn) g))) (seq 0 n) ++ [vsum (skipn (n * subn) g)].

Definition chk_axis (g : list float) (len : Z) (pts : list (Z * float)) (subn : nat) (n : nat) (atol_s : float)
                    (sums : list float) : bool :=
  Z.eqb (Z.of_nat (length g)) len &&
  forallb (fun p => match nth_error g (Z.to_nat (fst p)) with Some v => close v (snd p) | None => false end) pts &&
  all2 (fclose atol_s rtol) (seg_sums subn n g) sums.

Definition chk_spokes (kx ky : list float) (tbw thick gmax dgdt dt : float) (fit : bool) (len subn : Z) (atol_s : float)
                      (px py pz : list (Z * float)) (sx sy sz : list float) : bool :=
  let g := spokes_grad (T:=FReal) kx ky tbw thick gmax dgdt dt in
  let n := length kx in
  Bool.eqb (blips_fit (T:=FReal) kx ky tbw thick gmax dgdt dt) fit &&
  chk_axis (fst (fst g)) len px (Z.to_nat subn) n atol_s sx &&
  chk_axis (snd (fst g)) len py (Z.to_nat subn) n atol_s sy &&
  chk_axis (snd g) len pz (Z.to_nat subn) n atol_s sz.

Definition chk_spokes_raised (kx ky : list float) (tbw thick gmax dgdt dt : float) : bool :=
  let g := spokes_grad (T:=FReal) kx ky tbw thick gmax dgdt dt in
  negb (blips_fit (T:=FReal) kx ky tbw thick gmax dgdt dt) &&
  negb (Nat.eqb (length (fst (fst g))) (length (snd g)) && Nat.eqb (length (snd (fst g))) (length (snd g))).
