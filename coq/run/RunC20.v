(* RunC20.v — the trapezoid designers of model/Trap.v instantiated on hardware floats, and the
   boolean checkers used by the C20 correspondence.  Each checker takes the parameters and what the
   implementation returned (ramp count, waveform length, samples) and says whether the model
   reproduces it: integers exactly, samples with fclose. *)
From Coq Require Import ZArith List Bool PrimFloat.
From SV Require Import lib.FloatRun model.Trap.
Import ListNotations.

Definition FReal : RealOps :=
  mkRealOps float 0%float 1%float PrimFloat.add PrimFloat.sub PrimFloat.mul PrimFloat.div PrimFloat.sqrt PrimFloat.abs
            float_to_Z_ceil float_to_Z_floor Z_to_float PrimFloat.ltb.

Fixpoint failing_aux (k : Z) (l : list bool) : list Z :=
  match l with [] => [] | b :: l' => (if b then [] else [k]) ++ failing_aux (k + 1) l' end.
Definition failing (l : list bool) : list Z := failing_aux 0%Z l.

Definition rtol : float := 0x1.12e0be826d695p-30%float.   (* 1e-9 *)
Definition atol : float := 0%float.
Definition close (a b : float) : bool := fclose atol rtol a b.

(* whole waveform *)
Definition chk_full (res : list float * Z) (ramppts : Z) (w : list float) : bool :=
  Z.eqb (snd res) ramppts && all2 close (fst res) w.
(* long waveform: length, ramp count, and the listed (index, sample) pairs *)
Definition chk_sparse (res : list float * Z) (ramppts len : Z) (pts : list (Z * float)) : bool :=
  Z.eqb (snd res) ramppts && Z.eqb (Z.of_nat (length (fst res))) len &&
  forallb (fun p => match nth_error (fst res) (Z.to_nat (fst p)) with
                    | Some v => close v (snd p) | None => false end) pts.

Definition chk_trap area gmax dgdt dt ramppts w := chk_full (trap_grad (T:=FReal) area gmax dgdt dt) ramppts w.
Definition chk_trap_sparse area gmax dgdt dt ramppts len pts :=
  chk_sparse (trap_grad (T:=FReal) area gmax dgdt dt) ramppts len pts.
Definition chk_mintrap area gmax dgdt dt ramppts w := chk_full (min_trap_grad (T:=FReal) area gmax dgdt dt) ramppts w.
Definition chk_mintrap_sparse area gmax dgdt dt ramppts len pts :=
  chk_sparse (min_trap_grad (T:=FReal) area gmax dgdt dt) ramppts len pts.
