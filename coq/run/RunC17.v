(* RunC17.v — model/Espirit.v instantiated on hardware binary64, and the boolean checkers used by the
   C17 correspondence.  The implementation computes in complex64; its per-voxel operator AHA[r], its
   iterate and its eigenvalue estimate are passed in exactly (every float32 is a binary64) and the
   model's results are compared with an absolute + relative tolerance given by the caller; the crop
   decision (zero / non-zero) is compared exactly. *)
From Coq Require Import ZArith List Bool PrimFloat.
From SV Require Import lib.FloatRun model.Espirit.
Import ListNotations.

Definition FE : EOps :=
  mkEOps float 0%float 1%float PrimFloat.add PrimFloat.sub PrimFloat.mul PrimFloat.div PrimFloat.opp
         PrimFloat.sqrt PrimFloat.ltb.

Definition FC := (float * float)%type.
Definition cclose (atol rtol : float) (a b : FC) : bool :=
  fclose atol rtol (fst a) (fst b) && fclose atol rtol (snd a) (snd b).
Definition is_zero (z : FC) : bool := PrimFloat.eqb (fst z) 0%float && PrimFloat.eqb (snd z) 0%float.

(* _output: phase reference and crop applied to the implementation's own iterate and eigenvalue.
   When max_eig > crop fails the implementation's values must be exactly zero. *)
Definition chk_output (atol rtol crop : float) (x : list FC) (eig : float) (expect : list FC) : bool :=
  let m := output (E:=FE) crop x eig in
  (if PrimFloat.ltb crop eig then negb (forallb is_zero expect) else forallb is_zero expect) &&
  all2 (cclose atol rtol) m expect.

(* one PowerMethod update at one voxel on the implementation's AHA[r] and previous iterate *)
Definition chk_step (atol rtol : float) (A : list (list FC)) (x : list FC) (ex : list FC) (eeig : float) : bool :=
  let '(x', n) := power_step (E:=FE) A x in
  all2 (cclose atol rtol) x' ex && fclose atol rtol n eeig.

(* the whole voxel: k updates from x0, then _output *)
Definition chk_voxel (atol rtol : float) (k : Z) (A : list (list FC)) (x0 : list FC) (crop : float)
           (expect : list FC) (eeig : float) : bool :=
  let '(m, eig) := espirit_voxel (E:=FE) (Z.to_nat k) A x0 infinity crop in
  all2 (cclose atol rtol) m expect && fclose atol rtol eig eeig.

Fixpoint failing_aux (k : Z) (l : list bool) : list Z :=
  match l with [] => [] | b :: l' => (if b then [] else [k]) ++ failing_aux (k + 1)%Z l' end.
Definition failing (l : list bool) : list Z := failing_aux 0%Z l.
