(* RunC15.v — the base-class driver of model/Alg.v (update / done / run / exec_actions)
   instantiated on an "observed history" subclass: _update consumes the next pair
   (resid, breakdown flag) that the implementation reported after its update, _done is
   iter >= max_iter or flag or resid <= tol (binary64 comparison).  The checkers replay a
   sequence of done()/update() calls and compare every done() answer and every value of iter
   EXACTLY with what the Python object returned. *)
From Coq Require Import ZArith List Bool PrimFloat.
From SV Require Import lib.Scalar lib.FloatRun model.Alg.
Import ListNotations.
Local Open Scope Z_scope.

Record ostate := mkO {
  os_iter : Z; os_max : Z; os_tol : float;
  os_resid : float; os_flag : bool;
  os_future : list (float * bool);
  os_under : bool          (* the model asked for more observations than the implementation produced *) }.

Definition o__update (s : ostate) : ostate :=
  match os_future s with
  | [] => mkO (os_iter s) (os_max s) (os_tol s) (os_resid s) (os_flag s) [] true
  | (r, f) :: rest => mkO (os_iter s) (os_max s) (os_tol s) r f rest (os_under s)
  end.
Definition o__done (s : ostate) : bool :=
  (os_max s <=? os_iter s) || os_flag s || PrimFloat.leb (os_resid s) (os_tol s).
Definition o_set_iter (k : Z) (s : ostate) : ostate :=
  mkO k (os_max s) (os_tol s) (os_resid s) (os_flag s) (os_future s) (os_under s).
Definition OClass : AlgClass ostate := mkAlgClass ostate os_iter os_max o_set_iter o__update o__done.

Definition o_init (max_iter : Z) (tol r0 : float) (f0 : bool) (future : list (float * bool)) : ostate :=
  mkO 0 max_iter tol r0 f0 future false.

Fixpoint blist_eqb (a b : list bool) : bool :=
  match a, b with
  | [], [] => true
  | x :: a', y :: b' => Bool.eqb x y && blist_eqb a' b'
  | _, _ => false
  end.
Fixpoint zl_eqb (a b : list Z) : bool :=
  match a, b with
  | [], [] => true
  | x :: a', y :: b' => Z.eqb x y && zl_eqb a' b'
  | _, _ => false
  end.

(* acts: true = update(), false = done() *)
Definition acts_of (l : list bool) : list action := map (fun b : bool => if b then AUpdate else ADone) l.

Definition chk_history (max_iter : Z) (tol r0 : float) (f0 : bool) (future : list (float * bool))
           (acts : list bool) (exp_dones : list bool) (exp_iters : list Z) : bool :=
  let '(s', ds, its) := exec_actions OClass (acts_of acts) (o_init max_iter tol r0 f0 future) in
  negb (os_under s') && blist_eqb ds exp_dones && zl_eqb its exp_iters.

(* the canonical loop / App.run: number of updates and final iter *)
Definition chk_run (max_iter : Z) (tol r0 : float) (f0 : bool) (future : list (float * bool))
           (exp_updates : Z) (exp_iter : Z) : bool :=
  let s0 := o_init max_iter tol r0 f0 future in
  let s' := run OClass s0 in
  negb (os_under s') && (Z.of_nat (run_updates OClass s0) =? exp_updates) && (os_iter s' =? exp_iter)
  && o__done s'.

Fixpoint failing_aux (k : Z) (l : list bool) : list Z :=
  match l with [] => [] | b :: l' => (if b then [] else [k]) ++ failing_aux (k + 1) l' end.
Definition failing (l : list bool) : list Z := failing_aux 0 l.
