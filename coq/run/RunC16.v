(* RunC16.v — checkers for the SENSE factory: tree shape and explicit encoding. *)
From Coq Require Import ZArith List Bool PrimFloat.
From SV Require Import lib.Scalar lib.BigSum lib.NdArray lib.FloatRun model.Block model.Linop model.Sense run.RunLinop.
Import ListNotations.
Local Open Scope Z_scope.

Definition chk_sense_tree (T : linop) (ishape : list Z) (ms : list aref) (fleaf : list Z -> linop) (ws : list (option aref)) : bool :=
  linop_eqb T (sense_tree ishape ms fleaf ws).

(* explicit encoding with the single-coil Fourier matrix Fm (rows: k-space index, columns: image index) *)
Definition chk_sense_explicit (atol rtol : float) (ishape kshape : list Z) (nc : Z) (Fm : list (list CF))
           (maps sqw xin expect : list CF) : bool :=
  let F (img : list Z -> CF) : list Z -> CF :=
    let v := tabulate ishape img in
    fun k => dotl CFOps (nth (Z.to_nat (ravel kshape k)) Fm []) v in
  let y := sense_explicit CFOps F (of_list (0,0)%float (nc :: ishape) maps) (of_list (0,0)%float kshape sqw)
                          (of_list (0,0)%float ishape xin) in
  all2 (cfclose atol rtol) (tabulate (nc :: kshape) y) expect.

(* the batched evaluation, every batch size *)
Definition chk_sense_batched (atol rtol : float) (ishape kshape : list Z) (nc b : Z) (Fm : list (list CF))
           (maps sqw xin expect : list CF) : bool :=
  let F (img : list Z -> CF) : list Z -> CF :=
    let v := tabulate ishape img in
    fun k => dotl CFOps (nth (Z.to_nat (ravel kshape k)) Fm []) v in
  let y := sense_batched CFOps F (of_list (0,0)%float (nc :: ishape) maps) (of_list (0,0)%float kshape sqw) b
                         (of_list (0,0)%float ishape xin) in
  all2 (cfclose atol rtol) (tabulate (nc :: kshape) y) expect.
