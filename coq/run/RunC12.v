(* RunC12.v — the ConjugateGradient model of model/Alg.v instantiated on hardware floats
   (vectors = lists of binary64, A and P = dense matrices) and the boolean checkers used by
   the C12 correspondence.  An observation is the tuple of attributes read off the Python
   object after __init__ and after every update(), plus the value returned by done(). *)
From Coq Require Import ZArith List Bool PrimFloat.
From SV Require Import lib.Scalar lib.FloatRun model.Alg.
Import ListNotations.

Definition vdivsf (v : list float) (s : float) : list float := map (fun a => (a / s)%float) v.

Definition FIP : IPOps :=
  mkIPOps float (list float) 0%float 1%float PrimFloat.add PrimFloat.sub PrimFloat.mul PrimFloat.div
          PrimFloat.opp PrimFloat.sqrt PrimFloat.leb
          FloatRun.vadd FloatRun.vsub FloatRun.vscale vdivsf vdotf.

Definition mat := list (list float).
Definition matP (P : option mat) : option (list float -> list float) :=
  match P with None => None | Some m => Some (matvec m) end.

Record obs := mkObs {
  o_x : list float; o_r : list float; o_p : list float;
  o_rz : float; o_resid : float; o_iter : Z; o_npd : bool; o_done : bool }.

(* absolute tolerances for x, for r and p, for rzold, for resid; one relative tolerance *)
Record tols := mkTols { t_x : float; t_r : float; t_rz : float; t_resid : float; t_rel : float }.

Definition vclose (at_ rt : float) (a b : list float) : bool := all2 (fclose at_ rt) a b.

Definition state_of_obs (o : obs) (max_iter : Z) (tol : float) : cg_state FIP :=
  mkCG (E:=FIP) (o_x o) (o_r o) (o_p o) (o_rz o) (o_resid o) (o_iter o) (o_npd o) max_iter tol.

(* numeric attributes within tolerance; iter and the breakdown flag exactly; done() is
   recomputed by the model's _done from the OBSERVED attributes and compared exactly *)
Definition close_state (A : mat) (b : list float) (P : option mat) (t : tols) (st : cg_state FIP) (o : obs) : bool :=
  vclose (t_x t) (t_rel t) (cg_x st) (o_x o) &&
  vclose (t_r t) (t_rel t) (cg_r st) (o_r o) &&
  vclose (t_r t) (t_rel t) (cg_p st) (o_p o) &&
  fclose (t_rz t) (t_rel t) (cg_rzold st) (o_rz o) &&
  fclose (t_resid t) (t_rel t) (cg_resid st) (o_resid o) &&
  Z.eqb (cg_iter st) (o_iter o) &&
  Bool.eqb (cg_npd st) (o_npd o) &&
  Bool.eqb (cg_done FIP (matvec A) (matP P) (state_of_obs o (cg_max_iter st) (cg_tol st))) (o_done o).

(* one-step correspondence: from every OBSERVED state one model update reproduces the next
   observed state (no accumulation of rounding differences; every branch is taken from the
   implementation's own state) *)
Fixpoint chk_steps (A : mat) (b : list float) (P : option mat) (max_iter : Z) (tol : float) (t : tols)
         (prev : obs) (rest : list obs) : bool :=
  match rest with
  | [] => true
  | o :: rest' =>
      close_state A b P t (cg_update FIP (matvec A) (matP P) (state_of_obs prev max_iter tol)) o
      && chk_steps A b P max_iter tol t o rest'
  end.

Definition chk_cg (A : mat) (b : list float) (P : option mat) (x0 : list float) (max_iter : Z) (tol : float)
           (t : tols) (o0 : obs) (rest : list obs) : bool :=
  close_state A b P t (cg_init FIP (matvec A) b (matP P) x0 max_iter tol) o0
  && chk_steps A b P max_iter tol t o0 rest.

(* free-running correspondence: the model trajectory from __init__ alone against the first
   observations (used on the prefix before the residual reaches rounding level) *)
Fixpoint chk_free_aux (A : mat) (b : list float) (P : option mat) (t : tols) (st : cg_state FIP) (rest : list obs) : bool :=
  match rest with
  | [] => true
  | o :: rest' =>
      let st' := cg_update FIP (matvec A) (matP P) st in
      close_state A b P t st' o && chk_free_aux A b P t st' rest'
  end.
Definition chk_cg_free (A : mat) (b : list float) (P : option mat) (x0 : list float) (max_iter : Z) (tol : float)
           (t : tols) (o0 : obs) (rest : list obs) : bool :=
  let st0 := cg_init FIP (matvec A) b (matP P) x0 max_iter tol in
  close_state A b P t st0 o0 && chk_free_aux A b P t st0 rest.

(* the canonical loop on the model: number of updates and final iter, from __init__ *)
Definition cg_loop_count (A : mat) (b : list float) (P : option mat) (x0 : list float) (max_iter : Z) (tol : float) : Z :=
  Z.of_nat (run_updates (CGClass FIP (matvec A) (matP P)) (cg_init FIP (matvec A) b (matP P) x0 max_iter tol)).

Fixpoint failing_aux (k : Z) (l : list bool) : list Z :=
  match l with [] => [] | b :: l' => (if b then [] else [k]) ++ failing_aux (k + 1)%Z l' end.
Definition failing (l : list bool) : list Z := failing_aux 0%Z l.
