"""Shared machinery of the sigpy verification checks (see DESIGN.md §2.10).

A check for property <id> is the module /verif/props/<id>.py with a function
run(ctx).  It uses ctx to (1) regenerate generated Coq files from /repo,
(2) build the Coq cone of the property and re-check its theorem file,
(3) run correspondence cases (model evaluated inside Coq by vm_compute vs the
implementation) and implementation-side oracles, (4) report violations with a
replay file, (5) write evidence/<id>.json.
"""
import fcntl, hashlib, json, os, random, re, shutil, subprocess, sys, tempfile, time

VERIF = os.path.dirname(os.path.dirname(os.path.abspath(__file__)))
REPO = os.environ.get("SIGPY_REPO", "/repo")
COQ = os.path.join(VERIF, "coq")
BUILD = os.path.join(VERIF, "build")
EVID = os.environ.get("VERIF_EVIDENCE_DIR") or os.path.join(VERIF, "evidence")   # detection runs on mutated trees write elsewhere
COQFLAGS = ["-Q", COQ, "SV"]
FORBIDDEN = re.compile(r"\b(Admitted|admit|Axiom|Axioms|Parameter|Parameters|Conjecture|Conjectures|"
                       r"Unset\s+Guard|bypass_check|type-in-type|impredicative-set|Admit\s+Obligations)\b")


def sh(cmd, timeout=600, cwd=None, env=None):
    t0 = time.time()
    try:
        p = subprocess.run(cmd, cwd=cwd, env=env, stdout=subprocess.PIPE, stderr=subprocess.STDOUT,
                           timeout=timeout, text=True)
        return p.returncode, p.stdout, time.time() - t0
    except subprocess.TimeoutExpired as e:
        out = e.stdout if isinstance(e.stdout, str) else (e.stdout or b"").decode("utf8", "replace")
        return 124, (out or "") + "\n[timeout after %ss]" % timeout, time.time() - t0


def sha256_file(path):
    h = hashlib.sha256()
    with open(path, "rb") as f:
        h.update(f.read())
    return h.hexdigest()


def write_if_changed(path, text):
    os.makedirs(os.path.dirname(path), exist_ok=True)
    if os.path.exists(path):
        with open(path) as f:
            if f.read() == text:
                return False
    with open(path, "w") as f:
        f.write(text)
    return True


class BuildLock:
    def __enter__(self):
        os.makedirs(BUILD, exist_ok=True)
        self.f = open(os.path.join(BUILD, ".lock"), "w")
        fcntl.flock(self.f, fcntl.LOCK_EX)
        return self

    def __exit__(self, *a):
        fcntl.flock(self.f, fcntl.LOCK_UN)
        self.f.close()


def coq_sources():
    out = []
    for sub in ("lib", "gen", "model", "proofs", "props", "run"):
        d = os.path.join(COQ, sub)
        if os.path.isdir(d):
            for f in sorted(os.listdir(d)):
                if f.endswith(".v"):
                    out.append(os.path.join(sub, f))
    return out


def coq_prepare():
    """(Re)generate _CoqProject / Makefile when the file list changed."""
    srcs = coq_sources()
    proj = "-Q . SV\n-arg -w -arg -all\n" + "\n".join(srcs) + "\n"
    changed = write_if_changed(os.path.join(COQ, "_CoqProject"), proj)
    if changed or not os.path.exists(os.path.join(COQ, "Makefile")):
        rc, out, _ = sh(["coq_makefile", "-f", "_CoqProject", "-o", "Makefile"], cwd=COQ)
        if rc != 0:
            raise RuntimeError("coq_makefile failed:\n" + out)


def grep_gate():
    """No Admitted/Axiom/... anywhere in the development (comments stripped)."""
    bad = []
    for rel in coq_sources():
        txt = open(os.path.join(COQ, rel)).read()
        txt = strip_coq_comments(txt)
        for m in FORBIDDEN.finditer(txt):
            bad.append("%s: %s" % (rel, m.group(0)))
    return bad


def strip_coq_comments(txt):
    out, depth, i = [], 0, 0
    while i < len(txt):
        if txt.startswith("(*", i):
            depth += 1; i += 2
        elif txt.startswith("*)", i) and depth:
            depth -= 1; i += 2
        else:
            if depth == 0:
                out.append(txt[i])
            i += 1
    return "".join(out)


def coq_make(targets, timeout=1500, jobs=16):
    """make the given .vo targets (paths relative to coq/). Returns (ok, log)."""
    with BuildLock():
        coq_prepare()
        rc, out, dt = sh(["make", "-j%d" % jobs] + targets, cwd=COQ, timeout=timeout)
    return rc == 0, out


def coqc_file(path, timeout=600):
    rc, out, dt = sh(["coqc", "-w", "-all"] + COQFLAGS + [path], timeout=timeout, cwd=os.path.dirname(path))
    return rc, out


_RESULT = re.compile(r"^\s*=\s", re.M)


def parse_evals(out):
    """Split coqc stdout into the results of successive `Eval ... in` commands.
    Each result is returned as (value_text, type_text) with whitespace collapsed."""
    res = []
    # results start with a line beginning '     = ' and end at the line starting with '     : '
    chunks = re.split(r"(?m)^\s*= ", out)
    for c in chunks[1:]:
        m = re.search(r"(?ms)^\s*: (.*?)(?=^\S|\Z)", c)
        if m:
            val = c[:m.start()]
            typ = m.group(1)
        else:
            val, typ = c, ""
        res.append((" ".join(val.split()), " ".join(typ.split())))
    return res


def parse_zlist(txt):
    """'[1; -2; 3]%Z' or '[]' -> [1,-2,3]"""
    txt = txt.strip()
    txt = re.sub(r"%[A-Za-z_]+", "", txt)
    inner = txt.strip()[1:-1].strip()
    if not inner:
        return []
    return [int(t.replace("(", "").replace(")", "")) for t in inner.split(";")]


class Violation(Exception):
    pass


class Ctx:
    def __init__(self, pid, tier, seed):
        self.pid, self.tier, self.seed = pid, tier, seed
        self.t0 = time.time()
        self.rng = random.Random(seed * 1000003 + int(hashlib.sha256(pid.encode()).hexdigest()[:8], 16))
        self.scratch = os.path.join(BUILD, "scratch", "%s_%d" % (pid, os.getpid()))   # per process: concurrent runs do not collide
        shutil.rmtree(self.scratch, ignore_errors=True)
        os.makedirs(self.scratch, exist_ok=True)
        os.makedirs(os.path.join(BUILD, "replay"), exist_ok=True)
        for f in os.listdir(os.path.join(BUILD, "replay")):
            if f.startswith(pid + "_"):
                os.remove(os.path.join(BUILD, "replay", f))
        self.violations = []        # dicts: {kind, what, replay, found_input}
        self.known_hits = []
        self.obligations = []       # (name, discharged: bool)
        self.assumptions = {}       # theorem -> Print Assumptions text
        self.coverage = {"evaluations": 0, "distinct_nontrivial": 0, "samples": [], "histogram": {}}
        self.distinct = set()
        self.trusted = []
        self.checker_cmds = []
        self.notes = []
        self.proved = []
        self.validated_only = []
        self.translator_inputs = {}
        self.known = load_known().get(pid, {"open": [], "fixed": []})

    # ---------------- bookkeeping -------------------------------------
    def quick(self):
        return self.tier == "quick"

    def n(self, quick, thorough):
        return quick if self.tier == "quick" else thorough

    def count(self, cls, key=None, nontrivial=True, sample=None):
        self.coverage["evaluations"] += 1
        self.coverage["histogram"][cls] = self.coverage["histogram"].get(cls, 0) + 1
        if key is not None and nontrivial:
            self.distinct.add((cls, key))
        if sample is not None and len(self.coverage["samples"]) < 12:
            if sum(1 for s in self.coverage["samples"] if s.get("class") == cls) < 2:
                self.coverage["samples"].append({"class": cls, "case": sample})

    def obligation(self, name, ok):
        self.obligations.append((name, bool(ok)))

    def source_hash(self, *relpaths):
        for r in relpaths:
            self.translator_inputs[r] = sha256_file(os.path.join(REPO, r))

    # ---------------- violations ---------------------------------------
    def violation(self, what, replay_obj, found_input=True, signature=None):
        """Record a violation.  signature: string matched against known_findings."""
        sig = signature or what
        for k in self.known.get("open", []):
            if k["signature"] == sig:
                if sig not in [h["signature"] for h in self.known_hits]:
                    self.known_hits.append(k)
                return
        idx = len(self.violations)
        path = os.path.join(BUILD, "replay", "%s_%d.json" % (self.pid, idx))
        replay_obj = dict(replay_obj)
        replay_obj.setdefault("property", self.pid)
        replay_obj.setdefault("what", what)
        replay_obj.setdefault("signature", sig)
        replay_obj["failing_input_found"] = bool(found_input)
        replay_obj.setdefault("seed", self.seed)
        replay_obj.setdefault("tier", self.tier)
        replay_obj.setdefault("replay_cmd", "./check %s --replay %s" % (self.pid, path))
        with open(path, "w") as f:
            json.dump(replay_obj, f, indent=1, default=str)
        self.violations.append({"what": what, "replay": path, "found_input": found_input, "signature": sig})

    # ---------------- Coq ------------------------------------------------
    def prove(self, prop_file, deps_timeout=1500):
        """Build the cone of props/<prop_file> with make, then re-check the theorem
        file itself with coqc, capturing Print Assumptions.  Returns True if all ok."""
        bad = grep_gate()
        if bad:
            self.obligation("grep-gate", False)
            self.violation("forbidden construct in Coq development: %s" % bad[:3],
                           {"kind": "proof", "broken": "grep-gate", "detail": bad}, found_input=False,
                           signature="grep-gate")
            return False
        self.obligation("grep-gate", True)
        rel = os.path.join("props", prop_file)
        src = open(os.path.join(COQ, rel)).read()
        thms = re.findall(r"(?m)^\s*(?:Theorem|Lemma|Corollary|Example)\s+([A-Za-z0-9_']+)", strip_coq_comments(src))
        cmd = "cd %s && make -j16 %s" % (COQ, rel + "o")
        self.checker_cmds.append(cmd)
        ok, log = coq_make([rel + "o"], timeout=deps_timeout)
        if not ok:
            m = re.search(r'File "([^"]+)", line (\d+)', log)
            where = "%s:%s" % (m.group(1), m.group(2)) if m else "?"
            broken = self._theorem_at(m.group(1), int(m.group(2))) if m else None
            for t in thms:
                self.obligation("theorem:" + t, False)
            self.broken_proof = {"where": where, "theorem": broken, "log": log[-3000:]}
            return False
        # re-check the theorem file alone to capture Print Assumptions
        with BuildLock():
            rc, out = coqc_file(os.path.join(COQ, rel), timeout=600)
        self.checker_cmds.append("coqc -Q %s SV %s" % (COQ, os.path.join(COQ, rel)))
        if rc != 0:
            for t in thms:
                self.obligation("theorem:" + t, False)
            self.broken_proof = {"where": rel, "theorem": None, "log": out[-3000:]}
            return False
        for t in thms:
            self.obligation("theorem:" + t, True)
        self._collect_assumptions(out, thms)
        return True

    def _theorem_at(self, path, line):
        try:
            full = path if os.path.isabs(path) else os.path.join(COQ, path)
            lines = open(full).read().split("\n")
            for i in range(min(line, len(lines)) - 1, -1, -1):
                m = re.match(r"\s*(?:Theorem|Lemma|Corollary|Example|Definition|Fixpoint)\s+([A-Za-z0-9_']+)", lines[i])
                if m:
                    return "%s (%s)" % (m.group(1), os.path.relpath(full, COQ))
        except Exception:
            pass
        return None

    def _collect_assumptions(self, out, thms):
        # output of successive `Print Assumptions t.` commands
        blocks = re.split(r"(?m)^(?=Closed under the global context|Axioms:)", out)
        blocks = [b.strip() for b in blocks if b.strip().startswith(("Closed under", "Axioms:"))]
        printed = re.findall(r"(?m)^\s*Print Assumptions\s+([A-Za-z0-9_'.]+)\s*\.",
                             open(os.path.join(COQ, "props", "Prop_%s.v" % self.pid)).read())
        for name, blk in zip(printed, blocks):
            self.assumptions[name] = " ".join(blk.split())

    def make(self, targets, timeout=1500):
        """Build executable-model files (coq/run/...) needed by the correspondence."""
        ok, log = coq_make(targets, timeout=timeout)
        if not ok:
            self.notes.append("make %s failed: %s" % (targets, log[-1500:]))
        return ok

    def coq_eval(self, name, body, timeout=900):
        """Write scratch/<name>.v, compile it, return the list of Eval results."""
        path = os.path.join(self.scratch, name + ".v")
        with open(path, "w") as f:
            f.write(body)
        rc, out = coqc_file(path, timeout=timeout)
        if rc != 0:
            raise RuntimeError("coqc failed on %s:\n%s" % (path, out[-4000:]))
        return parse_evals(out)

    def coq_eval_many(self, named_bodies, timeout=900, jobs=12):
        """Compile several scratch files in parallel. Returns {name: results or Exception}."""
        from concurrent.futures import ThreadPoolExecutor
        res = {}

        def one(nb):
            name, body = nb
            try:
                return name, self.coq_eval(name, body, timeout=timeout)
            except Exception as e:   # noqa
                return name, e
        with ThreadPoolExecutor(max_workers=jobs) as ex:
            for name, r in ex.map(one, named_bodies):
                res[name] = r
        return res

    # ---------------- finish --------------------------------------------
    def finish(self):
        cov = self.coverage
        cov["distinct_nontrivial"] = len(self.distinct)
        cov["obligations"] = len(self.obligations)
        cov["discharged"] = sum(1 for _, ok in self.obligations if ok)
        cov["obligation_list"] = [{"name": n, "discharged": ok} for n, ok in self.obligations]
        cov["checker_cmd"] = " ; ".join(self.checker_cmds) or "none"
        cov["trusted_base"] = self.trusted + ["Print Assumptions: %s => %s" % kv for kv in sorted(self.assumptions.items())]
        cov["proved"] = self.proved
        cov["validated_only"] = self.validated_only
        cov["translator_inputs"] = self.translator_inputs
        cov.setdefault("rule", "")
        cov["notes"] = self.notes
        cov["known_findings_hit"] = [k["signature"] for k in self.known_hits]
        ev = {"property_id": self.pid, "tier": self.tier, "seed": self.seed, "level": "proof",
              "coverage": cov, "assumptions": self.trusted, "wall_s": round(time.time() - self.t0, 2),
              "violations": len(self.violations)}
        os.makedirs(EVID, exist_ok=True)
        with open(os.path.join(EVID, self.pid + ".json"), "w") as f:
            json.dump(ev, f, indent=1, default=str)
        if not self.violations:
            shutil.rmtree(self.scratch, ignore_errors=True)
        for k in self.known_hits:
            print("KNOWN-FINDING: property=%s %s" % (self.pid, k["what"]))
        for v in self.violations:
            tail = "" if v["found_input"] else " no-failing-input-found"
            print("VIOLATION property=%s replay=%s%s" % (self.pid, v["replay"], tail))
        print("[%s %s seed=%d] obligations %d/%d, evaluations %d (distinct non-trivial %d), violations %d, %.1fs" % (
            self.pid, self.tier, self.seed, cov["discharged"], cov["obligations"], cov["evaluations"],
            cov["distinct_nontrivial"], len(self.violations), time.time() - self.t0))
        return 1 if self.violations else 0


def load_known():
    p = os.path.join(VERIF, "known_findings.json")
    if not os.path.exists(p):
        return {}
    d = json.load(open(p))
    out = {}
    for e in d.get("open", []):
        out.setdefault(e["property"], {"open": [], "fixed": []})["open"].append(e)
    for e in d.get("fixed", []):
        out.setdefault(e["property"], {"open": [], "fixed": []})["fixed"].append(e)
    return out


def import_sigpy():
    """Import sigpy from /repo with a fresh numba cache dir (removed at exit)."""
    import atexit
    d = tempfile.mkdtemp(prefix="numba_", dir=BUILD)
    os.environ["NUMBA_CACHE_DIR"] = d
    atexit.register(lambda: shutil.rmtree(d, ignore_errors=True))
    if REPO not in sys.path:
        sys.path.insert(0, REPO)
    import sigpy
    assert os.path.abspath(sigpy.__file__).startswith(os.path.abspath(REPO)), sigpy.__file__
    return sigpy
