"""Serialise sigpy Linop object graphs into the Coq deep embedding (coq/model/Linop.v).

A Serializer assigns tags to captured arrays (by object identity), scalar multipliers and
float parameters (by value), and produces the Coq term of an operator, the pre-order list
of advertised (oshape, ishape) pairs, and the environment literals needed to run `den`.
"""
import numpy as np
from vlib import coqlit as L

OPAQUE = ("FFT", "IFFT", "Interpolate", "Gridding", "Wavelet", "InverseWavelet", "NUFFT", "NUFFTAdjoint",
          "ConvolveData", "ConvolveDataAdjoint", "ConvolveFilter", "ConvolveFilterAdjoint")
COMBINATORS = ("Conj", "Add", "Compose", "Hstack", "Vstack", "Diag")


class Unsupported(Exception):
    pass


def ilist(s):
    return [int(v) for v in s]


class Serializer:
    def __init__(self):
        self.arrays = {}      # id(arr) -> (tag, arr)
        self.scalars = {}     # value -> tag   (tag 0 is the literal -1 of __neg__)
        self.scalars[complex(-1)] = 0
        self.params = {}      # ('kind', value) -> code
        self.opaque = []      # (term, obj) for library-backed leaves
        self.keep = []

    # ---- tagging ------------------------------------------------------
    def aref(self, a):
        a = np.asarray(a) if not isinstance(a, np.ndarray) else a
        k = id(a)
        if k not in self.arrays:
            self.arrays[k] = (len(self.arrays) + 1, a)
            self.keep.append(a)
        return "(ARef %d %s)" % (self.arrays[k][0], L.zlist(a.shape))

    def scalar(self, v):
        v = complex(v)
        if v not in self.scalars:
            self.scalars[v] = len(self.scalars)
        return self.scalars[v]

    def code(self, kind, v):
        key = (kind, v if isinstance(v, str) else (("seq",) + tuple(np.ravel(v).tolist()) if not np.isscalar(v) else float(v)))
        if key not in self.params:
            self.params[key] = len(self.params) + 1
        return self.params[key]

    # ---- terms --------------------------------------------------------
    def axes_opt(self, axes):
        if axes is None:
            return "None"
        return "(Some %s)" % L.zlist(ilist(list(axes)))

    def idx_list(self, idx):
        if not isinstance(idx, tuple):
            idx = (idx,)
        items = []
        for it in idx:
            if isinstance(it, (int, np.integer)):
                items.append("SIdx %s" % L.z(it))
            elif isinstance(it, slice):
                items.append("SSlice %s %s %s" % (L.zopt(it.start), L.zopt(it.stop), L.zopt(it.step)))
            else:
                raise Unsupported("index item %r" % (it,))
        return "[" + "; ".join(items) + "]"

    def term(self, A):
        n = type(A).__name__
        sub = lambda l: "[" + "; ".join(self.term(a) for a in l) + "]"
        zl = lambda s: L.zlist(ilist(s))
        if n == "Identity":
            return "(Identity %s)" % zl(A.ishape)
        if n == "Conj":
            return "(Conj %s)" % self.term(A.A)
        if n == "Add":
            return "(Add %s)" % sub(A.linops)
        if n == "Compose":
            return "(Compose %s)" % sub(A.linops)
        if n in ("Hstack", "Vstack"):
            return "(%s %s %s)" % (n, sub(A.linops), L.zopt(A.axis))
        if n == "Diag":
            return "(Diag %s %s %s)" % (sub(A.linops), L.zopt(A.oaxis), L.zopt(A.iaxis))
        if n == "Reshape":
            return "(Reshape %s %s)" % (zl(A.oshape), zl(A.ishape))
        if n == "Transpose":
            return "(Transpose %s %s)" % (zl(A.ishape), self.axes_opt(A.axes))
        if n in ("FFT", "IFFT"):
            t = "(%s %s %s %s)" % (n, zl(A.ishape), self.axes_opt(A.axes), L.boolean(A.center))
        elif n in ("MatMul", "RightMatMul"):
            return "(%s %s %s %s)" % (n, zl(A.ishape), self.aref(A.mat), L.boolean(A.adjoint))
        elif n == "Multiply":
            if np.isscalar(A.mult):
                m = "(MScalar %d)" % self.scalar(A.mult)
            else:
                m = "(MArray %s)" % self.aref(A.mult)
            return "(Multiply %s %s %s)" % (zl(A.ishape), m, L.boolean(A.conj))
        elif n in ("Interpolate", "Gridding"):
            sh = A.ishape if n == "Interpolate" else A.oshape
            t = "(%s %s %s %d %d %d)" % (n, zl(sh), self.aref(A.coord), self.code("kernel", A.kernel),
                                         self.code("width", A.width), self.code("param", A.param))
        elif n == "Resize":
            return "(Resize %s %s %s %s)" % (zl(A.oshape), zl(A.ishape), self.axes_opt(A.ishift), self.axes_opt(A.oshift))
        elif n == "Flip":
            return "(Flip %s %s)" % (zl(A.ishape), self.axes_opt(A.axes))
        elif n == "Downsample":
            return "(Downsample %s %s %s)" % (zl(A.ishape), zl(A.factors), zl(A.shift))
        elif n == "Upsample":
            return "(Upsample %s %s %s)" % (zl(A.oshape), zl(A.factors), zl(A.shift))
        elif n == "Circshift":
            return "(Circshift %s %s %s)" % (zl(A.ishape), zl(A.shift), self.axes_opt(A.axes))
        elif n in ("Wavelet", "InverseWavelet"):
            sh, w = (A.ishape, A.oshape) if n == "Wavelet" else (A.oshape, A.ishape)
            t = "(%s %s %s %d %s %s)" % (n, zl(sh), self.axes_opt(A.axes), self.code("wave", A.wave_name),
                                         L.zopt(A.level), zl(w))
        elif n == "Sum":
            return "(Sum %s %s)" % (zl(A.ishape), zl(A.axes))
        elif n == "Tile":
            return "(Tile %s %s)" % (zl(A.oshape), zl(A.axes))
        elif n == "ArrayToBlocks":
            return "(ArrayToBlocks %s %s %s)" % (zl(A.ishape), zl(A.blk_shape), zl(A.blk_strides))
        elif n == "BlocksToArray":
            return "(BlocksToArray %s %s %s)" % (zl(A.oshape), zl(A.blk_shape), zl(A.blk_strides))
        elif n == "NUFFT":
            t = "(NUFFT %s %s %d %d %s)" % (zl(A.ishape), self.aref(A.coord), self.code("oversamp", A.oversamp),
                                            self.code("nwidth", A.width), L.boolean(bool(A.toeplitz)))
        elif n == "NUFFTAdjoint":
            t = "(NUFFTAdjoint %s %s %d %d)" % (zl(A.oshape), self.aref(A.coord), self.code("oversamp", A.oversamp),
                                                self.code("nwidth", A.width))
        elif n in ("ConvolveData", "ConvolveDataAdjoint", "ConvolveFilter", "ConvolveFilterAdjoint"):
            if n == "ConvolveData":
                sh, arr = A.ishape, A.filt
            elif n == "ConvolveDataAdjoint":
                sh, arr = A.oshape, A.filt
            elif n == "ConvolveFilter":
                sh, arr = A.ishape, A.data
            else:
                sh, arr = A.oshape, A.data
            if A.mode not in ("full", "valid"):
                raise Unsupported("conv mode")
            t = "(%s %s %s %s %s %s)" % (n, zl(sh), self.aref(arr), L.boolean(A.mode == "full"),
                                         self.axes_opt(A.strides), L.boolean(bool(A.multi_channel)))
        elif n == "Slice":
            return "(Slice %s %s)" % (zl(A.ishape), self.idx_list(A.idx))
        elif n == "Embed":
            return "(Embed %s %s)" % (zl(A.oshape), self.idx_list(A.idx))
        else:
            raise Unsupported(n)
        self.opaque.append((t, A))
        return t

    def shapes(self, A):
        """pre-order list of (oshape, ishape)"""
        out = [(ilist(A.oshape), ilist(A.ishape))]
        n = type(A).__name__
        if n == "Conj":
            out += self.shapes(A.A)
        elif n in ("Add", "Compose", "Hstack", "Vstack", "Diag"):
            for a in A.linops:
                out += self.shapes(a)
        return out

    def shapes_lit(self, A):
        return "[" + "; ".join("(%s, %s)" % (L.zlist(o), L.zlist(i)) for o, i in self.shapes(A)) + "]"

    # ---- environments --------------------------------------------------
    def all_integer(self):
        for _, a in self.arrays.values():
            if not np.allclose(a, np.round(np.real(a)) + 1j * np.round(np.imag(a))):
                return False
        for v in self.scalars:
            if v != complex(round(v.real), round(v.imag)):
                return False
        return True

    def env_G(self):
        arrs = "[" + "; ".join("(%d, (%s, %s))" % (t, L.zlist(a.shape), gz_list(a)) for t, a in self.arrays.values()) + "]"
        scals = "[" + "; ".join("(%d, (%s, %s))" % (t, L.z(round(v.real)), L.z(round(v.imag))) for v, t in self.scalars.items()) + "]"
        return arrs, scals

    def env_F(self):
        arrs = "[" + "; ".join("(%d, (%s, %s))" % (t, L.zlist(a.shape), L.cflist(np.ravel(a))) for t, a in self.arrays.values()) + "]"
        scals = "[" + "; ".join("(%d, (%s, %s))" % (t, L.flt(v.real), L.flt(v.imag)) for v, t in self.scalars.items()) + "]"
        return arrs, scals

    def mats_F(self):
        """dense matrices of the library-backed leaves, computed with the implementation"""
        seen, items = set(), []
        for t, A in self.opaque:
            if t in seen:
                continue
            seen.add(t)
            M = dense(A)
            rows = "[" + "; ".join(L.cflist(r) for r in M) + "]"
            items.append("(%s, %s)" % (t, rows))
        return "[" + "; ".join(items) + "]"


def gz_list(a):
    a = np.ravel(np.asarray(a))
    return "[" + "; ".join("(%s, %s)" % (L.z(round(float(np.real(v)))), L.z(round(float(np.imag(v))))) for v in a) + "]"


def dense(A, dtype=np.complex128):
    """dense matrix of an operator by applying it to the standard basis (columns = A(e_j))"""
    n = int(np.prod(A.ishape))
    m = int(np.prod(A.oshape))
    M = np.zeros((m, n), dtype=dtype)
    for j in range(n):
        e = np.zeros(n, dtype=dtype)
        e[j] = 1
        M[:, j] = np.asarray(A(e.reshape(A.ishape))).ravel()
    return M
