"""Coq literal writers and the boolean-case runner used by all correspondences."""
import math


def z(n):
    n = int(n)
    return "(%d)" % n if n < 0 else "%d" % n


def zlist(l):
    return "[" + "; ".join(z(v) for v in l) + "]"


def zopt(v):
    return "None" if v is None else "(Some %s)" % z(v)


def zlist_opt(l):
    return "None" if l is None else "(Some %s)" % zlist(l)


def zzlist(l):
    """list of Gaussian integers given as python complex/int pairs"""
    return "[" + "; ".join("(%s, %s)" % (z(a), z(b)) for a, b in l) + "]"


def boolean(b):
    return "true" if b else "false"


def flt(x):
    """binary64 -> Coq PrimFloat hex literal (exact)."""
    x = float(x)
    if math.isnan(x):
        return "nan"
    if math.isinf(x):
        return "infinity" if x > 0 else "neg_infinity"
    if x == 0:
        return "(-0)%float" if math.copysign(1, x) < 0 else "0%float"
    h = x.hex()                    # e.g. -0x1.8000000000000p+1
    neg = h.startswith("-")
    h = h.lstrip("-")
    return "(-%s)%%float" % h if neg else "%s%%float" % h


def flist(l):
    return "[" + "; ".join(flt(v) for v in l) + "]"


def cflist(l):
    """list of complex numbers as (re, im) float pairs"""
    return "[" + "; ".join("(%s, %s)" % (flt(complex(v).real), flt(complex(v).imag)) for v in l) + "]"


def run_bool_cases(ctx, prefix, header, cases, per_file=250, timeout=900):
    """cases: list of dicts with key 'expr' (a Coq term of type bool).
    Evaluates them in Coq (vm_compute), in files of at most per_file cases run in parallel.
    Returns the list of indices whose model-side check is false.
    Raises RuntimeError if Coq fails to compile a case file (fail closed)."""
    from vlib.core import parse_zlist
    files = []
    for k in range(0, len(cases), per_file):
        chunk = cases[k:k + per_file]
        body = [header, "Definition cases : list bool := ["]
        body.append(";\n".join("  " + c["expr"] for c in chunk))
        body.append("].\nEval vm_compute in (failing cases).\n")
        files.append(("%s_%d" % (prefix, k // per_file), "\n".join(body), k))
    res = ctx.coq_eval_many([(n, b) for n, b, _ in files], timeout=timeout)
    failing = []
    for n, b, base in files:
        r = res[n]
        if isinstance(r, Exception):
            raise RuntimeError("Coq case file %s failed: %s" % (n, r))
        if len(r) != 1:
            raise RuntimeError("unexpected Coq output for %s: %r" % (n, r))
        failing += [base + i for i in parse_zlist(r[0][0])]
    return failing
