"""Seeded generators of sigpy operators and operator expression trees (used by C01-C04, C02, C16)."""
import numpy as np


def prod(s):
    return int(np.prod(s)) if len(s) else 1


def gint(rng, shape, cplx=True, lo=-3, hi=3):
    a = np.array([rng.randint(lo, hi) for _ in range(prod(shape))], dtype=np.float64)
    if cplx:
        a = a + 1j * np.array([rng.randint(lo, hi) for _ in range(prod(shape))], dtype=np.float64)
    return a.reshape(shape)


def rand_shape(rng, maxdim=3, maxlen=4, maxprod=36):
    while True:
        s = [rng.randint(1, maxlen) for _ in range(rng.randint(1, maxdim))]
        if prod(s) <= maxprod:
            return s


EXACT_LEAVES = ["identity", "reshape", "transpose", "multiply_s", "multiply_a", "matmul", "rmatmul", "resize", "flip",
                "downsample", "upsample", "circshift", "sum", "tile", "a2b", "b2a", "slice", "embed"]
OPAQUE_LEAVES = ["fft", "ifft", "interp", "gridding", "nufft", "nufft_adj", "wavelet", "iwavelet", "convdata", "convfilt"]


def factor_shape(rng, n, maxdim=3):
    """a random shape with product n"""
    dims = []
    k = rng.randint(1, maxdim)
    for _ in range(k - 1):
        divs = [d for d in range(1, n + 1) if n % d == 0]
        d = rng.choice(divs)
        dims.append(d)
        n //= d
    dims.append(n)
    rng.shuffle(dims)
    return dims


def gen_leaf(sp, rng, ish, kinds=None, cplx=True):
    """A leaf operator with the given input shape.  Returns (linop, kind) or None if the kind cannot fit."""
    lin = sp.linop
    ish = list(ish)
    nd = len(ish)
    kinds = kinds or EXACT_LEAVES
    for _ in range(40):
        k = rng.choice(kinds)
        try:
            if k == "identity":
                return lin.Identity(ish), k
            if k == "reshape":
                return lin.Reshape(factor_shape(rng, prod(ish)), ish), k
            if k == "transpose":
                if rng.random() < 0.25:
                    return lin.Transpose(ish), k
                ax = list(range(nd)); rng.shuffle(ax)
                ax = [a - nd if rng.random() < 0.4 else a for a in ax]
                return lin.Transpose(ish, axes=ax), k
            if k == "multiply_s":
                c = complex(rng.randint(-3, 3), rng.randint(-3, 3) if cplx else 0)
                if c == 0:
                    c = 2.0
                c = c if c.imag else c.real
                return lin.Multiply(ish, c, conj=rng.random() < 0.3), k
            if k == "multiply_a":
                mode = rng.choice(["same", "trail", "one_in_mult", "bigger", "one_in_input"])
                if mode == "same":
                    ms = list(ish)
                elif mode == "trail":
                    ms = ish[rng.randint(0, nd - 1):]
                elif mode == "one_in_mult":
                    ms = [1 if rng.random() < 0.5 else n for n in ish]
                elif mode == "bigger":
                    ms = [rng.randint(1, 3)] + [n if rng.random() < 0.7 else 1 for n in ish]
                else:
                    ms = [rng.randint(2, 3) if n == 1 else n for n in ish]
                    if prod(ms) > 48:
                        continue
                return lin.Multiply(ish, gint(rng, ms, cplx), conj=rng.random() < 0.3), k
            if k in ("matmul", "rmatmul"):
                if nd < 2:
                    continue
                adj = rng.random() < 0.3
                r = rng.randint(1, 3)
                batch = ish[:-2]
                mb = [rng.choice([n, 1]) for n in batch]
                if rng.random() < 0.3 and mb:
                    mb = mb[1:]
                if rng.random() < 0.2 and all(n == 1 for n in batch):
                    mb = [rng.randint(1, 2)] + mb
                if k == "matmul":      # mat @ input : mat [.., r, ish[-2]]
                    ms = mb + ([ish[-2], r] if adj else [r, ish[-2]])
                    return lin.MatMul(ish, gint(rng, ms, cplx), adjoint=adj), k
                ms = mb + ([r, ish[-1]] if adj else [ish[-1], r])
                return lin.RightMatMul(ish, gint(rng, ms, cplx), adjoint=adj), k
            if k == "resize":
                osh = [rng.choice([n, n + 1, n + 2, max(1, n - 1), max(1, n - 2), rng.randint(1, 5)]) for n in ish]
                if rng.random() < 0.25:
                    osh = list(ish)               # same shape: a pure zero-filling shift when a shift is given
                isf = [rng.randint(0, n) for n in ish] if rng.random() < 0.35 else None
                osf = [rng.randint(0, n) for n in osh] if rng.random() < 0.35 else None
                return lin.Resize(osh, ish, ishift=isf, oshift=osf), k
            if k == "flip":
                axes = None if rng.random() < 0.3 else list({rng.randrange(-nd, nd) % nd - rng.choice([0, nd]) for _ in range(rng.randint(1, nd))})
                if axes is not None:
                    seen = set(); axes = [a for a in axes if not (a % nd in seen or seen.add(a % nd))]
                return lin.Flip(ish, axes=axes), k
            if k == "downsample":
                f = [rng.randint(1, 3) for _ in ish]
                sh = None if rng.random() < 0.4 else [rng.randint(0, min(ff, n) - 1) for ff, n in zip(f, ish)]
                return lin.Downsample(ish, f, shift=sh), k
            if k == "upsample":
                f = [rng.randint(1, 3) for _ in ish]
                sh = [rng.randint(0, ff - 1) for ff in f]
                osh = [(n - 1) * ff + s + 1 + rng.randint(0, ff - 1) for n, ff, s in zip(ish, f, sh)]
                if prod(osh) > 60:
                    continue
                return lin.Upsample(osh, f, shift=sh if rng.random() < 0.7 or any(sh) else None), k
            if k == "circshift":
                if rng.random() < 0.3:
                    return lin.Circshift(ish, [rng.randint(-4, 4) for _ in ish]), k
                m = rng.randint(1, nd)
                axes = [rng.randrange(-nd, nd) for _ in range(m)]
                return lin.Circshift(ish, [rng.randint(-5, 5) for _ in range(m)], axes=axes), k
            if k == "sum":
                if nd < 2:
                    continue
                m = rng.randint(1, nd - 1)      # a 0-d output shape is outside the algebra (a * A builds Multiply([], a))
                axes = rng.sample(range(nd), m)
                axes = [a - nd if rng.random() < 0.3 else a for a in axes]
                return lin.Sum(ish, axes), k
            if k == "tile":
                m = rng.randint(1, 2)
                ond = nd + m
                pos = sorted(rng.sample(range(ond), m))
                osh, it = [], iter(ish)
                for d in range(ond):
                    osh.append(rng.randint(1, 3) if d in pos else next(it))
                if prod(osh) > 60:
                    continue
                return lin.Tile(osh, [p - ond if rng.random() < 0.3 else p for p in pos]), k
            if k == "a2b":
                D = rng.randint(1, min(nd, 3))
                B = [rng.randint(1, n) for n in ish[-D:]]
                S = [rng.randint(1, 3) for _ in B]
                A = lin.ArrayToBlocks(ish, B, S)
                if prod(A.oshape) > 80:
                    continue
                return A, k
            if k == "b2a":
                if nd < 2 or nd % 2 and nd < 3:
                    continue
                D = rng.choice([d for d in (1, 2) if 2 * d <= nd])
                N = ish[-2 * D:-D]; B = ish[-D:]
                S = [rng.randint(1, 3) for _ in B]
                osh = ish[:-2 * D] + [(n - 1) * s + b + rng.randint(0, s - 1) for n, s, b in zip(N, S, B)]
                if prod(osh) > 60:
                    continue
                return lin.BlocksToArray(osh, B, S), k
            if k == "slice":
                idx = []
                for n in ish[:rng.randint(1, nd)]:
                    r = rng.random()
                    if r < 0.2 and nd > 1:
                        idx.append(rng.randrange(-n, n))
                    else:
                        st = rng.choice([None, 1, 2, -1, -2])
                        a = rng.choice([None, rng.randrange(-n - 1, n + 1)])
                        b = rng.choice([None, rng.randrange(-n - 1, n + 2)])
                        idx.append(slice(a, b, st))
                idx = tuple(idx) if len(idx) > 1 or rng.random() < 0.5 else idx[0]
                if 0 in np.empty(ish)[idx].shape or np.empty(ish)[idx].ndim == 0:
                    continue
                return lin.Slice(ish, idx), k
            if k == "embed":
                osh, idx = [], []
                for n in ish:
                    st = rng.choice([1, 1, 2, -1])
                    off = rng.randint(0, 2)
                    extra = rng.randint(0, 2)
                    big = off + (n - 1) * abs(st) + 1 + extra
                    osh.append(big)
                    if st > 0:
                        idx.append(slice(off, off + (n - 1) * st + 1, st if st != 1 or rng.random() < 0.5 else None))
                    else:
                        hi = off + (n - 1)
                        idx.append(slice(hi, off - 1 if off > 0 else None, -1))
                if rng.random() < 0.3:
                    big = rng.randint(1, 3); osh.insert(0, big); idx.insert(0, rng.randrange(-big, big))
                if prod(osh) > 60 or list(np.empty(osh)[tuple(idx)].shape) != ish:
                    continue
                return lin.Embed(osh, tuple(idx)), k
            # ---- library-backed leaves (opaque in the Coq model) ----
            if k in ("fft", "ifft"):
                axes = None if rng.random() < 0.3 else rng.sample(range(-nd, nd), rng.randint(1, nd))
                if axes is not None:
                    seen = set(); axes = [a for a in axes if not (a % nd in seen or seen.add(a % nd))]
                C = lin.FFT if k == "fft" else lin.IFFT
                return C(ish, axes=axes, center=rng.random() < 0.7), k
            if k in ("interp", "nufft"):
                D = rng.randint(1, min(nd, 3))
                npts = rng.randint(1, 4)
                coord = np.array([[coord_val(rng, ish[-D + d]) for d in range(D)] for _ in range(npts)])
                if k == "interp" and rng.random() < 0.15:
                    coord = np.rint(coord).astype(np.int64)      # grid positions handed over as an integer array (defect F25)
                if k == "interp":
                    wch, pch = [1, 2, 3, 2.5], [0, 1, 2]
                    width = rng.choice(wch) if rng.random() < 0.5 else tuple(rng.choice(wch) for _ in range(D))
                    param = rng.choice(pch) if rng.random() < 0.5 else tuple(rng.choice(pch) for _ in range(D))
                    return lin.Interpolate(ish, coord, kernel=rng.choice(["spline", "kaiser_bessel"]), width=width, param=param), k
                return lin.NUFFT(ish, coord, oversamp=rng.choice([1.25, 1.5, 2]), width=rng.choice([3, 4])), k
            if k in ("gridding", "nufft_adj"):
                # input = batch + points
                D = rng.choice([1, 1, 2, 2, 3])
                npts = ish[-1]
                grid = [rng.randint(2, 4 if D < 3 else 3) for _ in range(D)]
                coord = np.array([[coord_val(rng, g) for g in grid] for _ in range(npts)])
                if k == "gridding" and rng.random() < 0.15:
                    coord = np.rint(coord).astype(np.int64)
                osh = ish[:-1] + grid
                if k == "gridding":
                    wch, pch = [1, 2, 3, 2.5], [0, 1, 2]
                    width = rng.choice(wch) if rng.random() < 0.5 else tuple(rng.choice(wch) for _ in range(D))
                    param = rng.choice(pch) if rng.random() < 0.5 else tuple(rng.choice(pch) for _ in range(D))
                    return lin.Gridding(osh, coord, kernel=rng.choice(["spline", "kaiser_bessel"]), width=width, param=param), k
                return lin.NUFFTAdjoint(osh, coord, oversamp=rng.choice([1.25, 2]), width=rng.choice([3, 4])), k
            if k == "wavelet":
                axes = None if rng.random() < 0.4 else rng.sample(range(nd), rng.randint(1, nd))
                return lin.Wavelet(ish, axes=axes, wave_name=rng.choice(["haar", "db2", "db4", "sym3"]),
                                   level=rng.choice([None, 1, 2])), k
            if k == "iwavelet":
                continue
            if k == "convdata":
                D = rng.randint(1, min(nd, 2))
                mode = rng.choice(["full", "valid"])
                m = ish[-D:]
                n = [rng.randint(1, mm) for mm in m] if mode == "valid" else [rng.randint(1, 3) for _ in m]
                strides = None if rng.random() < 0.5 else [rng.randint(1, 2) for _ in m]
                return lin.ConvolveData(ish, gint(rng, n, True), mode=mode, strides=strides), k
            if k == "convfilt":
                D = nd
                mode = rng.choice(["full", "valid"])
                n = ish
                m = [nn + rng.randint(0, 2) for nn in n]
                strides = None if rng.random() < 0.5 else [rng.randint(1, 2) for _ in m]
                return lin.ConvolveFilter(ish, gint(rng, m, True), mode=mode, strides=strides), k
        except Exception:
            continue
    return None


def shape_preserving(sp, rng, sh, cplx=True):
    """an operator sh -> sh"""
    k = rng.choice(["identity", "flip", "circshift", "multiply_s", "multiply_a_same", "fft"])
    if k == "multiply_a_same":
        return sp.linop.Multiply(sh, gint(rng, sh, cplx)), k
    if k == "fft" and rng.random() < 0.5:
        k = "identity"
    r = gen_leaf(sp, rng, sh, kinds=[k], cplx=cplx)
    return r if r else (sp.linop.Identity(sh), "identity")


def to_shape(sp, rng, ish, osh):
    """an operator ish -> osh (same rank): Resize, possibly dressed with shape-preserving factors"""
    A = sp.linop.Resize(osh, ish)
    if rng.random() < 0.4:
        A = shape_preserving(sp, rng, osh)[0] * A
    if rng.random() < 0.3:
        A = A * shape_preserving(sp, rng, ish)[0]
    return A


def gen_tree(sp, rng, depth, ish=None, kinds=None, cplx=True, log=None):
    """A random operator expression with input shape ish (random if None)."""
    lin = sp.linop
    log = log if log is not None else []
    if ish is None:
        ish = rand_shape(rng)
    if depth <= 0 or rng.random() < 0.25:
        r = gen_leaf(sp, rng, ish, kinds=kinds, cplx=cplx)
        if r is None:
            r = (lin.Identity(ish), "identity")
        log.append(r[1])
        return r[0]
    c = rng.choice(["compose", "compose", "add", "sub", "lscale", "rscale", "neg", "conj", "H", "hstack", "vstack", "diag"])
    log.append(c)
    if c == "compose":
        B = gen_tree(sp, rng, depth - 1, ish, kinds, cplx, log)
        A = gen_tree(sp, rng, depth - 1, list(B.oshape), kinds, cplx, log)
        return A * B
    if c in ("add", "sub"):
        if rng.random() < 0.4:     # first term returns a VIEW of its input (Transpose, Reshape, Flip, Slice, Downsample ...)
            r = gen_leaf(sp, rng, ish, kinds=["transpose", "reshape", "flip", "slice", "downsample", "identity"], cplx=cplx)
            A = r[0] if r else lin.Identity(ish)
            log.append(r[1] if r else "identity")
        else:
            A = gen_tree(sp, rng, depth - 1, ish, kinds, cplx, log)
        how = rng.choice(["pre", "post", "scale", "conj"])
        if how == "pre":
            B = A * shape_preserving(sp, rng, ish, cplx)[0]
        elif how == "post":
            B = shape_preserving(sp, rng, list(A.oshape), cplx)[0] * A
        elif how == "scale":
            B = complex(rng.randint(1, 3), rng.randint(-2, 2) if cplx else 0) * A
        else:
            B = lin.Conj(A)
        return A + B if c == "add" else A - B
    if c == "lscale":
        return complex(rng.randint(-3, 3) or 1, rng.randint(-2, 2) if cplx else 0) * gen_tree(sp, rng, depth - 1, ish, kinds, cplx, log)
    if c == "rscale":
        return gen_tree(sp, rng, depth - 1, ish, kinds, cplx, log) * complex(rng.randint(-3, 3) or 2, rng.randint(-2, 2) if cplx else 0)
    if c == "neg":
        return -gen_tree(sp, rng, depth - 1, ish, kinds, cplx, log)
    if c == "conj":
        return lin.Conj(gen_tree(sp, rng, depth - 1, ish, kinds, cplx, log))
    if c == "H":
        # an adjoint object used as a building block: need an operator whose OUTPUT shape is ish
        A = gen_tree(sp, rng, depth - 1, rand_shape(rng), kinds, cplx, log)
        T = A.H          # input shape = A.oshape
        return T * to_shape(sp, rng, ish, list(A.oshape)) if len(ish) == len(A.oshape) else T * lin.Resize(A.oshape, ish) if len(ish) == len(A.oshape) else lin.Identity(ish)
    nops = rng.randint(2, 3)
    nd = len(ish)
    if c == "vstack":
        axis = None if rng.random() < 0.3 else rng.randrange(-nd, nd)
        ops = []
        for _ in range(nops):
            if axis is None:
                ops.append(noncontig(sp, rng, gen_tree(sp, rng, depth - 1, ish, kinds, cplx, log)))
            else:
                if not ops:
                    ops.append(gen_tree(sp, rng, depth - 1, ish, kinds, cplx, log))
                    if axis >= len(ops[0].oshape) or axis < -len(ops[0].oshape):
                        axis = rng.randrange(-len(ops[0].oshape), len(ops[0].oshape))
                else:
                    o0 = list(ops[0].oshape)
                    o = list(o0); o[axis] = rng.randint(1, 3)
                    ops.append(to_shape(sp, rng, o0, o) * ops[0] if rng.random() < 0.5 else lin.Resize(o, o0) * shape_preserving(sp, rng, o0, cplx)[0] * ops[0])
        return lin.Vstack(ops, axis=axis)
    if c == "hstack":
        axis = None if rng.random() < 0.3 else rng.randrange(-nd, nd)
        # split ish along axis into nops parts (or flattened when axis is None)
        if axis is None:
            total = prod(ish)
            if total < nops:
                return gen_tree(sp, rng, depth - 1, ish, kinds, cplx, log)
            cuts = sorted(rng.sample(range(1, total), nops - 1))
            sizes = [b - a for a, b in zip([0] + cuts, cuts + [total])]
            parts = [[s] if rng.random() < 0.6 else factor_shape(rng, s, 2) for s in sizes]
        else:
            n = ish[axis]
            if n < nops:
                return gen_tree(sp, rng, depth - 1, ish, kinds, cplx, log)
            cuts = sorted(rng.sample(range(1, n), nops - 1))
            sizes = [b - a for a, b in zip([0] + cuts, cuts + [n])]
            parts = []
            for s in sizes:
                p = list(ish); p[axis] = s; parts.append(p)
        first = gen_tree(sp, rng, depth - 1, parts[0], kinds, cplx, log)
        osh = list(first.oshape)
        ops = [first]
        for p in parts[1:]:
            B = gen_tree(sp, rng, depth - 1, p, kinds, cplx, log)
            if list(B.oshape) != osh:
                if len(B.oshape) == len(osh):
                    B = lin.Resize(osh, B.oshape) * B
                else:
                    B = lin.Resize(osh, [1] * (len(osh) - 1) + [prod(B.oshape)]) * lin.Reshape([1] * (len(osh) - 1) + [prod(B.oshape)], B.oshape) * B
            ops.append(B)
        H = lin.Hstack(ops, axis=axis)
        if list(H.ishape) != list(ish):      # axis=None works on the flattened vector
            H = H * lin.Reshape(H.ishape, ish)
        return H
    if c == "diag":
        iaxis = None if rng.random() < 0.3 else rng.randrange(-nd, nd)
        if iaxis is None:
            total = prod(ish)
            if total < 2:
                return gen_tree(sp, rng, depth - 1, ish, kinds, cplx, log)
            cut = rng.randint(1, total - 1)
            parts = [[cut], [total - cut]]
        else:
            n = ish[iaxis]
            if n < 2:
                return gen_tree(sp, rng, depth - 1, ish, kinds, cplx, log)
            cut = rng.randint(1, n - 1)
            p1 = list(ish); p1[iaxis] = cut
            p2 = list(ish); p2[iaxis] = n - cut
            parts = [p1, p2]
        A1 = gen_tree(sp, rng, depth - 1, parts[0], kinds, cplx, log)
        A2 = gen_tree(sp, rng, depth - 1, parts[1], kinds, cplx, log)
        ond = len(A1.oshape)
        oaxis = None if rng.random() < 0.35 else rng.randrange(-ond, ond)
        if oaxis is not None:
            o2 = list(A1.oshape); o2[oaxis] = rng.randint(1, 3)
            if len(A2.oshape) == ond:
                A2 = lin.Resize(o2, A2.oshape) * A2
            else:
                A2 = lin.Resize(o2, [1] * (ond - 1) + [prod(A2.oshape)]) * lin.Reshape([1] * (ond - 1) + [prod(A2.oshape)], A2.oshape) * A2
        if oaxis is None:
            A1, A2 = noncontig(sp, rng, A1), noncontig(sp, rng, A2)
        Dg = lin.Diag([A1, A2], oaxis=oaxis, iaxis=iaxis)
        if list(Dg.ishape) != list(ish):
            Dg = Dg * lin.Reshape(Dg.ishape, ish)
        return Dg
    raise AssertionError(c)


def structured_trees(sp, rng):
    """Systematic small trees: every binary combinator over every ORDERED pair of operand kinds that differ in how the
    operand hands back its output (fresh array / the input object itself / a view / a non-contiguous view / a complex
    scalar multiple / an FFT, whose output precision depends on the input dtype), on a non-square rank-2 shape.  Random generation reaches these aliasing / layout / dtype
    combinations only sparsely.  Returns a list of (operator, log)."""
    lin = sp.linop
    sh = [2, 3]
    marr = gint(rng, sh, True, -3, 3)

    def operand(kind):
        if kind == "fresh":
            return lin.Multiply(sh, marr)
        if kind == "self":
            return lin.Identity(sh)
        if kind == "view":
            return lin.Reshape(sh, sh)
        if kind == "noncontig":
            return lin.Transpose([3, 2]) * lin.Reshape([3, 2], sh)
        if kind == "cscalar":
            return (1 + 2j) * lin.Identity(sh)
        if kind == "fft":          # a real-dtype input comes back as complex64 (by design), a complex one as complex128
            return lin.FFT(sh, axes=[-1])
        if kind == "shift":        # same-shape Resize with ONE explicit shift: crops on one side, zero-fills on the other
            return lin.Resize(sh, sh, oshift=[1, 0]) if rng.random() < 0.5 else lin.Resize(sh, sh, ishift=[0, 1])
        raise ValueError(kind)
    kinds = ["fresh", "self", "view", "noncontig", "cscalar", "fft", "shift"]
    combs = {
        "add": lambda a, b: a + b,
        "sub": lambda a, b: a - b,
        "compose": lambda a, b: a * b,
        "hstack-none": lambda a, b: lin.Hstack([a, b], axis=None),
        "hstack-axis": lambda a, b: lin.Hstack([a, b], axis=rng.choice([0, 1, -1])),
        "vstack-none": lambda a, b: lin.Vstack([a, b], axis=None),
        "vstack-axis": lambda a, b: lin.Vstack([a, b], axis=rng.choice([0, 1, -2])),
        "diag-none": lambda a, b: lin.Diag([a, b], oaxis=None, iaxis=None),
        "diag-axis": lambda a, b: lin.Diag([a, b], oaxis=rng.choice([0, -1]), iaxis=rng.choice([1, -2])),
        "diag-mixed": lambda a, b: lin.Diag([a, b], oaxis=None, iaxis=0),
    }
    out = []
    for cn, f in combs.items():
        for k1 in kinds:
            for k2 in kinds:
                out.append((f(operand(k1), operand(k2)), ["struct:" + cn, k1, k2]))
    # stacks over blocks that CHANGE THE RANK, with negative axes: an axis refers to the rank of the shape it indexes
    # (output axis -> block outputs, input axis -> block inputs), never to the other one
    up = lambda: lin.Reshape(sh, [6])              # noqa: E731   [6] -> [2, 3]
    down = lambda: lin.Reshape([6], sh)            # noqa: E731   [2, 3] -> [6]
    def doubled(shape, ax):
        o = list(shape); o[ax % len(shape)] *= 2
        return o
    for ax in (-1, -2, 0, 1):
        # the last log entry ("expect", oshape, ishape) is the shape the EXPRESSION must advertise, computed here from the definition
        out.append((lin.Vstack([up(), lin.Multiply(sh, marr) * up()], axis=ax), ["struct:vstack-rank-up", "axis%d" % ax, ("expect", doubled(sh, ax), [6])]))
        out.append((lin.Hstack([down(), down() * lin.Multiply(sh, marr)], axis=ax), ["struct:hstack-rank-down", "axis%d" % ax, ("expect", [6], doubled(sh, ax))]))
        for ia in (-1, 0):
            out.append((lin.Diag([up(), lin.Multiply(sh, marr) * up()], oaxis=ax, iaxis=ia),
                        ["struct:diag-rank-up", "oaxis%d" % ax, "iaxis%d" % ia, ("expect", doubled(sh, ax), [12])]))
    for ia in (-1, -2, 0, 1):
        oa = rng.choice([0, -1])
        out.append((lin.Diag([down(), down()], oaxis=oa, iaxis=ia), ["struct:diag-rank-down", "iaxis%d" % ia, ("expect", [12], doubled(sh, ia))]))
    return out


def coord_val(rng, n):
    """one sampling coordinate for an axis of length n: generic, or sitting exactly on the ties of the kernel window
    (integer / half-integer / quarter positions: ceil and floor of k -+ W/2 coincide with grid points there)"""
    kind = rng.choice(["uniform", "uniform", "int", "half", "quarter"])
    if kind == "uniform":
        return rng.uniform(-n / 2 - 1, n / 2 + 1)
    base = rng.randint(-(n // 2) - 1, n // 2 + 1)
    return float(base) + {"int": 0.0, "half": 0.5, "quarter": rng.choice([0.25, 0.75])}[kind]


def noncontig(sp, rng, A):
    """with probability 0.4 make the operator's OUTPUT a non-contiguous view (ends in a Transpose): flattening stacks
    must read it in logical (C) order, not in memory order"""
    osh = list(A.oshape)
    if len(osh) < 2 or prod(osh) < 2 or rng.random() >= 0.4:
        return A
    perm = list(range(len(osh)))
    while perm == list(range(len(osh))):
        rng.shuffle(perm)
    return sp.linop.Transpose(osh, perm) * A


def gen_malformed(sp, rng):
    """Returns a thunk building an ill-shaped combination and a description; python must raise."""
    lin = sp.linop
    k = rng.choice(["compose", "add_i", "add_o", "add_rank_prefix", "hstack_rank_prefix", "vstack_rank_prefix", "hstack_o", "hstack_rank", "hstack_off", "vstack_i", "vstack_off",
                    "matmul", "rmatmul", "multiply", "nonpositive", "conv_mixed", "conv_channel"])
    a = rand_shape(rng, 3, 4)
    b = list(a); j = rng.randrange(len(b)); b[j] += rng.randint(1, 2)
    I = lin.Identity
    if k == "compose":
        return k, lambda: lin.Compose([lin.Resize(a, b), lin.Resize(a, b)]), "(Compose [Resize %s %s None None; Resize %s %s None None])" % (zl(a), zl(b), zl(a), zl(b))
    if k == "add_i":
        return k, lambda: lin.Add([lin.Resize(a, a), lin.Resize(a, b)]), "(Add [Resize %s %s None None; Resize %s %s None None])" % (zl(a), zl(a), zl(a), zl(b))
    if k == "add_o":
        return k, lambda: lin.Add([lin.Resize(a, a), lin.Resize(b, a)]), "(Add [Resize %s %s None None; Resize %s %s None None])" % (zl(a), zl(a), zl(b), zl(a))
    if k in ("add_rank_prefix", "hstack_rank_prefix", "vstack_rank_prefix"):
        # output (input) shapes of different RANK where one is a prefix of the other
        n, m = rng.randint(2, 3), rng.randint(2, 3)
        sq = [n, m]
        if k == "add_rank_prefix":
            ops = lambda: [I(sq), lin.Sum(sq, axes=(1,))]
            term = "(Add [Identity %s; Sum %s [1]])" % (zl(sq), zl(sq))
            return k, lambda: lin.Add(ops()), term
        if k == "hstack_rank_prefix":
            ax = rng.choice([0, -1, None])
            term = "(Hstack [Identity %s; Sum %s [1]] %s)" % (zl(sq), zl(sq), "None" if ax is None else "(Some (%d))" % ax)
            return k, lambda: lin.Hstack([I(sq), lin.Sum(sq, axes=(1,))], axis=ax), term
        ax = rng.choice([0, -1, None])
        term = "(Vstack [Identity %s; Tile %s [1]] %s)" % (zl(sq), zl(sq), "None" if ax is None else "(Some (%d))" % ax)
        return k, lambda: lin.Vstack([I(sq), lin.Tile(sq, [1])], axis=ax), term
    if k == "hstack_o":
        return k, lambda: lin.Hstack([I(a), I(b)], axis=0), "(Hstack [Identity %s; Identity %s] (Some 0))" % (zl(a), zl(b))
    if k == "hstack_rank":
        c = a + [1]
        return k, lambda: lin.Hstack([lin.Resize(a, a), lin.Reshape(a, c)], axis=0), "(Hstack [Resize %s %s None None; Reshape %s %s] (Some 0))" % (zl(a), zl(a), zl(a), zl(c))
    if k == "hstack_off":
        if len(a) < 2:
            a = a + [2]; b = list(a); b[-1] += 1
            j = len(a) - 1
        ax = (j + 1) % len(a)
        return k, lambda: lin.Hstack([lin.Resize(a, a), lin.Resize(a, b)], axis=ax), "(Hstack [Resize %s %s None None; Resize %s %s None None] (Some %d))" % (zl(a), zl(a), zl(a), zl(b), ax)
    if k == "vstack_i":
        return k, lambda: lin.Vstack([I(a), I(b)], axis=0), "(Vstack [Identity %s; Identity %s] (Some 0))" % (zl(a), zl(b))
    if k == "vstack_off":
        if len(a) < 2:
            a = a + [2]; b = list(a); b[-1] += 1
            j = len(a) - 1
        ax = (j + 1) % len(a)
        return k, lambda: lin.Vstack([lin.Resize(a, a), lin.Resize(b, a)], axis=ax), "(Vstack [Resize %s %s None None; Resize %s %s None None] (Some %d))" % (zl(a), zl(a), zl(b), zl(a), ax)
    if k == "matmul":
        ish = [rng.randint(1, 3), rng.randint(1, 3)]
        ms = [rng.randint(1, 3), ish[0] + 1]
        m = np.zeros(ms)
        return k, lambda: lin.MatMul(ish, m), "(MatMul %s (ARef 1 %s) false)" % (zl(ish), zl(ms))
    if k == "rmatmul":
        ish = [rng.randint(1, 3), rng.randint(1, 3)]
        ms = [ish[1] + 1, rng.randint(1, 3)]
        m = np.zeros(ms)
        return k, lambda: lin.RightMatMul(ish, m), "(RightMatMul %s (ARef 1 %s) false)" % (zl(ish), zl(ms))
    if k == "multiply":
        ish = [rng.randint(2, 3), rng.randint(2, 3)]
        ms = [ish[0], ish[1] + 1]
        m = np.zeros(ms)
        return k, lambda: lin.Multiply(ish, m), "(Multiply %s (MArray (ARef 1 %s)) false)" % (zl(ish), zl(ms))
    if k == "nonpositive":
        s = list(a); s[rng.randrange(len(s))] = 0
        return k, lambda: lin.Identity(s), "(Identity %s)" % zl(s)
    if k == "conv_mixed":
        d = [3, 2]; f = [2, 3]
        ff = np.zeros(f)
        return k, lambda: lin.ConvolveData(d, ff, mode="valid"), "(ConvolveData %s (ARef 1 %s) false None false)" % (zl(d), zl(f))
    if k == "conv_channel":
        d = [2, 4]; f = [2, 3, 2]
        ff = np.zeros(f)
        return k, lambda: lin.ConvolveData(d, ff, mode="full", multi_channel=True), "(ConvolveData %s (ARef 1 %s) true None true)" % (zl(d), zl(f))
    raise AssertionError(k)


def zl(s):
    from vlib import coqlit as L
    return L.zlist([int(v) for v in s])
