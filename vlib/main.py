import argparse, importlib, json, os, sys, traceback
sys.path.insert(0, os.path.dirname(os.path.dirname(os.path.abspath(__file__))))
from vlib import core


def setup():
    """Build the whole Coq development from files on disk (generated files first)."""
    os.makedirs(core.BUILD, exist_ok=True)
    from tools import translate_all
    translate_all.run(strict=False)
    targets = [s + "o" for s in core.coq_sources()]
    ok, log = core.coq_make(targets, timeout=3400)
    print(log[-3000:])
    return 0 if ok else 1


def main():
    ap = argparse.ArgumentParser()
    ap.add_argument("pid", nargs="?")
    ap.add_argument("--tier", default=os.environ.get("VERIF_TIER", "quick"))
    ap.add_argument("--replay")
    ap.add_argument("--setup", action="store_true")
    a = ap.parse_args()
    if a.setup:
        sys.exit(setup())
    seed = int(os.environ.get("VERIF_SEED", "1"))
    mod = importlib.import_module("props." + a.pid)
    if a.replay:
        sys.exit(mod.replay(json.load(open(a.replay))))
    ctx = core.Ctx(a.pid, a.tier, seed)
    try:
        mod.run(ctx)
    except Exception as e:   # machinery failure is reported as a violation without input (fail closed)
        tb = traceback.format_exc()
        print(tb, file=sys.stderr)
        ctx.obligation("check-machinery", False)
        ctx.violation("check machinery raised %s" % type(e).__name__,
                      {"kind": "machinery", "broken": "check-machinery", "traceback": tb}, found_input=False,
                      signature="machinery:" + type(e).__name__)
    sys.exit(ctx.finish())


if __name__ == "__main__":
    main()
