import argparse, importlib, json, os, sys, traceback
sys.path.insert(0, os.path.dirname(os.path.dirname(os.path.abspath(__file__))))
from vlib import core


def setup():
    """Build the Coq development from files on disk (generated files first).  Everything is built
    with `make -k`; setup succeeds when the theorem file of every CLAIMED property (MANIFEST.json)
    and every executable-model file under coq/run built — unfinished work of unclaimed properties
    cannot break the claimed checks."""
    import json
    os.makedirs(core.BUILD, exist_ok=True)
    from tools import translate_all
    translate_all.run(strict=False)
    targets = [s + "o" for s in core.coq_sources()]
    with core.BuildLock():
        core.coq_prepare()
        rc, log, _ = core.sh(["make", "-k", "-j16"] + targets, cwd=core.COQ, timeout=3400)
    print(log[-2500:])
    man = json.load(open(os.path.join(core.VERIF, "MANIFEST.json")))
    missing = []
    for c in man["checks"]:
        vo = os.path.join(core.COQ, "props", "Prop_%s.vo" % c["property_id"])
        if not os.path.exists(vo):
            missing.append(vo)
    print("setup: make rc=%d; claimed theorem files missing: %s" % (rc, missing))
    return 1 if missing else 0


# Helper code in OTHER modules that a property's model takes as given (by its regenerated twin): the functions the anchored code
# calls.  For each, the generated file must compile (its lemmas say "generated from the current source == the model").
DEPS = {
    "C01": ["util", "fourier", "conv", "wavelet", "interpw"], "C02": ["util", "fourier", "conv", "wavelet", "interpw"],
    "C03": ["util", "fourier", "conv", "wavelet", "interpw"], "C04": ["util", "fourier", "conv", "wavelet", "interpw", "lls", "alg"],
    "C05": ["util"], "C06": ["util", "interp", "interpw"], "C10": ["util"], "C11": ["util"],
    "C12": ["util"], "C13": ["prox", "util"],
    "C14": ["alg", "prox", "linop_table", "linop_apply"], "C15": ["lls"],
    "C16": ["alg", "lls", "prox", "linop_table", "linop_apply", "fourier", "wavelet"],
    "C17": ["alg", "util", "block", "fourier"],
    "C20": ["spokes"],
}


def dependency_ties(ctx, pid, translate_all):
    broken = []
    for job in DEPS.get(pid, []):
        fname = translate_all.JOBS[job][0]
        err = translate_all.run(strict=False, only=[job])
        ok = (not err) and ctx.make(["gen/" + fname + "o"])
        ctx.obligation("dep-tie:%s (gen/%s: generated from the current source == model)" % (job, fname), bool(ok))
        if not ok:
            broken.append("dep-tie:%s (gen/%s)%s" % (job, fname, ": " + str(err)[:200] if err else ""))
    return broken


def main():
    ap = argparse.ArgumentParser()
    ap.add_argument("pid", nargs="?")
    ap.add_argument("--tier", default=os.environ.get("VERIF_TIER", "quick"))
    ap.add_argument("--replay")
    ap.add_argument("--setup", action="store_true")
    a = ap.parse_args()
    if a.setup:
        sys.exit(setup())
    seed = int(os.environ.get("VERIF_SEED", "1"))
    mod = importlib.import_module("props." + a.pid)
    if a.replay:
        obj = json.load(open(a.replay))
        rc = mod.replay(obj)
        if rc == "rerun":
            # generic replay: the case is regenerated deterministically from the recorded seed and tier
            seed = int(obj.get("seed", seed))
            ctx = core.Ctx(a.pid, obj.get("tier", "quick"), seed)
            mod.run(ctx)
            hit = [v for v in ctx.violations if v["signature"] == obj.get("signature")]
            print("replay (seed %d): %s" % (seed, "violation reproduced: " + hit[0]["what"] if hit else "not reproduced"))
            sys.exit(1 if hit else 0)
        sys.exit(rc)
    ctx = core.Ctx(a.pid, a.tier, seed)
    try:
        # every generated model file is brought in line with the tree under test before anything is built
        # (fail closed: a failing translator leaves a stub that does not compile); the check's own translate step
        # then records the obligation for the files its theorems depend on
        from tools import translate_all
        translate_all.run(strict=False)
        dep_broken = dependency_ties(ctx, a.pid, translate_all)
        mod.run(ctx)
        if dep_broken and not ctx.violations:
            ctx.violation("a model this property's theorems rely on no longer matches the source it is regenerated from: %s" % ", ".join(dep_broken),
                          {"kind": "proof", "broken": {"theorem": "; ".join(dep_broken),
                                                      "note": "helper code in another module (see DEPS in vlib/main.py) changed; the property's own inputs showed no failure"}},
                          found_input=False, signature="%s:dependency-tie" % a.pid)
    except Exception as e:   # machinery failure is reported as a violation without input (fail closed)
        tb = traceback.format_exc()
        print(tb, file=sys.stderr)
        ctx.obligation("check-machinery", False)
        ctx.violation("check machinery raised %s" % type(e).__name__,
                      {"kind": "machinery", "broken": "check-machinery", "traceback": tb}, found_input=False,
                      signature="machinery:" + type(e).__name__)
    sys.exit(ctx.finish())


if __name__ == "__main__":
    main()
