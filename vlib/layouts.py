"""Memory-layout variants of an array: the same values and shape, stored differently.

Used by the property checks as a layout-independence oracle: every function under test must give, for the same VALUES, the
same result whatever the strides of the array it is handed (random generation with numpy always yields C-contiguous arrays,
so code that silently assumes C order -- ravel(order="K"/"A"), reshape(order="A"), as_strided from the shape, reshape(-1)
that turns into a copy -- is otherwise never exercised)."""
import numpy as np


def variants(a, rng, k=2):
    """up to k (tag, array) pairs chosen at random among the layouts applicable to `a`; every array is writable and owns or
    views fresh memory (the original is never aliased)"""
    a = np.asarray(a)
    out = []
    if a.ndim >= 2 and min(a.shape) > 1:
        out.append(("F", np.asfortranarray(a.copy())))
        out.append(("T-view", np.ascontiguousarray(a.T).T))
    if a.ndim >= 3:
        perm = tuple(range(1, a.ndim)) + (0,)
        inv = tuple(np.argsort(perm))
        out.append(("perm-view", np.ascontiguousarray(a.transpose(perm)).transpose(inv)))
    if a.ndim >= 1 and a.size > 0:
        big = np.full([2 * d + 1 for d in a.shape], 7.25, dtype=a.dtype)
        v = big[tuple(slice(1, 2 * d, 2) for d in a.shape)]
        v[...] = a
        out.append(("strided", v))
        out.append(("reversed", np.ascontiguousarray(a[::-1])[::-1]))
    if np.iscomplexobj(a) is False and a.dtype.kind == "f" and a.size > 0:
        z = (a + 1j * (a + 1.5)).astype(np.complex128 if a.dtype == np.float64 else np.complex64)
        out.append(("real-part-of-complex", z.real))
    rng.shuffle(out)
    res = []
    for tag, v in out[:k]:
        assert v.shape == a.shape and np.array_equal(v, a), "layout %s changed the values (harness bug)" % tag
        res.append((tag, v))
    return res
