"""C07 — interpolate / gridding implement the documented kernel sums.

Proof: coq/props/Prop_C07.v about the loop nests GENERATED from sigpy/interp.py on every run
(tools/translate_loops.py): window = {x : ceil(k-W/2) <= x <= floor(k+W/2)} = {x : |x-k| <= W/2},
periodic wrap, separable weights, gridding accumulates (never overwrites) and is the transpose.
Tie: translator + PrimFloat correspondence of the generated kernels inside the hand-modelled wrappers
(batch flattening, width/param broadcasting) against the implementation; Kaiser-Bessel kernel values are
measured on the implementation and passed in as data (bit-exact argument keys).
"""
import itertools
import json
import math
import numpy as np
from vlib import core, coqlit as L

HEADER = """From Coq Require Import ZArith List Bool PrimFloat.
From SV Require Import lib.Scalar lib.NdArray lib.FloatRun run.RunC07.
Import ListNotations.
Local Open Scope Z_scope.
"""


def spline_doc(x, order):
    ax = abs(x)
    if ax > 1:
        return 0.0
    if order == 0:
        return 1.0
    if order == 1:
        return 1 - ax
    if order == 2:
        return 9 / 8 * (1 - ax) ** 2 if ax > 1 / 3 else 3 / 4 * (1 - 3 * x ** 2)
    raise ValueError(order)


def kb_doc(x, beta):
    if abs(x) > 1:
        return 0.0
    return float(np.i0(beta * math.sqrt(1 - x * x)))


def ref_terms(k, W, p, kern):
    """[(grid index, weight)] of all integers within half a width of k (independent of ceil/floor)"""
    out = []
    lo, hi = math.floor(k - W / 2) - 1, math.ceil(k + W / 2) + 1
    for i in range(lo, hi + 1):
        if abs(i - k) <= W / 2:
            out.append((i, kern((i - k) / (W / 2), p)))
    return out


def ref_interp(x, coord, kernel, width, param):
    nd = coord.shape[-1]
    Ws = [width] * nd if np.isscalar(width) else list(width)
    Ps = [param] * nd if np.isscalar(param) else list(param)
    kern = spline_doc if kernel == "spline" else kb_doc
    grid = x.shape[-nd:]
    bat = x.shape[:-nd]
    pts = coord.shape[:-1]
    out = np.zeros(bat + pts, dtype=x.dtype)
    for pt in np.ndindex(*pts):
        terms = [ref_terms(float(coord[pt + (d,)]), Ws[d], Ps[d], kern) for d in range(nd)]
        for combo in itertools.product(*terms):
            w = 1.0
            for _, wd in combo:
                w *= wd
            idx = tuple(i % n for (i, _), n in zip(combo, grid))
            out[(Ellipsis,) + pt] += w * x[(Ellipsis,) + idx]
    return out


def ref_gridding(y, coord, oshape, kernel, width, param):
    nd = coord.shape[-1]
    Ws = [width] * nd if np.isscalar(width) else list(width)
    Ps = [param] * nd if np.isscalar(param) else list(param)
    kern = spline_doc if kernel == "spline" else kb_doc
    grid = tuple(oshape[-nd:])
    pts = coord.shape[:-1]
    out = np.zeros(tuple(oshape), dtype=y.dtype)
    for pt in np.ndindex(*pts):
        terms = [ref_terms(float(coord[pt + (d,)]), Ws[d], Ps[d], kern) for d in range(nd)]
        for combo in itertools.product(*terms):
            w = 1.0
            for _, wd in combo:
                w *= wd
            idx = tuple(i % n for (i, _), n in zip(combo, grid))
            out[(Ellipsis,) + idx] += w * y[(Ellipsis,) + pt]
    return out


def gen_case(rng):
    nd = rng.choice([1, 1, 2, 2, 3])
    maxn = {1: 7, 2: 5, 3: 3}[nd]
    grid = [rng.randint(1, maxn) for _ in range(nd)]
    bat = [rng.randint(1, 2) for _ in range(rng.choice([0, 0, 1, 2]))]
    pts = [rng.randint(1, 4)] if rng.random() < 0.8 else [2, rng.randint(1, 2)]
    npts = int(np.prod(pts))
    coord = np.zeros(pts + [nd])
    for pt in np.ndindex(*pts):
        for d in range(nd):
            n = grid[d]
            kind = rng.choice(["frac", "frac", "int", "half", "neg", "far", "quarter"])
            if kind == "frac":
                v = rng.randint(-8 * n, 16 * n) / 8.0
            elif kind == "int":
                v = float(rng.randint(-n, 2 * n))
            elif kind == "half":
                v = rng.randint(-n, 2 * n) + 0.5
            elif kind == "quarter":
                v = rng.randint(-n, 2 * n) + rng.choice([0.25, 0.75])
            elif kind == "neg":
                v = -rng.randint(0, 16) / 4.0
            else:
                v = rng.choice([-1, 1]) * (3 * n + rng.randint(0, 8) / 8.0)
            coord[pt + (d,)] = v
    if npts > 1 and rng.random() < 0.2:      # duplicate point: contributions must add in gridding
        coord.reshape(npts, nd)[-1] = coord.reshape(npts, nd)[0]
    kernel = rng.choice(["spline", "spline", "kaiser_bessel"])
    if kernel == "spline":
        pchoices = [0, 1, 2]
    else:
        pchoices = [1.0, 2.5, 5.0, 9.25]
    wchoices = [1, 2, 3, 4, 1.5, 2.5, 0.5] if nd < 3 else [1, 2, 1.5]
    width = rng.choice(wchoices) if rng.random() < 0.5 else [rng.choice(wchoices) for _ in range(nd)]
    param = rng.choice(pchoices) if rng.random() < 0.5 else [rng.choice(pchoices) for _ in range(nd)]
    cplx = rng.random() < 0.5
    return dict(grid=grid, bat=bat, pts=pts, coord=coord, kernel=kernel, width=width, param=param, cplx=cplx,
                op=rng.choice(["interp", "interp", "gridding"]))


_LAYOUT = [None]     # when set, the data array is handed over in another memory layout (same values)


def intdata(rng, shape, cplx):
    a = np.array([rng.randint(-4, 4) for _ in range(int(np.prod(shape)))], dtype=np.float64).reshape(shape)
    if cplx:
        a = a + 1j * np.array([rng.randint(-4, 4) for _ in range(int(np.prod(shape)))], dtype=np.float64).reshape(shape)
    if _LAYOUT[0] is not None:
        from vlib import layouts
        vs = layouts.variants(a, _LAYOUT[0], k=1)
        if vs:
            return vs[0][1]
    return a


def kb_table(sp, c):
    """values of the implementation's Kaiser-Bessel kernel at exactly the arguments the kernel loop forms"""
    if c["kernel"] != "kaiser_bessel":
        return "[]"
    nd = len(c["grid"])
    Ws = [c["width"]] * nd if np.isscalar(c["width"]) else list(c["width"])
    Ps = [c["param"]] * nd if np.isscalar(c["param"]) else list(c["param"])
    kb = sp.interp._kaiser_bessel_kernel
    seen, items = set(), []
    for pt in np.ndindex(*c["pts"]):
        for d in range(nd):
            k = float(c["coord"][pt + (d,)])
            w = np.float64(Ws[d]); p = np.float64(Ps[d])
            x0 = int(np.ceil(k - w / 2)); x1 = int(np.floor(k + w / 2))
            for x in range(x0, x1 + 1):
                t = (np.float64(x) - np.float64(k)) / (w / 2)
                key = (float(t), float(p))
                if key in seen:
                    continue
                seen.add(key)
                items.append("((%s, %s), %s)" % (L.flt(t), L.flt(p), L.flt(float(kb(t, p)))))
    return "[" + "; ".join(items) + "]"


def run_case(sp, rng, c):
    nd = len(c["grid"])
    kcode = 1 if c["kernel"] == "spline" else 2
    wl = [c["width"]] if np.isscalar(c["width"]) else list(c["width"])
    pl = [c["param"]] if np.isscalar(c["param"]) else list(c["param"])
    ws, ps = L.boolean(np.isscalar(c["width"])), L.boolean(np.isscalar(c["param"]))
    cshape = list(c["coord"].shape)
    tbl = kb_table(sp, c)
    if c["op"] == "interp":
        ish = c["bat"] + c["grid"]
        x = intdata(rng, ish, c["cplx"])
        y = sp.interpolate(x, c["coord"], kernel=c["kernel"], width=c["width"], param=c["param"])
        ref = ref_interp(x, c["coord"], c["kernel"], c["width"], c["param"])
        expr = "chk_interp %d %s %s %s %s %s %s %s %s %s %s %s" % (
            kcode, tbl, L.zlist(ish), L.zlist(cshape), L.flist(c["coord"].ravel()), L.flist(wl), L.flist(pl), ws, ps,
            L.cflist(x.ravel()), L.cflist(np.asarray(y).ravel()), L.zlist(y.shape))
    else:
        ish = c["bat"] + c["pts"]
        osh = c["bat"] + c["grid"]
        x = intdata(rng, ish, c["cplx"])
        y = sp.gridding(x, c["coord"], osh, kernel=c["kernel"], width=c["width"], param=c["param"])
        ref = ref_gridding(x, c["coord"], osh, c["kernel"], c["width"], c["param"])
        expr = "chk_gridding %d %s %s %s %s %s %s %s %s %s %s %s" % (
            kcode, tbl, L.zlist(ish), L.zlist(cshape), L.zlist(osh), L.flist(c["coord"].ravel()), L.flist(wl), L.flist(pl), ws, ps,
            L.cflist(x.ravel()), L.cflist(np.asarray(y).ravel()))
    return x, np.asarray(y), ref, expr


def describe(c):
    d = dict(c)
    d["coord"] = c["coord"].tolist()
    return d


def corpus():
    z = lambda l: np.array(l, dtype=np.float64)
    return [
        dict(grid=[5], bat=[], pts=[3], coord=z([[0.5], [2.0], [4.5]]), kernel="spline", width=2, param=1, cplx=False, op="interp"),
        dict(grid=[5], bat=[], pts=[3], coord=z([[0.5], [0.5], [4.75]]), kernel="spline", width=3, param=2, cplx=True, op="gridding"),
        dict(grid=[4], bat=[2], pts=[2], coord=z([[-7.25], [13.0]]), kernel="spline", width=1, param=0, cplx=False, op="interp"),
        dict(grid=[1, 3], bat=[], pts=[2], coord=z([[0.0, 1.5], [2.5, -0.5]]), kernel="spline", width=[2, 3], param=[1, 2], cplx=True, op="interp"),
        dict(grid=[3, 4], bat=[], pts=[2], coord=z([[1.25, 2.5], [1.25, 2.5]]), kernel="kaiser_bessel", width=2.5, param=5.0, cplx=True, op="gridding"),
        dict(grid=[2, 2, 3], bat=[], pts=[1], coord=z([[0.5, 1.0, 1.75]]), kernel="spline", width=2, param=[0, 1, 2], cplx=False, op="interp"),
    ]


def run(ctx):
    from tools import translate_all
    tr_err = translate_all.run(strict=False, only=["interp"])
    ctx.source_hash("sigpy/interp.py")
    ctx.obligation("translate:sigpy/interp.py", not tr_err)
    proof_ok = False
    if tr_err:
        ctx.notes.append("translator failed closed: %s" % tr_err)
    else:
        proof_ok = ctx.prove("Prop_C07.v")
    # tie by translation of the WRAPPER layer (DESIGN 2.8): gen/Gen_interpw.v is regenerated from interp.py (translate_all job
    # "interpw") and compiled; its lemmas gen_<f>_ok state generated == hand model (model/Interp.v wrappers, model/InterpW.v)
    from tools import translate_interpw
    tie_broken = translate_interpw.tie(ctx)  # obligations "translate:sigpy/interp.py (wrapper layer: ...)", "tie:generated == hand model (...)"
    sp = core.import_sigpy()
    rng = ctx.rng
    n = ctx.n(260, 6000)
    cases = corpus()
    while len(cases) < n:
        cases.append(gen_case(rng))
    done, bad = [], {}
    for c in cases:
        try:
            x, y, ref, expr = run_case(sp, rng, c)
        except Exception as e:
            bad.setdefault("exception:" + c["op"], ("%s raised %r" % (c["op"], e), {"kind": "impl-exception", "case": describe(c)}))
            continue
        nd = len(c["grid"])
        cls = "%s:%s:%dD" % (c["op"], c["kernel"], nd)
        ctx.count(cls, key=json.dumps(describe(c), sort_keys=True), nontrivial=bool(np.any(y != 0)),
                  sample={"op": c["op"], "grid": c["grid"], "batch": c["bat"], "coord": c["coord"].tolist(), "kernel": c["kernel"],
                          "width": c["width"], "param": c["param"]})
        tol = 1e-9 if c["kernel"] == "spline" else 3e-6
        if y.shape != ref.shape or not np.allclose(y, ref, rtol=tol, atol=tol * (1 + np.abs(ref).max())):
            bad.setdefault("oracle:" + cls, ("%s differs from the documented kernel sum" % c["op"],
                                             {"kind": "oracle", "case": describe(c), "input": x.tolist().__repr__(),
                                              "observed": y.tolist().__repr__(), "expected": ref.tolist().__repr__()}))
        done.append(dict(expr=expr, case=c, cls=cls))
    # the same cases with the data array in a non-C-contiguous memory layout (closed-form oracle only)
    import random as _random
    for k, c in enumerate(cases):
        if k % 2:
            continue
        _LAYOUT[0] = _random.Random(k)
        try:
            x, y, ref, _ = run_case(sp, _random.Random(k + 1), c)
        except Exception as e:
            bad.setdefault("exception-layout:" + c["op"], ("%s raised %r on a non-contiguous input" % (c["op"], e), {"kind": "impl-exception", "case": describe(c)}))
            continue
        finally:
            _LAYOUT[0] = None
        ctx.count("layout:%s:%s" % (c["op"], "C" if x.flags["C_CONTIGUOUS"] else "non-contiguous"), key=json.dumps(describe(c), sort_keys=True) + "L",
                  nontrivial=bool(np.any(y != 0)))
        tol = 1e-9 if c["kernel"] == "spline" else 3e-6
        if y.shape != ref.shape or not np.allclose(y, ref, rtol=tol, atol=tol * (1 + np.abs(ref).max())):
            bad.setdefault("oracle-layout:" + c["op"], ("%s differs from the documented kernel sum when the data array is not C-contiguous (strides %s)" % (c["op"], list(x.strides)),
                                                        {"kind": "oracle", "case": describe(c), "input": x.tolist().__repr__(), "input_strides": list(x.strides),
                                                         "observed": y.tolist().__repr__(), "expected": ref.tolist().__repr__()}))
    # call SEQUENCES over coordinate dtypes: the same configuration first with float32 (and integer) coordinates, then with
    # float64 ones -- width / param are cast to the coordinate dtype inside the function, nothing of that may survive the call
    import random as _random
    for k, c in enumerate(cases):
        if k % 4 != 1:
            continue
        frac = dict(c)
        frac["width"] = [2.6, 1.7, 3.3][: len(c["grid"])] if not np.isscalar(c["width"]) else 2.6
        frac["param"] = ([5.1, 2.3, 7.7][: len(c["grid"])] if not np.isscalar(c["param"]) else 5.1) if c["kernel"] == "kaiser_bessel" else c["param"]
        try:
            for dt in (np.float32, np.int64):
                c32 = dict(frac, coord=frac["coord"].astype(dt))
                run_case(sp, _random.Random(k), c32)                      # result not judged (single precision / truncated coordinates)
            x, y, ref, _ = run_case(sp, _random.Random(k), frac)
        except Exception as e:
            bad.setdefault("exception-sequence:" + c["op"], ("%s raised %r in a float32 -> float64 coordinate sequence" % (c["op"], e),
                                                            {"kind": "impl-exception", "case": describe(frac)}))
            continue
        ctx.count("sequence:%s:coord-dtypes" % c["op"], key=json.dumps(describe(frac), sort_keys=True) + "S", nontrivial=bool(np.any(y != 0)))
        tol = 1e-9 if c["kernel"] == "spline" else 3e-6
        if y.shape != ref.shape or not np.allclose(y, ref, rtol=tol, atol=tol * (1 + np.abs(ref).max())):
            bad.setdefault("oracle-sequence:" + c["op"], ("%s with float64 coordinates differs from the documented kernel sum after calls with the same configuration "
                                                          "and float32 / integer coordinates" % c["op"],
                                                          {"kind": "oracle", "case": describe(frac), "input": x.tolist().__repr__(),
                                                           "observed": y.tolist().__repr__(), "expected": ref.tolist().__repr__(),
                                                           "sequence": "float32 coords, int64 coords, then float64 coords"}))
    # integer-typed coordinate arrays (grid positions handed over as int32 / int64) with fractional widths / parameters: the documented
    # kernel sum at those positions, exactly as with the same values stored as floats (defect F25 truncated width / param to integers)
    for k, c in enumerate(cases):
        if k % 4 != 2:
            continue
        frac = dict(c)
        frac["width"] = [2.6, 1.7, 3.3][: len(c["grid"])] if not np.isscalar(c["width"]) else 2.5
        frac["param"] = ([5.1, 2.34, 7.7][: len(c["grid"])] if not np.isscalar(c["param"]) else 2.34) if c["kernel"] == "kaiser_bessel" else c["param"]
        idt = [np.int64, np.int32][k % 8 // 4]
        frac["coord"] = np.rint(np.asarray(c["coord"], dtype=float)).astype(idt)
        try:
            x, y, ref, _ = run_case(sp, _random.Random(k), frac)
        except Exception as e:
            bad.setdefault("exception-intcoord:" + c["op"], ("%s raised %r with integer-typed coordinates" % (c["op"], e),
                                                            {"kind": "impl-exception", "case": describe(frac)}))
            continue
        ctx.count("intcoord:%s:%s" % (c["op"], np.dtype(idt).name), key=json.dumps(describe(frac), sort_keys=True) + "I", nontrivial=bool(np.any(y != 0)))
        tol = 1e-9 if c["kernel"] == "spline" else 3e-6
        if y.shape != ref.shape or not np.allclose(y, ref, rtol=tol, atol=tol * (1 + np.abs(ref).max())):
            bad.setdefault("oracle-intcoord:" + c["op"], ("%s with %s coordinates and fractional width / param differs from the documented kernel sum at those positions"
                                                          % (c["op"], np.dtype(idt).name),
                                                          {"kind": "oracle", "case": describe(frac), "input": x.tolist().__repr__(),
                                                           "observed": y.tolist().__repr__(), "expected": ref.tolist().__repr__()}))
    failing, corr_ok = [], True
    try:
        if tr_err or not ctx.make(["run/RunC07.vo"]):
            raise RuntimeError("run/RunC07.vo does not build")
        failing = L.run_bool_cases(ctx, "c07", HEADER, done, per_file=60, timeout=1200)
    except RuntimeError as e:
        corr_ok = False
        ctx.notes.append("correspondence could not run: %s" % str(e)[:600])
    ctx.obligation("corr:generated kernels in the modelled wrappers == implementation == N-D spec (%d cases)" % len(done),
                   corr_ok and not failing)
    ctx.obligation("oracle:implementation == documented kernel sum", not bad)
    ctx.coverage["rule"] = ("seeded cases over interpolate/gridding, 1-3 grid dims incl. length-1 axes, 0-2 batch dims, 1-2-D point sets; "
                            "coordinates fractional/integer/half-integer (ceil/floor ties)/negative/far outside/duplicated; spline orders 0-2 and "
                            "Kaiser-Bessel; scalar and per-axis, integer and fractional widths; real and complex integer-valued data; "
                            "non-trivial = non-zero output; distinct = distinct parameter tuples")
    seen = set()
    for k, (what, rep) in bad.items():
        ctx.violation("C07: " + what, rep, signature="C07:" + k.split(":")[0] + ":" + k.split(":")[1])
    for i in failing:
        cls = done[i]["cls"]
        if cls in seen:
            continue
        seen.add(cls)
        ctx.violation("C07: model (generated kernel + wrapper) and implementation disagree on %s" % cls,
                      {"kind": "correspondence", "broken": "corr:" + cls, "case": describe(done[i]["case"])},
                      found_input=False, signature="C07:corr:" + done[i]["case"]["op"])
    if (not proof_ok or tr_err or not corr_ok) and not ctx.violations:
        broken = getattr(ctx, "broken_proof", {"theorem": "translate:sigpy/interp.py" if tr_err else "corr:coq-run", "log": str(tr_err)})
        ctx.violation("proof obligation no longer checks: %s" % broken.get("theorem"), {"kind": "proof", "broken": broken},
                      found_input=False, signature="C07:proof")
    if tie_broken and not any(v["found_input"] for v in ctx.violations):
        ctx.violation("proof obligation no longer checks: %s" % tie_broken.get("theorem"), {"kind": "proof", "broken": tie_broken},
                      found_input=False, signature="C07:tie")
    ctx.trusted += ["Coq 8.16.1 kernel + vm_compute (PrimFloat for running only)",
                    "tools/translate_loops.py (kernels and _spline_kernel) and LoopIR.exec as the reading of the numba loops",
                    "hand model of the interpolate/gridding wrappers (coq/model/Interp.v), tied by this correspondence and, since "
                    "tools/translate_interpw.py, by gen/Gen_interpw.v: the wrappers, their defaults, the dispatch tables and "
                    "_kaiser_bessel_kernel regenerated from the source text on every run with lemmas gen_<f>_ok (generated == hand model); "
                    "trusted there: the translator's reading of the accepted Python fragment (notes/translate_interpw.md)",
                    "Kaiser-Bessel kernel values are measured on the implementation (the I0 polynomial is outside the model)"]
    ctx.validated_only += [                           "Kaiser-Bessel polynomial vs the true I0 (compared with numpy.i0 to 3e-6 in the oracle)"]


def replay(obj):
    sp = core.import_sigpy()
    import random
    c = dict(obj["case"]); c["coord"] = np.array(c["coord"], dtype=np.float64)
    x, y, ref, _ = run_case(sp, random.Random(0), c)
    ok = y.shape == ref.shape and np.allclose(y, ref, rtol=3e-6, atol=3e-6)
    print("observed", y.tolist(), "\nexpected", ref.tolist(), "\nagree", ok)
    return 0 if ok else 1
