"""Run side of the library-backed leaf family Wavelet / InverseWavelet (C01 / C03 / C04 gap closure).

model/OpaqueWavelet.orc_wavelet (what sp.linop.Wavelet / InverseWavelet hand to sigpy.wavelet.fwt / iwt, written
with the C10 function model) is evaluated in Coq by vm_compute and compared EXACTLY with the output of the real
class.  Conventions of props/C10.py: every float is relabelled injectively by its IEEE bit pattern (+0.0 = 0), the
model is pure data movement around the PyWavelets calls, whose results are recorded from the implementation's own
calls (Recorder wraps pywt.wavedecn / waverecn inside this process) and passed to the model as data keyed by the
arguments PyWavelets ACTUALLY received (axes, wavelet name code, level, array shape).  The recorder is active during
__init__ as well, so get_wavelet_shape's call (which fixes the advertised coefficient shape and coeff_slices) is part
of the environment.

    cases(sp, rng, n) -> list of dicts {"expr": <Coq bool>, "info": {...}} for coqlit.run_bool_cases
    selftest()        -> runs ~60 random leaves on /repo, prints the number of disagreements (must be 0)
"""
import sys
import time
import warnings
import numpy as np
from vlib import core, coqlit as L, linser
from props.C10 import Recorder, Labeler, rand_array, EXPECTED_FAMILIES

HEADER = """From Coq Require Import ZArith List Bool.
From SV Require Import lib.Scalar lib.NdArray model.Wavelet model.Linop model.OpaqueWavelet run.RunC10 run.RunOpaqueWavelet.
Import ListNotations.
Local Open Scope Z_scope.
"""

MAKE_TARGETS = ["run/RunOpaqueWavelet.vo"]
NONORTH = ["bior2.2", "rbio1.3", "bior1.3"]          # accepted by the classes, outside the proven family
MAX_CELLS = 1500


def wkey(ser, axes, wave, level, shape):
    """arguments of one PyWavelets call as the Coq tuple (axes, wave code, level, shape)"""
    if not isinstance(wave, str):
        wave = getattr(wave, "name", str(wave))
    ax = None if axes is None else [int(a) for a in axes]
    return "(%s, %d, %s, %s)" % (L.zlist_opt(ax), ser.code("wave", wave), L.zopt(level), L.zlist(list(shape)))


def call_lit(key, ash, a, rsh, r):
    return "(%s, (%s, %s), (%s, %s))" % (key, L.zlist(list(ash)), L.zzlist(a), L.zlist(list(rsh)), L.zzlist(r))


def gen_params(rng):
    nd = rng.choice([1, 1, 2, 2, 2, 3])
    cap = {1: 14, 2: 7, 3: 4}[nd]
    shape = [rng.choice([1, 1, 2, 3, rng.randint(1, cap), 2 * rng.randint(1, max(1, cap // 2)) - rng.choice([0, 1])])
             for _ in range(nd)]
    shape = [max(1, s) for s in shape]
    u = rng.random()
    if u < 0.25:
        axes = None
    else:
        sub = rng.sample(range(nd), rng.randint(1, nd))       # batch axes = the axes left out
        if rng.random() < 0.5:
            sub = sorted(sub)                                  # else keep the random (possibly reversed) order
        axes = tuple(a if rng.random() < 0.5 else a - nd for a in sub)
    level = rng.choice([None, None, 0, 1, 1, 2, 3])
    r = rng.random()
    if r < 0.08:
        wave = rng.choice(NONORTH)
    elif r < 0.55:
        wave = rng.choice(["haar", "db1", "db2", "db3", "db4", "sym2", "sym4", "coif1"])
    else:
        wave = rng.choice(EXPECTED_FAMILIES)
    dtype = rng.choice(["float64", "complex128", "complex128", "float32", "complex64"])
    kind = rng.choice(["Wavelet", "InverseWavelet", "Wavelet.H", "InverseWavelet.H"])
    return dict(kind=kind, shape=shape, axes=axes, level=level, wave=wave, dtype=dtype, seed=rng.randrange(2 ** 31))


def corpus():
    return [
        dict(kind="Wavelet", shape=[5], axes=None, level=None, wave="db4", dtype="complex128", seed=1),
        dict(kind="InverseWavelet", shape=[5], axes=None, level=None, wave="db4", dtype="complex128", seed=2),
        dict(kind="Wavelet", shape=[3, 5], axes=(-1,), level=2, wave="db2", dtype="float64", seed=3),
        dict(kind="InverseWavelet", shape=[3, 5], axes=(1, -2), level=1, wave="haar", dtype="float64", seed=4),
        dict(kind="Wavelet.H", shape=[7, 1, 3], axes=(-1, 0), level=3, wave="haar", dtype="complex128", seed=5),
        dict(kind="InverseWavelet.H", shape=[1, 4], axes=(0,), level=0, wave="sym3", dtype="float32", seed=6),
        dict(kind="Wavelet", shape=[1], axes=None, level=None, wave="haar", dtype="float64", seed=7),
        dict(kind="InverseWavelet", shape=[3], axes=(-1,), level=1, wave="db38", dtype="complex64", seed=8),
        dict(kind="Wavelet", shape=[6, 3], axes=(0,), level=1, wave="bior2.2", dtype="float64", seed=9),
    ]


def build(sp, p):
    """Constructs the leaf with the recorder on. Returns (leaf, parent or None, init wavedecn record)."""
    axes, wave, level, shape = p["axes"], p["wave"], p["level"], p["shape"]
    base = p["kind"].split(".")[0]
    cls = getattr(sp.linop, base)
    with Recorder() as rec:
        A = cls(shape, axes=axes, wave_name=wave, level=level)
        init = rec.dec
    if not p["kind"].endswith(".H"):
        return A, None, init
    with Recorder() as rec:
        AH = A.H                       # _adjoint_linop constructs the partner class (get_wavelet_shape again)
        init_h = rec.dec
    return AH, A, init_h


def one_case(sp, p):
    """Runs one leaf on the implementation and builds the Coq check. Returns a dict or None (too large)."""
    import pywt
    r = np.random.RandomState(p["seed"])
    with warnings.catch_warnings():
        warnings.simplefilter("ignore")
        A, parent, init = build(sp, p)
        name = type(A).__name__
        x = rand_array(r, list(A.ishape), p["dtype"])
        with Recorder() as rec:
            y = A(x)
            dec, rc = rec.dec, rec.rec
    ser = linser.Serializer()
    term = ser.term(A)
    bits = Labeler()
    # the wavedecn call of __init__ (through get_wavelet_shape): arguments and resulting packed shape
    i_axes, i_level = init["kw"].get("axes"), init["kw"].get("level")
    i_wave = init["args"][0]
    packed0, slices0 = pywt.coeffs_to_array(init["out"], axes=i_axes)
    ck = wkey(ser, i_axes, i_wave, i_level, init["arg"].shape)
    csh = list(packed0.shape)
    if name == "Wavelet":
        if dec is None or rc is not None:
            raise RuntimeError("Wavelet._apply did not call exactly wavedecn")
        packed, _ = pywt.coeffs_to_array(dec["out"], axes=dec["kw"].get("axes"))
        cells = x.size + 2 * dec["arg"].size + 2 * packed.size + y.size
        if cells > MAX_CELLS:
            return None
        mode = dec["kw"].get("mode")
        cW = call_lit(wkey(ser, dec["kw"].get("axes"), dec["args"][0], dec["kw"].get("level"), dec["arg"].shape),
                      dec["arg"].shape, bits(dec["arg"]), packed.shape, bits(packed))
        cWr, seen = "no_call", "[]"
    else:
        if rc is None or dec is not None:
            raise RuntimeError("InverseWavelet._apply did not call exactly waverecn")
        seen_arr, _ = pywt.coeffs_to_array(rc["coeffs"], axes=rc["kw"].get("axes"))
        cells = 3 * x.size + 2 * rc["out"].size + y.size
        if cells > MAX_CELLS:
            return None
        mode = rc["kw"].get("mode")
        # waverecn gets no level: it is fixed by coeff_slices, i.e. by the level __init__ gave to wavedecn; the
        # number of detail levels that reached waverecn must be the one of that call
        if len(rc["coeffs"]) != len(init["out"]):
            raise RuntimeError("coefficient list of waverecn has %d levels, __init__ computed %d"
                               % (len(rc["coeffs"]) - 1, len(init["out"]) - 1))
        cWr = call_lit(wkey(ser, rc["kw"].get("axes"), rc["args"][0], i_level, rc["out"].shape),
                       x.shape, bits(x), rc["out"].shape, bits(rc["out"]))
        cW = "no_call"
        seen = L.zzlist(bits(seen_arr)) if seen_arr.shape == x.shape else "[(1, 1)]"
    orth_codes = [c for (k, v), c in ser.params.items() if k == "wave" and v in EXPECTED_FAMILIES]
    expect_ok = p["wave"] in EXPECTED_FAMILIES
    expr = "chk_opaque_wavelet %s %s %s %s %s %s %s %s %s %s %s" % (
        term, L.zlist(orth_codes), L.boolean(expect_ok), ck, L.zlist(csh), cW, cWr, seen,
        L.zzlist(bits(x)), L.zlist(list(np.shape(y))), L.zzlist(bits(y)))
    if mode != "zero":
        expr = "false (* PyWavelets called with mode=%r *)" % (mode,)
    info = dict(params={k: (list(v) if isinstance(v, tuple) else v) for k, v in p.items()}, term=term,
                oshape=list(A.oshape), ishape=list(A.ishape), cells=int(cells))
    out = [dict(expr=expr, info=info)]
    if parent is not None:
        ser2 = linser.Serializer()
        tp = ser2.term(parent)
        th = ser2.term(A)
        out.append(dict(expr="chk_opaque_wavelet_adj %s %s" % (tp, th), info=dict(info, which="adjoint-term")))
    return out


def cases(sp, rng, n):
    """n random leaves (after the fixed corpus) of the family; every element has key 'expr' (+ 'info')."""
    out = []
    plist = corpus()
    tries = 0
    while len(plist) < n + len(corpus()) and tries < 50 * n + 100:
        plist.append(gen_params(rng))
        tries += 1
    for p in plist:
        c = safe_case(sp, p)
        if c is None:                  # arrays too large for a literal: draw another
            for _ in range(20):
                c = safe_case(sp, gen_params(rng))
                if c is not None:
                    break
        if c is not None:
            out += c
    return out


def safe_case(sp, p):
    """one_case, with an exception of the implementation (a valid leaf that raises) reported as a failing check"""
    try:
        return one_case(sp, p)
    except Exception as e:            # noqa: BLE001 - every failure of the class on valid parameters is a disagreement
        msg = "".join(ch if ch.isalnum() or ch in " _-.,:[]<>=" else " " for ch in repr(e))[:200]
        return [dict(expr="false (* implementation raised: %s *)" % msg,
                     info=dict(params={k: (list(v) if isinstance(v, tuple) else v) for k, v in p.items()},
                               cells=0, error=repr(e)))]


def selftest(n=60, seed=20261001):
    import random
    t0 = time.time()
    ctx = core.Ctx("opaque_wavelet", "quick", seed)
    sp = core.import_sigpy()
    if not ctx.make(MAKE_TARGETS):
        print("make failed:", ctx.notes[-1:])
        return 2
    rng = random.Random(seed)
    cs = cases(sp, rng, n)
    t1 = time.time()
    failing = L.run_bool_cases(ctx, "opaque_wavelet", HEADER, cs, per_file=20)
    hist = {}
    for c in cs:
        k = c["info"].get("which", c["info"]["params"]["kind"])
        hist[k] = hist.get(k, 0) + 1
    axes_kinds = sorted({str(c["info"]["params"]["axes"]) for c in cs})
    print("opaque_wavelet selftest: %d checks (%s); %d distinct axes arguments; levels %s; wavelets %d"
          % (len(cs), ", ".join("%s %d" % kv for kv in sorted(hist.items())), len(axes_kinds),
             sorted({str(c["info"]["params"]["level"]) for c in cs}),
             len({c["info"]["params"]["wave"] for c in cs})))
    for i in failing:
        print("DISAGREE", cs[i]["info"])
    print("disagreements: %d   (implementation %.1fs, coq %.1fs)" % (len(failing), t1 - t0, time.time() - t1))
    return 1 if failing else 0


if __name__ == "__main__":
    sys.exit(selftest())
