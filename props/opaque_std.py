"""opaque_std — run side of the ASSEMBLED library-backed leaves (coq/model/OpaqueStd.v, coq/run/RunOpaqueStd.v).

`env_literals(S, sp)` builds, for a `vlib.linser.Serializer` S that has serialised an operator tree (and possibly its .H / .N),
the literal environment `mkRunEnv ...` of coq/run/RunOpaqueStd.v from which `orc_std_run` — the float instance of the ONE
standard oracle `orc_std` the theorems of Prop_C01 / C03 / C04 speak about — denotes every library-backed leaf of the tree
through its FUNCTION MODEL:

    FFT / IFFT                twiddle rows of the axis lengths                                   (props/C05.tw_table)
    NUFFT / NUFFTAdjoint      numpy.pi, the implementation's beta and Kaiser-Bessel values at the bit-exact kernel arguments,
                              numpy.sinh at the apodisation arguments, twiddle rows of the oversampled lengths
                              (props/C06.capture_beta / sinh_table, the formulas of C06.kb_table)
    Interpolate / Gridding    coordinate arrays by tag, kernel / width / param codes, Kaiser-Bessel values
                              (props/C07.kb_table, the conventions of props/opaque_interp.env_lits)
    Convolve*                 nothing (the model is exact over the captured arrays)
    Wavelet / InverseWavelet  PyWavelets as data: for the (axes, wavelet, level, padded shape) of the leaf, the packed shape
                              and the real matrices of coeffs_to_array . wavedecn(mode='zero') and of
                              waverecn(mode='zero') . array_to_coeffs — measured on PyWavelets ITSELF, not on the sigpy class,
                              so the padding / cropping / axes / level / mode passing of the class is judged by the model

A leaf that the validity predicate of the theorems rejects (`rejected`: NUFFT parameters for which beta or the apodisation
argument leave the reals, a non-orthogonal wavelet, ...) is passed as a dense matrix measured on the implementation — the only
remaining use of the old path; the Coq checker refuses a matrix for a leaf the predicate accepts.

    tree_expr(S, sp, T, A, x, y)   -> (Coq boolean, info) : den T x == y with orc := orc_std_run (or exact, see below)
    HEADER                         -> imports for coqlit.run_bool_cases
"""
import math
import numpy as np
from vlib import coqlit as L, linser

HEADER = """From Coq Require Import ZArith List Bool PrimFloat.
From SV Require Import lib.Scalar lib.NdArray lib.FloatRun model.Linop run.RunLinop run.RunOpaqueStd.
Import ListNotations.
Local Open Scope Z_scope.
"""

MAKE_TARGETS = ["run/RunOpaqueStd.vo"]
CONV = ("ConvolveData", "ConvolveDataAdjoint", "ConvolveFilter", "ConvolveFilterAdjoint")
RTOL = 2.0 ** -30          # relative to the largest entry: trees without NUFFT leaves (rounding of DFT sums vs pocketfft)
RTOL_NUFFT = 2.0 ** -20    # as props/C06.py and props/opaque_nufft.py (1e-6)
EST_SPLIT = 30.0           # estimated vm_compute seconds (tree_cost) above which a tree is checked in split mode


def cat(lits):
    """concatenation of Coq list literals"""
    lits = [l for l in lits if l not in ("[]", "")]
    if not lits:
        return "[]"
    return lits[0] if len(lits) == 1 else "(" + " ++ ".join(lits) + ")"


def walk_leaves(A):
    """library-backed leaf objects of an operator tree, pre-order with multiplicity (= RunOpaqueStd.opaque_leaves)"""
    n = type(A).__name__
    if n == "Conj":
        return walk_leaves(A.A)
    if n in ("Add", "Compose", "Hstack", "Vstack", "Diag"):
        out = []
        for a in A.linops:
            out += walk_leaves(a)
        return out
    return [A] if n in linser.OPAQUE else []


# ---------------------------------------------------------------- cost of evaluating den by vm_compute
def leaf_cost(A):
    """rough vm_compute seconds of ONE evaluation of the function model of a leaf (calibrated on run/RunOpaqueStd.v)"""
    n = type(A).__name__
    sh = leaf_shape(A)
    if n in ("FFT", "IFFT"):
        return 1e-4 * int(np.prod(sh)) * sum(sh)
    if n in ("Interpolate", "Gridding", "NUFFT", "NUFFTAdjoint"):
        nd = int(A.coord.shape[-1])
        bat = int(np.prod(sh[:-nd])) if nd <= len(sh) else 1
        npts = int(np.prod(A.coord.shape[:-1]))
        ws = [A.width] * nd if np.isscalar(A.width) else list(np.ravel(A.width))[-nd:]
        c = 1e-4 * bat * npts * int(np.prod([math.ceil(float(w)) + 1 for w in ws]))
        if n.startswith("NUFFT"):
            osn = [math.ceil(float(A.oversamp) * m) for m in sh[-nd:]]
            c += 2.5e-3 * bat * int(np.prod(osn)) * sum(osn)
        return c
    if n in ("Wavelet", "InverseWavelet"):
        return 2e-5 * int(np.prod(A.ishape)) * int(np.prod(A.oshape))
    return 2e-5 * int(np.prod(A.oshape)) * int(np.prod(A.ishape))


def tree_cost(A, mult=1):
    """estimated vm_compute seconds spent in the library-backed leaves of `den A`: model/Linop.den re-evaluates an operand once
    per output index of every enclosing Conj / Add / Hstack / Vstack / Diag (only Compose tabulates its stages), so the leaf cost
    is multiplied by the output sizes of those ancestors"""
    n = type(A).__name__
    if n == "Conj":
        return tree_cost(A.A, mult * int(np.prod(A.oshape)))
    if n == "Compose":
        return sum(tree_cost(a, mult) for a in A.linops)
    if n in ("Add", "Hstack", "Vstack", "Diag"):
        return sum(tree_cost(a, mult * int(np.prod(A.oshape))) for a in A.linops)
    return leaf_cost(A) * mult if n in linser.OPAQUE else 0.0


# ---------------------------------------------------------------- which leaves the predicate accepts (python mirror)
def nufft_real_branch(grid, oversamp, width):
    """RunOpaqueStd.std_leaf_ok for NUFFT leaves = model/OpaqueNufft.nufft_real_okb (same float expressions)"""
    r = ((width / oversamp) * (oversamp - 0.5)) ** 2 - 0.8
    if r < 0:
        return False
    beta = np.pi * r ** 0.5
    for i in grid:
        os_i = math.ceil(oversamp * i)
        for k in range(i):
            if beta ** 2 - (np.pi * width * (k - i // 2) / os_i) ** 2 < 0:
                return False
    return True


def leaf_shape(A):
    n = type(A).__name__
    return list(A.ishape) if n in ("FFT", "IFFT", "Interpolate", "NUFFT", "Wavelet", "ConvolveData", "ConvolveFilter") else list(A.oshape)


def rejected(A):
    """True iff the leaf goes through the dense fallback (mirror of `negb (std_leaf_ok e L)` for operators that ran)"""
    from props.C10 import EXPECTED_FAMILIES
    n = type(A).__name__
    if n in ("NUFFT", "NUFFTAdjoint"):
        nd = int(A.coord.shape[-1]) if np.ndim(A.coord) >= 1 else 0
        sh = leaf_shape(A)
        if not (1 <= nd <= 3 and nd <= len(sh)) or float(A.oversamp) <= 0:
            return True
        return not nufft_real_branch(sh[-nd:], float(A.oversamp), float(A.width))
    if n in ("Wavelet", "InverseWavelet"):
        nd = len(leaf_shape(A))
        ax = A.axes
        if ax is not None:
            ax = [int(a) for a in ax]
            if not ax or any(not (-nd <= a < nd) for a in ax) or len({a % nd for a in ax}) != len(ax):
                return True
        if A.level is not None and A.level < 0:
            return True
        return A.wave_name not in EXPECTED_FAMILIES
    if n in ("Interpolate", "Gridding"):
        nd = int(A.coord.shape[-1])
        ok = 1 <= nd <= 3 and nd <= len(leaf_shape(A))
        for v in (A.width, A.param):
            if not np.isscalar(v) and len(np.ravel(v)) < nd:
                ok = False
        return not ok
    if n in ("FFT", "IFFT"):
        nd = len(A.ishape)
        if A.center:
            return nd == 0
        return A.axes is not None and any(not (-nd <= int(a) < nd) for a in A.axes)
    return False       # convolution classes: every constructed operator is valid (positive strides, non-empty arrays)


# ---------------------------------------------------------------- per-family environment pieces
_beta_cache = {}


def beta_of(sp, oversamp, width, adjoint):
    from props import C06
    key = (float(oversamp), float(width), type(width).__name__)
    if key not in _beta_cache:
        _beta_cache[key] = C06.capture_beta(sp, oversamp, width)
    bi, bg = _beta_cache[key]
    return bg if adjoint else bi


def kb_nufft(sp, A):
    """((t, beta), K(t, beta)) at the bit-exact kernel arguments of this leaf (formulas of props/C06.kb_table)"""
    shape = leaf_shape(A)
    beta = beta_of(sp, A.oversamp, A.width, type(A).__name__ == "NUFFTAdjoint")
    scoord = sp.fourier._scale_coord(np.asarray(A.coord), shape, A.oversamp)
    kb = sp.interp._kaiser_bessel_kernel
    w = np.float64(A.width)
    seen, items = set(), []
    for k in np.asarray(scoord).reshape(-1):
        k = np.float64(k)
        x0 = int(np.ceil(k - w / 2)); x1 = int(np.floor(k + w / 2))
        for x in range(x0, x1 + 1):
            t = float((np.float64(x) - k) / (w / 2))
            if t in seen:
                continue
            seen.add(t)
            items.append("((%s, %s), %s)" % (L.flt(t), L.flt(beta), L.flt(float(kb(t, np.float64(beta))))))
    return "[" + "; ".join(items) + "]", beta


def wavelet_record(S, A):
    """one `wrec` of RunOpaqueStd: key (axes, code, level, padded shape), packed shape, matrices of W and Wr from PyWavelets"""
    import pywt
    sh = leaf_shape(A)
    zsh = [((i + 1) // 2) * 2 for i in sh]
    axes = None if A.axes is None else [int(a) for a in A.axes]
    kw = dict(mode="zero", axes=axes)
    coeffs = pywt.wavedecn(np.zeros(zsh), A.wave_name, level=A.level, **kw)
    packed, slices = pywt.coeffs_to_array(coeffs, axes=axes)
    csh = list(packed.shape)
    nz, nc = int(np.prod(zsh)), int(np.prod(csh))
    MW = np.zeros((nc, nz))
    for j in range(nz):
        e = np.zeros(nz); e[j] = 1.0
        MW[:, j] = pywt.coeffs_to_array(pywt.wavedecn(e.reshape(zsh), A.wave_name, level=A.level, **kw), axes=axes)[0].ravel()
    MWr = np.zeros((nz, nc))
    for j in range(nc):
        e = np.zeros(nc); e[j] = 1.0
        r = pywt.waverecn(pywt.array_to_coeffs(e.reshape(csh), slices, output_format="wavedecn"), A.wave_name, **kw)
        if list(r.shape) != zsh:
            raise RuntimeError("waverecn returned shape %s for padded shape %s" % (list(r.shape), zsh))
        MWr[:, j] = r.ravel()
    key = "(%s, %d, %s, %s)" % (L.zlist_opt(axes), S.code("wave", A.wave_name), L.zopt(A.level), L.zlist(zsh))
    rows = lambda M: "[" + "; ".join(L.flist(r) for r in M) + "]"
    return "(%s, (%s, (%s, %s)))" % (key, L.zlist(csh), rows(MW), rows(MWr)), key


def env_literals(S, sp, ops=None):
    """Combined environment for the library-backed leaves serialised by S (or for the leaf objects `ops`).
    Returns dict(env=<mkRunEnv ...>, mats=<fallback matrices>, rejected_terms=set, has_nufft=bool, families=set)."""
    from props import C05, C06, C07
    from props.C10 import EXPECTED_FAMILIES
    leaves, seen = [], set()
    n0 = len(S.opaque)
    pairs = list(S.opaque) if ops is None else [(S.term(a), a) for a in ops]
    del S.opaque[n0:]                  # S.term on a leaf re-registers it: keep the Serializer's own list as it was
    for t, A in pairs:
        if t not in seen:
            seen.add(t)
            leaves.append((t, A))
    cache = S.__dict__.setdefault("_std_cache", {})
    lengths, kbs, sinhs, wavs, wkeys, mats, rej, fams = [], [], [], [], set(), [], set(), set()
    has_nufft = False
    for t, A in leaves:
        n = type(A).__name__
        fams.add("conv" if n in CONV else n)
        if rejected(A):
            rej.add(t)
            mats.append(dense_lit(S, t, A))
            continue
        if n in ("FFT", "IFFT"):
            lengths += list(A.ishape)
        elif n in ("NUFFT", "NUFFTAdjoint"):
            has_nufft = True
            if ("nufft", t) not in cache:
                sh = leaf_shape(A)
                nd = int(A.coord.shape[-1])
                kbl, beta = kb_nufft(sp, A)
                cache[("nufft", t)] = (kbl, C06.sinh_table(sh[-nd:], float(A.oversamp), float(A.width), beta),
                                       [math.ceil(A.oversamp * m) for m in sh[-nd:]])
            kbl, shl, osl = cache[("nufft", t)]
            kbs.append(kbl); sinhs.append(shl); lengths += osl
        elif n in ("Interpolate", "Gridding"):
            if A.kernel == "kaiser_bessel":
                if ("interp", t) not in cache:
                    sh = leaf_shape(A)
                    nd = int(A.coord.shape[-1])
                    c = dict(kernel=A.kernel, grid=sh[-nd:], width=A.width, param=A.param, pts=list(A.coord.shape[:-1]),
                             coord=np.asarray(A.coord))
                    cache[("interp", t)] = C07.kb_table(sp, c)
                kbs.append(cache[("interp", t)])
        elif n in ("Wavelet", "InverseWavelet"):
            if ("wav", t) not in cache:
                cache[("wav", t)] = wavelet_record(S, A)
            rec, key = cache[("wav", t)]
            if key not in wkeys:
                wkeys.add(key)
                wavs.append(rec)
    coords = "[" + "; ".join("(%d, (%s, %s))" % (tg, L.zlist(a.shape), L.flist(np.real(np.ravel(a)).astype(np.float64)))
                             for tg, a in S.arrays.values() if not np.iscomplexobj(a)) + "]"
    kerns, wps, orth = [], [], []
    for (kind, v), code in S.params.items():
        if kind == "kernel":
            kerns.append("(%d, %d)" % (code, 1 if v == "spline" else 2))
        elif kind in ("width", "param", "oversamp", "nwidth"):
            if isinstance(v, tuple):
                wps.append("(%d, (false, %s))" % (code, L.flist(list(v[1:]))))
            else:
                wps.append("(%d, (true, %s))" % (code, L.flist([v])))
        elif kind == "wave" and v in EXPECTED_FAMILIES:
            orth.append(code)
    env = "(mkRunEnv %s %s %s %s %s %s %s %s %s)" % (
        C05.tw_table(lengths) if lengths else "[]", L.flt(float(np.pi)), cat(kbs), cat(sinhs), coords,
        "[" + "; ".join(kerns) + "]", "[" + "; ".join(wps) + "]", "[" + "; ".join(wavs) + "]", L.zlist(orth))
    return dict(env=env, mats="[" + "; ".join(mats) + "]", rejected_terms=rej, has_nufft=has_nufft, families=fams)


def dense_lit(S, t, A):
    cache = S.__dict__.setdefault("_std_cache", {})
    if ("mat", t) not in cache:
        M = linser.dense(A)
        cache[("mat", t)] = "(%s, %s)" % (t, "[" + "; ".join(L.cflist(r) for r in M) + "]")
    return cache[("mat", t)]


def tree_expr(S, sp, T, A, x, y, rng=None):
    """Coq boolean `den T x == y` with the library-backed leaves denoted by the standard oracle.
    Exact (Gaussian integers, orc_conv) when every captured array / scalar is an integer and every library-backed leaf of A is a
    convolution; hardware floats with the literal environment otherwise.  A tree whose evaluation by vm_compute would be
    prohibitive (tree_cost > EST_SPLIT; needs `rng`) is checked in split mode (RunOpaqueStd.chk_apply_split): every accepted leaf
    against its function model on an input of its own + the tree with dense leaves.  Returns (expr, info)."""
    leaves = walk_leaves(A)
    names = {type(a).__name__ for a in leaves}
    if names and names <= set(CONV) and S.all_integer():
        arrs, scals = S.env_G()
        return ("chk_apply_std_G %s %s %s %s %s" % (T, arrs, scals, linser.gz_list(x), linser.gz_list(y)),
                dict(mode="exact-conv", n_leaves=len(leaves), n_fallback=0))
    E = env_literals(S, sp, ops=leaves)
    nfb = sum(1 for a in leaves if rejected(a))
    est = tree_cost(A)
    arrs, scals = S.env_F()
    rtol = RTOL_NUFFT if E["has_nufft"] else RTOL
    # absolute floor: trees such as A - Conj(Conj(A)) cancel to rounding noise; the data are integers of magnitude <= ~5 and the
    # operators have modest gain, so rtol * 64 * |x|_max is far below anything a defect produces
    atol = rtol * 64.0 * max(1.0, float(np.max(np.abs(x))) if np.size(x) else 1.0)
    if est > EST_SPLIT and rng is not None:
        from vlib import lingen
        n0 = len(S.opaque)
        seen, mats, lcs = set(), [], []
        for a in leaves:
            t = S.term(a)
            if t in seen:
                continue
            seen.add(t)
            mats.append(dense_lit(S, t, a))
            if not rejected(a):
                xl = lingen.gint(rng, list(a.ishape), True, -4, 4).astype(np.complex128)
                yl = np.asarray(a(xl.copy()))
                lcs.append("(%s, (%s, %s))" % (t, L.cflist(np.ravel(xl)), L.cflist(np.ravel(yl))))
        del S.opaque[n0:]
        return ("chk_apply_split_a (* est %.1f *) %s %s %s %s %s %s %s %s %d %s %s" % (
                    est, L.flt(atol), L.flt(rtol), E["env"], T, arrs, scals, "[" + "; ".join(mats) + "]", "[" + "; ".join(lcs) + "]", nfb,
                    L.cflist(np.ravel(x)), L.cflist(np.ravel(y))),
                dict(mode="split", n_leaves=len(leaves), n_fallback=nfb, families=sorted(E["families"]), est_cost=est))
    return ("chk_apply_std_a (* est %.1f *) %s %s %s %s %s %s %s %d %s %s" % (est, L.flt(atol), L.flt(rtol), E["env"], T, arrs, scals, E["mats"], nfb,
                                                        L.cflist(np.ravel(x)), L.cflist(np.ravel(y))),
            dict(mode="float", n_leaves=len(leaves), n_fallback=nfb, families=sorted(E["families"]), est_cost=est))
