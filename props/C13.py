"""C13 — proximal gradient (ISTA / FISTA) and PDHG behave as their theory guarantees.

Proof: coq/props/Prop_C13.v (descent, O(1/k), O(1/k^2) with the coded t-sequence, saddle point <-> fixed
point of the coded PDHG step, Fejer monotonicity in the skewed pairing (x_k, u_{k+1}) of the M-metric),
over an abstract real inner-product space, about the SAME Gallina terms (coq/model/ProxGrad.v) that are
run on floats here.
Tie: trajectory correspondence — every iterate of sigpy.alg.GradientMethod (x, z, t, resid) and of
sigpy.alg.PrimalDualHybridGradient (x, u, x_ext, tau, sigma, resid) on small composite problems
min 1/2||Ax-y||^2 + g(x), g in {0, lam*l1, lam/2*l2^2, box}, real and complex (interleaved real embedding),
is compared with the model evaluated inside Coq on binary64 floats (|d| <= 1e-9*scale).
Oracle (implementation side, numpy): objective monotone / quantitative descent for alpha <= 1/L, O(1/k) and
O(1/k^2) bounds against an accurately computed minimiser, saddle point is a fixed point of PDHG, M-metric in
the skewed pairing non-increasing, in-place update of the caller's x / u, and a plain numpy re-statement of
the documented update rules (gives expected/observed when model and implementation disagree).
Aliasing gradients: GradientMethod is also run on f = 1/2||x-y||^2 with a gradf that returns its argument, a view of it
(lambda x: x, linop Identity.N / Reshape.N / Transpose.N, R.H*R) or a persistent caller-owned buffer; the trajectory must be
the same; with an incrementally maintained gradient buffer a write by update() corrupts the later gradients and shows in
the trajectory (a write into a buffer that gradf overwrites completely is only counted).
Not alarms: the same-time pairing (x_k,u_k) is not monotone (counted in the evidence only); the accelerated
branch writes `tau *= theta` / `sigma /= theta` into a caller-supplied step ARRAY (recorded only).
"""
import json
import numpy as np
from vlib import core, coqlit as L

HEADER = """From Coq Require Import ZArith List Bool PrimFloat.
From SV Require Import lib.Scalar lib.FloatRun model.ProxGrad run.RunC13.
Import ListNotations.
"""

RTOL = 1e-9


# ---------------------------------------------------------------- problem data
def cvec(rs, n, cplx):
    v = rs.randn(n)
    return v + 1j * rs.randn(n) if cplx else v


def gen_matrix(rs, m, n, cplx, kind):
    A = rs.randn(m, n) + (1j * rs.randn(m, n) if cplx else 0)
    if kind == "ill":                          # singular values 1 .. 1e-3
        U, s, Vh = np.linalg.svd(A, full_matrices=False)
        k = len(s)
        s = np.logspace(0, -3, k) if k > 1 else np.ones(1)
        A = (U * s) @ Vh
    elif kind == "big":
        A = A * 7.0
    elif kind == "small":
        A = A * 0.05
    elif kind == "sparse":
        A = A * (rs.rand(m, n) < 0.5)
        if not np.any(A):
            A[0, 0] = 1.0
    return A


def build(case):
    """concrete arrays of a case (deterministic from the case dict)"""
    if "A" in case and not isinstance(case["A"], str):      # replay dict with stored data
        def arr(v):
            a = np.array(v, dtype=float)
            return a[..., 0] + 1j * a[..., 1] if case["cplx"] else a[..., 0]
        return arr(case["A"]), arr(case["y"]), arr(case["x0"]), (arr(case["u0"]) if "u0" in case else None)
    rs = np.random.RandomState(case["seed"])
    m, n, cplx = case["m"], case["n"], case["cplx"]
    if case["akind"] == "identity":            # f = 1/2||x - y||^2 (aliasing-gradient cases): gradf(x) = x - y, L = 1
        A = np.eye(n, dtype=complex if cplx else float)
        y = cvec(rs, n, cplx) * (0.0 if case.get("yzero", True) else 1.0)
        x0 = cvec(rs, n, cplx) * case["x0scale"]
        return A, y, x0, np.zeros(n, dtype=A.dtype)
    A = gen_matrix(rs, m, n, cplx, case["akind"])
    y = cvec(rs, m, cplx)
    x0 = cvec(rs, n, cplx) * case["x0scale"]
    u0 = cvec(rs, m, cplx) * case.get("u0scale", 0.0)
    if not cplx:
        A = A.astype(float)
    return A, y, x0, u0


def lay2d(case, v):
    """the caller's iterate as a genuinely 2-D array in a memory layout that cannot be flattened without a copy
    (case["layout2d"] = dict(shape, kind)); values in C order are those of the 1-D vector v"""
    lay = case.get("layout2d")
    if not lay:
        return v.copy(), None
    sh = tuple(lay["shape"])
    v2 = v.reshape(sh)
    if lay["kind"] == "F":
        return np.asfortranarray(v2.copy()), sh
    if lay["kind"] == "T-view":
        return np.ascontiguousarray(v2.T).T, sh
    vol = np.full((sh[0], 3, sh[1]), 7.5, dtype=v.dtype)
    w = vol[:, 1, :]
    w[...] = v2
    return w, sh


def flat(v):
    return np.array(v, copy=True, order="C").reshape(-1)


def store(a):
    a = np.asarray(a)
    return np.stack([a.real, a.imag], axis=-1).tolist()


def lipschitz(A):
    return float(np.linalg.eigvalsh(A.conj().T @ A)[-1])


# ---------------------------------------------------------------- g and its prox (numpy, the documented formulas)
def g_val(case, x):
    g, lam = case["g"], case.get("lam", 0.0)
    if g in ("none", "noop"):
        return 0.0
    if g == "l1":
        return lam * float(np.sum(np.abs(x)))
    if g == "l2":
        return 0.5 * lam * float(np.vdot(x, x).real)
    if g == "box":
        lo, hi = case["box"]
        return 0.0 if np.all(x >= lo) and np.all(x <= hi) else np.inf
    raise ValueError(g)


def np_prox(case, a, v):
    """prox_{a g}(v); a scalar or positive array (diagonal metric)"""
    g, lam = case["g"], case.get("lam", 0.0)
    if g in ("none", "noop"):
        return v.copy()
    if g == "l1":
        mag = np.abs(v)
        with np.errstate(divide="ignore", invalid="ignore"):
            ph = np.where(mag == 0, 0, v / np.where(mag == 0, 1, mag))
        return np.maximum(mag - lam * a, 0) * ph
    if g == "l2":
        return v / (1 + lam * a)
    if g == "box":
        lo, hi = case["box"]
        return np.minimum(np.maximum(v, lo), hi)
    raise ValueError(g)


def sp_prox(sp, case, n, shape=None):
    g, lam = case["g"], case.get("lam", 0.0)
    shp = list(shape) if shape else [n]
    if g == "none":
        return None
    if g == "noop":
        return sp.prox.NoOp(shp)
    if g == "l1":
        return sp.prox.L1Reg(shp, lam)
    if g == "l2":
        return sp.prox.L2Reg(shp, lam)
    if g == "box":
        return sp.prox.BoxConstraint(shp, case["box"][0], case["box"][1])
    raise ValueError(g)


def coq_pspec(case):
    g, lam = case["g"], case.get("lam", 0.0)
    if g in ("none", "noop"):
        return "PNone"
    if g == "l1":
        return "(%s %s)" % ("PL1c" if case["cplx"] else "PL1", L.flt(lam))
    if g == "l2":
        return "(PL2 %s None)" % L.flt(lam)
    if g == "box":
        return "(PBox %s %s)" % (L.flt(case["box"][0]), L.flt(case["box"][1]))
    raise ValueError(g)


def objective(case, A, y, x):
    r = A @ x - y
    return 0.5 * float(np.vdot(r, r).real) + g_val(case, x)


def minimiser(case, A, y):
    """accurate minimiser of 1/2||Ax-y||^2 + g(x): closed form for g in {0, l2}, otherwise FISTA with
    restart in numpy until the prox-gradient residual is ~1e-14 (at most 20000 iterations).
    returns (x*, residual)"""
    n = A.shape[1]
    g, lam = case["g"], case.get("lam", 0.0)
    AhA, Ahy = A.conj().T @ A, A.conj().T @ y
    if g in ("none", "noop"):
        xs = np.linalg.lstsq(A, y, rcond=None)[0]
        return xs, float(np.linalg.norm(AhA @ xs - Ahy))
    if g == "l2":
        xs = np.linalg.solve(AhA + lam * np.eye(n), Ahy)
        return xs, float(np.linalg.norm(AhA @ xs + lam * xs - Ahy))
    Lc = max(lipschitz(A), 1e-300)
    al = 1.0 / Lc
    x = np.zeros(n, dtype=A.dtype)
    x = np_prox(case, al, x)
    z, t = x.copy(), 1.0
    scale = 1.0 + float(np.linalg.norm(Ahy))
    Fold = np.inf
    res = np.inf
    for it in range(20000):
        xn = np_prox(case, al, z - al * (AhA @ z - Ahy))
        res = float(np.linalg.norm(xn - z)) * Lc
        if it % 10 == 0:
            p = np_prox(case, al, xn - al * (AhA @ xn - Ahy))
            res = float(np.linalg.norm(p - xn)) * Lc
            if res <= 1e-14 * scale:
                x = xn
                break
        F = objective(case, A, y, xn)
        if F > Fold:                       # restart
            t, z = 1.0, x.copy()
            Fold = np.inf
            continue
        Fold = F
        tn = (1 + (1 + 4 * t * t) ** 0.5) / 2
        z = xn + ((t - 1) / tn) * (xn - x)
        x, t = xn, tn
    p = np_prox(case, al, x - al * (AhA @ x - Ahy))
    return x, float(np.linalg.norm(p - x)) * Lc


# ---------------------------------------------------------------- embedding for the Coq float model
def emb_vec(v, cplx):
    v = np.asarray(v)
    if not cplx:
        return [float(t) for t in v.real]
    out = []
    for t in v:
        out += [float(t.real), float(t.imag)]
    return out


def emb_mat(A, cplx):
    rows = []
    for r in np.asarray(A):
        if not cplx:
            rows.append([float(t) for t in r.real])
        else:
            r0, r1 = [], []
            for t in r:
                r0 += [float(t.real), -float(t.imag)]
                r1 += [float(t.imag), float(t.real)]
            rows += [r0, r1]
    return rows


def coq_mat(A, cplx):
    return "[" + "; ".join(L.flist(r) for r in emb_mat(A, cplx)) + "]"


def coq_step(t, cplx):
    if isinstance(t, np.ndarray):
        v = [float(a) for a in t for _ in range(2 if cplx else 1)]
        return "(FArr %s)" % L.flist(v)
    return "(FScal %s)" % L.flt(float(t))


# ---------------------------------------------------------------- GradientMethod
# gradients that RETURN THEIR ARGUMENT (the object itself or a view of it) or a caller-owned persistent buffer.
# f = 1/2||x - y||^2 (A = I): the gradient of f at x is x - y, for y = 0 it is x itself, so `lambda x: x`, `A.N` of
# Identity / Reshape / Transpose operators (which hand back their input or a view of it) are legitimate gradf arguments.
GALIAS = ("self", "view", "identity-N", "reshape-N", "transpose-N", "reshape-HR", "transpose-HT", "buffer", "buffer-incr")


def make_gradf(sp, case, A, y, n, tr):
    """gradf of the case; [tr] collects what the harness observes about the returned arrays"""
    k = case.get("galias")
    if k is None:
        AH = A.conj().T
        return lambda v: AH @ (A @ v - y)
    sh2 = list(case["shape2"])
    if k == "buffer":
        buf = np.zeros(n, dtype=A.dtype)          # owned by the caller of GradientMethod, reused for every call
        tr["buf"] = buf

        def gradf(v):
            np.subtract(v, y, out=buf)
            tr["last"] = buf.copy()
            return buf
        return gradf
    if k == "buffer-incr":
        # the caller keeps the gradient of the quadratic up to date incrementally: grad(v) = grad(v_prev) + (v - v_prev).
        # The array it hands back is its own state; a solver that writes into it corrupts every later gradient,
        # which the trajectory oracles then see.
        st = {}

        def gradf(v):
            if "g" not in st:
                st["g"] = v - y
            else:
                st["g"] += v - st["prev"]
            st["prev"] = v.copy()
            return st["g"]
        return gradf
    if np.any(y != 0):
        raise ValueError("aliasing gradient needs y = 0")
    LO = sp.linop
    if k == "self":
        g = lambda v: v                            # noqa: E731
    elif k == "view":
        g = lambda v: v[:]                         # noqa: E731
    elif k == "identity-N":
        g = LO.Identity([n]).N                     # Identity: _apply returns its input
    elif k == "reshape-N":
        g = LO.Reshape(sh2, [n]).N                 # Reshape._normal_linop = Identity
    elif k == "transpose-N":
        # Transpose._normal_linop = Identity on the 2-D shape, between the reshapes of the flat iterate
        g = LO.Compose([LO.Reshape([n], sh2), LO.Transpose(sh2).N, LO.Reshape(sh2, [n])])
    elif k == "reshape-HR":
        R = LO.Reshape(sh2, [n])
        g = R.H * R                                # reshape there and back: a VIEW of the input
    elif k == "transpose-HT":
        R = LO.Reshape(sh2, [n])
        B = LO.Transpose(sh2) * R
        g = B.H * B                                # reshape, transpose, transpose back, reshape back: a view
    else:
        raise ValueError(k)

    def gradf(v):
        out = g(v)
        tr["aliased"] = tr.get("aliased", True) and bool(np.shares_memory(out, v))
        return out
    return gradf


def run_gm(sp, case):
    A, y, x0, _ = build(case)
    n = A.shape[1]
    Lc = lipschitz(A)
    alpha = case["frac"] / Lc
    x, sh = lay2d(case, x0)
    tr = {}
    # accelerate is passed only when it is on: the documented default (False) is part of "when not accelerated"
    akw = {"accelerate": True} if case["acc"] else ({} if case["seed"] % 2 else {"accelerate": False})
    gradf = make_gradf(sp, case, A, y, n, tr)
    if sh:
        g1 = gradf
        gradf = lambda v: g1(flat(v)).reshape(sh)            # noqa: E731  (fresh array in the iterate's 2-D shape)
    alg = sp.alg.GradientMethod(gradf, x, alpha, proxg=sp_prox(sp, case, n, sh),
                                max_iter=case["niter"], **akw)
    obs = []
    buffer_bad = None
    while not alg.done():
        alg.update()
        obs.append(dict(x=flat(alg.x), z=flat(alg.z) if case["acc"] else None,
                        t=float(alg.t) if case["acc"] else 0.0, resid=float(alg.resid)))
        if "buf" in tr and buffer_bad is None and not np.array_equal(tr["buf"], tr["last"]):
            buffer_bad = dict(k=len(obs), expected=store(tr["last"]), observed=store(tr["buf"]))
    inplace = alg.x is x
    return dict(A=A, y=y, x0=x0, L=Lc, alpha=alpha, obs=obs, x_final=flat(x), inplace=inplace, buffer_bad=buffer_bad,
                aliased=tr.get("aliased"))


def ref_gm(case, A, y, x0, alpha, niter):
    """the documented update rule (Beck-Teboulle), plain numpy"""
    AH = A.conj().T
    x, z, t = x0.copy(), x0.copy(), 1.0
    out = []
    for _ in range(niter):
        xo = x
        p = z if case["acc"] else x
        x = np_prox(case, alpha, p - alpha * (AH @ (A @ p - y)))
        resid = float(np.linalg.norm(x - xo)) / alpha
        if case["acc"]:
            # stationary only if x also coincides with the point the step was taken from
            resid = max(resid, float(np.linalg.norm(x - p)) / alpha)
            tn = (1 + np.sqrt(1 + 4 * t * t)) / 2
            z = x + ((t - 1) / tn) * (x - xo)
            t = tn
        out.append(dict(x=x, z=z if case["acc"] else None, t=t if case["acc"] else 0.0, resid=resid))
    return out


def close(a, b, scale):
    a, b = np.asarray(a), np.asarray(b)
    return a.shape == b.shape and bool(np.all(np.abs(a - b) <= 1e-8 * scale))


def expr_gm(case, r):
    cplx = case["cplx"]
    scale = max(1.0, float(np.max(np.abs(r["x0"]))), max(float(np.max(np.abs(o["x"]))) for o in r["obs"]))
    atol = RTOL * scale
    atol_r = RTOL * max(scale / r["alpha"], max(o["resid"] for o in r["obs"]))
    obs = "[" + "; ".join("(%s, %s, %s, %s)" % (L.flist(emb_vec(o["x"], cplx)),
                                                   L.flist(emb_vec(o["z"], cplx)) if case["acc"] else "[]",
                                                   L.flt(o["t"]), L.flt(o["resid"])) for o in r["obs"]) + "]"
    pg = "None" if case["g"] == "none" else "(Some %s)" % coq_pspec(case)
    return "chk_gm %s %s %s %s %s %s %s %s %s %s" % (
        L.boolean(case["acc"]), L.flt(r["alpha"]), pg, coq_mat(r["A"], cplx), L.flist(emb_vec(r["y"], cplx)),
        L.flist(emb_vec(r["x0"], cplx)), L.flt(atol), L.flt(RTOL), L.flt(atol_r), obs)


def oracle_gm(case, r):
    """list of (signature, message, detail) for every property of the GradientMethod trajectory that fails"""
    bad = []
    A, y, x0, alpha, Lc = r["A"], r["y"], r["x0"], r["alpha"], r["L"]
    obs = r["obs"]
    xs, res = minimiser(case, A, y)
    Fs = objective(case, A, y, xs)
    F = [objective(case, A, y, x0)] + [objective(case, A, y, o["x"]) for o in obs]
    fin = [v for v in F + [Fs] if np.isfinite(v)]
    tolF = 1e-10 * (1.0 + max(abs(v) for v in fin))
    d0 = float(np.linalg.norm(x0 - xs)) ** 2
    xsq = [x0] + [o["x"] for o in obs]
    if not case["acc"]:
        for k in range(1, len(F)):
            dec = (1.0 / alpha - Lc / 2) * float(np.linalg.norm(xsq[k] - xsq[k - 1])) ** 2
            if not F[k] <= F[k - 1] + tolF:
                bad.append(("descent", "objective increased at update %d: %r -> %r" % (k, F[k - 1], F[k]),
                            dict(k=k, expected="F(x_k) <= F(x_{k-1}) = %r" % F[k - 1], observed=F[k])))
                break
            if np.isfinite(F[k - 1]) and not F[k] <= F[k - 1] - dec * (1 - 1e-9) + tolF:
                bad.append(("descent-quant", "decrease smaller than (1/alpha-L/2)||dx||^2 at update %d" % k,
                            dict(k=k, expected="<= %r" % (F[k - 1] - dec), observed=F[k])))
                break
    accurate = res <= 1e-9 * (1.0 + float(np.linalg.norm(A.conj().T @ y)))
    if accurate:
        for k in range(1, len(F)):
            if case["acc"]:
                bound = 2 * d0 / (alpha * (k + 1) ** 2)
                name = "rate-1/k^2"
            else:
                bound = d0 / (2 * alpha * k)
                name = "rate-1/k"
            if not F[k] - Fs <= bound * (1 + 1e-6) + tolF:
                bad.append((name, "objective gap %r exceeds the bound %r at update %d" % (F[k] - Fs, bound, k),
                            dict(k=k, expected="<= %r" % bound, observed=F[k] - Fs, xstar=store(xs))))
                break
    # a write into the array gradf returned is reported only as a statistic: when gradf overwrites the whole buffer on
    # every call the trajectory is unaffected and the property holds (the "buffer-incr" family makes such a write visible
    # in the trajectory, where the oracles above judge it)
    if case.get("galias") and case["g"] in ("none", "noop") and not case["acc"] and not np.any(y != 0):
        # f = 1/2||x||^2, no prox: x_{k+1} = (1 - alpha) x_k, whatever array gradf hands back
        sc = max(1.0, float(np.max(np.abs(x0))))
        for k in range(1, len(xsq)):
            exp = (1.0 - alpha) * xsq[k - 1]
            if not close(xsq[k], exp, sc):
                bad.append(("alias-contraction", "gradf returns %s: x_%d != (1 - alpha) x_%d" % (case["galias"], k, k - 1),
                            dict(k=k, expected=store(exp), observed=store(xsq[k]))))
                break
    if not r["inplace"]:
        bad.append(("inplace", "alg.x is no longer the caller's array", dict(expected="alg.x is x", observed="different object")))
    elif obs and not np.array_equal(r["x_final"], obs[-1]["x"]):
        bad.append(("inplace", "caller's x does not hold the final iterate", dict(expected=store(obs[-1]["x"]), observed=store(r["x_final"]))))
    # documented update rule, numpy
    ref = ref_gm(case, A, y, x0, alpha, len(obs))
    scale = max(1.0, max(float(np.max(np.abs(o["x"]))) for o in ref)) if ref else 1.0
    for k, (o, q) in enumerate(zip(obs, ref)):
        ok = close(o["x"], q["x"], scale) and abs(o["resid"] - q["resid"]) <= 1e-8 * max(scale / alpha, q["resid"])
        if case["acc"]:
            ok = ok and close(o["z"], q["z"], scale) and abs(o["t"] - q["t"]) <= 1e-9 * q["t"]
        if not ok:
            bad.append(("update-rule", "iterate %d differs from the documented update rule" % (k + 1),
                        dict(k=k + 1, expected=dict(x=store(q["x"]), t=q["t"], resid=q["resid"],
                                                    z=store(q["z"]) if case["acc"] else None),
                             observed=dict(x=store(o["x"]), t=o["t"], resid=o["resid"],
                                           z=store(o["z"]) if case["acc"] else None))))
            break
    return bad, dict(accurate=accurate, moved=bool(obs and obs[0]["resid"] > 0),
                     alias_seen=bool(case.get("galias") and not case["galias"].startswith("buffer") and r.get("aliased")),
                     alias_missing=bool(case.get("galias") and not case["galias"].startswith("buffer") and not r.get("aliased")),
                     buffer_written=bool(r.get("buffer_bad")))


# ---------------------------------------------------------------- PDHG
def pd_steps(case, A):
    """step sizes with tau*sigma*||A||^2 = frac <= 1 (arrays: ||Sigma^1/2 A T^1/2||^2 = frac)"""
    if "tau" in case and "sigma" in case:                   # replay dict with stored steps
        def st(v):
            return np.array(v, dtype=float) if isinstance(v, list) else float(v)
        return st(case["tau"]), st(case["sigma"])
    rs = np.random.RandomState(case["seed"] + 17)
    m, n = A.shape
    tk, sk = case["steps"]
    t = rs.uniform(0.5, 2.0, n) if tk == "a" else np.full(n, rs.uniform(0.5, 2.0))
    s = rs.uniform(0.5, 2.0, m) if sk == "a" else np.full(m, rs.uniform(0.5, 2.0))
    nrm = float(np.linalg.norm((np.sqrt(s)[:, None] * A) * np.sqrt(t)[None, :], 2))
    c = np.sqrt(case["frac"]) / max(nrm, 1e-300)
    t, s = t * c, s * c
    tau = t.copy() if tk == "a" else float(t[0])
    sigma = s.copy() if sk == "a" else float(s[0])
    return tau, sigma


def snap(t):
    return t.copy() if isinstance(t, np.ndarray) else float(t)


def run_pd(sp, case, start=None, niter=None):
    A, y, x0, u0 = build(case)
    m, n = A.shape
    if start is not None:
        x0, u0 = start
    tau, sigma = pd_steps(case, A)
    tau_in, sigma_in = snap(tau), snap(sigma)
    AH = A.conj().T
    x, sh = lay2d(case, x0)
    u = u0.copy()
    proxg = sp_prox(sp, dict(case, g="noop") if case["g"] == "none" else case, n, sh)
    Aop, AHop = (lambda v: A @ v), (lambda v: AH @ v)
    if sh:
        Aop, AHop = (lambda v: A @ flat(v)), (lambda w: (AH @ w).reshape(sh))
        if isinstance(tau, np.ndarray):
            tau = tau.reshape(sh)
    alg = sp.alg.PrimalDualHybridGradient(sp.prox.L2Reg([m], 1, y=-y), proxg, Aop, AHop,
                                          x, u, tau, sigma, theta=case["theta"], gamma_primal=case["gp"],
                                          gamma_dual=case["gd"], max_iter=niter or case["niter"])
    obs = []
    while not alg.done():
        alg.update()
        obs.append(dict(x=flat(alg.x), u=alg.u.copy(), xext=flat(alg.x_ext), tau=snap(flat(alg.tau) if isinstance(alg.tau, np.ndarray) else alg.tau), sigma=snap(alg.sigma),
                        resid=float(alg.resid)))
    wrote_steps = (isinstance(tau, np.ndarray) and not np.array_equal(flat(tau), flat(tau_in))) or \
                  (isinstance(sigma, np.ndarray) and not np.array_equal(sigma, sigma_in))
    return dict(A=A, y=y, x0=x0, u0=u0, tau=tau_in, sigma=sigma_in, obs=obs, x_final=flat(x), u_final=u,
                inplace=(alg.x is x, alg.u is u), wrote_steps=wrote_steps)


def ref_pd(case, A, y, x0, u0, tau, sigma, niter):
    """Chambolle-Pock as documented (dual first from the extrapolated primal), plain numpy"""
    AH = A.conj().T
    x, u, xe = x0.copy(), u0.copy(), x0.copy()
    gp, gd = case["gp"], case["gd"]
    tmin = float(np.min(np.abs(tau))) if gp > 0 else 0.0
    smin = float(np.min(np.abs(sigma))) if gd > 0 else 0.0
    out = []
    for _ in range(niter):
        uo, xo = u, x
        v = u + sigma * (A @ xe)
        u = (v - sigma * y) / (1 + sigma)                 # prox of sigma f*, f* = 1/2||u||^2 + <u,y>
        rd = float(np.linalg.norm((u - uo) / np.sqrt(sigma)))
        x = np_prox(case, tau, x - tau * (AH @ u))
        if gp > 0 and gd == 0:
            th = 1 / np.sqrt(1 + 2 * gp * tmin)
            tau, tmin, sigma = tau * th, tmin * th, sigma / th
        elif gp == 0 and gd > 0:
            th = 1 / np.sqrt(1 + 2 * gd * smin)
            sigma, smin, tau = sigma * th, smin * th, tau / th
        else:
            th = case["theta"]
        rp = float(np.linalg.norm((x - xo) / np.sqrt(tau)))
        xe = x + th * (x - xo)
        out.append(dict(x=x, u=u, xext=xe, tau=snap(tau), sigma=snap(sigma), resid=float(np.sqrt(rp * rp + rd * rd))))
    return out


def expr_pd(case, r):
    cplx = case["cplx"]
    obs = r["obs"]
    scale = max([1.0, float(np.max(np.abs(r["x0"]))), float(np.max(np.abs(r["u0"])))] +
                [float(np.max(np.abs(o[k]))) for o in obs for k in ("x", "u", "xext")])
    smin = min([float(np.min(o[k])) for o in obs for k in ("tau", "sigma")])
    atol = RTOL * scale
    atol_r = RTOL * max(scale / np.sqrt(smin), max(o["resid"] for o in obs))
    ob = "[" + "; ".join("(%s, %s, %s, %s, %s, %s)" % (
        L.flist(emb_vec(o["x"], cplx)), L.flist(emb_vec(o["u"], cplx)), L.flist(emb_vec(o["xext"], cplx)),
        coq_step(o["tau"], cplx), coq_step(o["sigma"], cplx), L.flt(o["resid"])) for o in obs) + "]"
    pfc = "(PL2 %s (Some %s))" % (L.flt(1.0), L.flist(emb_vec(-r["y"], cplx)))
    return "chk_pd %s %s %s %s %s %s %s %s %s %s %s %s %s %s" % (
        L.flt(case["theta"]), L.flt(case["gp"]), L.flt(case["gd"]), pfc, coq_pspec(case), coq_mat(r["A"], cplx),
        L.flist(emb_vec(r["x0"], cplx)), L.flist(emb_vec(r["u0"], cplx)), coq_step(r["tau"], cplx),
        coq_step(r["sigma"], cplx), L.flt(atol), L.flt(RTOL), L.flt(atol_r), ob)


def mnorm2(A, tau, sigma, dx, du):
    """||(dx,du)||_M^2 = ||dx||^2/tau - 2 Re<A dx, du> + ||du||^2/sigma   (diagonal tau, sigma allowed)"""
    return float(np.sum(np.abs(dx) ** 2 / tau) - 2 * np.vdot(du, A @ dx).real + np.sum(np.abs(du) ** 2 / sigma))


def oracle_pd(sp, case, r):
    bad = []
    info = dict(same_time_nonmonotone=False, fejer_checked=False, saddle_checked=False)
    A, y, x0, u0 = r["A"], r["y"], r["x0"], r["u0"]
    obs = r["obs"]
    xs, res = minimiser(case, A, y)
    us = A @ xs - y                                  # u* = grad f(A x*), f = 1/2||. - y||^2
    accurate = res <= 1e-11 * (1.0 + float(np.linalg.norm(A.conj().T @ y)))
    scale = max(1.0, float(np.max(np.abs(xs))), float(np.max(np.abs(us))))
    if accurate:
        # a saddle point is left fixed (all step kinds, all gamma branches)
        info["saddle_checked"] = True
        q = run_pd(sp, case, start=(xs, us), niter=6)
        dev = max([float(np.max(np.abs(o["x"] - xs))) for o in q["obs"]] + [float(np.max(np.abs(o["u"] - us))) for o in q["obs"]]
                  + [float(np.max(np.abs(o["xext"] - xs))) for o in q["obs"]] + [0.0])
        if not dev <= 1e-7 * scale:
            bad.append(("saddle-fixed", "a saddle point moves by %r under the update" % dev,
                        dict(expected="(x*,u*) fixed", xstar=store(xs), ustar=store(us), observed=dev)))
        # Fejer monotonicity in the skewed pairing w_k = (x_k, u_{k+1}); constant steps, theta = 1
        constant = not ((case["gp"] > 0 and case["gd"] == 0) or (case["gp"] == 0 and case["gd"] > 0))
        if constant and case["theta"] == 1 and len(obs) >= 2:
            info["fejer_checked"] = True
            tau, sigma = r["tau"], r["sigma"]
            xk = [x0] + [o["x"] for o in obs]
            uk = [u0] + [o["u"] for o in obs]
            w = [(xk[j], uk[j + 1]) for j in range(len(obs))]
            d = [mnorm2(A, tau, sigma, a - xs, b - us) for a, b in w]
            tol = 1e-9 * (1.0 + d[0])
            for j in range(len(d) - 1):
                step = mnorm2(A, tau, sigma, w[j + 1][0] - w[j][0], w[j + 1][1] - w[j][1])
                if not d[j + 1] <= d[j] - step * (1 - 1e-9) + tol:
                    bad.append(("fejer", "M-distance of (x_k,u_{k+1}) to the saddle point: %r -> %r (step term %r) at k=%d"
                                % (d[j], d[j + 1], step, j),
                                dict(k=j, expected="<= %r" % (d[j] - step), observed=d[j + 1], xstar=store(xs), ustar=store(us))))
                    break
            ds = [mnorm2(A, tau, sigma, xk[j] - xs, uk[j] - us) for j in range(len(xk))]
            info["same_time_nonmonotone"] = any(ds[j + 1] > ds[j] + tol for j in range(len(ds) - 1))   # NOT a violation
    if not (r["inplace"][0] and r["inplace"][1]):
        bad.append(("inplace", "alg.x / alg.u is no longer the caller's array", dict(expected="same objects", observed=r["inplace"])))
    elif obs and not (np.array_equal(r["x_final"], obs[-1]["x"]) and np.array_equal(r["u_final"], obs[-1]["u"])):
        bad.append(("inplace", "caller's x / u do not hold the final iterates",
                    dict(expected=dict(x=store(obs[-1]["x"]), u=store(obs[-1]["u"])), observed=dict(x=store(r["x_final"]), u=store(r["u_final"])))))
    ref = ref_pd(case, A, y, x0, u0, r["tau"], r["sigma"], len(obs))
    sc = max([1.0] + [float(np.max(np.abs(o[k]))) for o in ref for k in ("x", "u", "xext")])
    for k, (o, q) in enumerate(zip(obs, ref)):
        smin = min(float(np.min(q["tau"])), float(np.min(q["sigma"])))
        ok = close(o["x"], q["x"], sc) and close(o["u"], q["u"], sc) and close(o["xext"], q["xext"], sc) \
            and np.allclose(o["tau"], q["tau"], rtol=1e-9, atol=0) and np.allclose(o["sigma"], q["sigma"], rtol=1e-9, atol=0) \
            and abs(o["resid"] - q["resid"]) <= 1e-8 * max(sc / np.sqrt(smin), q["resid"])
        if not ok:
            def pk(s):
                return dict(x=store(s["x"]), u=store(s["u"]), xext=store(s["xext"]), tau=np.asarray(s["tau"]).tolist(),
                            sigma=np.asarray(s["sigma"]).tolist(), resid=s["resid"])
            bad.append(("update-rule", "iterate %d differs from the documented update rule" % (k + 1),
                        dict(k=k + 1, expected=pk(q), observed=pk(o))))
            break
    info["accurate"] = accurate
    info["moved"] = bool(obs and obs[0]["resid"] > 0)
    return bad, info


# ---------------------------------------------------------------- generators
def gen_common(rng, pd=False):
    cplx = rng.random() < 0.35
    dmax = 5 if cplx else 8
    m, n = rng.randint(1, dmax), rng.randint(1, dmax)
    gs = ["noop", "l1", "l2"] + ([] if cplx else ["box"]) + ([] if pd else ["none"])
    g = rng.choice(gs)
    c = dict(m=m, n=n, cplx=cplx, g=g, seed=rng.randrange(2 ** 31),
             akind=rng.choice(["rand", "rand", "ill", "big", "small", "sparse"]),
             x0scale=rng.choice([0.0, 1.0, 1.0, 3.0]), niter=rng.randint(30, 40))
    if g in ("l1", "l2"):
        c["lam"] = rng.choice([0.01, 0.1, 0.5, 1.0, 2.5])
    if g == "box":
        lo = rng.choice([-1.0, -0.25, 0.0])
        c["box"] = [lo, lo + rng.choice([0.25, 0.5, 2.0])]
    if n in (4, 6, 8) and rng.random() < 0.5:
        # the caller's primal array is 2-D in a layout that cannot be flattened without a copy
        c["layout2d"] = dict(shape=[2, n // 2], kind=rng.choice(["F", "T-view", "volume-slice"]))
    return c


def gen_gm(rng):
    c = gen_common(rng)
    c.update(kind="gm", acc=rng.random() < 0.5, frac=rng.choice([1.0, 1.0, 0.9, 0.5, 0.1, round(rng.uniform(0.05, 1.0), 3)]))
    return c


def gen_gm_alias(rng):
    """GradientMethod on f = 1/2||x - y||^2 (+ g) with a gradf that returns its argument, a view of it, or a persistent
    caller-owned buffer; alpha = frac <= 1/L = 1"""
    cplx = rng.random() < 0.4
    a, b = rng.randint(1, 3), rng.randint(1, 3)
    if cplx and a * b > 6:
        b = 2
    n = a * b
    galias = rng.choice(GALIAS + ("self", "buffer-incr"))
    g = rng.choice(["none", "none", "none", "noop", "l1", "l2"] + ([] if cplx else ["box"]))
    c = dict(kind="gm", galias=galias, shape2=[a, b], m=n, n=n, cplx=cplx, g=g, seed=rng.randrange(2 ** 31), akind="identity",
             x0scale=rng.choice([1.0, 1.0, 3.0]), niter=rng.randint(6, 16), acc=rng.random() < 0.5,
             frac=rng.choice([0.5, 0.5, 0.9, 0.25, 1.0, round(rng.uniform(0.05, 1.0), 3)]),
             yzero=(not galias.startswith("buffer")) or rng.random() < 0.3)
    if g in ("l1", "l2"):
        c["lam"] = rng.choice([0.01, 0.1, 0.5, 1.0])
    if g == "box":
        lo = rng.choice([-1.0, -0.25, 0.0])
        c["box"] = [lo, lo + rng.choice([0.25, 0.5, 2.0])]
    return c


def gen_pd(rng):
    c = gen_common(rng, pd=True)
    mode = rng.choice(["none", "none", "primal", "dual", "both"])
    gp = rng.choice([0.1, 0.5, 1.0]) if mode in ("primal", "both") else 0.0
    if mode in ("primal", "both") and c["g"] == "l2":
        gp = c["lam"]
    gd = rng.choice([0.25, 0.5, 1.0]) if mode in ("dual", "both") else 0.0
    c.update(kind="pd", steps=rng.choice([("s", "s"), ("a", "a"), ("a", "a"), ("a", "s"), ("s", "a")]),
             frac=rng.choice([1.0, 1.0, 0.9, 0.5, 0.25]), theta=rng.choice([1.0, 1.0, 1.0, 1.0, 1.0, 0.5, 0.0]), gp=gp, gd=gd,
             u0scale=rng.choice([0.0, 0.0, 1.0]))
    return c


def corpus_cases():
    base = dict(seed=7, akind="rand", x0scale=1.0, niter=32)
    return [
        dict(base, kind="gm", m=5, n=5, cplx=False, g="l2", lam=0.1, acc=False, frac=1.0),     # the repo test's problem class
        dict(base, kind="gm", m=5, n=5, cplx=False, g="l2", lam=0.1, acc=True, frac=1.0),
        dict(base, kind="gm", m=3, n=6, cplx=False, g="l1", lam=0.5, acc=True, frac=1.0),      # rank deficient + l1
        dict(base, kind="gm", m=4, n=3, cplx=True, g="l1", lam=0.1, acc=True, frac=0.5),
        dict(base, kind="gm", m=6, n=6, cplx=False, g="box", box=[-0.25, 0.25], acc=False, frac=1.0, akind="ill"),
        dict(base, kind="gm", m=1, n=1, cplx=False, g="none", acc=False, frac=1.0),
        # gradients that return their argument / a view of it / a caller-owned buffer (f = 1/2||x - y||^2, L = 1)
        dict(base, kind="gm", galias="self", shape2=[2, 2], m=4, n=4, cplx=False, g="none", acc=False, frac=0.5, akind="identity", yzero=True, niter=8),
        dict(base, kind="gm", galias="self", shape2=[3, 1], m=3, n=3, cplx=True, g="none", acc=True, frac=0.5, akind="identity", yzero=True, niter=8),
        dict(base, kind="gm", galias="view", shape2=[1, 2], m=2, n=2, cplx=False, g="l1", lam=0.1, acc=False, frac=0.9, akind="identity", yzero=True, niter=8),
        dict(base, kind="gm", galias="identity-N", shape2=[2, 3], m=6, n=6, cplx=False, g="none", acc=False, frac=0.25, akind="identity", yzero=True, niter=8),
        dict(base, kind="gm", galias="reshape-N", shape2=[2, 3], m=6, n=6, cplx=True, g="noop", acc=True, frac=1.0, akind="identity", yzero=True, niter=8),
        dict(base, kind="gm", galias="transpose-N", shape2=[2, 3], m=6, n=6, cplx=False, g="l2", lam=0.5, acc=False, frac=0.5, akind="identity", yzero=True, niter=8),
        dict(base, kind="gm", galias="reshape-HR", shape2=[2, 2], m=4, n=4, cplx=False, g="none", acc=True, frac=0.9, akind="identity", yzero=True, niter=8),
        dict(base, kind="gm", galias="transpose-HT", shape2=[3, 2], m=6, n=6, cplx=True, g="none", acc=False, frac=0.5, akind="identity", yzero=True, niter=8),
        dict(base, kind="gm", galias="buffer", shape2=[2, 2], m=4, n=4, cplx=False, g="none", acc=False, frac=0.5, akind="identity", yzero=False, niter=8),
        dict(base, kind="gm", galias="buffer", shape2=[2, 1], m=2, n=2, cplx=True, g="l1", lam=0.1, acc=True, frac=1.0, akind="identity", yzero=False, niter=8),
        dict(base, kind="gm", galias="buffer-incr", shape2=[2, 2], m=4, n=4, cplx=False, g="none", acc=False, frac=0.5, akind="identity", yzero=False, niter=8),
        dict(base, kind="gm", galias="buffer-incr", shape2=[3, 1], m=3, n=3, cplx=True, g="l1", lam=0.1, acc=True, frac=0.9, akind="identity", yzero=False, niter=8),
        dict(base, kind="pd", m=5, n=5, cplx=False, g="l2", lam=0.1, steps=("s", "s"), frac=1.0, theta=1.0, gp=0.0, gd=0.0, u0scale=0.0),
        dict(base, kind="pd", m=4, n=6, cplx=False, g="l1", lam=0.5, steps=("a", "a"), frac=1.0, theta=1.0, gp=0.0, gd=0.0, u0scale=1.0),
        dict(base, kind="pd", m=3, n=3, cplx=True, g="l2", lam=1.0, steps=("a", "a"), frac=0.9, theta=1.0, gp=1.0, gd=0.0, u0scale=0.0),
        dict(base, kind="pd", m=4, n=2, cplx=False, g="box", box=[0.0, 0.5], steps=("s", "a"), frac=1.0, theta=1.0, gp=0.0, gd=0.5, u0scale=1.0),
        dict(base, kind="pd", m=2, n=4, cplx=True, g="l1", lam=0.1, steps=("a", "s"), frac=0.5, theta=1.0, gp=0.5, gd=0.5, u0scale=1.0),
    ]


def cls_of(c):
    if c["kind"] == "gm" and c.get("galias"):
        return "gm-alias:%s:%s:%s" % (c["galias"], "cplx" if c["cplx"] else "real", "fista" if c["acc"] else "ista")
    if c["kind"] == "gm":
        return "gm:%s:%s:%s" % (c["g"], "cplx" if c["cplx"] else "real", "fista" if c["acc"] else "ista")
    acc = "acc-primal" if (c["gp"] > 0 and c["gd"] == 0) else "acc-dual" if (c["gp"] == 0 and c["gd"] > 0) else "const"
    if acc == "const" and c["theta"] != 1:
        acc = "const-theta<1"
    return "pdhg:%s:%s:%s%s:%s" % (c["g"], "cplx" if c["cplx"] else "real", c["steps"][0], c["steps"][1], acc)


def with_data(c, r):
    d = dict(c, A=store(r["A"]), y=store(r["y"]), x0=store(r["x0"]))
    if c["kind"] == "pd":
        d["u0"] = store(r["u0"])
        d["tau"] = np.asarray(r["tau"]).tolist()
        d["sigma"] = np.asarray(r["sigma"]).tolist()
    else:
        d["alpha"] = r["alpha"]
        d["L"] = r["L"]
    return d


def evaluate(sp, c):
    if c["kind"] == "gm":
        r = run_gm(sp, c)
        bad, info = oracle_gm(c, r)
        return r, bad, info, (expr_gm(c, r) if r["obs"] else None)
    r = run_pd(sp, c)
    bad, info = oracle_pd(sp, c, r)
    return r, bad, info, (expr_pd(c, r) if r["obs"] else None)


def narrow_iterate_stream(ctx, sp, rng):
    """the caller's iterate is stored in SINGLE precision while the data (A, y, hence gradf's result) are double: the documented gap
    bounds L||x0-x*||^2/(2k) and 2L||x0-x*||^2/(k+1)^2 must hold all the same (objective evaluated in double on the caller's array),
    and the caller's array is the one that moves.  A step that silently fails to write into a narrower array leaves x at x0."""
    bad = []
    for i in range(ctx.n(24, 240)):
        nprng = np.random.RandomState(rng.randrange(2 ** 31))
        m, n = rng.randint(2, 7), rng.randint(1, 5)
        cplx = rng.random() < 0.4
        A = nprng.standard_normal((m, n)) + (1j * nprng.standard_normal((m, n)) if cplx else 0)
        y = nprng.standard_normal(m) + (1j * nprng.standard_normal(m) if cplx else 0)
        x0d = nprng.standard_normal(n) * 3 + (1j * nprng.standard_normal(n) if cplx else 0)
        x = x0d.astype(np.complex64 if cplx else np.float32)
        x0 = x.astype(A.dtype)                       # the start actually used (rounded to single)
        Lc = float(np.linalg.norm(A, 2) ** 2)
        xs = np.linalg.lstsq(A, y, rcond=None)[0]
        f = lambda v: 0.5 * float(np.linalg.norm(A @ v - y) ** 2)      # noqa: E731
        acc = bool(i % 2)
        AH = A.conj().T
        alg = sp.alg.GradientMethod(lambda v: AH @ (A @ v - y), x, 1.0 / Lc, accelerate=acc, max_iter=12, tol=0)
        d2 = float(np.linalg.norm(x0 - xs) ** 2)
        for k in range(1, 13):                       # "after k updates": the bound is about update(), whatever done() says
            alg.update()
            gap = f(x.astype(A.dtype)) - f(xs)
            bound = (2 * Lc * d2 / (k + 1) ** 2) if acc else (Lc * d2 / (2 * k))
            if gap > bound * (1 + 1e-4) + 1e-5 * (f(x0) + 1e-30):
                bad.append(dict(A=[[str(v) for v in r] for r in A.tolist()], y=[str(v) for v in y.tolist()], x0=[str(v) for v in x0.tolist()],
                                accelerate=acc, update=k, gap=gap, bound=bound, iterate_dtype=str(x.dtype)))
                break
        ctx.count("gm:single-precision-iterate:%s" % ("acc" if acc else "plain"), nontrivial=False)
    ctx.obligation("oracle:gap bounds with a single-precision caller iterate and double data", not bad)
    if bad:
        b = bad[0]
        ctx.violation("GradientMethod on a %s iterate with double-precision data: objective gap %.3g after %d updates exceeds the bound %.3g "
                      "(the caller's array does not follow the iteration)" % (b["iterate_dtype"], b["gap"], b["update"], b["bound"]),
                      dict(b, kind="oracle"), signature="C13:gm:single-precision-iterate")


def run(ctx):
    ctx.source_hash("sigpy/alg.py", "sigpy/prox.py", "sigpy/thresh.py")
    # tie by translation (DESIGN 2.8): gen/Gen_alg_pg.v (GradientMethod / PDHG steps == coq/model/ProxGrad.v, this check's model)
    # and gen/Gen_alg.v (== coq/model/Alg.v, Alg2.v) are regenerated from alg.py and compiled
    from tools import translate_alg
    tie_broken = translate_alg.tie(ctx, ["alg", "alg_pg"])   # obligations "translate:sigpy/alg.py (...)", "tie:generated solver steps == hand model"
    proof_ok = ctx.prove("Prop_C13.v")
    sp = core.import_sigpy()
    rng = ctx.rng
    n_gm, n_pd = ctx.n(110, 1500), ctx.n(130, 1800)
    cases = list(corpus_cases())
    cases += [gen_gm(rng) for _ in range(n_gm)] + [gen_pd(rng) for _ in range(n_pd)]
    cases += [gen_gm_alias(rng) for _ in range(ctx.n(60, 800))]       # gradf returning its argument / a view / a persistent buffer
    done, oracle_bad = [], []
    stats = dict(same_time_nonmonotone=0, fejer_checked=0, saddle_checked=0, rate_checked=0, step_array_written=0,
                 alias_seen=0, alias_missing=0, buffer_written=0)
    for c in cases:
        try:
            r, bad, info, expr = evaluate(sp, c)
        except Exception as e:
            ctx.count(cls_of(c) + ":exception", key=json.dumps(c, sort_keys=True), sample=c)
            ctx.violation("%s raised %s on a valid problem" % (c["kind"], type(e).__name__),
                          {"kind": "impl-exception", "case": c, "error": repr(e)}, signature="C13:exception:" + c["kind"])
            continue
        ctx.count(cls_of(c), key=json.dumps(c, sort_keys=True), nontrivial=info["moved"] and c["m"] * c["n"] > 1,
                  sample={"params": c, "updates": len(r["obs"]), "last_resid": r["obs"][-1]["resid"] if r["obs"] else None})
        for k in ("same_time_nonmonotone", "fejer_checked", "saddle_checked", "alias_seen", "alias_missing", "buffer_written"):
            stats[k] += int(bool(info.get(k)))
        stats["rate_checked"] += int(c["kind"] == "gm" and info["accurate"])
        stats["step_array_written"] += int(bool(r.get("wrote_steps")))
        d = dict(case=c, r=r, bad=bad, expr=expr)
        if expr is not None:
            done.append(d)
        if bad:
            oracle_bad.append(d)
    # model vs implementation inside Coq
    failing, corr_ok = [], True
    try:
        if not ctx.make(["run/RunC13.vo"]):
            raise RuntimeError("run/RunC13.vo does not build")
        failing = L.run_bool_cases(ctx, "c13", HEADER, done, per_file=12)
    except RuntimeError as e:
        corr_ok = False
        ctx.notes.append("correspondence could not run: %s" % str(e)[:500])
    ctx.obligation("corr:model==impl trajectories (%d cases)" % len(done), corr_ok and not failing)
    ctx.obligation("oracle:descent/rates/saddle/fejer/in-place/update-rule (%d cases)" % len(cases), not oracle_bad)
    narrow_iterate_stream(ctx, sp, rng)
    ctx.coverage["rule"] = ("seeded composite problems min 1/2||Ax-y||^2+g(x), A in {gaussian, ill-conditioned 1e3, scaled, sparse}, dims 1-8 "
                            "(complex 1-5), g in {None, NoOp, l1, l2^2, box}; GradientMethod with alpha = frac/L (frac in (0,1]), "
                            "accelerate on/off, 30-40 updates; GradientMethod on f = 1/2||x-y||^2 (A = I, L = 1, alpha = frac <= 1) with a gradf that "
                            "returns its argument (lambda x: x, a view, linop Identity.N / Reshape.N / Transpose.N, R.H*R, (T*R).H*(T*R)) or a "
                            "persistent caller-owned buffer, real/complex, accelerate on/off, all g; PDHG in saddle form with scalar/array tau, sigma (tau*sigma*||A||^2 = frac <= 1), "
                            "theta=1 (and 0.5, 0 for the trajectory/fixed-point checks), gamma_primal/gamma_dual in {0,>0}; every iterate compared with the Coq float model (1e-9*scale); "
                            "a case is non-trivial when the first update moves x and m*n > 1; distinct = distinct parameter tuples")
    ctx.coverage["disagreements_model_vs_impl"] = len(failing)
    ctx.coverage["disagreements_oracle_vs_impl"] = len(oracle_bad)
    ctx.coverage["c13_stats"] = stats
    ctx.notes.append("same-time pairing (x_k,u_k) non-monotone in %d of %d Fejer-checked runs (expected, not a violation)"
                     % (stats["same_time_nonmonotone"], stats["fejer_checked"]))
    ctx.notes.append("aliasing gradf cases: the array returned by gradf shared memory with its argument in %d runs, not in %d "
                     "(the latter means the operator no longer aliases: generator to be revisited, not a violation)"
                     % (stats["alias_seen"], stats["alias_missing"]))
    ctx.notes.append("accelerated branch wrote into a caller-supplied step array in %d runs (documented, not a violation)"
                     % stats["step_array_written"])
    reported = set()
    for d in oracle_bad:
        c = d["case"]
        for sig, msg, detail in d["bad"]:
            key = "%s:%s" % (c["kind"], sig)
            if key in reported:
                continue
            reported.add(key)
            ctx.violation("%s: %s (%s)" % ("GradientMethod" if c["kind"] == "gm" else "PDHG", msg, cls_of(c)),
                          dict(kind="oracle", which=sig, case=with_data(c, d["r"]), **detail), signature="C13:" + key)
    for i in failing:
        d = done[i]
        c = d["case"]
        key = "%s:corr" % c["kind"]
        if key in reported or any(("%s:%s" % (c["kind"], s[0])) in reported for s in d["bad"]):
            continue
        reported.add(key)
        ctx.violation("model and implementation trajectories disagree (%s)" % cls_of(c),
                      {"kind": "correspondence", "broken": "corr:" + c["kind"], "case": with_data(c, d["r"]),
                       "observed_last": store(d["r"]["obs"][-1]["x"])},
                      found_input=bool(d["bad"]), signature="C13:" + key)
    if (not proof_ok or not corr_ok or tie_broken) and not ctx.violations:
        broken = getattr(ctx, "broken_proof", tie_broken or {"theorem": "corr:coq-run", "log": "; ".join(ctx.notes)[-1500:]})
        ctx.violation("proof obligation no longer checks: %s" % broken.get("theorem"),
                      {"kind": "proof", "broken": broken}, found_input=False, signature="C13:proof")
    ctx.trusted += TRUSTED
    ctx.proved += PROVED
    ctx.validated_only += VALIDATED


def replay(obj):
    if "case" not in obj:
        return "rerun"          # stream-level findings are regenerated from the recorded seed and tier
    sp = core.import_sigpy()
    c = obj["case"]
    r, bad, info, _ = evaluate(sp, c)
    print("case", {k: v for k, v in c.items() if k not in ("A", "y", "x0", "u0")})
    print("updates", len(r["obs"]), "info", info)
    for sig, msg, detail in bad:
        print("FAILS", sig, msg)
    print("agree:", not bad)
    return 0 if not bad else 1


TRUSTED = [
    "Coq 8.16.1 kernel + vm_compute (no native_compute, no extraction); Coq PrimFloat = IEEE binary64",
    "hand model coq/model/ProxGrad.v of GradientMethod._update / PrimalDualHybridGradient.__init__/_update, tied by this run's trajectory correspondence",
    "float prox models in coq/run/RunC13.v (NoOp, L1Reg real/complex, L2Reg, BoxConstraint) and the interleaved real embedding of complex data",
    "numpy matmul / linalg.norm / eigvalsh / lstsq / solve as used by the harness (problem set-up, L, x*)",
    "prox operators enter the theorems only through their variational inequality (C11 proves it for the concrete operators)",
]
PROVED = ["see coq/props/Prop_C13.v (theorem list in obligation_list); notes/C13.md"]
VALIDATED = [
    "convergence of the iterates to the minimiser; O(1/k^2) of accelerated PDHG (not proved; trajectories only)",
    "Fejer monotonicity with ARRAY (diagonal) steps: checked by the oracle, proved for scalar steps",
    "model == implementation: by trajectory correspondence on the sampled problems (floating point, 1e-9)",
    "gradf returning its argument / a view / a caller-owned buffer: dynamic checks on the sampled runs (trajectory incl. an incrementally maintained gradient buffer)",
    "in-place update of the caller's x / u: dynamic check (object identity + contents) on every run; the alias IR of DESIGN 2.5 is not built",
    "resid (GradientMethod incl. the accelerated max(||x-x_old||, ||x-z||)/alpha; PDHG primal+dual): modelled and compared, no theorem",
]
