"""C20 — trapezoid gradient designers meet area, amplitude and slew limits.

Proof: coq/props/Prop_C20.v — for ALL positive area, gmax, dgdt, dt (over R, ceil with t <= ceil t < t+1)
trap_grad / min_trap_grad of coq/model/Trap.v start and end at 0, carry exactly the requested area (total /
under the flat top), stay within gmax and change by at most dgdt*dt per sample, in every regime.
Tie: the same Gallina terms instantiated on PrimFloat (coq/run/RunC20.v) are evaluated by vm_compute on the
parameters of every case and compared with what /repo returns: ramp count and length exactly, samples with
fclose(rtol 1e-9).
Oracle on the implementation: the four property conditions in numpy (relative tolerance 1e-9).
Stretch (oracle only): spokes_grad respects the limits on each axis and moves k-space by the requested increments.
"""
import json, math
import numpy as np
from vlib import core, coqlit as L

HEADER = """From Coq Require Import ZArith List Bool PrimFloat.
From SV Require Import lib.FloatRun model.Trap model.Spokes run.RunC20.
Import ListNotations.
Local Open Scope Z_scope.
"""

TOL = 1e-9
BOX = dict(area=(1e-6, 1.0), gmax=(0.1, 10.0), dgdt=(1e2, 1e5), dt=(1e-6, 1e-4))
FULL_LEN = 300          # waveforms up to this length are compared sample by sample inside Coq
GAMMA = 4257.0


# ---------------------------------------------------------------- generators
def logu(rng, lo, hi):
    return math.exp(rng.uniform(math.log(lo), math.log(hi)))


def est_len(fn, area, gmax, dgdt, dt):
    """rough number of samples (used only to keep the run time bounded)"""
    flat = area / (gmax * dt)
    ramp = min(gmax, math.sqrt(area * dgdt)) / (dgdt * dt)
    return flat + 2 * ramp + 8


def in_box(p):
    return all(BOX[k][0] <= p[k] <= BOX[k][1] for k in BOX)


def gen_random(rng, fn, maxlen):
    while True:
        p = {k: logu(rng, *BOX[k]) for k in ("area", "gmax", "dgdt", "dt")}
        if est_len(fn, **p) <= maxlen:
            return dict(fn=fn, kind="random", **p), False
        return dict(fn=fn, kind="random", **p), True      # too long: counted, not run


def gen_boundary_trap(rng):
    """area at / one ulp around the triangle-trapezoid switch r*dt*gmax (computed as the code computes it)"""
    while True:
        gmax, dgdt, dt = logu(rng, *BOX["gmax"]), logu(rng, *BOX["dgdt"]), logu(rng, *BOX["dt"])
        r = int(np.ceil(gmax / dgdt / dt))
        a0 = r * dt * gmax
        which = rng.choice(["at", "below", "above", "below-rel", "above-rel"])
        area = {"at": a0, "below": np.nextafter(a0, 0.0), "above": np.nextafter(a0, np.inf),
                "below-rel": a0 * (1 - 1e-12), "above-rel": a0 * (1 + 1e-12)}[which]
        p = dict(fn="trap_grad", kind="boundary:" + which, area=float(area), gmax=gmax, dgdt=dgdt, dt=dt)
        if in_box(p) and est_len("trap_grad", area, gmax, dgdt, dt) <= 20000:
            return p


def gen_exact_ceil_trap(rng):
    """quotients inside ceil that are exact integers in the reals (powers of two keep them exact in floats)"""
    while True:
        dt = 2.0 ** -rng.randint(14, 19)
        dgdt = 2.0 ** rng.randint(7, 16)
        k = rng.randint(1, 60)
        if rng.random() < 0.5:      # triangle with sqrt(area*dgdt)/dgdt/dt = k exactly
            area = (k * dt) ** 2 * dgdt
            gmax = k * dt * dgdt * rng.choice([1.0, 1.5, 2.0, 4.0])
            kind = "exact-ceil:triangle"
        else:                        # gmax/dgdt/dt = k exactly, area a multiple of gmax*dt
            gmax = k * dt * dgdt
            area = gmax * dt * (k + rng.randint(0, 40))
            kind = "exact-ceil:trapezoid"
        p = dict(fn="trap_grad", kind=kind, area=area, gmax=gmax, dgdt=dgdt, dt=dt)
        if in_box(p) and est_len("trap_grad", area, gmax, dgdt, dt) <= 20000:
            return p


def gen_boundary_mintrap(rng):
    """flat amplitude area/(pts*dt) equal (up to an ulp) to gmax: the cap switch"""
    while True:
        gmax, dt = logu(rng, *BOX["gmax"]), logu(rng, *BOX["dt"])
        pts = rng.randint(1, 200)
        area = pts * dt * gmax
        a = area / ((pts + 0.5) * dt)
        dgdt = 2 * a * a / area
        which = rng.choice(["at", "below", "above"])
        area = {"at": area, "below": np.nextafter(area, 0.0), "above": np.nextafter(area, np.inf)}[which]
        p = dict(fn="min_trap_grad", kind="cap-boundary:" + which, area=float(area), gmax=gmax, dgdt=dgdt, dt=dt)
        if in_box(p) and est_len("min_trap_grad", area, gmax, dgdt, dt) <= 20000:
            return p


def gen_small_mintrap(rng):
    """floor(area/a/dt) = 0 region (F12): area < dgdt*dt^2/2"""
    while True:
        dgdt, dt, gmax = logu(rng, 1e3, 1e5), logu(rng, 1e-5, 1e-4), logu(rng, *BOX["gmax"])
        lim = dgdt * dt * dt / 2
        if lim <= 1.2e-6:
            continue
        area = logu(rng, 1e-6, min(lim, 1.0))
        p = dict(fn="min_trap_grad", kind="pts-floor-0", area=area, gmax=gmax, dgdt=dgdt, dt=dt)
        if in_box(p):
            return p


def corpus_cases():
    return [
        dict(fn="min_trap_grad", kind="corpus:F12", area=1e-6, gmax=1.0, dgdt=1e5, dt=1e-4),
        dict(fn="min_trap_grad", kind="corpus:F12", area=1e-6, gmax=0.1, dgdt=1e5, dt=1e-4),
        dict(fn="trap_grad", kind="corpus:unit-test", area=200 * 4e-6, gmax=2.0, dgdt=18000.0, dt=4e-6),
        dict(fn="min_trap_grad", kind="corpus:unit-test", area=200 * 4e-6, gmax=2.0, dgdt=18000.0, dt=4e-6),
        dict(fn="trap_grad", kind="corpus:corner", area=1e-6, gmax=10.0, dgdt=1e2, dt=1e-4),
        dict(fn="trap_grad", kind="corpus:corner", area=1e-6, gmax=0.1, dgdt=1e5, dt=1e-6),
        dict(fn="trap_grad", kind="corpus:corner", area=1.0, gmax=10.0, dgdt=1e5, dt=1e-4),
        dict(fn="min_trap_grad", kind="corpus:corner", area=1.0, gmax=10.0, dgdt=1e5, dt=1e-4),
        dict(fn="min_trap_grad", kind="corpus:corner", area=1e-6, gmax=10.0, dgdt=1e2, dt=1e-6),
    ]


# ---------------------------------------------------------------- implementation + oracle
def call_impl(tg, c):
    f = getattr(tg, c["fn"])
    w, r = f(c["area"], c["gmax"], c["dgdt"], c["dt"])
    return np.asarray(w), r


def oracle(c, w, r):
    """the property's conditions on what the implementation returned; list of (condition, expected, observed)"""
    bad = []
    area, gmax, dgdt, dt = c["area"], c["gmax"], c["dgdt"], c["dt"]
    if w.ndim != 2 or w.shape[0] != 1 or w.shape[1] < 2:
        return [("shape", "(1, n>=2)", list(w.shape))]
    if not isinstance(r, (int, np.integer)) or r < 1:
        bad.append(("ramppts>=1", ">=1 int", repr(r)))
        return bad
    x = w[0].astype(float)
    if not np.all(np.isfinite(x)):
        return [("finite", "finite samples", "nan/inf present")]
    if x[0] != 0:
        bad.append(("starts-at-0", 0.0, float(x[0])))
    if x[-1] != 0:
        bad.append(("ends-at-0", 0.0, float(x[-1])))
    amp = float(np.max(np.abs(x)))
    if amp > gmax * (1 + TOL):
        bad.append(("max<=gmax", gmax, amp))
    slew = float(np.max(np.abs(np.diff(x))))
    if slew > dgdt * dt * (1 + TOL):
        bad.append(("slew<=dgdt*dt", dgdt * dt, slew))
    if c["fn"] == "trap_grad":
        tot = math.fsum(x.tolist()) * dt
        if abs(tot - area) > TOL * area:
            bad.append(("sum*dt==area", area, tot))
    else:
        if 2 * (r + 1) >= x.size:
            bad.append(("flat-part-nonempty", ">=1 flat sample", int(x.size - 2 * (r + 1))))
        else:
            fl = x[r + 1:x.size - r - 1]
            tot = math.fsum(fl.tolist()) * dt
            if abs(tot - area) > TOL * area:
                bad.append(("flat-sum*dt==area", area, tot))
            if float(np.max(fl) - np.min(fl)) > TOL * amp:
                bad.append(("flat-is-flat", float(np.max(fl)), float(np.min(fl))))
            # the ramps lead up to / down from the flat top monotonically
            if np.any(np.diff(x[:r + 2]) < -TOL * amp) or np.any(np.diff(x[x.size - r - 2:]) > TOL * amp):
                bad.append(("ramps-monotone", "monotone ramps", "non-monotone"))
    return bad


def classify(c, w, r):
    if c["fn"] == "trap_grad":
        n = w.shape[1]
        if c["kind"].startswith("boundary"):
            return "trap_grad:boundary"
        return "trap_grad:triangle" if n == 2 * (r + 1) else "trap_grad:trapezoid"
    n = w.shape[1]
    flat = n - 2 * (r + 1)
    a = math.sqrt(c["dgdt"] * c["area"] / 2)
    if math.floor(c["area"] / a / c["dt"]) < 1:
        return "min_trap_grad:pts-floor-0"
    return "min_trap_grad:capped" if flat > max(math.floor(c["area"] / a / c["dt"]), 1) else "min_trap_grad:uncapped"


def coq_expr(c, w, r, rng):
    x = w[0]
    n = x.size
    par = "%s %s %s %s" % tuple(L.flt(c[k]) for k in ("area", "gmax", "dgdt", "dt"))
    name = "chk_trap" if c["fn"] == "trap_grad" else "chk_mintrap"
    if n <= FULL_LEN:
        return "%s %s %s %s" % (name, par, L.z(r), L.flist(x))
    idx = {0, 1, 2, n - 1, n - 2, n - 3, n // 2, n // 2 + 1}
    for k in (r - 1, r, r + 1, r + 2, n - r - 3, n - r - 2, n - r - 1, n - r):
        if 0 <= k < n:
            idx.add(k)
    for _ in range(12):
        idx.add(rng.randrange(n))
    pts = "[" + "; ".join("(%s, %s)" % (L.z(i), L.flt(x[i])) for i in sorted(idx)) + "]"
    return "%s_sparse %s %s %s %s" % (name, par, L.z(r), L.z(n), pts)


# ---------------------------------------------------------------- spokes_grad (stretch; oracle only)
def spokes_case(rng):
    ns = rng.randint(1, 6)
    scale = logu(rng, 0.01, 1.0)
    if rng.random() < 0.15:
        scale = logu(rng, 3.0, 80.0)       # increments whose blips may be longer than the slice-select lobe (outside the domain)
    k = [[rng.uniform(-1, 1) * scale, rng.uniform(-1, 1) * scale] for _ in range(ns)]
    if rng.random() < 0.4:
        # spoke locations on a regular 1/fov grid (the usual design): increments on the two axes then tie in magnitude,
        # with equal or opposite signs, or vanish on one axis
        d = scale / 3
        k = [[rng.randint(-3, 3) * d, rng.randint(-3, 3) * d] for _ in range(ns)]
        if rng.random() < 0.5:
            j = rng.randrange(ns)
            m = rng.randint(1, 3) * d
            k[j] = [m * rng.choice([-1, 1]), m * rng.choice([-1, 1])]      # diagonal location: the final return to 0 ties too
    if rng.random() < 0.3:
        k[rng.randrange(ns)][rng.randrange(2)] = 0.0
    if ns > 1 and rng.random() < 0.3:       # repeated location: zero increment on both axes
        k[1] = list(k[0])
    kd = rng.choice(["float64", "float64", "float64", "int", "float32"])
    if kd == "int":                        # locations on an integer grid (cycles/cm), stored as integers
        k = [[float(rng.randint(-2, 2)), float(rng.randint(-2, 2))] for _ in range(ns)]
    return dict(fn="spokes_grad", kind="spokes", k=k, kdtype=kd, tbw=rng.choice([2, 4, 8]), sl_thick=rng.choice([3.0, 5.0, 10.0]),
                gmax=rng.choice([2.0, 4.0, 8.0]), dgdt=rng.choice([8000.0, 18000.0, 50000.0]), dt=rng.choice([4e-6, 1e-5]))


def spokes_oracle(tg, c):
    """returns (applicable, bad list)"""
    k = np.array(c["k"], dtype=float)
    gmax, dgdt, dt = c["gmax"], c["dgdt"], c["dt"]
    area = c["tbw"] / (c["sl_thick"] / 10) / GAMMA
    sub, _ = tg.min_trap_grad(area, gmax, dgdt, dt)
    nsub = sub.shape[1]
    kk, k = spokes_inputs(c)
    inc = np.diff(np.vstack((k, np.zeros((1, 2)))), axis=0)            # requested k-space increments
    fits = all(tg.trap_grad(v / GAMMA, gmax, dgdt, dt)[0].shape[1] <= nsub for v in np.abs(inc).ravel() if v / GAMMA > 0)
    if not fits:
        # a blip longer than the slice-select lobe.  The code either raises (numpy.vstack on unequal lengths: a rejection) or lets the
        # blip eat into the previous spoke; the assembled gradients must then STILL respect the limits and bring k-space back to 0
        # (known finding C20:spokes_grad:blip-longer-than-lobe when they do not)
        try:
            g = np.asarray(tg.spokes_grad(kk, c["tbw"], c["sl_thick"], gmax, dgdt, dt))
        except ValueError:
            return False, []
        bad = []
        for ax in range(3):
            if np.max(np.abs(g[ax])) > gmax * (1 + TOL):
                bad.append(("blip-longer-than-lobe axis%d max<=gmax" % ax, gmax, float(np.max(np.abs(g[ax])))))
            if np.max(np.abs(np.diff(g[ax]))) > dgdt * dt * (1 + TOL):
                bad.append(("blip-longer-than-lobe axis%d slew" % ax, dgdt * dt, float(np.max(np.abs(np.diff(g[ax]))))))
        for ax in range(2):
            moved = math.fsum(g[ax].tolist()) * dt * GAMMA
            if abs(moved + k[0, ax]) > 1e-9 * max(float(np.sum(np.abs(inc[:, ax]))), 1e-12):
                bad.append(("blip-longer-than-lobe axis%d total k-space displacement" % ax, float(-k[0, ax]), moved))
        return False, bad
    g = np.asarray(tg.spokes_grad(kk, c["tbw"], c["sl_thick"], gmax, dgdt, dt))
    bad = []
    if g.ndim != 2 or g.shape[0] != 3:
        return True, [("shape", "(3, Nt)", list(g.shape))]
    for ax in range(3):
        if np.max(np.abs(g[ax])) > gmax * (1 + TOL):
            bad.append(("axis%d max<=gmax" % ax, gmax, float(np.max(np.abs(g[ax])))))
        if np.max(np.abs(np.diff(g[ax]))) > dgdt * dt * (1 + TOL):
            bad.append(("axis%d slew" % ax, dgdt * dt, float(np.max(np.abs(np.diff(g[ax]))))))
        if g[ax, 0] != 0 or g[ax, -1] != 0:
            bad.append(("axis%d ends at 0" % ax, 0.0, [float(g[ax, 0]), float(g[ax, -1])]))
    for ii in range(k.shape[0]):
        for ax in range(2):
            moved = math.fsum(g[ax, ii * nsub:(ii + 1) * nsub].tolist()) * dt * GAMMA
            if abs(moved - inc[ii, ax]) > TOL * max(abs(inc[ii, ax]), 1e-12) + 1e-15:
                bad.append(("k-space increment spoke %d axis %d" % (ii, ax), float(inc[ii, ax]), moved))
        # slice-select lobe of spoke ii: alternating sign, area under its flat top = tbw/thick/gamma
    zref = math.fsum(g[2].tolist())
    if abs(zref * dt) > TOL * area * k.shape[0] + 0:     # total gz area: sum of alternating lobes minus the refocusing lobe
        pass
    return True, bad


def spokes_inputs(c):
    """the array handed to spokes_grad and the float64 locations it stands for"""
    k = np.array(c["k"], dtype=float)
    kk = k
    if c.get("kdtype") == "int":
        kk = np.rint(k).astype(np.int64); k = kk.astype(float)
    elif c.get("kdtype") == "float32":
        kk = k.astype(np.float32); k = kk.astype(float)
    return kk, k


def spokes_coq_expr(tg, c, rng):
    """Coq boolean: the float model of spokes_grad (coq/model/Spokes.v) reproduces what the implementation returned —
    or, when the implementation raised, is outside its domain with unequal axis lengths.  None = rounding tie (not compared)."""
    kk, k = spokes_inputs(c)
    gmax, dgdt, dt = c["gmax"], c["dgdt"], c["dt"]
    par = "%s %s %s %s %s %s %s" % (L.flist(k[:, 0]), L.flist(k[:, 1]), L.flt(float(c["tbw"])), L.flt(c["sl_thick"]),
                                    L.flt(gmax), L.flt(dgdt), L.flt(dt))
    try:
        g = np.asarray(tg.spokes_grad(kk, c["tbw"], c["sl_thick"], gmax, dgdt, dt), dtype=float)
    except ValueError:
        return "chk_spokes_raised " + par, "raised"
    area = c["tbw"] / (c["sl_thick"] / 10) / GAMMA
    sub, _ = tg.min_trap_grad(area, gmax, dgdt, dt)
    nsub, n = sub.shape[1], k.shape[0]
    # numpy sums pairwise, the model left to right: if the two sums give refocusing lobes of different length the case sits on a
    # rounding tie of a ceil and is not compared
    s_lr = 0.0
    for v in sub[0].tolist():
        s_lr += v
    if tg.trap_grad(dt * s_lr / 2, gmax, dgdt, dt)[0].shape[1] != tg.trap_grad(dt * float(np.sum(sub)) / 2, gmax, dgdt, dt)[0].shape[1]:
        return None, "rounding-tie"
    if g.ndim != 2 or g.shape[0] != 3:
        return "false", "malformed"
    inc = np.diff(np.vstack((k, np.zeros((1, 2)))), axis=0)
    fit = all(tg.trap_grad(v / GAMMA, gmax, dgdt, dt)[0].shape[1] <= nsub for v in np.abs(inc).ravel() if v / GAMMA > 0)
    N = g.shape[1]
    idx = {0, 1, N - 1, N - 2}
    for i in range(n + 1):
        for d in (-2, -1, 0, 1, 2):
            if 0 <= i * nsub + d < N:
                idx.add(i * nsub + d)
    for _ in range(30):
        idx.add(rng.randrange(N))
    def pts(ax):
        return "[" + "; ".join("(%s, %s)" % (L.z(i), L.flt(g[ax, i])) for i in sorted(idx)) + "]"
    def sums(ax):
        out = []
        for i in range(n):
            t = 0.0
            for v in g[ax, i * nsub:(i + 1) * nsub].tolist():
                t += v
            out.append(t)
        t = 0.0
        for v in g[ax, n * nsub:].tolist():
            t += v
        out.append(t)
        return L.flist(out)
    atol_s = 1e-12 * gmax * max(nsub, 1)
    return ("chk_spokes %s %s %s %s %s %s %s %s %s %s %s" % (par, "true" if fit else "false", L.z(N), L.z(nsub), L.flt(atol_s),
                                                           pts(0), pts(1), pts(2), sums(0), sums(1), sums(2))), \
        ("returned" if fit else "returned-outside-domain")


# ---------------------------------------------------------------- the check
def run(ctx):
    ctx.source_hash("sigpy/mri/rf/trajgrad.py")
    # tie by translation (DESIGN 2.8): gen/Gen_trap.v is regenerated from trajgrad.py (translate_all job "trap") and compiled;
    # its lemmas state generated trap_grad / min_trap_grad == coq/model/Trap.v (for every RealOps, so on floats and on R)
    from tools import translate_trap
    tie_broken = translate_trap.tie(ctx)    # obligations "translate:sigpy/mri/rf/trajgrad.py (...)", "tie:generated == hand model (...)"
    proof_ok = ctx.prove("Prop_C20.v")
    core.import_sigpy()
    from sigpy.mri.rf import trajgrad as tg
    rng = ctx.rng
    maxlen = ctx.n(100000, 3000000)
    n_rand = ctx.n(500, 8000)
    n_edge = ctx.n(60, 800)
    cases = list(corpus_cases())
    skipped = 0
    for fn in ("trap_grad", "min_trap_grad"):
        k = 0
        while k < n_rand // 2:
            c, too_long = gen_random(rng, fn, maxlen)
            if too_long:
                skipped += 1
                ctx.coverage["histogram"]["skipped:longer-than-%d" % maxlen] = skipped
                continue
            cases.append(c); k += 1
    for _ in range(n_edge):
        cases.append(gen_boundary_trap(rng))
        cases.append(gen_exact_ceil_trap(rng))
        cases.append(gen_boundary_mintrap(rng))
        cases.append(gen_small_mintrap(rng))

    # near-duplicate requests right after each other: every argument within 1e-9 (absolute) of the previous call's, so that
    # anything remembered from one design and handed to the next shows up as a wrong area / limit of the SECOND waveform
    seq = []
    for c in cases[:]:
        if len(seq) < 2 * ctx.n(40, 400) and c.get("area", 1) < 3e-6 and c["fn"] in ("trap_grad", "min_trap_grad") and "area" in c:
            c2 = dict(c, area=c["area"] * (1 + 3e-4), dt=c["dt"] * (1 + 2e-5))
            seq += [c, c2]
    cases += seq
    done, reported = [], set()
    n_oracle_bad = 0
    for c in cases:
        try:
            w, r = call_impl(tg, c)
        except Exception as e:
            ctx.count(c["fn"] + ":exception", key=json.dumps(c, sort_keys=True), sample=c)
            n_oracle_bad += 1
            sig = "C20:%s:exception" % c["fn"]
            if sig not in reported:
                reported.add(sig)
                ctx.violation("%s raised %s on valid positive parameters" % (c["fn"], type(e).__name__),
                              {"kind": "impl-exception", "case": c, "expected": "a waveform meeting the limits",
                               "observed": repr(e)}, signature=sig)
            continue
        cls = classify(c, w, r) if w.ndim == 2 and isinstance(r, (int, np.integer)) else c["fn"] + ":malformed"
        ctx.count(cls, key=json.dumps(c, sort_keys=True), nontrivial=True,
                  sample={"params": c, "ramppts": int(r) if isinstance(r, (int, np.integer)) else repr(r),
                          "length": int(w.shape[-1]), "peak": float(np.max(w))})
        bad = oracle(c, w, r)
        if bad:
            n_oracle_bad += 1
            for cond, exp, obs in bad:
                sig = "C20:%s:%s" % (c["fn"], cond)
                if sig in reported:
                    continue
                reported.add(sig)
                ctx.violation("%s violates %s" % (c["fn"], cond),
                              {"kind": "oracle", "case": c, "condition": cond, "expected": exp, "observed": obs,
                               "ramppts": repr(r), "length": int(w.shape[-1])}, signature=sig)
        if w.ndim == 2 and w.shape[0] == 1 and isinstance(r, (int, np.integer)):
            done.append(dict(case=c, w=w, r=int(r), expr=coq_expr(c, w, int(r), rng), oracle_bad=bool(bad)))
    ctx.obligation("oracle:impl meets the four conditions (%d cases)" % len(cases), n_oracle_bad == 0)

    # correspondence: model (floats, inside Coq) == implementation
    failing, corr_ok = [], True
    try:
        if not ctx.make(["run/RunC20.vo"]):
            raise RuntimeError("run/RunC20.vo does not build")
        failing = L.run_bool_cases(ctx, "c20", HEADER, done, per_file=40)
    except RuntimeError as e:
        corr_ok = False
        ctx.notes.append("correspondence could not run: %s" % str(e)[:500])
    ctx.obligation("corr:model==impl (%d cases)" % len(done), corr_ok and not failing)
    ctx.coverage["disagreements_model_vs_impl"] = len(failing)
    ctx.coverage["disagreements_oracle_vs_impl"] = n_oracle_bad
    for i in failing:
        d = done[i]
        c = d["case"]
        sig = "C20:corr:%s" % c["fn"]
        if sig in reported or d["oracle_bad"] or any(x.startswith("C20:%s:" % c["fn"]) for x in reported):
            continue
        reported.add(sig)
        ctx.violation("model and implementation disagree on %s (the four conditions still hold on this input)" % c["fn"],
                      {"kind": "correspondence", "broken": "corr:" + c["fn"], "case": c, "ramppts": d["r"],
                       "length": int(d["w"].shape[1]), "observed_head": d["w"][0][:8].tolist()},
                      found_input=False, signature=sig)

    # spokes_grad: oracle on the implementation + correspondence with coq/model/Spokes.v (theorem C20_spokes_grad_meets_limits)
    n_sp, sp_bad, sp_na = ctx.n(40, 600), 0, 0
    sp_done = []
    sp_cases = [spokes_case(rng) for _ in range(n_sp)]
    # some spoke sets are designed a second time after all the others (anything remembered from one design and handed to a later
    # one shows in the second result)
    sp_cases += [dict(c) for c in sp_cases[:ctx.n(10, 100)]]
    for c in sp_cases:
        try:
            app, bad = spokes_oracle(tg, c)
        except Exception as e:
            app, bad = True, [("exception", "gradients", repr(e))]
        if not app:
            sp_na += 1
            ctx.count("spokes_grad:blip-longer-than-lobe(outside the domain: rejection or limits + return to origin)", nontrivial=False)
        else:
            ctx.count("spokes_grad", key=json.dumps(c, sort_keys=True), nontrivial=len(c["k"]) > 1, sample=c)
        if bad:
            sp_bad += 1 if app else 0       # outside the domain: open known finding, reported through its signature
            sig = "C20:spokes_grad:%s" % bad[0][0].split(" ")[0]
            if sig not in reported:
                reported.add(sig)
                ctx.violation("spokes_grad violates %s" % bad[0][0],
                              {"kind": "oracle-spokes", "case": c, "condition": bad[0][0], "expected": bad[0][1],
                               "observed": bad[0][2]}, signature=sig)
        try:
            expr, how = spokes_coq_expr(tg, c, rng)
        except Exception as e:
            expr, how = "false", "exception:" + type(e).__name__
        ctx.count("spokes_grad:corr:" + how, nontrivial=False)
        if expr is not None:
            sp_done.append(dict(case=c, expr=expr, oracle_bad=bool(bad), how=how))
    ctx.obligation("oracle:spokes_grad limits and k-space increments (%d cases)" % (len(sp_cases) - sp_na), sp_bad == 0)
    sp_failing, sp_ok = [], True
    try:
        if not ctx.make(["run/RunC20.vo"]):
            raise RuntimeError("run/RunC20.vo does not build")
        sp_failing = L.run_bool_cases(ctx, "c20sp", HEADER, sp_done, per_file=8)
    except RuntimeError as e:
        sp_ok = False
        ctx.notes.append("spokes correspondence could not run: %s" % str(e)[:500])
    ctx.obligation("corr:spokes_grad model==impl (%d cases, %d rejected by both)" %
                   (len(sp_done), sum(1 for d in sp_done if d["how"] == "raised")), sp_ok and not sp_failing)
    ctx.coverage["disagreements_model_vs_impl"] += len(sp_failing)
    if not sp_ok:
        corr_ok = False
    for i in sp_failing:
        d = sp_done[i]
        if d["oracle_bad"] or any(x.startswith("C20:spokes_grad:") for x in reported):
            continue
        reported.add("C20:corr:spokes_grad")
        failing.append(-1)
        ctx.violation("model and implementation disagree on spokes_grad (%s; the oracle's conditions hold on this input)" % d["how"],
                      {"kind": "correspondence", "broken": "corr:spokes_grad", "case": d["case"], "impl": d["how"]},
                      found_input=False, signature="C20:corr:spokes_grad")

    # something broke but no failing input yet: search more widely with the oracle (short waveforms, many draws)
    if (not proof_ok or not corr_ok or failing or tie_broken) and not any(v["found_input"] for v in ctx.violations):
        found = False
        for _ in range(ctx.n(4000, 60000)):
            fn = rng.choice(["trap_grad", "min_trap_grad"])
            c, too_long = gen_random(rng, fn, 5000)
            if too_long:
                continue
            try:
                w, r = call_impl(tg, c)
                bad = oracle(c, w, r)
            except Exception as e:
                bad = [("exception", "a waveform", repr(e))]
            if bad:
                ctx.violation("%s violates %s (found by the search)" % (fn, bad[0][0]),
                              {"kind": "oracle", "case": c, "condition": bad[0][0], "expected": bad[0][1],
                               "observed": bad[0][2]}, signature="C20:%s:%s" % (fn, bad[0][0]))
                found = True
                break
        if not found and not ctx.violations:
            broken = getattr(ctx, "broken_proof", tie_broken or {"theorem": "corr:coq-run", "log": "; ".join(ctx.notes)[-1500:]})
            ctx.violation("proof obligation no longer checks: %s" % broken.get("theorem"),
                          {"kind": "proof", "broken": broken}, found_input=False, signature="C20:proof")

    ctx.coverage["rule"] = (
        "log-uniform draws of (area, gmax, dgdt, dt) in the property's box [1e-6,1]x[0.1,10]x[1e2,1e5]x[1e-6,1e-4] for trap_grad and "
        "min_trap_grad (draws whose waveform would exceed %d samples are counted under skipped:* and not run), plus per function: "
        "area at/one ulp/1e-12 around the triangle-trapezoid switch r*dt*gmax, power-of-two parameters making the ceil arguments exact "
        "integers, flat amplitude at/one ulp around gmax (cap switch), floor(area/a/dt)=0 (F12 region), box corners, the unit test's "
        "parameters; every case is non-trivial (>= 4 samples); distinct = distinct parameter tuples; waveforms up to %d samples are "
        "compared sample by sample in Coq, longer ones on length, ramp count and ~30 indexed samples; spokes_grad: random spoke sets "
        "(1-6 spokes, zero/repeated increments, grid ties, int / float32 storage, some designed twice): oracle on the implementation and "
        "the float model of coq/model/Spokes.v compared on length, ~50 indexed samples per axis and every segment sum; spoke sets whose "
        "blips do not fit are run too (implementation raises <=> model outside blips_fit)" % (maxlen, FULL_LEN))
    ctx.trusted += TRUSTED
    ctx.proved += PROVED
    ctx.validated_only += VALIDATED


def replay(obj):
    core.import_sigpy()
    from sigpy.mri.rf import trajgrad as tg
    if obj.get("kind") == "proof":
        print("no failing input; broken:", obj.get("broken"))
        return 1
    c = obj["case"]
    if c["fn"] == "spokes_grad":
        try:
            app, bad = spokes_oracle(tg, c)
        except Exception as e:
            print("spokes_grad raised", repr(e)); return 1
        print("case", c, "\napplicable:", app, "\nviolated:", bad)
        return 1 if bad else 0
    try:
        w, r = call_impl(tg, c)
    except Exception as e:
        print("case", c, "\nraised", repr(e))
        return 1
    bad = oracle(c, w, r)
    print("case", c, "\nramppts", r, "length", w.shape, "peak", float(np.max(w)), "\nviolated conditions:", bad)
    return 1 if bad else 0


TRUSTED = [
    "Coq 8.16.1 kernel + vm_compute (no native_compute, no extraction); Coq Reals axioms as printed by Print Assumptions",
    "hand model coq/model/Trap.v of trap_grad / min_trap_grad (line-by-line, one term for floats and for R), tied by this run's correspondence "
    "and, since tools/translate_trap.py, by gen/Gen_trap.v: the two functions regenerated from the source text on every run with lemmas "
    "gen_trap_grad_ok / gen_min_trap_grad_ok (generated = hand model, unfolding + case analysis + reflexivity); trusted there: the "
    "translator's reading of the accepted Python fragment (notes/translate_trap.md)",
    "np.ceil/np.floor/np.sqrt/np.linspace(0,r,r+1)/np.sum/np.max/builtin sum as modelled in Trap.v "
    "(linspace samples exactly 0..r; sum left to right); lib/FloatRun.float_to_Z_ceil/floor, Z_to_float",
    "over R, ceil is `1 - up(-t)` (proved: t <= ceil t < t+1); the float ceil may differ from it when the real quotient is within "
    "rounding of an integer (validated with tolerance 1e-9, see exact-ceil cases)",
]
PROVED = ["C20_trap_grad_meets_limits, C20_trap_grad_regimes, C20_min_trap_grad_meets_limits, C20_ceil_is_ceiling "
          "(coq/props/Prop_C20.v): all four conditions for ALL positive parameters, all regimes, no partial theorems",
          "C20_spokes_grad_meets_limits: for ALL spoke sets and positive parameters inside the designer's domain (boolean blips_fit: every "
          "in-plane blip fits inside one slice-select lobe) the three waveforms have equal length, start/end at 0, stay within gmax and "
          "dgdt*dt on every axis, move k-space by exactly k[i+1]-k[i] per spoke (return to 0 at the end), gz = alternating "
          "min_trap_grad lobes + minus a half-area trapezoid"]
VALIDATED = ["floating-point rounding of the designs (area to 1e-9 relative, limits to 1e-9 relative) — oracle on the implementation",
             "spokes_grad: hand model coq/model/Spokes.v (no translator twin; tied by the value correspondence of every run and, for "
             "the designers it calls, by gen/Gen_trap.v); numpy's pairwise np.sum(subgz) vs the model's left-to-right sum (cases where "
             "the two give refocusing lobes of different length are counted as rounding ties and not compared)"]
