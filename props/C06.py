"""C06 — nufft approximates the non-uniform DFT to its stated accuracy; nufft_adjoint is its exact adjoint.

Proof: coq/props/Prop_C06.v about the hand model coq/model/Nufft.v (apodize, 1/sqrt N, centred resize, centred FFT with
norm=None, coordinate scaling, Kaiser-Bessel interpolation, 1/W^d; mirrored adjoint): exact adjointness for every shape,
coordinate set, oversampling and width (oracles: numpy.fft, the interpolate/gridding pair), periodicity of the scaled
coordinates / interpolation window, conformance of the beta / scale / shift / apodisation formulas.
Tie: parameter functions vs the implementation on PrimFloat (integers exact, floats 1e-12); step structure: the model
evaluated in Coq with the implementation's own Kaiser-Bessel values, numpy's sinh and DFT twiddles as data vs sp.nufft /
sp.nufft_adjoint on small problems (1e-6; complex64 1e-4).
The accuracy bound itself (3 % at the defaults, 0.3 % at oversamp 2) is NOT proved: validated numerically only against
the explicit NUDFT (partial), together with periodicity, the adjoint dot test and the Toeplitz normal operator.
"""
import json
import math
import numpy as np
from vlib import core, coqlit as L

HEADER = """From Coq Require Import ZArith List Bool PrimFloat.
From SV Require Import lib.Scalar lib.NdArray lib.FloatRun run.RunC06.
Import ListNotations.
Local Open Scope Z_scope.
"""
PI = float(np.pi)


# ---------------------------------------------------------------- the exact transform (numpy)
def nudft_matrix(shape, coord):
    nd = len(shape)
    grids = np.meshgrid(*[np.arange(n) - n // 2 for n in shape], indexing="ij")
    pos = np.stack([g.ravel() for g in grids], -1).astype(np.float64)        # (N, nd), measured from the centre index n//2
    k = np.asarray(coord, dtype=np.float64).reshape(-1, nd)
    return np.exp(-2j * np.pi * (k / np.array(shape, dtype=np.float64)) @ pos.T) / math.sqrt(float(np.prod(shape)))


def nudft(x, coord, nd):
    shape = x.shape[x.ndim - nd:]
    E = nudft_matrix(shape, coord)
    xb = x.reshape(x.shape[:x.ndim - nd] + (-1,))
    return (xb @ E.T).reshape(x.shape[:x.ndim - nd] + coord.shape[:-1])


def nudft_adjoint(y, coord, oshape, nd):
    shape = tuple(oshape[len(oshape) - nd:])
    E = nudft_matrix(shape, coord)
    npts = int(np.prod(coord.shape[:-1]))
    yb = y.reshape(tuple(oshape[:len(oshape) - nd]) + (npts,))
    return (yb @ np.conj(E)).reshape(tuple(oshape))


def rel(a, b):
    nb = np.linalg.norm(b)
    return float(np.linalg.norm(a - b) / (nb if nb > 0 else 1.0))


# ---------------------------------------------------------------- generators
def gen_coord(rng, nrng, shape, npts, kind):
    nd = len(shape)
    sh = np.array(shape, dtype=np.float64)
    if kind == "random":
        c = (nrng.random((npts, nd)) - 0.5) * sh
    elif kind == "ongrid":
        c = np.array([[rng.randint(-(n // 2), n - n // 2 - 1) for n in shape] for _ in range(npts)], dtype=np.float64)
    elif kind == "half":
        c = np.array([[rng.randint(-(n // 2), n - n // 2 - 1) + 0.5 for n in shape] for _ in range(npts)], dtype=np.float64)
    elif kind == "cluster":
        c0 = (nrng.random((1, nd)) - 0.5) * sh
        c = c0 + 0.05 * nrng.standard_normal((npts, nd))
    elif kind == "outside":
        c = (nrng.random((npts, nd)) - 0.5) * sh * 6
    else:
        raise ValueError(kind)
    return np.ascontiguousarray(c)


KINDS = ["random", "ongrid", "half", "cluster", "outside"]


def gen_shape(rng, nd, big=True):
    mx = {1: 24, 2: 12, 3: 7}[nd] if big else {1: 8, 2: 5, 3: 3}[nd]
    return [rng.randint(1 if not big else 2, mx) for _ in range(nd)]


def crandn(nrng, shape, dtype=np.complex128):
    return (nrng.standard_normal(shape) + 1j * nrng.standard_normal(shape)).astype(dtype)


# ---------------------------------------------------------------- data for the Coq side
def capture_beta(sp, oversamp, width):
    """the value the implementation passes as Kaiser-Bessel parameter (the beta expression is inline in nufft)"""
    seen = {}
    orig_i, orig_g = sp.fourier.interp.interpolate, sp.fourier.interp.gridding

    def wi(*a, **k):
        seen["i"] = k["param"]
        return orig_i(*a, **k)

    def wg(*a, **k):
        seen["g"] = k["param"]
        return orig_g(*a, **k)
    sp.fourier.interp.interpolate, sp.fourier.interp.gridding = wi, wg
    try:
        c = np.zeros((1, 1))
        y = sp.nufft(np.ones(2, dtype=np.complex128), c, oversamp=oversamp, width=width)
        sp.nufft_adjoint(y, c, [2], oversamp=oversamp, width=width)
    finally:
        sp.fourier.interp.interpolate, sp.fourier.interp.gridding = orig_i, orig_g
    return float(seen["i"]), float(seen["g"])


def sinh_table(shape_axes, oversamp, width, beta):
    items, seen = [], set()
    for i in shape_axes:
        os_i = math.ceil(oversamp * i)
        for k in range(i):
            a = np.sqrt(np.float64(beta) ** 2 - (np.float64(np.pi) * width * (k - i // 2) / os_i) ** 2)
            if float(a) in seen:
                continue
            seen.add(float(a))
            items.append("(%s, %s)" % (L.flt(a), L.flt(np.sinh(a))))
    return "[" + "; ".join(items) + "]"


def kb_table(sp, scoord, width, beta):
    kb = sp.interp._kaiser_bessel_kernel
    seen, items = set(), []
    w = np.float64(width)
    flat = scoord.reshape(-1)
    for k in flat:
        k = np.float64(k)
        x0 = int(np.ceil(k - w / 2)); x1 = int(np.floor(k + w / 2))
        for x in range(x0, x1 + 1):
            t = float((np.float64(x) - k) / (w / 2))
            if t in seen:
                continue
            seen.add(t)
            items.append("(%s, %s)" % (L.flt(t), L.flt(float(kb(t, np.float64(beta))))))
    return "[" + "; ".join(items) + "]"


def tw_table(lengths):
    rows = []
    for n in sorted(set(int(v) for v in lengths)):
        tws = [np.exp(-2j * np.pi * m / n) for m in range(n)]
        rows.append("(%d, (%s, (%s, %s)))" % (n, L.cflist(tws), L.flt(1.0 / math.sqrt(n)), L.flt(1.0 / n)))
    return "[" + "; ".join(rows) + "]"


def step_case(sp, rng, nrng, adjoint, c64=False):
    nd = rng.choice([1, 1, 2])
    shape = gen_shape(rng, nd, big=False)
    if nd == 1:
        shape = [rng.randint(1, 8)]
    bat = rng.choice([[], [], [2]])
    pts = [rng.randint(1, 12 if nd == 1 else 5)] if rng.random() < 0.8 else [2, rng.randint(1, 3)]
    oversamp = rng.choice([1.25, 1.25, 2.0, 1.5])
    width = rng.choice([4.0, 4.0, 3.0, 6.0, 2.5])
    kind = rng.choice(KINDS)
    coord = gen_coord(rng, nrng, shape, int(np.prod(pts)), kind).reshape(pts + [nd])
    dt = np.complex64 if c64 else np.complex128
    ish = bat + shape
    beta, beta_g = capture_beta(sp, oversamp, width)
    os_axes = [math.ceil(oversamp * n) for n in shape]
    scoord = sp.fourier._scale_coord(coord, ish, oversamp)
    common = "%s %s %s %s" % (L.flt(PI), kb_table(sp, scoord, width, beta if not adjoint else beta_g),
                              sinh_table(shape, oversamp, width, beta), tw_table(os_axes))
    tol = 1e-4 if c64 else 1e-6
    info = dict(shape=ish, pts=pts, nd=nd, oversamp=oversamp, width=width, kind=kind, adjoint=adjoint, c64=c64)
    if not adjoint:
        x = crandn(nrng, ish, dt)
        y = sp.nufft(x, coord, oversamp=oversamp, width=width)
        expr = "chk_nufft %s %s %s %s %s %s %s %s %s %s" % (
            common, L.zlist(ish), L.zlist(coord.shape), L.flist(coord.ravel()), L.flt(oversamp), L.flt(width),
            L.cflist(x.ravel()), L.zlist(y.shape), L.cflist(np.asarray(y).ravel()), L.flt(tol))
    else:
        insh = bat + pts
        x = crandn(nrng, insh, dt)
        y = sp.nufft_adjoint(x, coord, oshape=ish, oversamp=oversamp, width=width)
        assert list(y.shape) == ish
        expr = "chk_nufft_adjoint %s %s %s %s %s %s %s %s %s %s" % (
            common, L.zlist(insh), L.zlist(coord.shape), L.zlist(ish), L.flist(coord.ravel()), L.flt(oversamp), L.flt(width),
            L.cflist(x.ravel()), L.cflist(np.asarray(y).ravel()), L.flt(tol))
    return dict(expr=expr, kind="steps", info=info, nontrivial=bool(np.any(np.asarray(y) != 0)))


def param_cases(sp, rng, nrng, n):
    out = []
    oss = [1.0, 1.25, 1.5, 2.0, 1.1, 1.375, 1.3, 2.5]
    for _ in range(n):
        what = rng.choice(["os_shape", "scale_coord", "scale_shift", "beta", "apod"])
        oversamp = rng.choice(oss) if rng.random() < 0.8 else round(rng.uniform(1.0, 2.5), 3)
        width = rng.choice([3.0, 4.0, 5.0, 6.0, 4.5, 3.5])
        if what == "os_shape":
            shape = [rng.randint(1, 40) for _ in range(rng.randint(1, 4))]
            ndim = rng.randint(1, min(3, len(shape)))
            e = sp.fourier._get_oversamp_shape(shape, ndim, oversamp)
            expr = "chk_os_shape %s %d %s %s" % (L.zlist(shape), ndim, L.flt(oversamp), L.zlist(e))
        elif what == "scale_coord":
            nd = rng.randint(1, 3)
            shape = [rng.randint(1, 3) for _ in range(rng.choice([0, 1]))] + [rng.randint(1, 40) for _ in range(nd)]
            pts = [rng.randint(1, 4)] if rng.random() < 0.7 else [2, 2]
            coord = (nrng.random(tuple(pts) + (nd,)) - 0.5) * 50
            e = sp.fourier._scale_coord(coord, shape, oversamp)
            expr = "chk_scale_coord %s %s %s %s %s" % (L.zlist(coord.shape), L.zlist(shape), L.flt(oversamp), L.flist(coord.ravel()), L.flist(e.ravel()))
        elif what == "scale_shift":
            nlen = rng.randint(1, 60)
            e = sp.fourier._scale_coord(np.array([[0.0], [1.0]]), [nlen], oversamp)
            expr = "chk_scale_shift %s %d %s %d" % (L.flt(oversamp), nlen, L.flt(float(e[1, 0] - e[0, 0])), int(e[0, 0]))
        elif what == "beta":
            b1, b2 = capture_beta(sp, oversamp, width)
            expr = "(chk_beta %s %s %s %s && chk_beta %s %s %s %s)" % (L.flt(PI), L.flt(width), L.flt(oversamp), L.flt(b1),
                                                                        L.flt(PI), L.flt(width), L.flt(oversamp), L.flt(b2))
        else:
            i = rng.randint(1, 24)
            if oversamp < 1.25:       # outside the property's range the square root may leave the reals (complex branch, not modelled)
                oversamp = rng.choice([1.25, 1.5, 2.0])
            b1, _ = capture_beta(sp, oversamp, width)
            f = sp.fourier._apodize(np.ones(i, dtype=np.complex128), 1, oversamp, width, b1)
            if np.abs(f.imag).max() > 1e-12 * np.abs(f).max():
                out.append(dict(expr="false", kind="params", what="apod-not-real", info=dict(i=i, oversamp=oversamp, width=width)))
                continue
            expr = "chk_apod %s %s %s %d %s %s" % (L.flt(PI), L.flt(oversamp), L.flt(width), i, sinh_table([i], oversamp, width, b1), L.flist(f.real))
        out.append(dict(expr=expr, kind="params", what=what, info=dict(what=what, oversamp=oversamp, width=width)))
    return out


# ---------------------------------------------------------------- numeric validation on the implementation
def accuracy_case(sp, rng, nrng):
    nd = rng.choice([1, 1, 2, 2, 3])
    shape = gen_shape(rng, nd)
    bat = rng.choice([[], [], [2], [1, 3]])
    npts = rng.randint(1, 40)
    kind = rng.choice(KINDS)
    if rng.random() < 0.6:
        setting = rng.choice([(1.25, 4, 3e-2), (1.25, 4, 3e-2), (2, 4, 3e-3)])
    else:
        # the whole advertised range oversamp in [1.25, 2], width in [3, 6] incl. odd and fractional widths.  The Kaiser-Bessel
        # error decreases in both parameters, so the stated bounds (3 % at (1.25, 4), 0.3 % at (2, 4)) carry over to every
        # larger width / oversampling; below width 4 the statement gives no number and only the exact parts are judged
        # (shape, periodicity, adjoint dot test).
        os_ = rng.choice([1.25, 1.5, 2, round(rng.uniform(1.25, 2), 2)])
        w = rng.choice([3, 3.5, 4.5, 5, 5.5, 6, 5, 3])
        setting = (os_, w, (3e-3 if os_ >= 2 else 3e-2) if w >= 4 else None)
    coord = gen_coord(rng, nrng, shape, npts, kind)
    x = crandn(nrng, bat + shape)
    return dict(shape=shape, bat=bat, kind=kind, oversamp=setting[0], width=setting[1], tol=setting[2], coord=coord, x=x)


def eval_accuracy(sp, c):
    nd = len(c["shape"])
    y = sp.nufft(c["x"], c["coord"], oversamp=c["oversamp"], width=c["width"])
    ref = nudft(c["x"], c["coord"], nd)
    # error relative to the output energy, but not less than the energy a typical coordinate set of the same size receives
    # (|y_j|^2 ~ ||x||^2 / N): a tight cluster of coordinates sitting in a low-energy region of the spectrum would otherwise
    # turn an absolute error that is within the kernel's design accuracy into an arbitrarily large relative one
    npts = int(np.prod(c["coord"].shape[:-1]))
    N = float(np.prod(c["shape"]))
    den = max(np.linalg.norm(ref), math.sqrt(npts / N) * np.linalg.norm(c["x"]), 1e-30)
    res = {"accuracy": float(np.linalg.norm(y - ref) / den), "accuracy-vs-output": rel(y, ref) if np.linalg.norm(ref) > 1e-9 else 0.0}
    # periodicity: k and k + (integer multiples of N) give the same result
    shift = np.array(c["shift"] if "shift" in c else [0] * nd, dtype=np.float64) * np.array(c["shape"], dtype=np.float64)
    y2 = sp.nufft(c["x"], c["coord"] + shift, oversamp=c["oversamp"], width=c["width"])
    res["periodic"] = float(np.linalg.norm(y2 - y) / max(np.linalg.norm(y), 1e-30))
    # A scaled coordinate that sits (to rounding) on a window edge k +- W/2 in Z may gain or lose the edge sample
    # (the Kaiser-Bessel kernel is 1, not 0, at |t| = 1) when k -> k + N changes its last bits: exact periodicity is a
    # theorem over exact arithmetic (Prop_C06), in floats such ties are only periodic up to the accuracy bound.
    half = c["width"] / 2.0
    tie = False
    for cc in (c["coord"], c["coord"] + shift):
        sc = sp.fourier._scale_coord(cc, c["bat"] + c["shape"], c["oversamp"])
        for e in (sc - half, sc + half):
            if np.any(np.abs(e - np.rint(e)) < 1e-7 * (1 + np.abs(e))):
                tie = True
    res["tie"] = tie
    if tie:
        res["periodic-tie"] = float(np.linalg.norm(y2 - ref) / den)
        res["periodic"] = 0.0
    else:
        res["periodic-tie"] = 0.0
    # adjoint vs the exact adjoint transform, and the dot test
    yy = c["y"]
    ah = sp.nufft_adjoint(yy, c["coord"], oshape=c["bat"] + c["shape"], oversamp=c["oversamp"], width=c["width"])
    refh = nudft_adjoint(yy, c["coord"], c["bat"] + c["shape"], nd)
    res["adjoint-accuracy"] = float(np.linalg.norm(ah - refh) / max(np.linalg.norm(refh), np.linalg.norm(yy), 1e-30))
    lhs, rhs = np.vdot(yy, y), np.vdot(ah, c["x"])
    res["dot"] = float(abs(lhs - rhs) / max(np.linalg.norm(y) * np.linalg.norm(yy), 1e-30))
    res["shape_ok"] = list(y.shape) == c["bat"] + list(c["coord"].shape[:-1]) and list(ah.shape) == c["bat"] + c["shape"]
    return res


def limits(c):
    tol = c["tol"] if c["tol"] is not None else float("inf")      # width < 4: no accuracy number in the statement
    return {"accuracy": tol, "adjoint-accuracy": tol, "periodic": 1e-6, "periodic-tie": tol, "dot": 1e-5}


def ser(c):
    d = {k: c[k] for k in ("shape", "bat", "kind", "oversamp", "width", "tol")}
    d["coord"] = c["coord"].tolist()
    d["x"] = [[v.real, v.imag] for v in c["x"].ravel()]
    d["y"] = [[v.real, v.imag] for v in c["y"].ravel()]
    d["shift"] = c["shift"]
    return d


def unser(d):
    c = dict(d)
    c["coord"] = np.array(d["coord"], dtype=np.float64)
    c["x"] = np.array([complex(a, b) for a, b in d["x"]]).reshape(d["bat"] + d["shape"])
    c["y"] = np.array([complex(a, b) for a, b in d["y"]]).reshape(d["bat"] + list(c["coord"].shape[:-1]))
    return c


def toeplitz_case(sp, rng, nrng):
    nd = rng.choice([1, 2, 2, 3])
    shape = gen_shape(rng, nd)
    if rng.random() < 0.35:
        shape = [shape[0]] * nd                 # square grids as well
    npts = rng.randint(5, 60)
    coord = gen_coord(rng, nrng, shape, npts, rng.choice(["random", "random", "half", "outside"]))
    x = crandn(nrng, shape)
    return dict(shape=shape, coord=coord, x=x)


def eval_toeplitz(sp, c):
    A = sp.linop.NUFFT(c["shape"], c["coord"], toeplitz=True)
    A0 = sp.linop.NUFFT(c["shape"], c["coord"])
    a = A.N(c["x"]); b = A0.H(A0(c["x"]))
    return rel(a, b) if np.linalg.norm(b) > 1e-9 else float(np.linalg.norm(a - b))


def run(ctx):
    ctx.source_hash("sigpy/fourier.py", "sigpy/interp.py", "sigpy/util.py", "sigpy/linop.py")
    from tools import translate_all
    tr_err = translate_all.run(strict=False, only=["interp"])
    ctx.obligation("translate:sigpy/interp.py", not tr_err)
    proof_ok = False if tr_err else ctx.prove("Prop_C06.v")
    # tie by translation (DESIGN 2.8): gen/Gen_fourier.v is regenerated from fourier.py (translate_all job "fourier") and compiled;
    # its lemmas gen_nufft_ok, gen_nufft_adjoint_ok, gen__scale_coord_ok, gen__apodize_ok, ... state generated == hand model
    from tools import translate_fourier
    tie_broken = translate_fourier.tie(ctx, "nufft")    # obligations "translate:sigpy/fourier.py (...)", "tie:generated == hand model (...)"
    sp = core.import_sigpy()
    rng = ctx.rng
    nrng = np.random.default_rng(rng.randrange(2 ** 31))
    bad = {}
    # ---- correspondence cases (Coq) ----
    cases = param_cases(sp, rng, nrng, ctx.n(120, 1500))
    for p in cases:
        ctx.count("params:" + p["what"], key=p["expr"][:300], nontrivial=True, sample=p["info"])
    nsteps = ctx.n(44, 600)
    for k in range(nsteps):
        try:
            s = step_case(sp, rng, nrng, adjoint=(k % 2 == 1), c64=(k % 7 == 6))
        except Exception as e:
            bad.setdefault("exception:steps", ("nufft raised %r on a valid small problem" % e, {"kind": "impl-exception", "error": repr(e)}))
            continue
        ctx.count("steps:%s:%dD%s" % ("adjoint" if s["info"]["adjoint"] else "forward", s["info"]["nd"], ":c64" if s["info"]["c64"] else ""),
                  key=json.dumps(s["info"], sort_keys=True) + str(k), nontrivial=s["nontrivial"], sample=s["info"])
        cases.append(s)
    failing, corr_ok = [], True
    try:
        if tr_err or not ctx.make(["run/RunC06.vo"]):
            raise RuntimeError("run/RunC06.vo does not build")
        failing = L.run_bool_cases(ctx, "c06", HEADER, cases, per_file=12, timeout=1500)
    except RuntimeError as e:
        corr_ok = False
        ctx.notes.append("correspondence could not run: %s" % str(e)[:600])
    fpar = [i for i in failing if cases[i]["kind"] == "params"]
    fstep = [i for i in failing if cases[i]["kind"] == "steps"]
    ctx.obligation("corr:parameter functions (os_shape, scale/shift, beta, apodisation) == implementation (%d)" % sum(1 for c in cases if c["kind"] == "params"),
                   corr_ok and not fpar)
    ctx.obligation("corr:model steps with the implementation's kernel values == sp.nufft / sp.nufft_adjoint (%d)" % sum(1 for c in cases if c["kind"] == "steps"),
                   corr_ok and not fstep)
    # ---- numeric validation against the explicit NUDFT ----
    worst = {}
    nacc = ctx.n(170, 3000)
    for _ in range(nacc):
        c = accuracy_case(sp, rng, nrng)
        c["shift"] = [rng.choice([1, -1, 2, -3, 0]) for _ in c["shape"]]
        if not any(c["shift"]):
            c["shift"][0] = 1
        c["y"] = crandn(nrng, c["bat"] + list(c["coord"].shape[:-1]))
        try:
            r = eval_accuracy(sp, c)
        except Exception as e:
            bad.setdefault("exception:nufft", ("nufft raised %r on a valid input" % e, {"kind": "impl-exception", "case": ser(c), "error": repr(e)}))
            continue
        osb = ("%s" % c["oversamp"] if c["oversamp"] in (1.25, 1.5, 2) else "other") + ("" if c["width"] == 4 else ":w<4" if c["width"] < 4 else ":w>4")
        cls = "nudft:%dD:os%s:%s" % (len(c["shape"]), osb, c["kind"])
        ctx.count(cls, key=json.dumps([c["shape"], c["bat"], c["kind"], c["oversamp"], c["coord"].shape]) + str(_), nontrivial=True,
                  sample={k: c[k] for k in ("shape", "bat", "kind", "oversamp", "width")})
        lim = limits(c)
        if r["tie"]:
            ctx.coverage["periodic_checked_at_accuracy_level_because_of_window_ties"] = ctx.coverage.get("periodic_checked_at_accuracy_level_because_of_window_ties", 0) + 1
        worst["accuracy-vs-output:os%s" % osb] = max(worst.get("accuracy-vs-output:os%s" % osb, 0.0), r["accuracy-vs-output"])
        for name in ("accuracy", "adjoint-accuracy", "periodic", "periodic-tie", "dot"):
            key = "%s:os%s" % (name, osb)
            worst[key] = max(worst.get(key, 0.0), r[name])
            if not (r[name] <= lim[name]):
                bad.setdefault("oracle:" + key, ("nufft %s error %.3g exceeds %.3g (%s, shape %s)" % (name, r[name], lim[name], c["kind"], c["bat"] + c["shape"]),
                                                 dict(kind="accuracy", measure=name, case=ser(c), observed=r[name], expected="<= %g" % lim[name])))
        if not r["shape_ok"]:
            bad.setdefault("oracle:shape", ("nufft output shape wrong", dict(kind="accuracy", measure="shape", case=ser(c))))
        # the same values handed over in another memory layout must give the same transform (forward: the image; adjoint: the samples)
        if _ % 2 == 0:
            from vlib import layouts
            kwn = dict(oversamp=c["oversamp"], width=c["width"])
            try:
                y0 = np.asarray(sp.nufft(c["x"], c["coord"], **kwn))
                a0 = np.asarray(sp.nufft_adjoint(c["y"], c["coord"], oshape=c["bat"] + c["shape"], **kwn))
                for tag, xv in layouts.variants(c["x"], rng, k=1):
                    yv = np.asarray(sp.nufft(xv, c["coord"], **kwn))
                    ctx.count("layout:nufft:" + tag, key=str(_) + tag, nontrivial=True)
                    if yv.shape != y0.shape or not np.allclose(yv, y0, rtol=1e-10, atol=1e-12 * (1 + np.abs(y0).max())):
                        bad.setdefault("oracle:layout:nufft", ("nufft of the same image stored in layout %s differs from the C-contiguous result (relative %.3g)"
                                                               % (tag, rel(yv, y0) if yv.shape == y0.shape else -1),
                                                               dict(kind="accuracy", measure="layout", layout=tag, case=ser(c))))
                for tag, yv in layouts.variants(c["y"], rng, k=1):
                    av = np.asarray(sp.nufft_adjoint(yv, c["coord"], oshape=c["bat"] + c["shape"], **kwn))
                    ctx.count("layout:nufft_adjoint:" + tag, key=str(_) + tag, nontrivial=True)
                    if av.shape != a0.shape or not np.allclose(av, a0, rtol=1e-10, atol=1e-12 * (1 + np.abs(a0).max())):
                        bad.setdefault("oracle:layout:nufft_adjoint", ("nufft_adjoint of the same samples stored in layout %s differs from the C-contiguous result (relative %.3g)"
                                                                       % (tag, rel(av, a0) if av.shape == a0.shape else -1),
                                                                       dict(kind="accuracy", measure="layout", layout=tag, case=ser(c))))
                # 2-D point sets (coord of shape (n1, n2, ndim), samples of shape batch + (n1, n2)): the same transform as for the
                # flattened point list, whatever the memory layout of the sample array
                npts = c["coord"].shape[0]
                fac = [f for f in (2, 3, 4, 5) if npts % f == 0 and npts // f > 1]
                if c["coord"].ndim == 2 and fac:
                    f = rng.choice(fac)
                    coord2 = c["coord"].reshape(f, npts // f, -1)
                    y2 = np.ascontiguousarray(c["y"].reshape(c["bat"] + [f, npts // f]))
                    f0 = np.asarray(sp.nufft(c["x"], coord2, **kwn))
                    if f0.shape != tuple(c["bat"] + [f, npts // f]) or not np.allclose(f0.reshape(y0.shape), y0, rtol=1e-10, atol=1e-12 * (1 + np.abs(y0).max())):
                        bad.setdefault("oracle:layout:nufft-2d-points", ("nufft with a 2-D point set differs from the same points given as a list",
                                                                         dict(kind="accuracy", measure="layout", layout="2-D point set", case=ser(c))))
                    for tag, yv in [("C", y2)] + layouts.variants(y2, rng, k=2):
                        av = np.asarray(sp.nufft_adjoint(yv, coord2, oshape=c["bat"] + c["shape"], **kwn))
                        ctx.count("layout:nufft_adjoint:2d-points:" + tag, key=str(_) + tag + "2d", nontrivial=True)
                        if av.shape != a0.shape or not np.allclose(av, a0, rtol=1e-10, atol=1e-12 * (1 + np.abs(a0).max())):
                            bad.setdefault("oracle:layout:nufft_adjoint-2d-points",
                                           ("nufft_adjoint of samples on a 2-D point set stored in layout %s differs from the result for the flattened point list "
                                            "(relative %.3g)" % (tag, rel(av, a0) if av.shape == a0.shape else -1),
                                            dict(kind="accuracy", measure="layout", layout=tag + " / 2-D point set", case=ser(c))))
            except Exception as e:
                bad.setdefault("exception:layout", ("nufft raised %r on a non-contiguous input" % e, {"kind": "impl-exception", "case": ser(c), "error": repr(e)}))
    ntoe = ctx.n(40, 600)
    for _ in range(ntoe):
        c = toeplitz_case(sp, rng, nrng)
        try:
            e = eval_toeplitz(sp, c)
        except Exception as ex:
            bad.setdefault("exception:toeplitz", ("NUFFT(toeplitz=True).N raised %r" % ex,
                                                  {"kind": "toeplitz", "shape": c["shape"], "coord": c["coord"].tolist(), "x": [[v.real, v.imag] for v in c["x"].ravel()], "error": repr(ex)}))
            continue
        sq = "square" if len(set(c["shape"])) == 1 else "nonsquare"
        ctx.count("toeplitz:%dD:%s" % (len(c["shape"]), sq), key=json.dumps(c["shape"]) + str(_), nontrivial=True, sample={"shape": c["shape"]})
        worst["toeplitz"] = max(worst.get("toeplitz", 0.0), e)
        if not (e <= 5e-2):
            bad.setdefault("oracle:toeplitz:" + sq, ("Toeplitz normal operator differs from A.H A by %.3g (shape %s)" % (e, c["shape"]),
                                                    {"kind": "toeplitz", "shape": c["shape"], "coord": c["coord"].tolist(),
                                                     "x": [[v.real, v.imag] for v in c["x"].ravel()], "observed": e, "expected": "<= 0.05"}))
    ctx.obligation("oracle:explicit NUDFT accuracy / periodicity / adjoint dot test (%d) and Toeplitz normal (%d)" % (nacc, ntoe), not bad)
    ctx.coverage["worst_errors"] = worst
    ctx.coverage["rule"] = ("parameter cases: random shapes/oversampling/width for _get_oversamp_shape, _scale_coord, beta (captured from the call into interp), "
                            "_apodize factors; step cases: 1-2-D, N <= 8 per axis, <= 12 points, optional batch axis and 2-D point sets, oversamp 1.25/1.5/2, "
                            "width 2.5-6, complex128 (1e-6) and complex64 (1e-4); validation: explicit NUDFT for random / on-grid / half-integer / clustered / "
                            "out-of-range coordinates, 1-3-D, odd and even sizes, batch axes, at (1.25, 4) < 3e-2 and (2, 4) < 3e-3 and the same bounds for every larger width/oversampling in [1.25,2]x[4,6] (odd and fractional widths included), widths 3-3.5 judged on the exact parts only, periodicity 1e-6, "
                            "dot test 1e-5, Toeplitz normal 5e-2 on square and non-square grids; non-trivial = non-zero output")
    for k, (what, rep) in bad.items():
        ctx.violation("C06: " + what, rep, signature="C06:" + ":".join(k.split(":")[:2]))
    seen = set()
    for i in failing:
        d = cases[i]
        key = d["kind"] + ":" + (d.get("what") or ("adjoint" if d["info"]["adjoint"] else "forward"))
        if key in seen:
            continue
        seen.add(key)
        ctx.violation("C06: model and implementation disagree on %s" % key, {"kind": "correspondence", "broken": "corr:" + key, "case": d["info"]},
                      found_input=False, signature="C06:corr:" + key)
    if (not proof_ok or tr_err or not corr_ok or tie_broken) and not ctx.violations:
        broken = getattr(ctx, "broken_proof", tie_broken or {"theorem": "translate:sigpy/interp.py" if tr_err else "corr:coq-run", "log": str(tr_err)})
        ctx.violation("proof obligation no longer checks: %s" % broken.get("theorem"), {"kind": "proof", "broken": broken},
                      found_input=False, signature="C06:proof")
    ctx.trusted += ["Coq 8.16.1 kernel + vm_compute (PrimFloat for running only)",
                    "hand model coq/model/Nufft.v (and model/Interp.v wrappers, model/Fourier.v), tied by this run's correspondence and, as the reading "
                    "of nufft / nufft_adjoint / _get_oversamp_shape / _scale_coord / _apodize (estimate_shape, toeplitz_psf: model/NufftExt.v), by "
                    "tools/translate_fourier.py (fail-closed ast translator, readings in notes/translate_fourier.md) + the lemmas of gen/Gen_fourier.v",
                    "oracles: numpy.fft (explicit DFT sum with the twiddle table), numpy sinh, the implementation's Kaiser-Bessel kernel values, pi",
                    "tools/translate_loops.py for the interpolation / gridding kernels"]
    ctx.proved += ["see coq/props/Prop_C06.v (theorem list in obligation_list)"]
    ctx.validated_only += ["the accuracy bound (3 % at oversamp 1.25 / width 4, 0.3 % at oversamp 2) — numerical validation only, no theorem",
                           "Toeplitz normal operator closeness (5e-2)", "2-D / 3-D interpolation wrappers (C07: 1-D + batch proved)"]


def replay(obj):
    sp = core.import_sigpy()
    kind = obj.get("kind")
    if kind == "accuracy" and obj.get("measure") == "layout":
        import random
        from vlib import layouts
        c = unser(obj["case"])
        kwn = dict(oversamp=c["oversamp"], width=c["width"])
        y0 = np.asarray(sp.nufft(c["x"], c["coord"], **kwn))
        a0 = np.asarray(sp.nufft_adjoint(c["y"], c["coord"], oshape=c["bat"] + c["shape"], **kwn))
        ok = True
        for tag, xv in layouts.variants(c["x"], random.Random(0), k=9):
            yv = np.asarray(sp.nufft(xv, c["coord"], **kwn))
            good = yv.shape == y0.shape and np.allclose(yv, y0, rtol=1e-10, atol=1e-12 * (1 + np.abs(y0).max()))
            print("nufft layout", tag, "agrees with C layout:", good); ok = ok and good
        for tag, yv in layouts.variants(c["y"], random.Random(0), k=9):
            av = np.asarray(sp.nufft_adjoint(yv, c["coord"], oshape=c["bat"] + c["shape"], **kwn))
            good = av.shape == a0.shape and np.allclose(av, a0, rtol=1e-10, atol=1e-12 * (1 + np.abs(a0).max()))
            print("nufft_adjoint layout", tag, "agrees with C layout:", good); ok = ok and good
        return 0 if ok else 1
    if kind == "accuracy":
        c = unser(obj["case"])
        r = eval_accuracy(sp, c)
        lim = limits(c)
        ok = all(r[k] <= lim[k] for k in lim) and r["shape_ok"]
        print("errors", r, "limits", lim, "agree:", ok)
        return 0 if ok else 1
    if kind == "toeplitz":
        c = dict(shape=obj["shape"], coord=np.array(obj["coord"], dtype=np.float64),
                 x=np.array([complex(a, b) for a, b in obj["x"]]).reshape(obj["shape"]))
        e = eval_toeplitz(sp, c)
        print("relative difference", e, "limit 0.05 agree:", e <= 5e-2)
        return 0 if e <= 5e-2 else 1
    print("no concrete input recorded (proof / correspondence obligation):", obj.get("broken"))
    return 1
