"""C12 — conjugate gradient produces the Krylov-optimal iterate at every step.

Proof: coq/props/Prop_C12.v — over an abstract real inner-product space (C^n with Re<.,.> is
one), for the state machine of coq/model/Alg.v (cg_init / cg__update / update / done) and ALL
k: residual invariant, conjugacy, optimality over x0 + span{p_i}, A-norm monotonicity,
breakdown behaviour, the exact staleness after the final update.

Tie: the same Gallina term is run on binary64 inside Coq (run/RunC12.v) and compared with
sigpy.alg.ConjugateGradient after __init__ and after EVERY update(): x, r, p, rzold, resid
within tolerance, iter / not_positive_definite / done() exactly.  Complex Hermitian systems
are compared through the real embedding  [[Re A, -Im A], [Im A, Re A]],  v -> [Re v; Im v].

Oracle (on the implementation, numpy): Krylov least-squares optimum for every prefix,
monotone A-norm error, tracked residual = b - A x, in-place update of the caller's array
(contents of the caller's array after every update; also single-precision x0 with a double-precision
system: mixed runs, compared with the binary64 model with a widened tolerance on x only),
breakdown on matrices that are not positive definite.
"""
import json
import numpy as np
from vlib import core, coqlit as L

HEADER = """From Coq Require Import ZArith List Bool PrimFloat.
From SV Require Import lib.Scalar lib.FloatRun model.Alg run.RunC12.
Import ListNotations.
"""


# ---------------------------------------------------------------- generators
def rand_unitary(nprng, n, cplx):
    m = nprng.standard_normal((n, n))
    if cplx:
        m = m + 1j * nprng.standard_normal((n, n))
    q, r = np.linalg.qr(m)
    d = np.diag(r)
    return q * (d / np.abs(d))


def spectrum(rng, n, cond, kind):
    if n == 1:
        return np.array([rng.choice([1.0, cond, rng.uniform(0.5, 5.0)])])
    if kind == "repeated":      # few distinct eigenvalues: Krylov space saturates early
        vals = [1.0, cond] + [rng.choice([1.0, cond, cond ** 0.5]) for _ in range(n - 2)]
    elif kind == "cluster":
        vals = [1.0, cond] + [cond * (1 - 0.01 * rng.random()) for _ in range(n - 2)]
    else:
        vals = [1.0, cond] + [cond ** rng.random() for _ in range(n - 2)]
    scale = 10 ** rng.uniform(-1, 1)
    return np.array(vals[:n]) * scale


def hpd(rng, nprng, n, cond, cplx, kind="log", signs=None):
    lam = spectrum(rng, n, cond, kind)
    if signs is not None:
        lam = lam * np.array(signs)
    q = rand_unitary(nprng, n, cplx)
    a = (q * lam) @ q.conj().T
    a = (a + a.conj().T) / 2
    return a if cplx else np.ascontiguousarray(a.real)


def gen_case(rng, idx):
    n = rng.choice([1, 1, 2, 2, 3, 3, 4, 5, 6, 7, 8, 9, 10, 11, 12])
    cplx = rng.random() < 0.45
    cond = float(rng.choice([1.0, 3.0, 10.0, 100.0, 1000.0, 10 ** rng.uniform(0, 3)]))
    kind = rng.choice(["log", "log", "repeated", "cluster"])
    # "identity-*" / "view-fn" return their INPUT array (or a view of it): z aliases r inside the solver
    pre = rng.choice([None, None, "spd", "spd", "jacobi", "identity-linop", "identity-fn", "view-fn"])
    form = rng.choice(["linop", "function", "function", "function-buffer"])
    mi = rng.choice([1, 2, n, n + 3])
    tolk = rng.choice(["zero", "zero", "pos"])
    x0k = rng.choice(["zero", "random"])
    c = dict(n=n, cplx=cplx, cond=cond, spec=kind, pre=pre, form=form, max_iter=mi, tolk=tolk, x0k=x0k,
             definite="pd", npseed=rng.randrange(2 ** 31))
    if rng.random() < 0.12:
        c["alias_xb"] = True          # the caller passes the SAME array as b and as x (x0 = b)
    if rng.random() < 0.18 and c["definite"] == "pd":
        c["gscale"] = 10.0 ** rng.choice([-12, -10, -8, -6, -4, 4, 8])
    if n in (4, 6, 8, 9, 10, 12) and rng.random() < 0.3 and not c.get("alias_xb") and pre in (None, "spd", "jacobi"):
        a = {4: 2, 6: 2, 8: 2, 9: 3, 10: 2, 12: 3}[n]
        c["layout2d"] = dict(shape=[a, n // a], kind=rng.choice(["F", "T-view", "volume-slice"]))
        c["form"] = "function"
    r = rng.random()
    if r < 0.06:
        c["definite"] = "negative"
    elif r < 0.14 and n >= 2:
        c["definite"] = "indefinite"
    return c


def gen_mixed(rng):
    """mixed precision: x0 stored in float32 / complex64, A and b in float64 / complex128.  numpy's in-place
    `x += alpha * p` casts same-kind, so the solver works in the caller's single-precision array."""
    n = rng.choice([1, 2, 3, 4, 5, 6, 8])
    return dict(n=n, cplx=rng.random() < 0.5, cond=float(rng.choice([1.0, 3.0, 10.0, 30.0, 100.0])),
                spec=rng.choice(["log", "log", "repeated"]), pre=rng.choice([None, None, "spd", "jacobi", "identity-fn"]),
                form=rng.choice(["linop", "function"]), max_iter=rng.choice([1, 2, n, n + 3, n + 3, n + 3]),
                tolk="zero", x0k=rng.choice(["zero", "random", "random"]), definite="pd", mixed=True,
                npseed=rng.randrange(2 ** 31))


def build(c):
    """concrete arrays of a case (deterministic in the case dict)"""
    import random
    nprng = np.random.default_rng(c["npseed"])
    rng = random.Random(c["npseed"])
    n, cplx = c["n"], c["cplx"]
    signs = None
    if c["definite"] == "negative":
        signs = [-1.0] * n
    elif c["definite"] == "indefinite":
        signs = [rng.choice([-1.0, 1.0]) for _ in range(n)]
        signs[0], signs[-1] = 1.0, -1.0
    if "A" in c:      # explicit matrices (corpus / replay)
        A = np.array(c["A"][0], dtype=float) + (1j * np.array(c["A"][1], dtype=float) if cplx else 0)
        A = A if cplx else A.real
    else:
        A = hpd(rng, nprng, n, c["cond"], cplx, c["spec"], signs)
    P = None
    if c["pre"] == "spd":
        P = hpd(rng, nprng, n, float(rng.choice([1.0, 4.0, 10.0])), cplx)
    elif c["pre"] == "jacobi":
        d = 1.0 / np.abs(np.real(np.diag(A)))
        P = np.diag(d).astype(A.dtype)
    elif c["pre"] in ("identity-linop", "identity-fn", "view-fn"):
        P = np.eye(n, dtype=A.dtype)      # the matrix the model / oracle use; the solver gets an aliasing callable

    def vec():
        v = nprng.standard_normal((n, 1))
        if cplx:
            v = v + 1j * nprng.standard_normal((n, 1))
        return v
    b = vec() * 10 ** rng.uniform(-1, 1)
    x0 = vec() if c["x0k"] == "random" else np.zeros((n, 1), dtype=A.dtype)
    if c.get("b_int"):       # small-integer data: exact arithmetic until the first division
        b = np.round(b * 3)
        x0 = np.round(x0 * 2)
    if "b" in c:             # explicit data (corpus)
        b = (np.array(c["b"][0]) + (1j * np.array(c["b"][1]) if cplx else 0)).reshape(n, 1)
        x0 = np.zeros((n, 1))
    if c.get("gscale"):     # data of very small / large magnitude: CG is homogeneous of degree 1 in (b, x0)
        b = b * c["gscale"]
        x0 = x0 * c["gscale"]
    if c.get("alias_xb"):
        x0 = b.copy()
    tol = 0.0
    if c["tolk"] == "pos":
        tol = float(np.linalg.norm(b) * 10 ** rng.uniform(-6, -1))
    x0 = x0.astype(A.dtype)
    if c.get("mixed"):      # the caller's array is single precision; the system stays double
        x0 = x0.astype(np.complex64 if cplx else np.float32)
    return A, P, b.astype(A.dtype), x0, tol


def corpus_cases():
    base = dict(cplx=False, cond=10.0, spec="log", pre=None, form="linop", tolk="zero", x0k="zero", definite="pd")
    out = []
    for k, (n, mi) in enumerate([(1, 1), (1, 4), (2, 1), (2, 2), (3, 3), (5, 8), (12, 12), (12, 15)]):
        out.append(dict(base, n=n, max_iter=mi, npseed=100 + k))
    out.append(dict(base, n=4, max_iter=7, npseed=7, cplx=True, pre="spd", form="function", x0k="random"))
    out.append(dict(base, n=6, max_iter=6, npseed=8, cplx=True, pre="jacobi", tolk="pos", cond=1000.0))
    out.append(dict(base, n=3, max_iter=5, npseed=9, definite="negative"))
    out.append(dict(base, n=5, max_iter=8, npseed=10, definite="indefinite", x0k="random"))
    out.append(dict(base, n=3, max_iter=6, npseed=11, A=[[[2.0, 0, 0], [0, 2.0, 0], [0, 0, 2.0]], None], b_int=True))  # converges in 1 step
    out.append(dict(base, n=4, max_iter=7, npseed=12, spec="repeated", cond=100.0, pre="spd"))
    # preconditioners that return their input (object or view): p must still be a private copy
    for k, pre in enumerate(["identity-linop", "identity-fn", "view-fn"]):
        out.append(dict(base, n=5, max_iter=8, npseed=20 + k, pre=pre, x0k="random"))
        out.append(dict(base, n=3, max_iter=2, npseed=30 + k, pre=pre, cplx=True, form="function"))
        out.append(dict(base, n=4, max_iter=1, npseed=40 + k, pre=pre))
    out.append(dict(base, n=5, max_iter=8, npseed=50, alias_xb=True))
    # A returns the same buffer on every call
    out.append(dict(base, n=5, max_iter=7, npseed=58, form="function-buffer", x0k="random"))
    out.append(dict(base, n=4, max_iter=5, npseed=59, form="function-buffer", cplx=True, pre="spd"))
    # 2-D iterates in layouts that cannot be flattened as a view: the updates must still land in the caller's array
    out.append(dict(base, n=6, max_iter=6, npseed=55, form="function", x0k="random", layout2d=dict(shape=[2, 3], kind="volume-slice")))
    out.append(dict(base, n=8, max_iter=9, npseed=56, form="function", cplx=True, pre="spd", layout2d=dict(shape=[2, 4], kind="T-view")))
    out.append(dict(base, n=9, max_iter=4, npseed=57, form="function", layout2d=dict(shape=[3, 3], kind="F")))
    # tiny / huge data: every formula of the recurrence is scale free
    out.append(dict(base, n=5, max_iter=8, npseed=52, gscale=1e-10, x0k="random"))
    out.append(dict(base, n=4, max_iter=7, npseed=53, gscale=1e-8, cplx=True, pre="spd", form="function"))
    out.append(dict(base, n=4, max_iter=7, npseed=54, gscale=1e8, pre="jacobi"))
    # mixed precision: float32 / complex64 x0 with a float64 / complex128 system
    out.append(dict(base, n=4, max_iter=7, npseed=70, mixed=True, x0k="random"))
    out.append(dict(base, n=3, max_iter=6, npseed=71, mixed=True, cplx=True, form="function", x0k="random"))
    out.append(dict(base, n=5, max_iter=8, npseed=72, mixed=True, pre="spd"))
    out.append(dict(base, n=2, max_iter=1, npseed=73, mixed=True, cplx=True, x0k="random"))
    out.append(dict(base, n=4, max_iter=6, npseed=51, alias_xb=True, pre="identity-fn", cplx=True, form="function"))
    # singular PSD / zero operators with exact data: a direction with p^H A p == 0 EXACTLY is reached;
    # the solver must stop with not_positive_definite and a finite x
    Z2 = [[0.0, 0.0], [0.0, 0.0]]
    sing = [
        ([[1.0, 0.0], [0.0, 0.0]], [1.0, 1.0], None),                         # second update has p = (0, 2)
        ([[4.0, 0.0], [0.0, 0.0]], [2.0, 2.0], None),
        ([[0.0, 0.0], [0.0, 0.0]], [1.0, -3.0], None),                        # zero operator: first update
        ([[0.0, 0.0], [0.0, 2.0]], [3.0, 0.0], None),                         # residual in the null space at once
        ([[1, 0, 0, 0], [0, 1, 0, 0], [0, 0, 0, 0], [0, 0, 0, 0]], [1.0, 1.0, 1.0, 1.0], None),
        ([[2.0, 0.0], [0.0, 0.0]], [1.0, 1.0], [0.0, 1.0]),                   # complex data, b = (1, 1+i): |b_R|^2 != |b_N|^2
        ([[1.0, 0.0], [0.0, 0.0]], [1.0, 0.0], [0.0, 1.0]),                   # b = (1, i)
    ]
    for k, (Am, bre, bim) in enumerate(sing):
        n = len(Am)
        for pre, form, mi in ((None, "linop", 5), ("identity-fn", "function", 4), (None, "function", n + 3)):
            cplx = bim is not None
            out.append(dict(base, n=n, max_iter=mi, npseed=60 + k, definite="singular", pre=pre, form=form, cplx=cplx,
                            A=[Am, [[0.0] * n for _ in range(n)]], b=[bre, bim if cplx else None], exact=True))
    return out


# ---------------------------------------------------------------- running the implementation
def emb_vec(v):
    v = np.asarray(v).ravel()
    if np.iscomplexobj(v):
        return np.concatenate([v.real, v.imag]).astype(float)     # (float32 -> float64 is exact)
    return v.astype(float)


def emb_mat(m):
    if np.iscomplexobj(m):
        return np.block([[m.real, -m.imag], [m.imag, m.real]])
    return np.asarray(m, dtype=float)


def observe(alg):
    colv = lambda v: np.array(v, copy=True, order="C").reshape(-1, 1)       # noqa: E731  (a COPY; 2-D iterates as C-order columns)
    return dict(x=colv(alg.x), r=colv(alg.r), p=colv(alg.p),
                rz=float(alg.rzold), resid=float(alg.resid), iter=int(alg.iter),
                npd=bool(alg.not_positive_definite), done=bool(alg.done()))


def run_impl(sp, c, arrays=None):
    A, P, b, x0, tol = arrays if arrays is not None else build(c)
    n = c["n"]
    x = x0.copy()
    b_arg = b.copy()
    if c.get("alias_xb"):
        b_arg = x                                     # one array passed as b AND as x
    lay = c.get("layout2d")
    if lay:
        # the caller's iterate is a genuinely 2-D array in a memory layout that cannot be flattened without a copy
        # (Fortran order / transposed view / a slice of a volume); values and C-order flattening are those of the column case
        sh = tuple(lay["shape"])
        x2 = x0.reshape(sh)
        if lay["kind"] == "F":
            x = np.asfortranarray(x2.copy())
        elif lay["kind"] == "T-view":
            x = np.ascontiguousarray(x2.T).T
        else:
            vol = np.full((sh[0], 3, sh[1]), 7.5, dtype=x0.dtype)
            x = vol[:, 1, :]
            x[...] = x2
        b_arg = b.reshape(sh).copy()
        col = lambda v: np.ascontiguousarray(v).reshape(n, 1)          # noqa: E731
        Aop = lambda v: (A @ col(v)).reshape(sh)                       # noqa: E731
        Pop = None if P is None else (lambda v: (P @ col(v)).reshape(sh))
    elif c["form"] == "linop":
        Aop = sp.linop.MatMul([n, 1], A)
        Pop = None if P is None else sp.linop.MatMul([n, 1], P)
    elif c["form"] == "function-buffer":
        # A writes its result into ONE array it owns and hands that array back on every call (a common way to avoid allocations):
        # whatever the solver keeps must be its own copy
        abuf = np.zeros((n, 1), dtype=np.result_type(A.dtype, x0.dtype))

        def Aop(v):
            np.matmul(A, v, out=abuf)
            return abuf
        Pop = None if P is None else (lambda v: P @ v)
    else:
        Aop = lambda v: A @ v                         # noqa: E731   (fresh array every call)
        Pop = None if P is None else (lambda v: P @ v)
    if c["pre"] == "identity-linop":
        Pop = sp.linop.Identity([n, 1])               # returns its input object
    elif c["pre"] == "identity-fn":
        Pop = lambda v: v                             # noqa: E731
    elif c["pre"] == "view-fn":
        Pop = lambda v: v[:]                          # noqa: E731   (a view sharing memory)
    alg = sp.alg.ConjugateGradient(Aop, b_arg, x, P=Pop, max_iter=c["max_iter"], tol=tol)
    obs = [observe(alg)]
    canon = None            # number of updates the canonical loop `while not done: update` performs
    same_object = alg.x is x
    ccol = (lambda v: np.array(v, copy=True, order="C").reshape(-1, 1)) if lay else (lambda v: v.copy())
    caller_obs = [ccol(x)]                                # the CALLER's array (not alg.x) after __init__ / every update
    for k in range(c["max_iter"]):
        if canon is None and obs[-1]["done"]:
            canon = k
        alg.update()
        obs.append(observe(alg))
        caller_obs.append(ccol(x))
        same_object = same_object and (alg.x is x)
    if canon is None:
        canon = c["max_iter"]
    return dict(A=A, P=P, b=b, x0=x0, tol=tol, obs=obs, canon=canon, same_object=same_object,
                caller_x=x, caller_obs=caller_obs, x_dtype_in=str(x0.dtype), b_after=b_arg.reshape(b.shape) if lay else b_arg, alg=alg)


# ---------------------------------------------------------------- Coq side
def obs_lit(o):
    return "(mkObs %s %s %s %s %s %s %s %s)" % (
        L.flist(emb_vec(o["x"])), L.flist(emb_vec(o["r"])), L.flist(emb_vec(o["p"])),
        L.flt(o["rz"]), L.flt(o["resid"]), L.z(o["iter"]), L.boolean(o["npd"]), L.boolean(o["done"]))


def mat_lit(m):
    return "[" + "; ".join(L.flist(row) for row in emb_mat(m)) + "]"


def scales(R):
    A, P, b, x0 = R["A"], R["P"], R["b"], R["x0"]
    nA = np.linalg.norm(A, 2)
    nP = 1.0 if P is None else np.linalg.norm(P, 2)
    sr = (np.linalg.norm(b) + nA * np.linalg.norm(x0)) or 1.0
    xs = max([np.linalg.norm(o["x"]) for o in R["obs"]] + [1e-300])
    ev = np.abs(np.linalg.eigvalsh(A))
    ev = ev[ev > 1e-12 * max(ev.max(), 1e-300)]
    amax = max(1.0, 1.0 / ev.min()) if ev.size else 1.0
    sx = max(xs, np.linalg.norm(x0), sr * amax * nP)
    return sx, sr * max(1.0, nP), sr * sr * nP, sr * np.sqrt(nP)


def coq_exprs(c, R):
    sx, sr, srz, sres = scales(R)

    # mixed precision: the implementation rounds x (only x) to single precision after every update, the Coq model
    # is binary64 throughout -> the absolute tolerance of x (alone) is widened to 1e-5 / 1e-4 of the scale
    mixed = bool(c.get("mixed"))

    def tols(f, rel):
        fx = max(f, (1e-5 if f < 1e-9 else 1e-4)) if mixed else f
        return "(mkTols %s %s %s %s %s)" % (L.flt(fx * sx), L.flt(f * sr), L.flt(f * srz), L.flt(f * sres), L.flt(rel))
    common = "%s %s %s %s %s %s" % (mat_lit(R["A"]), L.flist(emb_vec(R["b"])),
                                    "None" if R["P"] is None else "(Some %s)" % mat_lit(R["P"]),
                                    L.flist(emb_vec(R["x0"])), L.z(c["max_iter"]), L.flt(R["tol"]))
    o = R["obs"]
    step = "chk_cg %s %s %s [%s]" % (common, tols(1e-12, 1e-9), obs_lit(o[0]), "; ".join(obs_lit(v) for v in o[1:]))
    # free-running prefix: rounding differences between two float evaluations of CG (here: summation order)
    # grow like loss of orthogonality, roughly eps * (3 sqrt(kappa))^k; compare while that stays below 1e-8
    kap = kappa_eff(R["A"], R["P"])
    r0 = o[0]["resid"] or 1.0
    kfree = 0
    for k in range(1, len(o)):
        if o[k]["npd"] or growth_limit(kap, k) > 1e-8 or o[k - 1]["resid"] < 1e-5 * r0:
            break        # (once the residual is at rounding level, exact zeros / breakdowns differ between float evaluations)
        kfree = k
    free = "chk_cg_free %s %s %s [%s]" % (common, tols(1e-6, 1e-6), obs_lit(o[0]),
                                          "; ".join(obs_lit(v) for v in o[1:kfree + 1]))
    return step, free, kfree


# ---------------------------------------------------------------- oracle on the implementation
def kappa_eff(A, P):
    """condition number of the preconditioned operator P A (eigenvalues are real positive for PD A, P)"""
    ev = np.abs(np.linalg.eigvals(A if P is None else P @ A))
    return float(ev.max() / max(ev.min(), 1e-300))


def growth_limit(kap, k):
    """empirical envelope of the finite-precision deviation of CG from exact CG after k updates, relative to
    the initial error (calibrated on 22k prefixes biased to kappa(PA) up to 1e4: base 3 reached 0.32 of the envelope in
    the sample and was exceeded once in later runs at k = n; base 6 stayed below 0.04 and is used)"""
    return 1e-15 * (6.0 * np.sqrt(kap)) ** k + 1e-13 * kap


def anorm(A, v):
    return float(np.sqrt(max(np.real(np.vdot(v, A @ v)), 0.0)))


def krylov_opt(A, P, b, x0, k):
    """minimiser of the A-norm error over x0 + K_k(PA, P r0) (Arnoldi basis + Galerkin system)"""
    n = A.shape[0]
    r0 = b - A @ x0
    M = A if P is None else P @ A
    v = r0 if P is None else P @ r0
    B = np.zeros((n, 0), dtype=A.dtype)
    nv0 = np.linalg.norm(v)
    for _ in range(k):
        w = v.copy()
        for _rep in range(2):
            w = w - B @ (B.conj().T @ w)
        nw = np.linalg.norm(w)
        if nv0 == 0 or nw <= 1e-9 * np.linalg.norm(v):
            break
        w = w / nw
        B = np.hstack([B, w])
        v = M @ w
    if B.shape[1] == 0:
        return x0.copy(), 0
    G = B.conj().T @ A @ B
    cvec = np.linalg.solve(G, B.conj().T @ r0)
    return x0 + B @ cvec, B.shape[1]


def oracle(c, R):
    """returns list of (signature, message, detail)"""
    bad = []
    A, P, b, x0, obs = R["A"], R["P"], R["b"], R["x0"], R["obs"]
    n, mi = c["n"], c["max_iter"]
    sx, sr, srz, sres = scales(R)
    mixed = bool(c.get("mixed"))
    nA = float(np.linalg.norm(A, 2))
    xmax = max([float(np.linalg.norm(o["x"])) for o in obs] + [float(np.linalg.norm(x0))])
    # single-precision storage of x (mixed runs): absolute allowance for everything that is recomputed from x
    xround = 1e-5 * xmax if mixed else 0.0
    # in place / caller's array
    if not R["same_object"] or not np.array_equal(np.ascontiguousarray(R["caller_x"]).reshape(-1, 1), obs[-1]["x"], equal_nan=True) \
            or not np.shares_memory(R["caller_x"], R["alg"].x):
        bad.append(("inplace", "solution is not written into the caller's array (passed as %s)" % R["x_dtype_in"],
                    {"caller_array_after": emb_vec(R["caller_x"]).tolist(), "alg_x_after": emb_vec(obs[-1]["x"]).tolist(),
                     "alg_x_dtype": str(R["alg"].x.dtype), "caller_dtype": str(R["caller_x"].dtype)}))
    else:
        cobs = R["caller_obs"]
        for k in range(len(obs)):
            if not np.array_equal(cobs[k], obs[k]["x"], equal_nan=True) or cobs[k].dtype != x0.dtype:
                bad.append(("inplace", "after %d updates the caller's array does not hold the iterate alg.x" % k, {"k": k}))
                break
    if len(obs) > 1 and c["definite"] == "pd" and not obs[1]["npd"] and obs[0]["rz"] > 0:
        # the first update moves x by alpha_0 p_0: the caller's array must show it
        p0 = obs[0]["p"]
        pAp = float(np.real(np.vdot(p0, A @ p0)))
        if pAp > 0:
            x1 = (x0 + (obs[0]["rz"] / pAp) * p0).astype(x0.dtype)
            if not np.array_equal(x1, x0) and np.array_equal(R["caller_obs"][1], x0):
                bad.append(("inplace-first-update", "the caller's array (%s) is unchanged by the first update although "
                            "x moves by alpha*p" % R["x_dtype_in"],
                            {"expected_x1": emb_vec(x1).tolist(), "caller_array_after_first_update": emb_vec(R["caller_obs"][1]).tolist()}))
    if mixed and c["definite"] == "pd" and mi >= n + 3 and R["tol"] == 0.0:
        # n+3 updates at cond <= 100 solve the system to rounding level; the caller's single-precision array must hold
        # that solution up to its storage precision
        xs_ = np.linalg.solve(A, b)
        err = float(np.linalg.norm(R["caller_x"].astype(A.dtype) - xs_))
        lim = 1e-4 * max(float(np.linalg.norm(xs_)), xmax)
        if not err <= lim:
            bad.append(("mixed-solution", "after %d updates the caller's %s array is %.3g away from the solution (limit %.3g)"
                        % (mi, R["x_dtype_in"], err, lim),
                        {"solution": emb_vec(xs_).tolist(), "caller_array_after": emb_vec(R["caller_x"]).tolist()}))
    # the state right after construction: r = b - A x0, rzold = <r, P r>, resid = sqrt(rzold) (before any update)
    o0 = obs[0]
    z0 = o0["r"] if P is None else P @ o0["r"]
    rz0 = float(np.real(np.vdot(o0["r"], z0)))
    if abs(o0["rz"] - rz0) > 1e-9 * max(abs(rz0), 1e-300) + 1e-300 or \
            not (abs(o0["resid"] - np.sqrt(max(rz0, 0.0))) <= 1e-9 * np.sqrt(max(rz0, 0.0)) + 1e-300):
        bad.append(("initial-residual", "before the first update the tracked residual norm is %r, sqrt(<r0, P r0>) = %r" % (o0["resid"], float(np.sqrt(max(rz0, 0.0)))),
                    {"resid": o0["resid"], "rzold": o0["rz"], "expected_rz": rz0}))
    if not c.get("alias_xb") and not np.array_equal(R["b_after"], b):
        bad.append(("b-mutated", "right-hand side array modified", {}))
    for k, o in enumerate(obs):
        if not (np.all(np.isfinite(o["x"])) and np.all(np.isfinite(o["r"])) and np.all(np.isfinite(o["p"]))):
            bad.append(("nonfinite", "x / r / p not finite after %d updates (the solver diverged instead of stopping)" % k, {"k": k}))
            break
    if c["definite"] == "singular":
        # exact data: some update meets p^H A p == 0 exactly; it must raise the flag, keep x, and done() must hold
        hit = [k for k in range(1, len(obs)) if obs[k]["npd"]]
        zero_dir = [k for k in range(1, len(obs))
                    if float(np.real(np.vdot(obs[k - 1]["p"], A @ obs[k - 1]["p"]))) <= 0 and not obs[k - 1]["npd"]]
        if zero_dir and (not hit or hit[0] != zero_dir[0]):
            bad.append(("singular-no-stop", "update %d had p^H A p == 0 exactly but not_positive_definite was not raised there"
                        % zero_dir[0], {"k": zero_dir[0]}))
        if not zero_dir and mi >= 2:
            bad.append(("singular-unreached", "corpus case did not reach a zero-curvature direction (generator problem)", {}))
    # breakdown bookkeeping: flag raised exactly when p^H A p <= 0 at that update, x then unchanged, done() true
    for k in range(1, len(obs)):
        prev, cur = obs[k - 1], obs[k]
        pAp = float(np.real(np.vdot(prev["p"], A @ prev["p"])))
        margin = 1e-12 * np.linalg.norm(A, 2) * float(np.real(np.vdot(prev["p"], prev["p"])))
        if cur["npd"] and not prev["npd"]:
            if pAp > margin:
                bad.append(("npd-spurious", "not_positive_definite raised although p^H A p = %g > 0" % pAp, {"k": k}))
        if cur["npd"]:
            if not np.array_equal(cur["x"], prev["x"]) or not np.array_equal(cur["r"], prev["r"]):
                bad.append(("npd-moves", "x or r changed by an update that flagged breakdown", {"k": k}))
            if not cur["done"]:
                bad.append(("npd-not-done", "done() is false after breakdown", {"k": k}))
        elif pAp < -margin or (c.get("exact") and pAp <= 0):
            bad.append(("npd-missed", "update with p^H A p = %g <= 0 did not raise not_positive_definite" % pAp, {"k": k}))
        if cur["iter"] != k:
            bad.append(("iter", "iter = %d after %d updates" % (cur["iter"], k), {"k": k}))
    if c["definite"] == "negative":
        if not (obs[1]["npd"] and np.array_equal(obs[1]["x"], x0)) if len(obs) > 1 else False:
            bad.append(("negdef", "negative definite matrix: first update must flag breakdown and leave x", {}))
    # tracked residual (stale after the final update by design: then it is b - A x_{max_iter-1})
    for k, o in enumerate(obs):
        if o["npd"]:
            break
        if k < mi or mi == 0:
            d = np.linalg.norm(o["r"] - (b - A @ o["x"]))
            if d > 1e-9 * sr + nA * xround:
                bad.append(("resid-drift", "tracked r differs from b - A x by %g at k=%d" % (d, k), {"k": k}))
        else:
            if not np.array_equal(o["r"], obs[k - 1]["r"]) or not np.array_equal(o["p"], obs[k - 1]["p"]) \
                    or o["rz"] != obs[k - 1]["rz"]:
                bad.append(("final-stale", "final update changed r/p/rzold (documented: only x and resid are written)", {"k": k}))
    if c["definite"] != "pd":
        return bad
    # Krylov optimality of every prefix, monotone A-norm error
    xs = np.linalg.solve(A, b)
    e0 = anorm(A, x0 - xs)
    kap = kappa_eff(A, P)
    errs = [anorm(A, o["x"] - xs) for o in obs]
    floor = 1e-13 * kap * (anorm(A, xs) + e0 + 1e-300) + np.sqrt(nA) * xround
    for k in range(1, len(obs)):
        if errs[k] > errs[k - 1] * (1 + 1e-10) + floor:
            bad.append(("anorm-increase", "A-norm error increased at update %d: %.17g -> %.17g" % (k, errs[k - 1], errs[k]),
                        {"k": k}))
    nchecked = 0
    for k in range(0, len(obs)):
        # exact CG has gap = 0; floating-point CG loses orthogonality geometrically in k (classical), so the
        # comparison is made where the envelope is still far below the size of any algorithmic error
        lim_rel = growth_limit(kap, k)
        if lim_rel > 1e-3:
            break
        xo, dimk = krylov_opt(A, P, b, x0, k)
        eo = anorm(A, xo - xs)
        gap = anorm(A, obs[k]["x"] - xo)
        lim = lim_rel * max(e0, 1e-300) + floor
        nchecked += 1
        if gap > lim or errs[k] > eo + lim:
            bad.append(("krylov", "iterate %d is not the A-norm optimum over x0+K_%d: gap %.3g (limit %.3g), err %.6g vs optimal %.6g"
                        % (k, k, gap, lim, errs[k], eo), {"k": k}))
            break
    R["krylov_checked"] = nchecked
    # finite termination (validated only, loose: floating-point CG is delayed by a few steps at cond 1e3)
    if mi >= n + 3 and e0 > 0 and errs[n + 3] > 1e-3 * e0 + floor:
        bad.append(("finite", "error after n+3=%d updates is %.3g of the initial error" % (n + 3, errs[n + 3] / e0), {}))
    # canonical loop: stops where done() first turned true
    return bad


def canonical_check(sp, c, R):
    """a fresh object driven by `while not done: update` performs exactly R['canon'] updates and
    ends on the same x"""
    A, P, b, x0, tol = R["A"], R["P"], R["b"], R["x0"], R["tol"]
    x = x0.copy()
    Aop = (lambda v: A @ v)
    Pop = None if P is None else (lambda v: P @ v)
    alg = sp.alg.ConjugateGradient(Aop, b.copy(), x, P=Pop, max_iter=c["max_iter"], tol=tol)
    k = 0
    while not alg.done():
        alg.update()
        k += 1
        if k > c["max_iter"] + 5:
            break
    xok = bool(np.allclose(x, R["obs"][min(k, len(R["obs"]) - 1)]["x"], rtol=1e-12, atol=0))
    ok = (k == R["canon"]) and k <= c["max_iter"] and xok
    return ok, (k if xok else "%d (and the array passed as x does not hold the iterate alg.x of the stepped run)" % k)


def interleaved_check(sp, c, R):
    """two LIVE solver objects on systems of the same shape and dtype, constructed one after the other and stepped alternately:
    the first must walk through exactly the iterates of its solo run (every object owns its state; nothing is shared through the
    class or the module)"""
    A, P, b, x0, tol = R["A"], R["P"], R["b"], R["x0"], R["tol"]
    xa, xb = x0.copy(), (x0 * 0.5 + 1).astype(x0.dtype)
    Aop = (lambda v: A @ v)
    Pop = None if P is None else (lambda v: P @ v)
    alg_a = sp.alg.ConjugateGradient(Aop, b.copy(), xa, P=Pop, max_iter=c["max_iter"], tol=tol)
    alg_b = sp.alg.ConjugateGradient(Aop, (b[::-1] * 2).astype(b.dtype).copy(), xb, P=Pop, max_iter=c["max_iter"], tol=tol)
    for k in range(min(R["canon"], 8)):
        alg_a.update()
        if not alg_b.done():
            alg_b.update()
        ref = R["obs"][k + 1]["x"]
        got = np.asarray(alg_a.x).reshape(ref.shape)
        if not np.allclose(got, ref, rtol=1e-9, atol=1e-300, equal_nan=True):
            return False, k + 1
    return True, None


def case_record(c, R):
    def arr(a):
        if a is None:
            return None
        a = np.asarray(a)
        return [a.real.tolist(), a.imag.tolist() if np.iscomplexobj(a) else None]
    return {"case": {k: v for k, v in c.items()}, "A": arr(R["A"]), "P": arr(R["P"]), "b": arr(R["b"]), "x0": arr(R["x0"]),
            "tol": R["tol"]}


def classify(c):
    pk = {None: "noP", "spd": "P", "jacobi": "P"}.get(c["pre"], "P-aliasing")
    return "%s:%s:%s:%s%s%s" % ("complex" if c["cplx"] else "real", c["definite"], pk, c["form"], ":x-is-b" if c.get("alias_xb") else "",
                                ":x0-single-precision" if c.get("mixed") else "")


# ---------------------------------------------------------------- the check
def run(ctx):
    ctx.source_hash("sigpy/alg.py", "sigpy/util.py")
    # tie by translation (DESIGN 2.8): gen/Gen_alg.v is regenerated from alg.py (translate_all job "alg") and compiled;
    # its lemmas state generated Alg.update / ConjugateGradient.__init__/_update/_done == coq/model/Alg.v
    from tools import translate_alg
    tie_broken = translate_alg.tie(ctx, ["alg"])    # obligations "translate:sigpy/alg.py (...)", "tie:generated solver steps == hand model"
    proof_ok = ctx.prove("Prop_C12.v")
    sp = core.import_sigpy()
    rng = ctx.rng
    n = ctx.n(260, 4000)
    cases = corpus_cases()
    while len(cases) < n:
        cases.append(gen_case(rng, len(cases)))
    cases += [gen_mixed(rng) for _ in range(ctx.n(30, 400))]      # single-precision x0, double-precision system
    done, exprs_step, exprs_free = [], [], []
    reported = set()
    bad_oracle = 0
    for c in cases:
        try:
            R = run_impl(sp, c)
        except Exception as e:
            ctx.count("exception", key=json.dumps(c, sort_keys=True, default=str))
            sig = "C12:exception:" + type(e).__name__
            if sig not in reported:
                reported.add(sig)
                ctx.violation("ConjugateGradient raised %s on a valid system" % type(e).__name__,
                              {"kind": "impl-exception", "case": c, "error": repr(e)}, signature=sig)
            continue
        moved = len(R["obs"]) > 1 and not np.array_equal(R["obs"][-1]["x"], R["x0"])
        ctx.count(classify(c), key=(c["n"], c["max_iter"], c["npseed"]), nontrivial=moved or c["definite"] != "pd",
                  sample={"params": {k: v for k, v in c.items() if k != "A"}, "updates": len(R["obs"]) - 1,
                          "resid": [o["resid"] for o in R["obs"]][:6]})
        step, free, kfree = coq_exprs(c, R)
        done.append((c, R))
        exprs_step.append({"expr": step})
        exprs_free.append({"expr": free})
        probs = oracle(c, R)
        if not (c.get("layout2d") or c.get("alias_xb")) and R["canon"] >= 2:
            oki, ki = interleaved_check(sp, c, R)
            ctx.count("interleaved-solvers", nontrivial=False)
            if not oki:
                probs.append(("interleaved", "with a second live solver of the same shape and dtype stepped alternately, the iterate after "
                              "update %d differs from the solo run (it is no longer the Krylov-optimal iterate)" % ki, {}))
        okc, kc = canonical_check(sp, c, R)
        if not okc:
            probs.append(("canonical-loop", "`while not done: update` performed %s updates, first done() at %d (max_iter %d)"
                          % (kc, R["canon"], c["max_iter"]), {}))
        for sig, msg, det in probs:
            bad_oracle += 1
            full = "C12:%s" % sig
            if full in reported:
                continue
            reported.add(full)
            rec = case_record(c, R)
            rec.update({"kind": "oracle", "expected": "property C12 (%s)" % sig, "observed": msg, "detail": det,
                        "trajectory_resid": [o["resid"] for o in R["obs"]]})
            ctx.violation("ConjugateGradient: " + msg, rec, signature=full)
    # correspondence with the Coq float model
    corr_ok, failing_step, failing_free = True, [], []
    try:
        if not ctx.make(["run/RunC12.vo"]):
            raise RuntimeError("run/RunC12.vo does not build")
        failing_step = L.run_bool_cases(ctx, "c12s", HEADER, exprs_step, per_file=24)
        failing_free = L.run_bool_cases(ctx, "c12f", HEADER, exprs_free, per_file=24)
    except RuntimeError as e:
        corr_ok = False
        ctx.notes.append("correspondence could not run: %s" % str(e)[:500])
    ctx.obligation("corr:one-step model==impl after every update (%d trajectories)" % len(done), corr_ok and not failing_step)
    ctx.obligation("corr:free-running model==impl on the pre-convergence prefix (%d trajectories)" % len(done),
                   corr_ok and not failing_free)
    ctx.obligation("oracle:krylov-optimal/monotone/residual/in-place/breakdown (%d trajectories)" % len(done), bad_oracle == 0)
    ctx.coverage["disagreements_model_vs_impl"] = len(failing_step) + len(failing_free)
    ctx.coverage["disagreements_oracle_vs_impl"] = bad_oracle
    for which, fl in (("one-step", failing_step), ("free-run", failing_free)):
        for i in fl:
            c, R = done[i]
            sig = "C12:corr:%s:%s" % (which, classify(c))
            if sig in reported:
                continue
            reported.add(sig)
            rec = case_record(c, R)
            has_input = bool(oracle(c, R))
            rec.update({"kind": "correspondence", "broken": "corr:cg:" + which,
                        "observed": [dict(iter=o["iter"], rz=o["rz"], resid=o["resid"], npd=o["npd"], done=o["done"],
                                          x=emb_vec(o["x"]).tolist()) for o in R["obs"]],
                        "expected": "trajectory of coq/model/Alg.v cg_init/cg_update on binary64 (run/RunC12.v)"})
            ctx.violation("Coq CG model and implementation disagree (%s, %s)" % (which, classify(c)), rec,
                          found_input=has_input, signature=sig)
    if (not proof_ok or not corr_ok or tie_broken) and not ctx.violations:
        broken = getattr(ctx, "broken_proof", tie_broken or {"theorem": "corr:coq-run", "log": "; ".join(ctx.notes)})
        ctx.violation("proof obligation no longer checks: %s" % broken.get("theorem"),
                      {"kind": "proof", "broken": broken}, found_input=False, signature="C12:proof")
    ctx.coverage["rule"] = (
        "seeded generator: real-symmetric / complex-Hermitian PD systems n=1..12, cond 1..1e3 (log-spread, repeated and clustered "
        "spectra), no / dense SPD / Jacobi preconditioner and preconditioners that return their input (linop.Identity, identity "
        "function, view-returning function), the same array passed as b and x, exact singular-PSD / zero operators reaching "
        "p^H A p == 0, A as linop.MatMul or Python function, max_iter in {1,2,n,n+3}, tol 0 or "
        ">0, zero or random x0, plus negative-definite and indefinite matrices, plus mixed-precision runs (x0 float32 / complex64 "
        "with a float64 / complex128 system, cond <= 100; x compared with the binary64 model at 1e-5 / 1e-4 of the scale); every update of every trajectory is one compared "
        "state; a trajectory is non-trivial when x moved (or the matrix is not PD); distinct = distinct (n, max_iter, seed)")
    ctx.trusted += TRUSTED
    ctx.proved += PROVED
    ctx.validated_only += VALIDATED


def replay(obj):
    sp = core.import_sigpy()
    c = dict(obj["case"])

    def arr(a):
        if a is None:
            return None
        re = np.array(a[0], dtype=float)
        return re + 1j * np.array(a[1]) if a[1] is not None else re
    x0 = arr(obj["x0"])
    if c.get("mixed"):
        x0 = x0.astype(np.complex64 if c["cplx"] else np.float32)
    elif c["cplx"]:
        x0 = x0.astype(complex)
    arrays = (arr(obj["A"]), arr(obj["P"]), arr(obj["b"]), x0, obj["tol"])
    R = run_impl(sp, c, arrays)
    probs = oracle(c, R)
    okc, kc = canonical_check(sp, c, R)
    if not okc:
        probs.append(("canonical-loop", "canonical loop performed %s updates" % kc, {}))
    print("case", c)
    for o in R["obs"]:
        print(" iter %d resid %.6g npd %s done %s" % (o["iter"], o["resid"], o["npd"], o["done"]))
    for p in probs:
        print("VIOLATED:", p[0], p[1])
    print("agree:", not probs)
    return 0 if not probs else 1


TRUSTED = [
    "Coq 8.16.1 kernel + vm_compute (PrimFloat = hardware binary64)",
    "hand model coq/model/Alg.v (cg_init, cg__update, update, done) as the reading of alg.py ConjugateGradient, tied by this run's "
    "per-update correspondence",
    "complex Hermitian systems are fed to the Coq model through the real embedding [[Re,-Im],[Im,Re]] (computed in props/C12.py)",
    "numpy matmul / vdot / BLAS summation order is not modelled: compared with tolerance (one-step atol 1e-12*scale, rtol 1e-9)",
    "Stdlib real-number axioms (Reals) as reported by Print Assumptions",
]
PROVED = ["see coq/props/Prop_C12.v (theorem list in obligation_list); all statements are over an arbitrary real inner-product "
          "space and quantify over all k"]
VALIDATED = [
    "finite termination: PROVED (C12_cg_finite_solved / _resid / _then_breakdown / C12_cg_run_solves under dim_le V n, and dim_le proved "
    "for R^n, C12_Rn_dim_le); the oracle additionally checks the error after n+3 updates on the implementation in floating point",
    "Krylov space: PROVED span{p_0..p_{k-1}} = K_k(PA, P r0) (C12_cg_span_eq_krylov) and optimality over x0 + K_k (C12_cg_krylov_optimal); "
    "the numerical Krylov least-squares oracle checks the same statement on the implementation",
    "in-place update of the caller's array (object identity, shared memory and the contents of the CALLER's array after every "
    "update, incl. single-precision arrays passed to a double-precision system; the alias IR is not built)",
    "floating-point behaviour (loss of orthogonality) is outside the theorems; bounded by the oracle tolerances",
]
