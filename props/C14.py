"""C14 — LinearLeastSquares returns a minimiser of 1/2||Ax-y||^2 + g(Gx) + lamda/2||x-z||^2 whatever the solver;
unsupported combinations raise.

Proof: coq/props/Prop_C14.v — over abstract real inner-product spaces, about the terms of coq/model/LLS.v
(the decision function `get_alg`, and per branch WHAT is configured: CG system, GradientMethod gradient / step,
the PDHG arguments without and with G, the three ADMM sub-steps): the configured CG system is the stationarity
equation of the documented objective and stationarity <=> minimiser; fixed points of the configured
GradientMethod / PDHG / ADMM steps are exactly (G is None) the documented minimisers, resp. (G given) exactly the
KKT pairs, which are minimisers; rejection exactly for CG+proxg, GM+G, unknown solver.
Tie (this file):
 (a) FULL cross product solver x lamda x z x proxg x G x {steps given/defaulted} x {x given or not}: the
     implementation's error / no-error and what it wired up (read off the constructed objects, one update run)
     vs `describe (get_alg flags)` evaluated in Coq — exact, integers;
 (b) on the accepted real-valued configurations of (a): the configured DATA vs the float instance of the same model
     terms (run/RunC14.v): CG operator on a probe + right-hand side; gradf on a probe, alpha (incl. MaxEig from the
     implementation's recorded random start vector) and the first iterate; PDHG tau/sigma (given or defaulted),
     gammas and the full state after one update (without G and with the stacked operator); the system handed to
     ADMM's inner CG, the returned x solves the MODEL's system, v- and u-update;
 (c) oracle on the implementation (numpy, independent): objective at the returned x vs the true optimum (closed
     form for quadratic cases, numpy ADMM with exact solves for l1 / box, cross-checked at two penalty
     parameters), real and complex A, Identity and Reshape forward models; the caller's y and z are not modified
     (byte snapshots); accepted configurations do not raise.
"""
import json
import numpy as np
from vlib import core, coqlit as L

HEADER = """From Coq Require Import ZArith List Bool PrimFloat.
From SV Require Import lib.Scalar lib.FloatRun model.ProxGrad model.LLS run.RunC14.
Import ListNotations.
"""

SOLVERS = [None, "ConjugateGradient", "GradientMethod", "PrimalDualHybridGradient", "ADMM", "bogus"]
SOLVER_CODE = {None: 0, "ConjugateGradient": 1, "GradientMethod": 2, "PrimalDualHybridGradient": 3, "ADMM": 4, "bogus": 5}
PROXES = [None, "l1", "l2", "box"]
GKINDS = [None, "dense", "fd"]
# for the runs to the end also operators G that hand back their INPUT (Identity) or a VIEW of it (Reshape): g(Gx) = g(x)
GKINDS_ORACLE = GKINDS + ["identity", "reshape"]
MU = {"l1": 0.3, "l2": 0.7}
BOX = (-0.2, 0.3)
LAM = 0.6
RHO_GIVEN = 0.7
NPOW = 30


# ------------------------------------------------------------------------------------------------ problems
def cplx_randn(rs, shape, cplx):
    v = rs.randn(*shape)
    return v + 1j * rs.randn(*shape) if cplx else v


def make_problem(sp, spec):
    """spec: dict(seed, n, m, cplx, akind, gkind, prox, lam, z) -> concrete operators/arrays (deterministic)."""
    rs = np.random.RandomState(spec["seed"])
    n, m, cplx = spec["n"], spec["m"], spec["cplx"]
    akind = spec.get("akind", "matmul")
    if akind == "matmul":
        Amat = cplx_randn(rs, (m, n), cplx)
        A = sp.linop.MatMul([n, 1], Amat)
        y = cplx_randn(rs, (m, 1), cplx)
    elif akind == "highpass":
        # mean-removing circulant operator: its dominant singular vector is orthogonal to the constant vector, so a power iteration
        # for the default step size must not start from (a multiple of) ones
        Amat = (np.eye(n) - 0.6 * np.roll(np.eye(n), 1, axis=0)) + (0j if cplx else 0)
        A = sp.linop.Identity([n, 1]) - 0.6 * sp.linop.Circshift([n, 1], [1], axes=[0])
        y = cplx_randn(rs, (n, 1), cplx)
    elif akind == "identity":
        Amat = np.eye(n) + (0j if cplx else 0)
        A = sp.linop.Identity([n, 1])
        y = cplx_randn(rs, (n, 1), cplx)
    else:                                        # reshape: A.H(y) is a view of y
        Amat = np.eye(n) + (0j if cplx else 0)
        A = sp.linop.Reshape([n], [n, 1])
        y = cplx_randn(rs, (n,), cplx)
    if spec.get("l1rel"):
        # scale the data so that the l1 weight is the fraction 1/l1rel ... of ||A^H y||_inf: for l1rel in (0.5, 1) the solution is
        # sparse and the FIRST step of a zero-initialised primal-dual / proximal solver is thresholded back to exactly 0
        y = y * (MU["l1"] / (spec["l1rel"] * float(np.max(np.abs(Amat.conj().T @ y.reshape(-1, 1))))))
    dtype = y.dtype
    z = cplx_randn(rs, (n, 1), cplx).astype(dtype) if spec["z"] else None
    if spec.get("dscale"):
        # data of tiny / huge magnitude (the least-squares part is homogeneous; the regulariser weights stay as they are, so the
        # instance is a different but perfectly valid problem whose optimum the independent reference computes)
        y = y * spec["dscale"]
        z = None if z is None else z * spec["dscale"]
    lam = LAM * spec.get("lamscale", 1) if spec["lam"] else 0      # lamscale: l2 weight well above ||A||^2
    gkind = spec["gkind"]
    if gkind == "dense":
        k = max(1, n - 1)
        Gmat = cplx_randn(rs, (k, n), cplx) * spec.get("gscale", 1)
        G = sp.linop.MatMul([n, 1], Gmat)
    elif gkind == "fd":
        G = sp.linop.FiniteDifference([n, 1], axes=[0])
        Gmat = np.stack([G(e.reshape(n, 1).astype(dtype)).ravel() for e in np.eye(n)], axis=1)
    elif gkind in ("identity", "reshape"):
        G = sp.linop.Identity([n, 1]) if gkind == "identity" else sp.linop.Reshape([n, 1], [n, 1])
        Gmat = np.eye(n).astype(dtype)
    else:
        G, Gmat = None, np.eye(n).astype(dtype)
    gshape = list(G.oshape) if G is not None else [n, 1]
    pk = spec["prox"]
    if pk == "l1":
        proxg = sp.prox.L1Reg(gshape, MU["l1"])
    elif pk == "l2":
        proxg = sp.prox.L2Reg(gshape, MU["l2"])
    elif pk == "box":
        proxg = sp.prox.BoxConstraint(gshape, BOX[0], BOX[1])
    else:
        proxg = None
    x0 = cplx_randn(rs, (n, 1), cplx).astype(dtype)
    return dict(A=A, Amat=Amat, y=y, z=z, lam=lam, G=G, Gmat=Gmat, proxg=proxg, x0=x0, dtype=dtype, n=n,
                m=Amat.shape[0], gshape=gshape)


def g_value(pk, v):
    if pk == "l1":
        return MU["l1"] * float(np.sum(np.abs(v)))
    if pk == "l2":
        return MU["l2"] / 2 * float(np.sum(np.abs(v) ** 2))
    return 0.0


def box_violation(v):
    v = np.real(v)
    return float(max(0.0, np.max(BOX[0] - v), np.max(v - BOX[1])))


def objective(P, pk, x):
    """the documented objective in numpy (smooth part + g(Gx)); box: returns (value, infeasibility)"""
    xv = np.asarray(x).reshape(-1)
    yv = P["y"].reshape(-1)
    r = P["Amat"] @ xv - yv
    f = 0.5 * float(np.vdot(r, r).real)
    if P["lam"]:
        d = xv - (P["z"].reshape(-1) if P["z"] is not None else 0)
        f += P["lam"] / 2 * float(np.vdot(d, d).real)
    gv = P["Gmat"] @ xv
    if pk == "box":
        return f, box_violation(gv)
    return f + g_value(pk, gv), 0.0


def np_prox(pk, a, v):
    if pk == "l1":
        mag = np.abs(v)
        return np.where(mag > 0, v / np.where(mag > 0, mag, 1), 0) * np.maximum(mag - MU["l1"] * a, 0)
    if pk == "l2":
        return v / (1 + MU["l2"] * a)
    if pk == "box":
        return np.clip(v.real, BOX[0], BOX[1]).astype(v.dtype)
    return v


def ref_optimum(P, pk):
    """independent reference minimiser (numpy).  Quadratic cases: normal equations.  l1 / box: ADMM on v = Gx with
    exact dense solves, at two penalty parameters (their agreement validates the reference)."""
    Am, Gm = P["Amat"], P["Gmat"]
    n = Am.shape[1]
    yv = P["y"].reshape(-1)
    zv = P["z"].reshape(-1) if P["z"] is not None else np.zeros(n, dtype=Am.dtype)
    lam = P["lam"]
    H = Am.conj().T @ Am + lam * np.eye(n)
    b = Am.conj().T @ yv + lam * zv
    if pk in (None, "l2"):
        if pk == "l2":
            H = H + MU["l2"] * (Gm.conj().T @ Gm)
        x = np.linalg.lstsq(H, b, rcond=None)[0]
        return x, 0.0
    xs = []
    for rho in (1.0, 3.7):
        M = np.linalg.inv(H + rho * (Gm.conj().T @ Gm))
        x = np.zeros(n, dtype=np.result_type(Am.dtype, yv.dtype))
        v = Gm @ x
        u = np.zeros_like(v)
        for it in range(60000):
            x = M @ (b + rho * (Gm.conj().T @ (v - u)))
            gx = Gm @ x
            vn = np_prox(pk, 1 / rho, gx + u)
            u = u + gx - vn
            dv = np.linalg.norm(vn - v)
            v = vn
            if it % 50 == 0 and dv < 1e-14 and np.linalg.norm(gx - v) < 1e-14:
                break
        xs.append(x)
    return xs[0], float(np.linalg.norm(xs[0] - xs[1]))


# ------------------------------------------------------------------------------------------------ running sigpy
def step_kwargs(P, solver_eff, given):
    """step-size / preconditioner arguments when `given` (true values computed in numpy), else defaults"""
    if not given:
        return {}
    Am, Gm, lam = P["Amat"], P["Gmat"], P["lam"]
    n = Am.shape[1]
    H = Am.conj().T @ Am + lam * np.eye(n)
    if solver_eff == "GradientMethod":
        L_ = float(np.linalg.eigvalsh(H)[-1])
        return {"alpha": 1.0 / L_ if L_ > 0 else 1.0}
    if solver_eff == "PrimalDualHybridGradient":
        K = Am if P["G"] is None else np.vstack([Am, Gm])
        nk = float(np.linalg.norm(K, 2))
        both = {"tau": 0.95 / nk, "sigma": 1.0 / nk} if nk > 0 else {"tau": 1.0, "sigma": 1.0}
        if given in ("tau", "sigma"):          # ONE step given, the other one defaulted from it (MaxEig of the stacked operator)
            return {given: both[given]}
        return both
    if solver_eff == "ADMM":
        return {"rho": RHO_GIVEN}
    return {}


def effective_solver(solver, has_prox, has_G):
    if solver is not None:
        return solver
    return "ConjugateGradient" if not has_prox else ("GradientMethod" if not has_G else "PrimalDualHybridGradient")


def model_accepts(solver, has_prox, has_G):
    s = effective_solver(solver, has_prox, has_G)
    if s == "ConjugateGradient":
        return not has_prox
    if s == "GradientMethod":
        return not has_G
    return s in ("PrimalDualHybridGradient", "ADMM")


MAX_ITER = {"ConjugateGradient": 50, "GradientMethod": 3000, "PrimalDualHybridGradient": 5000, "ADMM": 500}
# relative objective tolerance per branch (see notes/C14.md): CG is a direct method on <= 6 unknowns; FISTA 3000 and
# ADMM 500x20 reach ~1e-9 on these sizes; PDHG is O(1/k) when nothing is strongly convex
TOL = {"ConjugateGradient": 1e-8, "GradientMethod": 1e-5, "PrimalDualHybridGradient": 1e-3, "ADMM": 1e-5}


def run_solver(sp, P, spec, solver, given, xgiven, max_iter=None):
    seff = effective_solver(solver, P["proxg"] is not None, P["G"] is not None)
    kw = step_kwargs(P, seff, given)
    if given and seff == "ConjugateGradient":
        d = np.real(np.diag(P["Amat"].conj().T @ P["Amat"])) + P["lam"]
        d = np.where(d > 0, d, 1.0)
        kw["P"] = sp.linop.Multiply([P["n"], 1], (1.0 / d).reshape(-1, 1))
    if seff == "ADMM":
        kw["max_cg_iter"] = 20
    x = P["x0"].copy() if xgiven else None
    app = sp.app.LinearLeastSquares(P["A"], P["y"], x=x, proxg=P["proxg"], lamda=P["lam"], G=P["G"], z=P["z"],
                                    solver=solver, max_iter=max_iter or MAX_ITER.get(seff, 10), show_pbar=False, **kw)
    return app, seff


# ------------------------------------------------------------------------------------------------ (a)+(b)
class Recorder:
    """records the arguments of every ConjugateGradient / MaxEig constructed inside sigpy.app"""

    def __init__(self, sp):
        self.sp, self.cg, self.maxeig = sp, [], []
        self.orig_cg, self.orig_me_init = sp.app.ConjugateGradient, sp.app.MaxEig.__init__
        rec = self

        class CG(self.orig_cg):
            def __init__(self2, A, b, x, *a, **k):
                rec.cg.append((A, np.array(b, copy=True), np.array(x, copy=True)))
                super().__init__(A, b, x, *a, **k)

        def me_init(self2, A, *a, **k):
            rec.orig_me_init(self2, A, *a, **k)
            rec.maxeig.append(np.array(self2.x, copy=True))

        CG.__name__ = CG.__qualname__ = "ConjugateGradient"
        self.CG, self.me_init = CG, me_init

    def __enter__(self):
        self.sp.app.ConjugateGradient = self.CG
        self.sp.app.MaxEig.__init__ = self.me_init
        return self

    def __exit__(self, *a):
        self.sp.app.ConjugateGradient = self.orig_cg
        self.sp.app.MaxEig.__init__ = self.orig_me_init


def classify_exc(e):
    msg = str(e)
    if isinstance(e, ValueError) and "ConjugateGradient cannot have proxg" in msg:
        return [-1]
    if isinstance(e, ValueError) and "GradientMethod cannot have G" in msg:
        return [-2]
    if isinstance(e, ValueError) and "Invalid solver" in msg:
        return [-3]
    return [-8]


def observe_descriptor(sp, P, app, seff, rs):
    """what the constructed app wired up, as the integers of model/LLS.v:describe (read off the objects)"""
    alg = app.alg
    A, y, z, lam, n = P["A"], P["y"], P["z"], P["lam"], P["n"]
    e = cplx_randn(rs, (n, 1), np.iscomplexobj(y)).astype(P["dtype"])
    AHy = A.H(y)
    scale = 1e-10 * (1 + float(np.linalg.norm(AHy)))
    name = type(alg).__name__
    if name == "ConjugateGradient":
        reg = float(np.linalg.norm(alg.A(e) - A.N(e))) > scale
        zin = float(np.linalg.norm(alg.b - AHy)) > scale
        return [1, int(reg), int(zin)]
    if name == "GradientMethod":
        g0 = alg.gradf(np.zeros_like(e))
        zin = float(np.linalg.norm(g0 + AHy)) > scale
        reg = float(np.linalg.norm(alg.gradf(e) - g0 - A.N(e))) > scale
        return [2, int(reg), int(zin), int(alg.proxg is not None and alg.proxg is P["proxg"])]
    if name == "PrimalDualHybridGradient":
        stacked = isinstance(alg.A, sp.linop.Vstack)
        pg = alg.proxg
        if pg is P["proxg"] and pg is not None:
            primal = 1
        elif isinstance(pg, sp.prox.NoOp):
            primal = 0
        elif isinstance(pg, sp.prox.L2Reg) and pg.lamda == lam and (pg.y is z):
            primal = 3 if (pg.proxh is not None and pg.proxh is P["proxg"]) else (2 if pg.proxh is None else 99)
        else:
            primal = 99
        pf = alg.proxfc

        def is_data(q):
            return isinstance(q, sp.prox.L2Reg) and q.lamda == 1 and q.proxh is None and np.array_equal(q.y, -y)
        if is_data(pf):
            dual = 0
        elif isinstance(pf, sp.prox.Stack) and len(pf.proxs) == 2 and is_data(pf.proxs[0]) and isinstance(pf.proxs[1], sp.prox.Conj):
            inner = pf.proxs[1].prox
            dual = 2 if (inner is P["proxg"] and inner is not None) else (1 if isinstance(inner, sp.prox.NoOp) else 99)
        else:
            dual = 99
        gp = 1 if (alg.gamma_primal == lam and lam > 0) else (0 if alg.gamma_primal == 0 else 99)
        return [3, int(stacked), primal, dual, gp, int(alg.gamma_dual)]
    if name == "ADMM":
        usesG = P["G"] is not None and alg.A is P["G"]
        return [4, int(usesG), None, int(P["proxg"] is not None)]       # slot 2 filled after the first update
    return [99]


def fl(v):
    return L.flist(np.asarray(v, dtype=float).ravel())


def fopt(v):
    return "None" if v is None else "(Some %s)" % L.flt(v)


def vopt(v):
    return "None" if v is None else "(Some %s)" % fl(v)


def rows(M):
    return "[" + "; ".join(fl(r) for r in np.asarray(M, dtype=float)) + "]"


def prob_literal(P, pk):
    px = {"l1": "(Some (PL1 %s))" % L.flt(MU["l1"]), "l2": "(Some (PL2 %s))" % L.flt(MU["l2"]),
          "box": "(Some (PBox %s %s))" % (L.flt(BOX[0]), L.flt(BOX[1])), None: "None"}[pk]
    G = rows(P["Gmat"]) if P["G"] is not None else "[]"
    return "(mkProb %d %s %s %s %s %s %s)" % (P["n"], rows(P["Amat"]), G, fl(P["y"]), L.flt(P["lam"]), vopt(P["z"]), px)


def config_case(sp, spec, solver, given, xgiven, rs):
    """constructs one configuration, runs ONE update, returns (describe-expr, data-expr or None, observed descriptor, info)"""
    P = make_problem(sp, spec)
    pk = spec["prox"]
    flags = (SOLVER_CODE[solver], P["proxg"] is not None, P["G"] is not None, bool(spec["lam"]), P["z"] is not None)
    ysnap, zsnap = P["y"].tobytes(), (P["z"].tobytes() if P["z"] is not None else b"")
    info = {"spec": spec, "solver": solver, "given": given, "xgiven": xgiven}
    data_expr = None
    with Recorder(sp) as rec:
        try:
            app, seff = run_solver(sp, P, spec, solver, given, xgiven, max_iter=3)
        except Exception as e:           # noqa
            obs = classify_exc(e)
            info["error"] = repr(e)
            return flags, obs, None, info
        info["alg"] = type(app.alg).__name__
        obs = observe_descriptor(sp, P, app, seff, rs)
        alg = app.alg
        n, m = P["n"], P["m"]
        probe = rs.randn(n, 1)
        real = not spec["cplx"]
        PL = prob_literal(P, pk) if real else None
        x0 = np.array(app.x, copy=True)
        pre = {}
        if obs[0] == 1:
            pre = dict(opx=alg.A(probe.astype(P["dtype"])), rhs=np.array(alg.b, copy=True))
        elif obs[0] == 2:
            pre = dict(gradp=alg.gradf(probe.astype(P["dtype"])), alpha=alg.alpha)
        elif obs[0] == 3:
            pre = dict(tau=alg.tau, sigma=alg.sigma, gp=alg.gamma_primal, gd=alg.gamma_dual, u0=np.array(alg.u, copy=True))
        n_me = len(rec.maxeig)
        try:
            app.alg.update()
        except Exception as e:           # noqa
            info["error"] = repr(e) + " <- " + repr(e.__cause__)
            return flags, [-9], None, info
        if obs[0] == 4:
            A_cg, b_cg, _ = rec.cg[0]
            # lamda*z visible in the right-hand side handed to the inner CG?
            v0 = x0 if P["G"] is None else P["G"](x0)
            rho = app.rho
            base = P["A"].H(P["y"]) + rho * (v0 if P["G"] is None else P["G"].H(v0))
            obs[2] = int(float(np.linalg.norm(b_cg - base)) > 1e-10 * (1 + float(np.linalg.norm(base))))
        if real:
            if obs[0] == 1:
                data_expr = "chk_cg %s %s %s %s" % (PL, fl(probe), fl(pre["opx"]), fl(pre["rhs"]))
            elif obs[0] == 2:
                xr = rec.maxeig[0] if n_me else np.zeros(n)
                data_expr = "chk_gm %s %s %s %s %d %s %s true %s %s" % (
                    PL, fl(probe), fl(pre["gradp"]), fopt(step_kwargs(P, seff, given).get("alpha")), NPOW, fl(xr),
                    L.flt(pre["alpha"]), fl(x0), fl(alg.x))
            elif obs[0] == 3:
                kw = step_kwargs(P, seff, given)
                xr = rec.maxeig[0] if (n_me and kw.get("tau") is None) else np.zeros(n)
                K = m + (P["Gmat"].shape[0] if P["G"] is not None else 0)
                ur = rec.maxeig[0] if (n_me and kw.get("tau") is not None) else np.zeros(K)
                u1 = np.asarray(alg.u).ravel()
                u0 = pre["u0"].ravel()
                common = "%s %s %s %d %s" % (PL, fopt(kw.get("tau")), fopt(kw.get("sigma")), NPOW, fl(xr))
                steps = "%s %s %s %s" % (L.flt(pre["tau"]), L.flt(pre["sigma"]), L.flt(pre["gp"]), L.flt(pre["gd"]))
                if P["G"] is None:
                    data_expr = "chk_pd %s %s %s %s %s %s %s %s %s %s" % (
                        common, fl(ur), steps, fl(x0), fl(u0), fl(alg.x), fl(u1), fl(alg.x_ext), L.flt(alg.tau), L.flt(alg.sigma))
                else:
                    ur = np.asarray(ur).ravel()
                    data_expr = "chk_pdG %s %s %s %s %s %s %s %s %s %s %s %s %s" % (
                        common, fl(ur[:m]), fl(ur[m:]), steps, fl(x0), fl(u0[:m]), fl(u0[m:]), fl(alg.x), fl(u1[:m]), fl(u1[m:]),
                        fl(alg.x_ext), L.flt(alg.tau), L.flt(alg.sigma))
            elif obs[0] == 4:
                A_cg, b_cg, _ = rec.cg[0]
                data_expr = "%s %s %s %s %s %s %s %s %s %s" % (
                    "chk_admm" if P["G"] is None else "chk_admmG", PL, L.flt(app.rho), fl(probe),
                    fl(A_cg(probe.astype(P["dtype"]))), fl(b_cg), fl(x0), fl(alg.x), fl(alg.z), fl(alg.u))
    info["mutated"] = [nm for nm, a, s in (("y", P["y"], ysnap), ("z", P["z"], zsnap)) if a is not None and a.tobytes() != s]
    return flags, obs, data_expr, info


# ------------------------------------------------------------------------------------------------ (c) oracle runs
def oracle_case(sp, spec, solver, given, xgiven):
    """runs one accepted configuration to the end and compares with the independent optimum.
    returns dict(ok, kind, details)"""
    P = make_problem(sp, spec)
    pk = spec["prox"]
    ysnap, zsnap = P["y"].tobytes(), (P["z"].tobytes() if P["z"] is not None else b"")
    try:
        app, seff = run_solver(sp, P, spec, solver, given, xgiven)
        x = app.run()
    except Exception as e:       # noqa
        return dict(ok=False, kind="raises", detail=repr(e) + " <- " + repr(e.__cause__), seff=None)
    res = dict(ok=True, seff=seff, kind=None)
    mut = [nm for nm, a, s in (("y", P["y"], ysnap), ("z", P["z"], zsnap)) if a is not None and a.tobytes() != s]
    if mut:
        return dict(ok=False, kind="mutates-" + "+".join(mut), detail="caller's %s changed by constructing/running the app" % mut, seff=seff)
    if not np.all(np.isfinite(x)):
        return dict(ok=False, kind="diverged", detail="non-finite result", seff=seff)
    xr, ref_gap = ref_optimum(P, pk)
    Fx, infeas = objective(P, pk, x)
    Fr, _ = objective(P, pk, xr)
    tol = TOL[seff]
    scale = max(abs(Fr), 0.5 * float(np.vdot(P["y"], P["y"]).real), 1e-12 * (spec.get("dscale") or 1.0) ** 2)
    res.update(Fx=Fx, Fref=Fr, infeas=infeas, ref_gap=ref_gap, tol=tol, x=np.asarray(x).ravel(), xref=xr)
    if ref_gap > 1e-7:
        res.update(kind="reference-unreliable", ok=True)          # counted, not a verdict
        return res
    if pk == "box":
        bad = infeas > 1e-3 * (1 + abs(BOX[1] - BOX[0])) * (10 if seff == "PrimalDualHybridGradient" else 1) or abs(Fx - Fr) > 10 * tol * scale
    else:
        bad = (Fx - Fr) > tol * scale or (Fr - Fx) > 1e-7 * scale
    if bad and seff != "ConjugateGradient" and pk != "box" and (Fx - Fr) > 0:
        # a first-order method on an ill-conditioned instance may simply need more iterations than the harness gave it: run
        # 8 times longer; if the gap to the optimum keeps shrinking (at least halves, or reaches the tolerance) the run is slow,
        # not wrong.  A solver that minimises a different problem stalls at a positive gap and is still reported.
        try:
            app2, _ = run_solver(sp, make_problem(sp, spec), spec, solver, given, xgiven, max_iter=8 * MAX_ITER.get(seff, 10))
            x2 = app2.run()
            F2, _ = objective(P, pk, x2)
            if np.all(np.isfinite(x2)) and ((F2 - Fr) <= tol * scale or (F2 - Fr) <= 0.5 * (Fx - Fr)):
                res.update(kind="slow-convergence", ok=True, F_longer_run=F2)
                return res
        except Exception:        # noqa
            pass
    if bad:
        res.update(ok=False, kind="not-optimal",
                   detail="objective %.9g (infeasibility %.3g) vs optimum %.9g, tol %.1g*%.3g" % (Fx, infeas, Fr, tol, scale))
    return res


CORPUS = [
    # F6: PDHG with G and lamda > 0 used to regularise Gx instead of x (2.666 vs 2.443 on a random 6x4 problem)
    dict(spec=dict(seed=6, n=4, m=6, cplx=False, gkind="dense", prox="l1", lam=True, z=True), solver="PrimalDualHybridGradient", given=False, xgiven=False),
    dict(spec=dict(seed=6, n=4, m=6, cplx=False, gkind="fd", prox="l1", lam=True, z=False), solver="PrimalDualHybridGradient", given=True, xgiven=True),
    dict(spec=dict(seed=6, n=4, m=6, cplx=False, gkind="fd", prox=None, lam=True, z=True), solver="PrimalDualHybridGradient", given=False, xgiven=False),
    # F7: A.H(y) aliasing y updated in place: CG with lamda, z; every ADMM x-update (Identity + ADMM diverged to 1e29)
    dict(spec=dict(seed=7, n=5, m=5, cplx=False, akind="identity", gkind=None, prox=None, lam=True, z=True), solver="ConjugateGradient", given=False, xgiven=False),
    dict(spec=dict(seed=7, n=5, m=5, cplx=False, akind="identity", gkind=None, prox="l1", lam=False, z=False), solver="ADMM", given=False, xgiven=False),
    dict(spec=dict(seed=7, n=5, m=5, cplx=False, akind="reshape", gkind=None, prox=None, lam=True, z=True), solver="ConjugateGradient", given=False, xgiven=True),
    dict(spec=dict(seed=7, n=5, m=5, cplx=True, akind="reshape", gkind=None, prox="l2", lam=True, z=True), solver="ADMM", given=True, xgiven=False),
    dict(spec=dict(seed=7, n=4, m=4, cplx=False, akind="identity", gkind="fd", prox="l1", lam=True, z=True), solver="ADMM", given=False, xgiven=False),
    # fixed aea7ae2: PDHG + non-square G + proxg None + lamda 0 raised at the first update (Stack sized m+n instead of m+k)
    dict(spec=dict(seed=0, n=4, m=6, cplx=False, gkind="dense", prox=None, lam=False, z=False), solver="PrimalDualHybridGradient", given=False, xgiven=False),
    # G returns its input / a view of it: the splitting variable v = G x must still be a separate array (ADMM)
    dict(spec=dict(seed=0, n=4, m=6, cplx=False, gkind="identity", prox="l1", lam=False, z=False), solver="ADMM", given=False, xgiven=False),
    dict(spec=dict(seed=0, n=4, m=6, cplx=True, gkind="reshape", prox="l2", lam=True, z=True), solver="ADMM", given=True, xgiven=True),
    dict(spec=dict(seed=0, n=4, m=6, cplx=False, gkind="identity", prox="l1", lam=True, z=False), solver="PrimalDualHybridGradient", given=False, xgiven=False),
    # lamda >> ||A||^2 with defaulted steps
    dict(spec=dict(seed=8, n=3, m=4, cplx=False, gkind=None, prox="l1", lam=True, z=True, lamscale=200), solver="GradientMethod", given=False, xgiven=False),
    dict(spec=dict(seed=8, n=3, m=4, cplx=True, gkind=None, prox=None, lam=True, z=False, lamscale=50), solver="GradientMethod", given=False, xgiven=True),
]


def special_signature(spec, solver):
    """signature of the (fixed) defect class 'PDHG with non-square G, proxg None, lamda 0 raises at the first update'"""
    seff = effective_solver(solver, spec["prox"] is not None, spec["gkind"] is not None)
    if seff == "PrimalDualHybridGradient" and spec["gkind"] == "dense" and spec["prox"] is None and not spec["lam"]:
        return "C14:pdhgG-noprox-lam0-stack-shape"
    return None


def run(ctx):
    ctx.source_hash("sigpy/app.py", "sigpy/alg.py", "sigpy/prox.py")
    proof_ok = ctx.prove("Prop_C14.v")
    # tie by translation (DESIGN 2.8): gen/Gen_lls.v is regenerated from app.py (translate_all job "lls") and compiled;
    # its `gen_*_ok` lemmas state that _get_alg / _get_* as written in the source equal the terms of model/LLS.v
    from tools import translate_lls
    tie_broken = translate_lls.tie(ctx)     # obligations "translate:sigpy/app.py (...)", "tie:generated ... == hand model"
    sp = core.import_sigpy()
    rng = ctx.rng

    # ---------------- (a) + (b): full cross product of options on one small real problem each ----------------
    table, data_cases = [], []
    nprs = np.random.RandomState(rng.randrange(2 ** 31))
    for solver in SOLVERS:
        for lam in (False, True):
            for zg in (False, True):
                for pk in PROXES:
                    for gk in GKINDS:
                        for given in ((False, True, "tau", "sigma") if solver == "PrimalDualHybridGradient" else (False, True)):
                            for xgiven in (False, True):
                                spec = dict(seed=rng.randrange(2 ** 31), n=4, m=6, cplx=False, gkind=gk, prox=pk, lam=lam, z=zg)
                                flags, obs, dexpr, info = config_case(sp, spec, solver, given, xgiven, nprs)
                                expr = "chk_describe (%d)%%Z %s %s %s %s (%s)%%Z" % (flags[0], L.boolean(flags[1]), L.boolean(flags[2]),
                                                                          L.boolean(flags[3]), L.boolean(flags[4]), L.zlist(obs))
                                accepted = model_accepts(solver, flags[1], flags[2])
                                cls = "table:%s:%s" % (solver, "accept" if accepted else "reject")
                                ctx.count(cls, key=json.dumps([solver, lam, zg, pk, gk, given, xgiven]), nontrivial=True,
                                          sample={"solver": solver, "lamda>0": lam, "z": zg, "proxg": pk, "G": gk,
                                                  "steps_given": given, "x_given": xgiven, "observed": obs})
                                table.append(dict(expr=expr, info=info, obs=obs, accepted=accepted))
                                if dexpr is not None:
                                    data_cases.append(dict(expr=dexpr, info=info))
                                if info.get("mutated"):
                                    ctx.violation("LinearLeastSquares modifies the caller's %s (construction + one update)" % info["mutated"],
                                                  {"kind": "mutation", "case": info, "expected": "y and z unchanged", "observed": info["mutated"]},
                                                  signature="C14:mutation:" + str(info.get("alg")))
    corr_ok, t_fail, d_fail = True, [], []
    try:
        if not ctx.make(["run/RunC14.vo"]):
            raise RuntimeError("run/RunC14.vo does not build")
        t_fail = L.run_bool_cases(ctx, "c14_table", HEADER, table, per_file=300)
        d_fail = L.run_bool_cases(ctx, "c14_data", HEADER, data_cases, per_file=120)
    except RuntimeError as e:
        corr_ok = False
        ctx.notes.append("correspondence could not run: %s" % str(e)[:600])
    hard_t = list(t_fail)
    ctx.obligation("corr:decision-table model==impl (%d configurations, full cross product)" % len(table), corr_ok and not hard_t)
    ctx.obligation("corr:configured-data model==impl (%d accepted real configurations)" % len(data_cases), corr_ok and not d_fail)
    seen = set()
    for i in hard_t:
        info, obs = table[i]["info"], table[i]["obs"]
        key = (info["solver"], info["spec"]["prox"] is not None, info["spec"]["gkind"] is not None, tuple(obs[:1]))
        if key in seen:
            continue
        seen.add(key)
        accepted = table[i]["accepted"]
        found = (obs[0] < 0) == accepted      # error/no-error disagreement is itself a failing input
        ctx.violation("configuration: model says %s, implementation %s" % ("accept" if accepted else "reject", obs),
                      {"kind": "decision", "case": info, "expected": "accept" if accepted else "ValueError", "observed": obs,
                       "error": info.get("error")}, found_input=found or obs[0] in (-8, -9),
                      signature=(special_signature(info["spec"], info["solver"]) if obs == [-9] else None)
                      or "C14:decision:%s:%s" % (info["solver"], obs[0]))
    for i in d_fail[:3]:
        info = data_cases[i]["info"]
        ctx.violation("configured data differ from the model (%s)" % info.get("alg"),
                      {"kind": "correspondence", "broken": "corr:configured-data", "case": info, "expr": data_cases[i]["expr"][:4000]},
                      found_input=False, signature="C14:data:%s" % info.get("alg"))

    # ---------------- (c) oracle: objective at the returned x vs the independent optimum ----------------------
    combos = [(lam, zg, pk, gk) for lam in (False, True) for zg in (False, True) for pk in PROXES for gk in GKINDS_ORACLE]
    rng.shuffle(combos)
    ncombo = ctx.n(14, len(combos))
    jobs = list(CORPUS)
    for ci, (lam, zg, pk, gk) in enumerate(combos[:ncombo] * ctx.n(1, 2)):
        cplx = (ci % 3 == 1) and pk != "box"
        n = rng.choice([2, 3, 4, 5, 6]) if not cplx else rng.choice([2, 3, 4])
        m = n + rng.choice([0, 1, 2])
        akind = "matmul" if ci % 5 else rng.choice(["identity", "reshape"])
        if akind == "reshape" and gk is not None:
            akind = "identity"
        spec = dict(seed=rng.randrange(2 ** 31), n=n, m=m, cplx=cplx, akind=akind, gkind=gk, prox=pk, lam=lam, z=zg)
        for solver in SOLVERS[:5]:
            if not model_accepts(solver, pk is not None, gk is not None):
                continue
            if solver is None and ci % 2:
                continue          # the default choice duplicates an explicit solver; run it on every other problem
            jobs.append(dict(spec=spec, solver=solver, given=bool(rng.getrandbits(1)), xgiven=bool(rng.getrandbits(1))))
    # PDHG with G and ONE of tau / sigma supplied: the other is defaulted from the norm of the STACKED operator [A; G]
    for ci in range(ctx.n(12, 60)):
        n = rng.choice([3, 4, 5])
        spec = dict(seed=rng.randrange(2 ** 31), n=n, m=n + rng.choice([0, 1, 2]), cplx=(ci % 3 == 1), akind="matmul",
                    gkind=rng.choice(["dense", "dense", "fd"]), prox=rng.choice(["l1", "l1", "l2"]), lam=bool(ci % 2), z=bool(ci % 4 == 1), gscale=rng.choice([2.0, 4.0]))
        jobs.append(dict(spec=spec, solver="PrimalDualHybridGradient", given=["tau", "sigma"][ci % 2], xgiven=bool(ci % 3 == 0)))
    # strong l1 term (weight between 0.5 and 1 of ||A^H y||_inf), zero start, default steps: the first primal step lands on 0 again
    for ci in range(ctx.n(4, 24)):
        cplx = ci % 3 == 1
        n = rng.choice([3, 4, 5])
        spec = dict(seed=rng.randrange(2 ** 31), n=n, m=n + rng.choice([1, 2]), cplx=cplx, akind="matmul", gkind=None, prox="l1",
                    lam=bool(ci % 2), z=False, l1rel=rng.choice([0.55, 0.7, 0.85, 0.97]))
        for solver in ("GradientMethod", "PrimalDualHybridGradient", "ADMM"):
            jobs.append(dict(spec=spec, solver=solver, given=False, xgiven=False))
    # high-pass operator with DEFAULTED step sizes (MaxEig decides them)
    for ci in range(ctx.n(3, 16)):
        n = rng.choice([4, 5, 6, 8])
        spec = dict(seed=rng.randrange(2 ** 31), n=n, m=n, cplx=bool(ci % 2), akind="highpass", gkind=None, prox=rng.choice([None, "l1", "l2"]),
                    lam=bool(ci % 2), z=False)
        for solver in ("GradientMethod", "PrimalDualHybridGradient", "ConjugateGradient", "ADMM"):
            if model_accepts(solver, spec["prox"] is not None, False):
                jobs.append(dict(spec=spec, solver=solver, given=False, xgiven=False))
    # data of tiny magnitude, no prox (so the problem is homogeneous): every solver must still reach the optimum
    for ci in range(ctx.n(4, 24)):
        cplx = ci % 3 == 1
        n = rng.choice([3, 4, 5])
        spec = dict(seed=rng.randrange(2 ** 31), n=n, m=n + rng.choice([1, 2]), cplx=cplx, akind="matmul", gkind=None, prox=None,
                    lam=bool(ci % 2), z=bool(ci % 2), dscale=rng.choice([1e-9, 1e-12, 1e-7]))
        for solver in (None, "ConjugateGradient", "GradientMethod", "PrimalDualHybridGradient", "ADMM"):
            jobs.append(dict(spec=spec, solver=solver, given=False, xgiven=False))
    # a dominant l2 term (lamda >> ||A||^2): every default step size / preconditioner must account for lamda
    for ci in range(ctx.n(6, 40)):
        pk, gk = rng.choice(PROXES), rng.choice(GKINDS_ORACLE)
        cplx = (ci % 3 == 1) and pk != "box"
        n = rng.choice([2, 3, 4])
        spec = dict(seed=rng.randrange(2 ** 31), n=n, m=n + rng.choice([0, 1, 2]), cplx=cplx, akind=rng.choice(["matmul", "matmul", "identity"]),
                    gkind=gk, prox=pk, lam=True, z=bool(rng.getrandbits(1)), lamscale=rng.choice([50, 200]))
        # (not ADMM: its default rho = 1 does not depend on lamda, and with rho << lamda the 500 iterations run here are
        # not enough to reach the comparison tolerance — slow, not wrong)
        for solver in SOLVERS[:4]:
            if model_accepts(solver, pk is not None, gk is not None):
                jobs.append(dict(spec=spec, solver=solver, given=False, xgiven=bool(rng.getrandbits(1))))
    bad, stats = [], {"runs": 0, "reference_unreliable": 0, "max_rel_gap": {}}
    for job in jobs:
        spec, solver = job["spec"], job["solver"]
        r = oracle_case(sp, spec, solver, job["given"], job["xgiven"])
        stats["runs"] += 1
        cls = "run:%s:%s:%s%s" % (r.get("seff") or solver, spec["prox"], spec["gkind"], ":complex" if spec["cplx"] else "")
        ctx.count(cls, key=json.dumps(job, sort_keys=True), nontrivial=True,
                  sample={"job": job, "F": r.get("Fx"), "Fref": r.get("Fref"), "infeasibility": r.get("infeas")})
        if r.get("kind") == "reference-unreliable":
            stats["reference_unreliable"] += 1
            continue
        if r.get("kind") == "slow-convergence":
            stats["slow_convergence_rerun_8x"] = stats.get("slow_convergence_rerun_8x", 0) + 1
            continue
        if r["ok"] and r.get("Fref") is not None:
            sc = max(abs(r["Fref"]), 1e-12)
            g = stats["max_rel_gap"]
            g[r["seff"]] = max(g.get(r["seff"], 0.0), abs(r["Fx"] - r["Fref"]) / sc)
        if not r["ok"]:
            bad.append((job, r))
    ctx.obligation("oracle:objective at returned x == independent optimum; y, z untouched; no exception (%d runs)" % stats["runs"], not bad)
    seen = set()
    for job, r in bad:
        sig = (special_signature(job["spec"], job["solver"]) if r["kind"] == "raises" else None) or \
            "C14:%s:%s:G=%s" % (r["kind"], r.get("seff") or job["solver"], job["spec"]["gkind"])
        if sig in seen:
            continue
        seen.add(sig)
        rep = {"kind": "oracle", "case": job, "expected": "objective within tolerance of %s, y/z unchanged, no exception" % r.get("Fref"),
               "observed": r.get("detail"), "F": r.get("Fx"), "Fref": r.get("Fref")}
        if r.get("x") is not None:
            rep["x"] = [str(v) for v in r["x"]]
            rep["xref"] = [str(v) for v in r["xref"]]
        ctx.violation("LinearLeastSquares(%s): %s" % (r.get("seff") or job["solver"], r["kind"]), rep, signature=sig)
    ctx.coverage["c14_stats"] = stats
    ctx.coverage["disagreements_table"] = len(t_fail)
    ctx.coverage["disagreements_data"] = len(d_fail)
    ctx.coverage["rule"] = (
        "(a) the full cross product solver{None,CG,GM,PDHG,ADMM,'bogus'} x lamda{0,>0} x z{None,array} x proxg{None,L1Reg,L2Reg,Box} x "
        "G{None,dense (n-1)xn MatMul,FiniteDifference} x steps/P{given,defaulted} x x{given,None} = 1152 configurations on seeded real 6x4 "
        "problems: construct, read the wiring off the objects, run one update; compared exactly with describe(get_alg) in Coq; "
        "(b) every accepted configuration of (a): configured operator/rhs/gradient/proxes/steps and the state after one update vs the float "
        "instance of the model (1e-9; inner CG solve 1e-6); (c) seeded problems dims 2-6 (complex 2-4), A in {MatMul m>=n, Identity, Reshape}, "
        "every accepted solver run to max_iter {CG 50, GM 3000, PDHG 5000, ADMM 500x20}: objective vs independent optimum, y/z byte snapshots; "
        "non-trivial = every case (each has a distinct seeded problem); distinct = distinct option tuples / jobs")
    if (not proof_ok or not corr_ok or tie_broken) and not ctx.violations:
        broken = getattr(ctx, "broken_proof", tie_broken or {"theorem": "corr:coq-run", "log": "; ".join(ctx.notes)[-1500:]})
        ctx.violation("proof obligation no longer checks: %s" % broken.get("theorem"), {"kind": "proof", "broken": broken},
                      found_input=False, signature="C14:proof")
    ctx.trusted += TRUSTED
    ctx.proved += PROVED
    ctx.validated_only += VALIDATED


def replay(obj):
    sp = core.import_sigpy()
    case = obj.get("case", {})
    if obj.get("kind") == "oracle":
        r = oracle_case(sp, case["spec"], case["solver"], case["given"], case["xgiven"])
        print("case", case, "\nresult", {k: v for k, v in r.items() if k not in ("x", "xref")})
        return 0 if r["ok"] else 1
    if obj.get("kind") in ("decision", "mutation"):
        flags, obs, _, info = config_case(sp, case["spec"], case["solver"], case["given"], case["xgiven"], np.random.RandomState(0))
        acc = model_accepts(case["solver"], flags[1], flags[2])
        print("case", case, "\nmodel accepts:", acc, "observed:", obs, info.get("error"), "mutated:", info.get("mutated"))
        return 0 if ((obs[0] > 0) == acc and not info.get("mutated")) else 1
    print("no failing input recorded:", obj.get("broken"))
    return 1


TRUSTED = [
    "Coq 8.16.1 kernel + vm_compute (no native_compute, no extraction)",
    "hand model coq/model/LLS.v of _get_alg / _get_* (and of prox.L2Reg, Conj, NoOp, Stack, linop.Vstack, MaxEig), tied by this run's "
    "exact decision-table comparison and the configured-data comparison, and by gen/Gen_lls.v (regenerated from app.py by "
    "tools/translate_lls.py on every run; lemmas generated = hand model; readings of the Linop / Prox algebra: coq/model/LLSExpr.v, "
    "notes/translate_lls.md)",
    "model/ProxGrad.v gm_step / pd_step as the reading of alg.GradientMethod / PrimalDualHybridGradient (tied by C13)",
    "the user's Prox objects are characterised by their variational inequality (proved for the concrete classes by C11)",
    "dense matrices as the linear operators A, G in the float runs (Linop semantics: C01-C04)",
]
PROVED = ["see coq/props/Prop_C14.v (theorem list in obligation_list): lls_reject (+kinds, default), cg/gm/pdhg/admm *_solves_documented, "
          "pdhgG / admmG fixed <=> KKT ==> minimiser (converse: `_partial`, needs the subdifferential chain rule)"]
VALIDATED = ["convergence of GradientMethod / PDHG / ADMM iterates to their fixed points with the DEFAULTED step sizes (MaxEig is a lower "
             "estimate): numerically, objective at the returned x vs independent optimum",
             "existence of a KKT multiplier for general g o G (chain rule): numerically (PDHG/ADMM with G reach the optimum of the reference)",
             "complex data in the configured-data comparison (Coq side is real-valued; complex covered by the numpy oracle)",
             "ADMM's inner CG: the returned x is checked to solve the model's system (1e-6), not modelled iteration by iteration (C12)"]
