"""C04 — the normal operator A.N is A^H A (see props/linop_common.py for the shared tree machinery).

Additional dedicated streams: block operators with batch axes in every tiling regime (exact object-graph
comparison with the modelled _normal_linop + numeric A.N x = A.H A x), and NUFFT with toeplitz on/off on
square and non-square grids (numeric, within the interpolation accuracy of the NUFFT)."""
import numpy as np
from props import linop_common
from vlib import core, coqlit as L, linser


def block_cases(ctx, sp, rng):
    cases, meta, bad = [], [], {}
    n = ctx.n(60, 1200)
    for _ in range(n):
        D = rng.choice([1, 1, 2])
        bat = [rng.randint(1, 4) for _ in range(rng.choice([0, 1, 1, 2]))]
        B = [rng.randint(1, 3) for _ in range(D)]
        regime = rng.choice(["tile", "tile-remainder", "overlap", "gap"])
        if regime == "tile":
            S = list(B); N = [b * rng.randint(1, 3) for b in B]
        elif regime == "tile-remainder":
            S = list(B); N = [b * rng.randint(1, 2) + rng.randint(1, max(1, b - 1)) for b in B]
        elif regime == "overlap":
            B = [b + 1 for b in B]; S = [rng.randint(1, b - 1) for b in B]; N = [b + rng.randint(0, 3) for b in B]
        else:
            S = [b + rng.randint(1, 2) for b in B]; N = [b + rng.randint(0, 4) for b in B]
        # make leading batch sizes divisible by the block size sometimes (axes must not be confused)
        if bat and rng.random() < 0.5:
            bat[0] = B[0] * rng.randint(1, 2)
        ish = bat + N
        if int(np.prod(ish)) > 80:
            continue
        for which in ("a2b", "b2a"):
            try:
                A = sp.linop.ArrayToBlocks(ish, B, S)
                if which == "b2a":
                    A = A.H
                if int(np.prod(A.ishape)) > 120 or 0 in A.ishape or 0 in A.oshape:
                    continue
                Sx = linser.Serializer()
                T, TN = Sx.term(A), Sx.term(A.N)
                desc = {"op": which, "ishape": ish, "blk_shape": B, "blk_strides": S, "regime": regime}
                ctx.count("C04:blocks:%s:%s:%dD:batch%d" % (which, regime, D, len(bat)), key=T, sample=desc)
                cases.append({"expr": "chk_normal %s %s" % (T, TN)}); meta.append(("normal-blocks", {"term": T, "desc": desc}))
                x = linop_common.cvec(rng, A.ishape)
                w, w2 = np.asarray(A.N(x)), np.asarray(A.H(A(x)))
                if w.shape != w2.shape or not np.allclose(w, w2, rtol=1e-9, atol=1e-9):
                    bad.setdefault("normal-blocks", ("A.N x != A.H(A x) for a block operator", {"kind": "oracle", "case": desc,
                                                     "max_abs_diff": float(np.abs(w - w2).max())}))
            except Exception as e:
                bad.setdefault("exception-blocks", ("block operator raised %r" % e, {"kind": "impl-exception", "error": repr(e)}))
    return cases, meta, bad


def nudft_matrix(grid, coord):
    """exact non-uniform DFT matrix: y_j = N^(-1/2) sum_n x_n exp(-2 pi i k_j.n/N), n measured from the centre index N//2"""
    import itertools
    idx = np.array(list(itertools.product(*[range(-(g // 2), g - (g // 2)) for g in grid])), dtype=float)
    ph = np.zeros((coord.shape[0], idx.shape[0]))
    for d, g in enumerate(grid):
        ph += np.outer(coord[:, d], idx[:, d]) / g
    return np.exp(-2j * np.pi * ph) / np.sqrt(np.prod(grid))


def nufft_cases(ctx, sp, rng):
    """A.N x against A.H(A x).  toeplitz=False: the same composition, to rounding.  toeplitz=True: "within the interpolation
    accuracy of the NUFFT" is measured per case: e_A = error of A.H A x against the exact non-uniform Gram matrix applied to x,
    and the Toeplitz operator has to stay within 8 e_A + 3e-5 of A.H A x (on 1500 clean cases over the same parameter range the
    largest ratio was 3.4 wherever e_A > 1e-5, and the Toeplitz error has a floor of about 5e-6 below that)."""
    bad = {}
    n = ctx.n(14, 160)
    for it in range(n):
        nd = rng.choice([1, 2, 2, 2, 3])
        while True:
            grid = [rng.randint(3, 10) for _ in range(nd)]
            if int(np.prod(grid)) <= 160:
                break
        bat = [2] if rng.random() < 0.25 else []
        npts = rng.randint(8, 30)
        ckind = rng.choice(["uniform", "uniform", "grid", "half"])
        if ckind == "uniform":
            coord = np.array([[rng.uniform(-g / 2, g / 2) for g in grid] for _ in range(npts)])
        else:
            coord = np.array([[rng.randint(-(g // 2), g - (g // 2) - 1) + (0.5 if ckind == "half" else 0.0) for g in grid] for _ in range(npts)])
        if it % 2 == 0:
            kw = {}
            pdesc = "default"
        else:
            kw = dict(oversamp=rng.choice([1.25, 1.5, 2]), width=rng.choice([3, 4, 5, 6, 8]))
            pdesc = "os%s:w%s" % (kw["oversamp"], kw["width"])
        for toep in (False, True):
            desc = {"grid": grid, "batch": bat, "npts": npts, "toeplitz": toep, "coords": ckind, "params": kw}
            ctx.count("C04:nufft:%dD:toeplitz=%s:%s:%s" % (nd, toep, "square" if len(set(grid)) == 1 else "non-square", "default" if not kw else "non-default"),
                      key=str(desc), sample=desc)
            try:
                A = sp.linop.NUFFT(bat + grid, coord, toeplitz=toep, **kw)
                x = linop_common.cvec(rng, A.ishape)
                if it % 3 == 0:
                    # the same A.N object is first applied to a real-dtype array (as MaxEig does with its default dtype): nothing it
                    # keeps from that call may change what it does to the complex array
                    _ = A.N(np.ascontiguousarray(np.real(x)))
                w, w2 = np.asarray(A.N(x)), np.asarray(A.H(A(x)))
                err = np.linalg.norm(w - w2) / (np.linalg.norm(w2) + 1e-30)
                if toep:
                    E = nudft_matrix(grid, coord)
                    G = E.conj().T @ E
                    gx = (x.reshape([-1, int(np.prod(grid))]) @ G.T).reshape(x.shape)
                    e_a = np.linalg.norm(w2 - gx) / (np.linalg.norm(gx) + 1e-30)
                    tol = 8 * e_a + 3e-5
                else:
                    e_a, tol = None, 1e-6
                if w.shape != w2.shape or err > tol:
                    bad.setdefault("normal-nufft-toeplitz=%s" % toep, ("NUFFT(toeplitz=%s, %s).N x differs from A.H(A x) (relative %.3g, allowed %.3g)" % (toep, pdesc, err, tol),
                                                                         {"kind": "oracle", "case": desc, "coord": coord.tolist(), "rel_err": float(err),
                                                                          "nufft_accuracy_on_this_case": e_a, "allowed": tol,
                                                                          "x": [[float(v.real), float(v.imag)] for v in np.ravel(x)]}))
            except Exception as e:
                bad.setdefault("exception-nufft", ("NUFFT normal raised %r" % e, {"kind": "impl-exception", "case": desc, "error": repr(e)}))
    return bad


def solver_stream(ctx, sp, rng):
    """'every solver that works through A.N minimises the objective defined by A itself': LinearLeastSquares on operators whose
    normal operator is an analytic shortcut (Identity for FFT / IFFT / Reshape / Transpose / Circshift / Identity, tiling blocks),
    compared with the dense minimiser of 1/2||A x - y||^2 + lamda/2||x||^2"""
    from vlib import linser
    bad = {}
    lin = sp.linop
    for k in range(ctx.n(12, 120)):
        sh = [rng.randint(2, 3), rng.randint(2, 4)]
        kind = ["fft", "ifft", "reshape", "transpose", "circshift", "identity", "blocks", "scaled-fft"][k % 8]
        A = {"fft": lambda: lin.FFT(sh), "ifft": lambda: lin.IFFT(sh, axes=[-1]), "reshape": lambda: lin.Reshape([sh[0] * sh[1]], sh),
             "transpose": lambda: lin.Transpose(sh), "circshift": lambda: lin.Circshift(sh, [1], axes=[-1]), "identity": lambda: lin.Identity(sh),
             "blocks": lambda: lin.ArrayToBlocks([4, 6], [2, 3], [2, 3]), "scaled-fft": lambda: (2 - 1j) * lin.FFT(sh)}[kind]()
        lam = [0.0, 0.3][k % 2]
        y = linop_common.cvec(rng, A.oshape).astype(np.complex128)
        M = linser.dense(A)
        n = M.shape[1]
        xs = np.linalg.solve(M.conj().T @ M + lam * np.eye(n), M.conj().T @ y.ravel())
        for solver, kw in (("ConjugateGradient", {}), ("GradientMethod", {"max_iter": 300}), ("PrimalDualHybridGradient", {"max_iter": 1500})):
            ctx.count("C04:solver:%s:%s" % (kind, solver), key=(k, solver), nontrivial=True)
            try:
                x = sp.app.LinearLeastSquares(A, y.copy(), lamda=lam, solver=solver, show_pbar=False, **kw).run()
                e = float(np.linalg.norm(np.ravel(x) - xs) / (np.linalg.norm(xs) + 1e-300))
                if not e <= 1e-3:
                    bad.setdefault("solver-through-normal:" + solver, ("LinearLeastSquares(%s) on %r (A.N is an analytic shortcut) does not minimise the objective defined by A: "
                                                                       "relative distance %.3g from the dense minimiser" % (solver, A, e),
                                                                       {"kind": "oracle", "operator": repr(A), "lamda": lam, "solver": solver, "y": np.ravel(y).tolist().__repr__(),
                                                                        "expected": xs.tolist().__repr__(), "observed": np.ravel(x).tolist().__repr__()}))
            except Exception as e:
                bad.setdefault("solver-exception", ("LinearLeastSquares(%s) on %r raised %r" % (solver, A, e), {"kind": "impl-exception", "operator": repr(A)}))
    return bad


def run(ctx):
    linop_common.run_linop(ctx, "C04", "Prop_C04.v", 130, 4000, {"normal", "applyN"})
    sp = core.import_sigpy()
    cases, meta, bad = block_cases(ctx, sp, ctx.rng)
    bad.update(nufft_cases(ctx, sp, ctx.rng))
    bad.update(solver_stream(ctx, sp, ctx.rng))
    failing, ok = [], True
    try:
        failing = L.run_bool_cases(ctx, "c04blocks", linop_common.HEADER, cases, per_file=100)
    except RuntimeError as e:
        ok = False
        ctx.notes.append("block-normal correspondence could not run: %s" % str(e)[:400])
    ctx.obligation("corr:normal-blocks (%d cases)" % len(cases), ok and not failing)
    ctx.obligation("oracle:block and NUFFT normal operators", not bad)
    for k, (what, rep) in bad.items():
        ctx.violation("C04: " + what, rep, signature="C04:" + k)
    if failing:
        i = failing[0]
        ctx.violation("C04: modelled _normal_linop and the implementation's A.N differ for %s" % meta[i][1]["desc"],
                      {"kind": "correspondence", "broken": "corr:normal-blocks", "case": meta[i][1]}, found_input=False,
                      signature="C04:corr:normal-blocks")
    if not ok and not ctx.violations:
        ctx.violation("correspondence could not run", {"kind": "proof", "broken": "corr:coq-run"}, found_input=False, signature="C04:proof")
    ctx.validated_only.append("NUFFT Toeplitz normal operator: only validated numerically (relative 5e-2 at the defaults)")


def replay(obj):
    return "rerun"      # regenerated deterministically from the recorded seed (vlib/main.py)
