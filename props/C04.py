"""C04 — the normal operator A.N is A^H A (see props/linop_common.py)."""
from props import linop_common


def run(ctx):
    linop_common.run_linop(ctx, "C04", "Prop_C04.v", 150, 4000, {"normal", "applyN"})


def replay(obj):
    print(obj)
    return 1
