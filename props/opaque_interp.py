"""opaque_interp — run side of the opaque-leaf bridge for the Interpolate / Gridding family (see notes/OPAQUE_BRIEF.md).

The Linop classes Interpolate / Gridding of /repo are applied to integer-valued (real or complex) arrays and compared
with `orc_interp` (coq/model/OpaqueInterp.v: the classes' _apply written with the C07 function model
coq/model/Interp.v, i.e. the hand-modelled wrappers around the numba kernels GENERATED from sigpy/interp.py), evaluated
inside Coq by vm_compute on PrimFloat (coq/run/RunOpaqueInterp.v: chk_opaque_interp; tolerance of run/RunC07.v).
The leaf term is the serialisation of the real object (vlib/linser.py), and the environment (coordinate arrays by tag,
kernel / width / param by code) is read off the same Serializer, so what is compared is exactly the argument passing
of __init__ / _apply / _adjoint_linop: which shape goes where, which captured coordinate array, kernel name, scalar
or per-axis width and param.  Kaiser-Bessel kernel values are measured on the implementation (props/C07.kb_table).

cases(sp, rng, n)  -> list of dicts with "expr" (+ "info") for coqlit.run_bool_cases (HEADER below)
selftest()         -> runs ~60 random leaves (each with its .H leaf and the adj link, + trees and invalid parameters)
                      on /repo, prints the disagreements
"""
import os
import sys
import time
import numpy as np
from vlib import core, coqlit as L, linser
from props import C07

HEADER = """From Coq Require Import ZArith List Bool PrimFloat.
From SV Require Import lib.Scalar lib.NdArray lib.FloatRun model.Block model.Interp model.Linop model.OpaqueInterp
  run.RunC07 run.RunLinop run.RunOpaqueInterp.
Import ListNotations.
Local Open Scope Z_scope.
"""

CLASSES = ("Interpolate", "Gridding")


def _scalar_variant(rng, v):
    """the same scalar as python int / float / numpy scalar (np.isscalar is true for all)"""
    k = rng.choice(["py", "py", "float", "np"])
    if k == "float":
        return float(v)
    if k == "np":
        return np.float64(v) if rng.random() < 0.5 or v != int(v) else np.int64(int(v))
    return v


def _seq_variant(rng, l):
    """the same per-axis sequence as list / tuple / numpy array (np.isscalar is false for all)"""
    k = rng.choice(["list", "tuple", "array"])
    if k == "tuple":
        return tuple(l)
    if k == "array":
        return np.array(l, dtype=np.float64)
    return list(l)


def gen_config(rng):
    """C07's generator (1-3 grid dims incl. length-1 axes, 0-2 batch axes, 1-2-D point sets, ties / negative / far
    coordinates, duplicates, spline 0-2 and Kaiser-Bessel, scalar and per-axis widths / params) + argument spellings"""
    c = C07.gen_case(rng)
    c["cls"] = "Interpolate" if c["op"] == "interp" else "Gridding"
    if c["kernel"] == "spline" and rng.random() < 0.12:
        # a sequence LONGER than ndim is accepted: the kernels read width[-1] .. width[-ndim] (the leading entry is ignored)
        if not np.isscalar(c["width"]):
            c["width"] = [rng.choice([1, 5, 0.5])] + list(c["width"])
        if not np.isscalar(c["param"]):
            c["param"] = [rng.choice([0, 1, 2])] + list(c["param"])
    c["width_arg"] = _scalar_variant(rng, c["width"]) if np.isscalar(c["width"]) else _seq_variant(rng, c["width"])
    c["param_arg"] = _scalar_variant(rng, c["param"]) if np.isscalar(c["param"]) else _seq_variant(rng, c["param"])
    c["defaults"] = False
    if rng.random() < 0.1:          # all keyword arguments left at their defaults: kernel="spline", width=2, param=1
        c.update(kernel="spline", width=2, param=1, width_arg=2, param_arg=1, defaults=True)
    return c


def build(sp, c, via_H):
    """the real operator object: constructed directly, or as the .H of its dual class"""
    shape = c["bat"] + c["grid"]
    kw = {} if c["defaults"] else dict(kernel=c["kernel"], width=c["width_arg"], param=c["param_arg"])
    dual = {"Interpolate": "Gridding", "Gridding": "Interpolate"}
    name = dual[c["cls"]] if via_H else c["cls"]
    shape = tuple(shape) if c.get("shape_tuple") else shape
    A = getattr(sp.linop, name)(shape, c["coord"], **kw)
    return A.H if via_H else A


def env_lits(sp, S, configs):
    """(carrs, kerns, tbl, widths, params) literals from the Serializer that produced the term(s)"""
    carrs = "[" + "; ".join("(%d, (%s, %s))" % (t, L.zlist(a.shape), L.flist(np.real(np.ravel(a)).astype(np.float64)))
                            for t, a in S.arrays.values() if not np.iscomplexobj(a)) + "]"
    kerns, widths, params = [], [], []
    for key, code in S.params.items():
        kind, v = key
        if kind == "kernel":
            kerns.append("(%d, %d)" % (code, 1 if v == "spline" else 2))
        elif kind in ("width", "param"):
            if isinstance(v, tuple):
                item = "(%d, (false, %s))" % (code, L.flist(list(v[1:])))
            else:
                item = "(%d, (true, %s))" % (code, L.flist([v]))
            (widths if kind == "width" else params).append(item)
    tbls = [C07.kb_table(sp, c) for c in configs if c["kernel"] == "kaiser_bessel"]
    tbl = " ++ ".join(tbls) if tbls else "[]"
    return carrs, "[" + "; ".join(kerns) + "]", "(" + tbl + ")", "[" + "; ".join(widths) + "]", "[" + "; ".join(params) + "]"


def leaf_expr(sp, S, term, c, x, y):
    carrs, kerns, tbl, widths, params = env_lits(sp, S, [c])
    return "chk_opaque_interp %s %s %s %s %s %s %s %s %s" % (
        term, carrs, kerns, tbl, widths, params, L.cflist(np.ravel(x)), L.zlist([int(v) for v in np.shape(y)]),
        L.cflist(np.ravel(y)))


def tree_expr(sp, T, configs, x, y):
    S = linser.Serializer()
    term = S.term(T)
    arrs, scals = S.env_F()
    carrs, kerns, tbl, widths, params = env_lits(sp, S, configs)
    return "chk_apply_interp %s %s %s %s %s %s %s %s %s %s" % (
        term, arrs, scals, carrs, kerns, tbl, widths, params, L.cflist(np.ravel(x)), L.cflist(np.ravel(y)))


def dot_test(A, rng, cplx):
    """<A x, y> vs <x, A.H y> on the implementation (float: relative 1e-9)"""
    x = C07.intdata(rng, list(A.ishape), cplx)
    y = C07.intdata(rng, list(A.oshape), cplx)
    lhs = np.vdot(y, A(x))
    rhs = np.vdot(A.H(y), x)
    ok = abs(lhs - rhs) <= 1e-9 * (1 + abs(lhs) + abs(rhs))
    return bool(ok), (x, y, lhs, rhs)


def describe(c):
    d = {k: v for k, v in c.items() if k not in ("coord", "width_arg", "param_arg")}
    d["coord"] = c["coord"].tolist()
    d["width"] = np.ravel(c["width"]).tolist() if not np.isscalar(c["width"]) else float(c["width"])
    d["param"] = np.ravel(c["param"]).tolist() if not np.isscalar(c["param"]) else float(c["param"])
    d["width_type"] = type(c["width_arg"]).__name__
    d["param_type"] = type(c["param_arg"]).__name__
    return d


def leaf_cases(sp, rng, c, via_H):
    """three cases for one random leaf A: A x, the link adj(term A) == term(A.H), and A.H y"""
    A = build(sp, c, via_H)
    assert type(A).__name__ == c["cls"], (type(A).__name__, c["cls"])
    S = linser.Serializer()
    term = S.term(A)
    AH = A.H
    termH = S.term(AH)                      # same Serializer: the coordinate array keeps its tag, the codes are shared
    x = C07.intdata(rng, list(A.ishape), c["cplx"])
    y = np.asarray(A(x))
    u = C07.intdata(rng, list(A.oshape), c["cplx"])
    v = np.asarray(AH(u))
    ok, wit = dot_test(A, rng, c["cplx"])
    info = dict(describe(c), via_H=via_H, nd=len(c["grid"]), ishape=list(A.ishape), oshape=list(A.oshape), dot_ok=ok)
    if not ok:
        info["dot_witness"] = dict(x=repr(wit[0].tolist()), y=repr(wit[1].tolist()), lhs=repr(wit[2]), rhs=repr(wit[3]))
    out = [dict(expr=leaf_expr(sp, S, term, c, x, y), info=dict(info, kind="leaf", nontrivial=bool(np.any(y != 0)))),
           dict(expr="chk_opaque_interp_adj %s %s" % (term, termH), info=dict(info, kind="adj-link", nontrivial=True)),
           dict(expr=leaf_expr(sp, S, termH, c, u, v),
                info=dict(info, kind="leaf.H", cls=type(AH).__name__, nontrivial=bool(np.any(v != 0))))]
    return out


def tree_case(sp, rng):
    c = gen_config(rng)
    A = build(sp, c, False)
    kind = rng.choice(["AH*A", "N", "scaled-sub", "mult", "conj", "hstack"])
    configs = [c]
    if kind == "AH*A":
        T = A.H * A
    elif kind == "N":
        T = A.N
    elif kind == "scaled-sub":
        c2 = dict(c, kernel="spline", width=3, param=2, width_arg=3, param_arg=2, defaults=False)   # same shapes, other kernel args
        B = build(sp, c2, False)
        configs.append(c2)
        T = complex(rng.randint(-2, 2), rng.randint(1, 2)) * A - B
    elif kind == "mult":
        m = C07.intdata(rng, list(A.oshape), True)
        T = sp.linop.Multiply(A.oshape, m) * A
    elif kind == "conj":
        T = sp.linop.Conj(A) + A
    else:
        T = sp.linop.Hstack([A, A], axis=0)
    x = C07.intdata(rng, list(T.ishape), True)
    y = np.asarray(T(x))
    info = dict(describe(c), kind="tree:" + kind, dot_ok=True, nontrivial=bool(np.any(y != 0)), nd=len(c["grid"]), via_H=False)
    return dict(expr=tree_expr(sp, T, configs, x, y), info=info)


def reject_case(sp, rng):
    """parameters outside the validity predicate: coord.shape[-1] = 4, or fewer grid axes than coord.shape[-1];
    the constructors accept them (no checks in __init__), the first application raises"""
    kind = rng.choice(["ndim4", "rank"])
    cls = rng.choice(CLASSES)
    if kind == "ndim4":
        shape, cshape = [2, 2, 2, 2], [rng.randint(1, 3), 4]
    else:
        nd = rng.choice([2, 3])
        shape, cshape = [rng.randint(2, 5) for _ in range(nd - 1)], [rng.randint(1, 3), nd]
    coord = np.zeros(cshape)
    try:
        A = getattr(sp.linop, cls)(shape, coord)
        A(np.zeros(A.ishape, dtype=np.complex128))
        raised = False
    except Exception:
        raised = True
    term = "(%s %s (ARef 1 %s) 1 2 3)" % (cls, L.zlist(shape), L.zlist(cshape))
    expr = "chk_opaque_interp_reject %s" % term
    return dict(expr=expr if raised else "negb (%s)" % expr,
                info=dict(kind="reject:" + kind, cls=cls, raised=raised, shape=shape, cshape=cshape, dot_ok=True, nontrivial=True,
                          nd=cshape[-1], via_H=False))


def cases(sp, rng, n):
    """n random leaves (3 cases each: A x, adj link, A.H y), plus n//6 operator trees and n//10 invalid parameters"""
    out = []
    for k in range(n):
        c = gen_config(rng)
        c["shape_tuple"] = rng.random() < 0.3
        out += leaf_cases(sp, rng, c, via_H=rng.random() < 0.35)
    for _ in range(max(1, n // 6)):
        out.append(tree_case(sp, rng))
    for _ in range(max(1, n // 10)):
        out.append(reject_case(sp, rng))
    return out


def _ensure_built():
    """compile the files of this family if their .vo is missing or stale (dependencies are part of the C07 / C01 cones)"""
    for rel in ("model/OpaqueInterp", "run/RunOpaqueInterp"):
        v, vo = os.path.join(core.COQ, rel + ".v"), os.path.join(core.COQ, rel + ".vo")
        if not os.path.exists(vo) or os.path.getmtime(vo) < os.path.getmtime(v):
            rc, out, _ = core.sh(["coqc", "-w", "-all", "-Q", ".", "SV", rel + ".v"], cwd=core.COQ, timeout=600)
            if rc != 0:
                raise RuntimeError("coqc %s.v failed:\n%s" % (rel, out[-2000:]))


def selftest(n=60, seed=20261001):
    import random
    import shutil
    t0 = time.time()
    _ensure_built()
    sp = core.import_sigpy()
    ctx = core.Ctx("opaque_interp", "quick", seed)
    rng = random.Random(seed)
    cs = cases(sp, rng, n)
    failing = L.run_bool_cases(ctx, "opaque_interp", HEADER, cs, per_file=24, timeout=1200)
    hist = {}
    for c in cs:
        i = c["info"]
        if i["kind"] in ("leaf", "leaf.H"):
            k = "%s%s:%s:%dD:bat%d:pts%dD:%s:w=%s:p=%s" % (i["cls"], ".H-built" if i["via_H"] else "", i["kernel"], i["nd"], len(i["bat"]),
                                                          len(i["pts"]), "complex" if i["cplx"] else "real", i["width_type"], i["param_type"])
        else:
            k = i["kind"]
        hist[k] = hist.get(k, 0) + 1
    dots = [c["info"] for c in cs if not c["info"]["dot_ok"] and c["info"]["kind"] == "leaf"]
    kinds = lambda p: sum(1 for c in cs if c["info"]["kind"].startswith(p))
    print("opaque_interp selftest: %d cases (%d leaves + %d .H leaves + %d adj links, %d trees, %d invalid parameters), "
          "%d distinct classes, non-trivial %d"
          % (len(cs), sum(1 for c in cs if c["info"]["kind"] == "leaf"), kinds("leaf.H"), kinds("adj-link"), kinds("tree"),
             kinds("reject"), len(hist), sum(1 for c in cs if c["info"]["nontrivial"])))
    for i in failing:
        print("DISAGREE", cs[i]["info"])
    for d in dots:
        print("DOT-TEST FAILS ON THE IMPLEMENTATION", d)
    print("disagreements model vs implementation: %d; dot-test failures of the implementation: %d; %.1fs"
          % (len(failing), len(dots), time.time() - t0))
    shutil.rmtree(ctx.scratch, ignore_errors=True)
    return len(failing) + len(dots)


if __name__ == "__main__":
    sys.exit(1 if selftest() else 0)
