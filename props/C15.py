"""C15 — solvers stop within max_iter and stop early only at genuine fixed points; power
iteration's estimate is monotone and bounded.

Proof: coq/props/Prop_C15.v — driver_bound / driver_interleaving for the base class Alg and any
subclass obeying the frame laws (shown for the CG, PowerMethod, GradientMethod, PDHG models and
for the observed-history class used here), early-stop-is-fixed-point for GradientMethod, CG, PDHG
(tol = 0), power_monotone_bounded.

Tie: history correspondence.  Every cheaply constructible Alg subclass and App is driven with
interleavings of done()/update() up to max_iter + 2 updates, max_iter = 0..6.  The Coq driver
(model/Alg.v: update, done, exec_actions, run) instantiated on the observed per-update
(resid, breakdown flag) pairs (run/RunC15.v) must reproduce every done() answer and every value of
iter EXACTLY, and the number of updates of App.run / the canonical loop.

Oracle on the implementation: iter advances by exactly one per update; done() is pure;
App.run performs <= max_iter updates and returns the solution the algorithm holds; with tol = 0 an
early stop implies that one more update leaves the solution unchanged (relative 1e-12) or a
breakdown flag is set; power-iteration estimates are non-decreasing (after normalisation) and
<= lambda_max.
"""
import json
import random
import numpy as np
from vlib import core, coqlit as L

HEADER = """From Coq Require Import ZArith List Bool PrimFloat.
From SV Require Import lib.Scalar lib.FloatRun model.Alg run.RunC15.
Import ListNotations.
Local Open Scope Z_scope.
"""

KINDS = ["PowerMethod", "GradientMethod", "GradientMethod+prox", "GradientMethod+acc", "GradientMethod+acc+prox",
         "ConjugateGradient", "PDHG", "NewtonsMethod", "GerchbergSaxton", "ADMM(LLS)", "AltMin",
         "AugmentedLagrangian", "LLS:CG", "LLS:GM", "LLS:PDHG"]


# ---------------------------------------------------------------- instances
class Inst(object):
    """one constructed algorithm: alg, how to read its stopping data and its solution"""

    def __init__(self, alg, resid_attr=None, flag_attr=None, sol=None, app=None, extra=None):
        self.alg, self.resid_attr, self.flag_attr, self.sol, self.app = alg, resid_attr, flag_attr, sol, app
        self.extra = extra or {}

    def obs(self):
        r = float("inf")
        if self.resid_attr is not None:
            r = float(getattr(self.alg, self.resid_attr))
        f = bool(getattr(self.alg, self.flag_attr)) if self.flag_attr else False
        return r, f

    def tol(self):
        return float(getattr(self.alg, "tol", 0.0)) if self.resid_attr is not None else 0.0

    def solution(self):
        return [np.array(a, copy=True) for a in self.sol()]


def herm_psd(nprng, n, cplx, lo=0.0):
    m = nprng.standard_normal((n, n))
    if cplx:
        m = m + 1j * nprng.standard_normal((n, n))
    a = m.conj().T @ m + lo * np.eye(n)
    return (a + a.conj().T) / 2


def build(sp, kind, variant, max_iter, npseed):
    """deterministic in (kind, variant, max_iter, npseed)"""
    nprng = np.random.default_rng(npseed)
    rng = random.Random(npseed)
    n = rng.randint(2, 5)
    cplx = variant % 2 == 1
    dt = complex if cplx else float

    def vec(k=n):
        v = nprng.standard_normal((k, 1))
        return (v + 1j * nprng.standard_normal((k, 1))).astype(dt) if cplx else v

    if kind == "PowerMethod":
        M = herm_psd(nprng, n, cplx)
        x = vec()
        A = sp.linop.MatMul([n, 1], M) if variant % 3 == 0 else (lambda v: M @ v)
        alg = sp.alg.PowerMethod(A, x, max_iter=max_iter)
        return Inst(alg, sol=lambda: [alg.x], extra={"M": M})
    if kind.startswith("GradientMethod"):
        acc = "+acc" in kind
        prox = "+prox" in kind
        exact = variant >= 2          # identity design, alpha = 1: reaches its fixed point exactly -> early stop
        if exact:
            B = np.eye(n, dtype=dt)
            y = np.round(vec() * 4) / 4
            alpha = 1.0
            x = np.round(vec() * 2)
        else:
            B = vec(n * n).reshape(n, n) if True else None
            y = vec()
            alpha = 1.0 / np.linalg.norm(B.conj().T @ B, 2)
            x = vec() if variant == 0 else np.zeros((n, 1), dtype=dt)
        lam = 0.5 if not exact else rng.choice([0.25, 10.0])

        def gradf(v):
            return B.conj().T @ (B @ v - y)
        proxg = None
        if prox:
            pr = sp.prox.L1Reg([n, 1], lam)
            proxg = pr if variant % 2 == 0 else (lambda a, v: sp.thresh.soft_thresh(lam * a, v))
        alg = sp.alg.GradientMethod(gradf, x, alpha, proxg=proxg, accelerate=acc, max_iter=max_iter, tol=0)
        return Inst(alg, "resid", None, lambda: [alg.x])
    if kind == "ConjugateGradient":
        exact = variant >= 2
        if exact:
            M = 2.0 * np.eye(n, dtype=dt)
            b = np.round(vec() * 3)
            x = np.zeros((n, 1), dtype=dt)
        else:
            M = herm_psd(nprng, n, cplx, lo=0.5)
            b = vec()
            x = vec()
        A = sp.linop.MatMul([n, 1], M) if variant % 2 == 0 else (lambda v: M @ v)
        # preconditioners that return their input (object / view): the private copy of p must not depend on them
        Pre = [None, (lambda v: v), sp.linop.Identity([n, 1]), (lambda v: v[:])][(variant + max_iter) % 4]
        alg = sp.alg.ConjugateGradient(A, b, x, P=Pre, max_iter=max_iter, tol=0)
        return Inst(alg, "resid", "not_positive_definite", lambda: [alg.x])
    if kind == "PDHG":
        m = rng.randint(2, 5)
        Bm = vec(m * n).reshape(m, n)
        A = sp.linop.MatMul([n, 1], Bm)
        y = vec(m)
        mode = variant % 6
        x = np.zeros((n, 1), dtype=dt)
        u = np.zeros((m, 1), dtype=dt)
        tau = sigma = 0.01
        lam = 100.0                      # mode 0: zero init, l1 prox keeps x at 0 while the dual moves (F5 scenario)
        gp = gd = 0
        if mode == 1:
            x, u = vec(), vec(m)
            s = np.linalg.norm(Bm, 2)
            tau = sigma = 0.9 / s
            lam = 0.1
        elif mode == 2:
            y = np.zeros((m, 1), dtype=dt)   # all-zero problem: exact fixed point from the first update
            lam = 1.0
        elif mode == 3:
            gd = 1
            lam = 0.3
            s = np.linalg.norm(Bm, 2)
            tau, sigma = 0.5 / s, 1.0 / s
        elif mode in (4, 5):
            # array-valued dual step (per-sample weights).  mode 5: one weight is exactly 0 -- the residual (u - u_old) / sigma**0.5 then has
            # a 0/0 entry and is NaN: `resid <= tol` is False, the solver must run on to max_iter (it is NOT at a fixed point)
            lam = 0.3
            s = np.linalg.norm(Bm, 2)
            tau = 0.5 / s
            sigma = (np.arange(1, m + 1, dtype=float).reshape(m, 1) / m) / s
            if mode == 5:
                sigma[rng.randrange(m), 0] = 0.0
        proxfc = sp.prox.L2Reg([m, 1], 1, y=-y)
        proxg = sp.prox.L1Reg([n, 1], lam)
        alg = sp.alg.PrimalDualHybridGradient(proxfc, proxg, A, A.H, x, u, tau, sigma, gamma_primal=gp, gamma_dual=gd,
                                              max_iter=max_iter, tol=0)
        return Inst(alg, "resid", None, lambda: [alg.x, alg.u])
    if kind == "NewtonsMethod":
        d = np.array([2.0 ** rng.randint(-2, 2) for _ in range(n)]).reshape(n, 1)
        b = np.round(nprng.standard_normal((n, 1)) * 4)
        x = np.round(nprng.standard_normal((n, 1)) * 2)
        if variant % 2 == 0:
            alg = sp.alg.NewtonsMethod(lambda v: d * v - b, lambda v: (lambda w: w / d), x, max_iter=max_iter, tol=0)
        else:
            f = lambda v: float(0.5 * np.sum(d * v * v) - np.sum(b * v))     # noqa: E731
            alg = sp.alg.NewtonsMethod(lambda v: d * v - b, lambda v: (lambda w: w / d), x, beta=0.5, f=f,
                                       max_iter=max_iter, tol=0)
        return Inst(alg, "residual", None, lambda: [alg.x])
    if kind == "GerchbergSaxton":
        m = n + 2
        Bm = (nprng.standard_normal((m, n)) + 1j * nprng.standard_normal((m, n)))
        A = sp.linop.MatMul([n, 1], Bm)
        xt = nprng.standard_normal((n, 1)) + 1j * nprng.standard_normal((n, 1))
        y = np.abs(Bm @ xt)
        x0 = nprng.standard_normal((n, 1)) + 1j * nprng.standard_normal((n, 1))
        alg = sp.alg.GerchbergSaxton(A, y, x0, max_iter=max_iter, tol=0, lamb=0.1)
        return Inst(alg, "residual", None, lambda: [alg.x])
    if kind in ("ADMM(LLS)", "LLS:CG", "LLS:GM", "LLS:PDHG"):
        m = n + 1
        Bm = vec(m * n).reshape(m, n)
        A = sp.linop.MatMul([n, 1], Bm)
        y = vec(m)
        kw = dict(max_iter=max_iter, show_pbar=False)
        if kind == "ADMM(LLS)":
            app = sp.app.LinearLeastSquares(A, y, solver="ADMM", proxg=sp.prox.L1Reg([n, 1], 0.1), rho=1.0, max_cg_iter=3,
                                            lamda=0.01 * (variant % 2), **kw)
            return Inst(app.alg, None, None, lambda: [app.alg.x, app.alg.z, app.alg.u], app=app)
        if kind == "LLS:CG":
            app = sp.app.LinearLeastSquares(A, y, lamda=0.1 * (variant % 2), **kw)
            return Inst(app.alg, "resid", "not_positive_definite", lambda: [app.alg.x], app=app)
        if kind == "LLS:GM":
            app = sp.app.LinearLeastSquares(A, y, proxg=sp.prox.L1Reg([n, 1], 0.1), accelerate=bool(variant % 2),
                                            max_power_iter=5, **kw)
            return Inst(app.alg, "resid", None, lambda: [app.alg.x], app=app)
        app = sp.app.LinearLeastSquares(A, y, proxg=sp.prox.L1Reg([n, 1], 0.1), solver="PrimalDualHybridGradient",
                                        max_power_iter=5, lamda=0.1 * (variant % 2), **kw)
        return Inst(app.alg, "resid", None, lambda: [app.alg.x, app.alg.u], app=app)
    if kind == "AltMin":
        st = {"a": vec(), "b": vec()}

        def min1():
            st["a"] = 0.5 * (st["a"] + st["b"])

        def min2():
            st["b"] = 0.5 * (st["b"] - st["a"])
        alg = sp.alg.AltMin(min1, min2, max_iter=max_iter)
        return Inst(alg, None, None, lambda: [st["a"], st["b"]])
    if kind == "AugmentedLagrangian":
        x = nprng.standard_normal((n, 1))
        u = np.zeros((n, 1))
        v = np.zeros((1, 1))
        c = nprng.standard_normal((n, 1))

        def minL():
            x[:] = 0.5 * (x + c - u)
        alg = sp.alg.AugmentedLagrangianMethod(minL, lambda z: -z, lambda z: np.sum(z, keepdims=True).reshape(1, 1) - 1.0,
                                               x, u, v, 0.5, max_iter=max_iter)
        return Inst(alg, None, None, lambda: [alg.x, alg.u, alg.v])
    raise ValueError(kind)


# ---------------------------------------------------------------- driving
def gen_acts(rng, total_updates):
    acts = []
    for _ in range(total_updates):
        acts += [False] * rng.choice([0, 1, 1, 2])
        acts.append(True)
    acts.append(False)
    return acts


def same(a, b, rtol=1e-12):
    for p, q in zip(a, b):
        d = np.linalg.norm(np.asarray(p) - np.asarray(q))
        if not d <= rtol * max(np.linalg.norm(q), np.linalg.norm(p), 1e-300) and d != 0:
            return False
    return True


def drive(inst, acts):
    """execute the action list; returns history dict and list of oracle problems"""
    alg = inst.alg
    probs = []
    r0, f0 = inst.obs()
    dones, iters, obs = [], [], []
    nupd = 0
    pending = None           # (solution, iter) when done() reported an early stop with tol = 0
    for a in acts:
        if not a:
            it_before = alg.iter
            d1 = bool(alg.done())
            d2 = bool(alg.done())
            if d1 != d2 or alg.iter != it_before:
                probs.append(("done-impure", "done() changed its answer or the counter", {"iter": int(alg.iter)}))
            dones.append(d1)
            if d1 and alg.iter < alg.max_iter and inst.tol() == 0 and pending is None:
                _, flag = inst.obs()
                pending = dict(sol=inst.solution(), iter=int(alg.iter), flag=flag)
        else:
            before = int(alg.iter)
            alg.update()
            nupd += 1
            iters.append(int(alg.iter))
            obs.append(inst.obs())
            if alg.iter != before + 1:
                probs.append(("iter-step", "one update() advanced iter by %d" % (alg.iter - before), {"update": nupd}))
            if pending is not None and pending["iter"] == before:
                _, flag = inst.obs()
                if not (pending["flag"] or flag) and not same(inst.solution(), pending["sol"]):
                    delta = max(float(np.linalg.norm(p - q)) for p, q in zip(inst.solution(), pending["sol"]))
                    probs.append(("early-stop-not-fixed",
                                  "done() was true at iter %d < max_iter %d with tol = 0, but one more update moved the "
                                  "solution by %.3g and no breakdown flag is set" % (before, alg.max_iter, delta),
                                  {"iter": before}))
                pending = {"iter": None}
    if int(alg.iter) != nupd:
        probs.append(("iter-count", "iter = %d after %d updates" % (alg.iter, nupd), {}))
    return dict(r0=r0, f0=f0, dones=dones, iters=iters, obs=obs, acts=acts, tol=inst.tol(), max_iter=int(alg.max_iter)), probs


def canonical(inst, use_app):
    """`while not done: update` (or App.run) with counting; returns history + problems"""
    alg = inst.alg
    probs = []
    r0, f0 = inst.obs()
    obs = []
    orig = alg.update

    def counted():
        orig()
        obs.append(inst.obs())
    alg.update = counted
    out = None
    if use_app:
        app = inst.app
        out = app.run()
    else:
        guard = 0
        while not alg.done():
            alg.update()
            guard += 1
            if guard > alg.max_iter + 50:
                probs.append(("loop-runaway", "canonical loop exceeded max_iter + 50 updates", {}))
                break
    n = len(obs)
    if n > max(alg.max_iter, 0):
        probs.append(("too-many-updates", "%d updates with max_iter = %d" % (n, alg.max_iter), {}))
    if alg.iter != n:
        probs.append(("iter-count", "iter = %d after %d updates of the canonical loop" % (alg.iter, n), {}))
    if not alg.done():
        probs.append(("not-done", "loop ended but done() is false", {}))
    if use_app and inst.extra.get("returns") == "x" and out is not inst.alg.x:
        probs.append(("app-output", "App.run() does not return the solution array the algorithm holds", {}))
    if use_app and inst.extra.get("returns") == "max_eig" and out != inst.alg.max_eig:
        probs.append(("app-output", "MaxEig.run() does not return alg.max_eig", {}))
    return dict(r0=r0, f0=f0, obs=obs, n=n, iter=int(alg.iter), tol=inst.tol(), max_iter=int(alg.max_iter)), probs


def fut_lit(obs):
    return "[" + "; ".join("(%s, %s)" % (L.flt(r), L.boolean(f)) for r, f in obs) + "]"


def hist_expr(h):
    return "chk_history %s %s %s %s %s [%s] [%s] %s" % (
        L.z(h["max_iter"]), L.flt(h["tol"]), L.flt(h["r0"]), L.boolean(h["f0"]), fut_lit(h["obs"]),
        "; ".join(L.boolean(a) for a in h["acts"]), "; ".join(L.boolean(d) for d in h["dones"]), L.zlist(h["iters"]))


def run_expr(h):
    return "chk_run %s %s %s %s %s %s %s" % (L.z(h["max_iter"]), L.flt(h["tol"]), L.flt(h["r0"]), L.boolean(h["f0"]),
                                             fut_lit(h["obs"]), L.z(h["n"]), L.z(h["iter"]))


# ---------------------------------------------------------------- power iteration oracle
def power_operator(sp, rng, nprng, cplx):
    """a Hermitian PSD operator given as a Linop on an operand of shape (n,), (n,1), (m,n) with m,n > 1, or 3-D,
    its dense matrix and lambda_max"""
    from vlib import linser
    kind = rng.choice(["vec", "col", "mat", "mat", "mat", "cube"])
    shape = {"vec": [rng.randint(2, 8)], "col": [rng.randint(2, 8), 1],
             "mat": [rng.randint(2, 6), rng.randint(2, 6)],
             "cube": [rng.randint(2, 3), rng.randint(2, 4), rng.randint(2, 4)]}[kind]
    dt = complex if cplx else float

    def rnd(sh):
        v = nprng.standard_normal(sh)
        return (v + 1j * nprng.standard_normal(sh)).astype(dt) if cplx else v
    form = rng.choice(["BHB", "BHB", "multiply", "BHB+multiply"]) if len(shape) >= 2 else rng.choice(["multiply", "BHB1"])
    if form == "multiply":
        w = np.abs(nprng.standard_normal(shape)) * rng.choice([1.0, 5.0])
        if rng.random() < 0.3:
            w[tuple(rng.randrange(d) for d in shape)] = 0.0
        A = sp.linop.Multiply(shape, w)
    elif form == "BHB1":
        B = sp.linop.Multiply(shape, rnd(shape))
        A = B.H * B
    else:
        k = rng.randint(1, shape[-2] + 1)                      # k < m gives a rank-deficient PSD operator
        B = sp.linop.MatMul(shape, rnd((k, shape[-2])))        # left multiplication acting on the last two axes
        A = B.H * B
        if form == "BHB+multiply":
            W = sp.linop.Multiply(shape, np.abs(nprng.standard_normal(shape)))
            A = W.H * A * W
    D = linser.dense(A)
    herm_err = float(np.linalg.norm(D - D.conj().T))
    lam = float(np.linalg.eigvalsh((D + D.conj().T) / 2)[-1])
    return A, shape, form, lam, herm_err, rnd


def power_oracle(sp, rng, nprng, cplx):
    A, shape, form, lam, herm_err, rnd = power_operator(sp, rng, nprng, cplx)
    if rng.random() < 0.35:
        # operators of tiny / huge overall scale (power iteration is scale free: x <- A x / ||A x||, estimate = ||A x||)
        sc = rng.choice([1e-18, 1e-12, 1e-6, 1e8])
        A, lam, herm_err, form = sc * A, sc * lam, sc * herm_err, form + ":scaled%g" % sc
    x = rnd(shape)
    K = rng.randint(3, 30)
    use_fn = rng.random() < 0.3
    alg = sp.alg.PowerMethod((lambda v: A(v)) if use_fn else A, x, max_iter=K)
    est, norms = [], []
    probs = []
    try:
        while not alg.done():
            alg.update()
            est.append(float(alg.max_eig))
            norms.append(float(np.linalg.norm(np.asarray(alg.x).ravel())))
    except Exception as e:
        probs.append(("power-exception", "PowerMethod raised %s on an operand of shape %s" % (type(e).__name__, shape), {}))
    info = dict(shape=shape, form=form, cplx=cplx, estimates=est[:8], norms=norms[:4], lam=lam)
    if probs or lam <= 0:
        return probs, info
    if herm_err > 1e-10 * max(lam, 1e-300):
        probs.append(("power-generator", "generated operator is not Hermitian (check machinery)", {}))
    for k, nv in enumerate(norms):
        if abs(nv - 1.0) > 1e-12:
            probs.append(("power-unit", "held vector has l2 norm %.17g after update %d (operand shape %s)" % (nv, k + 1, shape), {}))
            break
    for k in range(2, len(est)):         # est[0] = ||A x0|| with x0 not normalised
        if est[k] < est[k - 1] * (1 - 1e-12):
            probs.append(("power-decrease", "estimate decreased at update %d: %.17g -> %.17g (operand shape %s)"
                          % (k + 1, est[k - 1], est[k], shape), {}))
            break
    if any(e > lam * (1 + 1e-9) for e in est[1:]):
        probs.append(("power-exceeds", "estimate %.17g exceeds lambda_max %.17g (operand shape %s)" % (max(est[1:]), lam, shape), {}))
    if len(est) != K:
        probs.append(("power-count", "%d updates with max_iter %d" % (len(est), K), {}))
    return probs, info


def maxeig_oracle(sp, rng, nprng, cplx):
    """the MaxEig App on the same family of operators: returns alg.max_eig <= lambda_max, <= max_iter updates, unit vector"""
    A, shape, form, lam, herm_err, rnd = power_operator(sp, rng, nprng, cplx)
    K = rng.randint(2, 12)
    np.random.seed(rng.randrange(2 ** 31))
    app = sp.app.MaxEig(A, dtype=(np.complex128 if cplx else np.float64), max_iter=K, show_pbar=False)
    probs = []
    count = [0]
    orig = app.alg.update

    def counted():
        orig()
        count[0] += 1
    app.alg.update = counted
    try:
        out = app.run()
    except Exception as e:
        return [("maxeig-exception", "MaxEig raised %s on an operand of shape %s" % (type(e).__name__, shape), {})], dict(shape=shape)
    nv = float(np.linalg.norm(np.asarray(app.alg.x).ravel()))
    info = dict(shape=shape, form=form, cplx=cplx, out=float(out), lam=lam, norm=nv, updates=count[0])
    if lam <= 0:
        return probs, info
    if out != app.alg.max_eig:
        probs.append(("app-output", "MaxEig.run() does not return alg.max_eig", {}))
    if count[0] != K or app.alg.iter != K:
        probs.append(("maxeig-count", "%d updates, iter %d, max_iter %d" % (count[0], app.alg.iter, K), {}))
    if out > lam * (1 + 1e-9):
        probs.append(("power-exceeds", "MaxEig returned %.17g > lambda_max %.17g (operand shape %s)" % (out, lam, shape), {}))
    if abs(nv - 1.0) > 1e-12:
        probs.append(("power-unit", "MaxEig's vector has l2 norm %.17g (operand shape %s)" % (nv, shape), {}))
    return probs, info


ACCEL_SIG = "C15:GradientMethod:accelerate:early-stop-not-fixed"
# found by accel_search on the tree before commit 927f880 (1-D FISTA): the extrapolated point z overshoots past 0,
# soft-thresholding maps T(z) to 0 = x_old, so ||x - x_old|| = 0 at x = 0 although T(0) = -0.028 != 0 (true minimiser
# -0.1119): done() at iter 9 < 12.  With the repaired residual max(||x - x_old||, ||x - z_old||)/alpha it runs to iter 12.
ACCEL_CORPUS = [dict(B=[[-1.7119915429935146]], y=[[0.25]], lam=0.1, alpha=0.08529759351881852, x0=[[-3.5]], max_iter=12)]


def accel_case(sp, c):
    """runs accelerated GradientMethod with tol = 0 on a lasso instance; returns None if the property holds on it, else a
    description of the early stop at a point that one more update moves"""
    B, y, lam, alpha = np.array(c["B"]), np.array(c["y"]), c["lam"], c["alpha"]
    x = np.array(c["x0"], dtype=float)
    gradf = lambda v: B.T @ (B @ v - y)                                     # noqa: E731
    alg = sp.alg.GradientMethod(gradf, x, alpha, proxg=lambda a, v: sp.thresh.soft_thresh(lam * a, v), accelerate=True,
                                max_iter=c["max_iter"], tol=0)
    while not alg.done():
        alg.update()
    if alg.iter >= alg.max_iter:
        return None
    stopped_at, x_stop, resid = int(alg.iter), alg.x.copy(), alg.resid
    alg.update()
    move = float(np.linalg.norm(alg.x - x_stop))
    if move > 1e-9 * max(np.linalg.norm(x_stop), alpha * lam, 1e-300):
        return dict(stopped_at_iter=stopped_at, max_iter=c["max_iter"], resid_at_stop=resid, x_at_stop=x_stop.tolist(),
                    x_after_one_more_update=alg.x.tolist(), moved_by=move)
    return None


def accel_search(sp, rng, budget):
    """small-budget search for an accelerated GradientMethod run that stops early (tol = 0) at a point that one more
    update moves (refutes C15_gm_accel_early_stop_fixed on the implementation)"""
    for _ in range(budget):
        n = rng.choice([1, 1, 2, 3])
        nprng = np.random.default_rng(rng.randrange(2 ** 31))
        B = nprng.standard_normal((n, n)) * rng.choice([0.3, 1.0, 2.0])
        y = np.round(nprng.standard_normal((n, 1)) * 4) / 4
        lam = rng.choice([0.1, 0.5, 1.0, 2.0])
        alpha = float(rng.choice([0.25, 0.5, 1.0]) / max(np.linalg.norm(B.T @ B, 2), 1e-3))
        x0 = np.round(nprng.standard_normal((n, 1)) * 8) / 4
        c = dict(B=B.tolist(), y=y.tolist(), lam=lam, alpha=alpha, x0=x0.tolist(), max_iter=12)
        r = accel_case(sp, c)
        if r is not None:
            return [(c, r)]
    return []


# ---------------------------------------------------------------- the check
def run(ctx):
    ctx.source_hash("sigpy/alg.py", "sigpy/app.py")
    # tie by translation (DESIGN 2.8): gen/Gen_alg.v is regenerated from alg.py (translate_all job "alg") and compiled;
    # its lemmas state generated Alg.update/done and every modelled _update/_done/__init__ == coq/model/Alg.v, Alg2.v
    from tools import translate_alg
    tie_broken = translate_alg.tie(ctx, ["alg"])    # obligations "translate:sigpy/alg.py (...)", "tie:generated solver steps == hand model"
    proof_ok = ctx.prove("Prop_C15.v")
    sp = core.import_sigpy()
    rng = ctx.rng
    reported = set()
    n_bad = [0]
    hist, runs = [], []

    def report(kind, cfg, probs, extra=None):
        for sig, msg, det in probs:
            n_bad[0] += 1
            full = "C15:%s:%s" % (sig, kind)
            if full in reported:
                continue
            reported.add(full)
            rec = {"kind": "oracle", "config": cfg, "expected": "property C15 (%s)" % sig, "observed": msg, "detail": det}
            rec.update(extra or {})
            ctx.violation("%s: %s" % (kind, msg), rec, signature=full)

    variants = ctx.n(6, 24)
    for kind in KINDS:
        for max_iter in range(0, 7):
            for variant in range(variants):
                npseed = rng.randrange(2 ** 31)
                cfg = dict(kind=kind, variant=variant, max_iter=max_iter, npseed=npseed)
                try:
                    # (1) arbitrary interleaving up to max_iter + 2 updates
                    inst = build(sp, kind, variant, max_iter, npseed)
                    acts = gen_acts(rng, max_iter + 2)
                    cfg["acts"] = acts
                    h, probs = drive(inst, acts)
                    report(kind, dict(cfg, mode="history"), probs, {"history": {k: v for k, v in h.items() if k != "acts"}})
                    hist.append((cfg, h))
                    early = any(d and it < max_iter for d, it in zip(h["dones"], [0] + h["iters"]))
                    ctx.count(kind, key=(max_iter, variant, npseed), nontrivial=max_iter > 0,
                              sample={"config": {k: v for k, v in cfg.items() if k != "acts"}, "dones": h["dones"][:8],
                                      "iters": h["iters"][:8]})
                    if early:
                        ctx.count(kind + ":early-stop", key=(max_iter, variant, npseed))
                    # (2) the canonical loop on a fresh object; App.run when the object is an App's algorithm
                    inst2 = build(sp, kind, variant, max_iter, npseed)
                    use_app = inst2.app is not None
                    if use_app:
                        inst2.extra["returns"] = "x"
                    elif variant % 2 == 0:       # the generic App wrapper around a bare algorithm
                        inst2.app = sp.app.App(inst2.alg, show_pbar=False)
                        use_app = True
                    c, probs = canonical(inst2, use_app)
                    report(kind, dict(cfg, mode="App.run" if use_app else "loop"), probs, {"history": c})
                    runs.append((cfg, c))
                    ctx.count(kind + (":App.run" if use_app else ":loop"), key=(max_iter, variant, npseed), nontrivial=max_iter > 0)
                except Exception as e:
                    sig = "C15:exception:%s:%s" % (kind, type(e).__name__)
                    ctx.count(kind + ":exception", key=(max_iter, variant))
                    if sig not in reported:
                        reported.add(sig)
                        import traceback
                        ctx.violation("%s raised %s while being driven" % (kind, type(e).__name__),
                                      {"kind": "impl-exception", "config": cfg, "error": repr(e),
                                       "traceback": traceback.format_exc()[-1500:]}, signature=sig)
    # an Alg object that already received k manual updates and is THEN wrapped in an App: run() performs exactly the remaining
    # max_iter - k updates and iter keeps counting every update
    for i in range(ctx.n(12, 120)):
        npseed = rng.randrange(2 ** 31)
        kind = KINDS[i % len(KINDS)]
        max_iter = 2 + i % 5
        k0 = 1 + i % max_iter
        cfg = dict(kind=kind, variant=i % 4, max_iter=max_iter, npseed=npseed, manual_updates_before_App=k0)
        probs = []
        try:
            inst = build(sp, kind, i % 4, max_iter, npseed)
            alg = inst.alg
            n_upd = [0]
            orig = alg.update

            def counted(orig=orig, n_upd=n_upd):
                n_upd[0] += 1
                return orig()
            alg.update = counted
            for _ in range(k0):
                if not alg.done():
                    alg.update()
            before = n_upd[0]
            app = sp.app.App(alg, show_pbar=False)
            app.run()
            if n_upd[0] > max_iter:
                probs.append(("app-bound", "%d updates in total (%d before the App, %d by App.run) with max_iter = %d" % (n_upd[0], before, n_upd[0] - before, max_iter), {}))
            if int(alg.iter) != n_upd[0]:
                probs.append(("iter-count", "iter = %d after %d updates (%d of them before the App was built)" % (int(alg.iter), n_upd[0], before), {}))
        except Exception as e:
            probs.append(("app-exception", "%s wrapped in an App after manual updates raised %s" % (kind, type(e).__name__), {"error": repr(e)}))
        report(kind, cfg, probs)
        ctx.count(kind + ":App-after-manual-updates", key=(npseed, k0, max_iter), nontrivial=True)
    # JsenseRecon: max_iter bounds the OUTER alternating updates, max_inner_iter the inner least-squares solves
    try:
        import sigpy.mri as mr
        for i, (mo, mi_) in enumerate([(0, 3), (1, 4), (3, 1), (2, 5), (4, 2)][:ctx.n(3, 5)]):
            nprng = np.random.default_rng(1000 + i)
            ksp = (nprng.standard_normal((2, 8, 8)) + 1j * nprng.standard_normal((2, 8, 8)))
            app = mr.app.JsenseRecon(ksp, mps_ker_width=4, ksp_calib_width=6, max_iter=mo, max_inner_iter=mi_, show_pbar=False)
            n_upd = [0]
            orig = app.alg.update

            def counted2(orig=orig, n_upd=n_upd):
                n_upd[0] += 1
                return orig()
            app.alg.update = counted2
            app.run()
            cfg = dict(kind="JsenseRecon", max_iter=mo, max_inner_iter=mi_)
            probs = []
            if n_upd[0] != mo or int(app.alg.iter) != n_upd[0]:
                probs.append(("app-bound", "JsenseRecon(max_iter=%d, max_inner_iter=%d).run() performed %d outer updates (iter = %d)" % (mo, mi_, n_upd[0], int(app.alg.iter)), {}))
            report("JsenseRecon", cfg, probs)
            ctx.count("JsenseRecon:App.run", key=(mo, mi_), nontrivial=mo > 0)
    except Exception as e:
        report("JsenseRecon", dict(kind="JsenseRecon"), [("app-exception", "JsenseRecon raised %s" % type(e).__name__, {"error": repr(e)})])
    # the LinearLeastSquares app with a caller-supplied x: run() returns the solution the algorithm holds, also when the caller's
    # array is narrower than the data (float32 x with float64 y, complex64 with complex128)
    for i in range(ctx.n(24, 300)):
        npseed = rng.randrange(2 ** 31)
        nprng = np.random.default_rng(npseed)
        cplx, n, m = bool(i % 2), 3 + i % 3, 5 + i % 2
        solver = ["ConjugateGradient", "GradientMethod", "PrimalDualHybridGradient", "ADMM"][i % 4]
        xd, yd = [("f4", "f8"), ("f8", "f8"), ("f4", "f4")][(i // 4) % 3]
        if cplx:
            xd, yd = xd.replace("f4", "c8").replace("f8", "c16"), yd.replace("f4", "c8").replace("f8", "c16")
        M = nprng.standard_normal((m, n)) + (1j * nprng.standard_normal((m, n)) if cplx else 0)
        y = (nprng.standard_normal((m, 1)) + (1j * nprng.standard_normal((m, 1)) if cplx else 0)).astype(yd)
        x = (nprng.standard_normal((n, 1)) + (1j * nprng.standard_normal((n, 1)) if cplx else 0)).astype(xd)
        cfg = dict(kind="LinearLeastSquares", solver=solver, x_dtype=xd, y_dtype=yd, npseed=npseed, max_iter=1 + i % 5)
        probs = []
        try:
            kw = dict(proxg=sp.prox.L1Reg([n, 1], 0.1)) if solver != "ConjugateGradient" else {}
            app = sp.app.LinearLeastSquares(sp.linop.MatMul([n, 1], M.astype(yd)), y, x=x, solver=solver, max_iter=cfg["max_iter"], show_pbar=False, **kw)
            x_before = x.copy()
            out = app.run()
            held = np.asarray(app.alg.x)
            if np.asarray(out).shape != held.shape or not np.allclose(np.asarray(out), held, rtol=1e-6, atol=1e-7):
                probs.append(("app-output", "LinearLeastSquares(%s).run() returns an array that differs from the solution the algorithm holds "
                              "(x passed as %s, y as %s)" % (solver, xd, yd), {"returned": np.ravel(out).tolist().__repr__(), "alg_x": np.ravel(held).tolist().__repr__()}))
            elif cfg["max_iter"] >= 1 and np.array_equal(np.asarray(out), x_before) and not np.array_equal(held.astype(x_before.dtype), x_before):
                probs.append(("app-output", "LinearLeastSquares(%s).run() returns the untouched initial guess" % solver, {}))
        except Exception as e:
            probs.append(("app-exception", "LinearLeastSquares(%s) with x %s, y %s raised %s" % (solver, xd, yd, type(e).__name__), {"error": repr(e)}))
        report("LinearLeastSquares", cfg, probs)
        ctx.count("LinearLeastSquares:App.run:%s:%s" % (solver, "mixed" if xd != yd else "same"), key=npseed, nontrivial=True)
    # MaxEig app + power-iteration oracle
    for max_iter in range(0, 7):
        for variant in range(ctx.n(3, 12)):
            npseed = rng.randrange(2 ** 31)
            nprng = np.random.default_rng(npseed)
            n = 2 + variant % 4
            M = herm_psd(nprng, n, variant % 2 == 1)
            np.random.seed(npseed % (2 ** 31))
            app = sp.app.MaxEig(sp.linop.MatMul([n, 1], M), dtype=M.dtype, max_iter=max_iter, show_pbar=False)
            inst = Inst(app.alg, None, None, lambda: [app.alg.x], app=app, extra={"returns": "max_eig"})
            c, probs = canonical(inst, True)
            cfg = dict(kind="MaxEig", variant=variant, max_iter=max_iter, npseed=npseed)
            report("MaxEig", cfg, probs, {"history": c})
            runs.append((cfg, c))
            ctx.count("MaxEig:App.run", key=(max_iter, variant, npseed), nontrivial=max_iter > 0)
    for i in range(ctx.n(120, 2500)):
        npseed = rng.randrange(2 ** 31)
        probs, info = power_oracle(sp, random.Random(npseed), np.random.default_rng(npseed), i % 2 == 1)
        report("PowerMethod", dict(kind="power-oracle", npseed=npseed, cplx=i % 2 == 1), probs, info)
        ctx.count("PowerMethod:oracle:%dD" % len(info["shape"]), key=npseed, sample=info if i < 2 else None)
    for i in range(ctx.n(40, 800)):
        npseed = rng.randrange(2 ** 31)
        probs, info = maxeig_oracle(sp, random.Random(npseed), np.random.default_rng(npseed), i % 2 == 1)
        report("MaxEig", dict(kind="maxeig-oracle", npseed=npseed, cplx=i % 2 == 1), probs, info)
        ctx.count("MaxEig:oracle:%dD" % len(info["shape"]), key=npseed)
    # accelerated GradientMethod: an early stop (tol = 0) must be at a point that a further update leaves unchanged
    # (C15_gm_accel_early_stop_fixed).  corpus instance(s) first, then a small-budget search
    found = []
    for c in ACCEL_CORPUS:
        r = accel_case(sp, c)
        ctx.count("GradientMethod+acc:side-condition-corpus", key=json.dumps(c, sort_keys=True))
        if r is not None:
            found.append((c, r))
    if not found:
        found = accel_search(sp, random.Random(rng.randrange(2 ** 31)), ctx.n(300, 20000))
    ctx.coverage["accel_side_condition_counterexamples"] = len(found)
    if found:
        n_bad[0] += 1
        c, r = found[0]
        ctx.violation("accelerated GradientMethod stopped (resid = 0, tol = 0) at iter %d < max_iter at a point that one more "
                      "update moves by %.3g" % (r["stopped_at_iter"], r["moved_by"]),
                      {"kind": "oracle", "config": dict(kind="accel-case"), "input": c,
                       "expected": "an early stop with tol = 0 only where a further update leaves x unchanged",
                       "observed": r}, signature=ACCEL_SIG)
    # correspondence with the Coq driver
    corr_ok, failing_h, failing_r = True, [], []
    try:
        if not ctx.make(["run/RunC15.vo"]):
            raise RuntimeError("run/RunC15.vo does not build")
        failing_h = L.run_bool_cases(ctx, "c15h", HEADER, [{"expr": hist_expr(h)} for _, h in hist], per_file=120)
        failing_r = L.run_bool_cases(ctx, "c15r", HEADER, [{"expr": run_expr(c)} for _, c in runs], per_file=120)
    except RuntimeError as e:
        corr_ok = False
        ctx.notes.append("correspondence could not run: %s" % str(e)[:500])
    ctx.obligation("corr:done()/iter histories == Coq driver (%d histories)" % len(hist), corr_ok and not failing_h)
    ctx.obligation("corr:canonical loop / App.run update count == Coq run (%d runs)" % len(runs), corr_ok and not failing_r)
    ctx.obligation("oracle:iter+1 per update, <= max_iter updates, early stop only at fixed points, power monotone/bounded",
                   n_bad[0] == 0)
    ctx.coverage["disagreements_model_vs_impl"] = len(failing_h) + len(failing_r)
    ctx.coverage["disagreements_oracle_vs_impl"] = n_bad[0]
    for which, fl, pool in (("history", failing_h, hist), ("run", failing_r, runs)):
        for i in fl:
            cfg, h = pool[i]
            sig = "C15:corr:%s:%s" % (which, cfg["kind"])
            if sig in reported:
                continue
            reported.add(sig)
            # a counter / flag disagreement is itself a concrete failing history when the oracle flagged this class
            has_input = any(s.endswith(":" + cfg["kind"]) and not s.startswith("C15:corr") for s in reported)
            ctx.violation("Coq driver model and %s disagree on done()/iter (%s)" % (cfg["kind"], which),
                          {"kind": "correspondence", "broken": "corr:driver:" + which, "config": cfg, "observed": h,
                           "expected": "exec_actions / run of coq/model/Alg.v on the observed (resid, flag) pairs"},
                          found_input=has_input, signature=sig)
    if (not proof_ok or not corr_ok or tie_broken) and not ctx.violations:
        broken = getattr(ctx, "broken_proof", tie_broken or {"theorem": "corr:coq-run", "log": "; ".join(ctx.notes)})
        ctx.violation("proof obligation no longer checks: %s" % broken.get("theorem"),
                      {"kind": "proof", "broken": broken}, found_input=False, signature="C15:proof")
    ctx.coverage["rule"] = (
        "every constructible Alg subclass (%s) x max_iter 0..6 x variants (real/complex, Linop/function, exact-fixed-point "
        "instances, PDHG with zero init + l1 prox + steps 0.01, all-zero data, gamma_dual>0): one random interleaving of "
        "done()/update() with max_iter+2 updates and one canonical loop / App.run each; MaxEig; power-iteration and MaxEig oracles on "
        "Hermitian PSD Linops (B.H*B with MatMul / Multiply, Multiply by a non-negative array, W.H*B.H*B*W; rank-deficient "
        "included) acting on operands of shape (n,), (n,1), (m,n) with m,n>1 and 3-D, lambda_max from the dense matrix; non-trivial = max_iter > 0; distinct = (max_iter, variant, seed)"
        % ", ".join(KINDS))
    ctx.trusted += TRUSTED
    ctx.proved += PROVED
    ctx.validated_only += VALIDATED


def replay(obj):
    sp = core.import_sigpy()
    cfg = obj["config"]
    probs = []
    if cfg.get("kind") == "power-oracle":
        probs, info = power_oracle(sp, random.Random(cfg["npseed"]), np.random.default_rng(cfg["npseed"]), cfg["cplx"])
        print(info)
    elif cfg.get("kind") == "maxeig-oracle":
        probs, info = maxeig_oracle(sp, random.Random(cfg["npseed"]), np.random.default_rng(cfg["npseed"]), cfg["cplx"])
        print(info)
    elif cfg.get("kind") == "accel-case":
        r = accel_case(sp, obj["input"])
        print("input", obj["input"], "\nobserved", r)
        if r is not None:
            probs.append(("accel", "early stop at a point that one more update moves by %.3g" % r["moved_by"], {}))
    elif cfg.get("kind") == "MaxEig":
        nprng = np.random.default_rng(cfg["npseed"])
        n = 2 + cfg["variant"] % 4
        M = herm_psd(nprng, n, cfg["variant"] % 2 == 1)
        app = sp.app.MaxEig(sp.linop.MatMul([n, 1], M), dtype=M.dtype, max_iter=cfg["max_iter"], show_pbar=False)
        inst = Inst(app.alg, None, None, lambda: [app.alg.x], app=app, extra={"returns": "max_eig"})
        _, probs = canonical(inst, True)
    else:
        inst = build(sp, cfg["kind"], cfg["variant"], cfg["max_iter"], cfg["npseed"])
        if cfg.get("mode", "history") == "history":
            h, probs = drive(inst, cfg.get("acts") or gen_acts(random.Random(0), cfg["max_iter"] + 2))
            print("dones", h["dones"], "iters", h["iters"])
        else:
            use_app = inst.app is not None
            if use_app:
                inst.extra["returns"] = "x"
            elif cfg["variant"] % 2 == 0:
                inst.app = sp.app.App(inst.alg, show_pbar=False)
                use_app = True
            c, probs = canonical(inst, use_app)
            print("updates", c["n"], "iter", c["iter"])
    for p in probs:
        print("VIOLATED:", p[0], p[1])
    print("agree:", not probs)
    return 0 if not probs else 1


TRUSTED = [
    "Coq 8.16.1 kernel + vm_compute (PrimFloat = hardware binary64 for `resid <= tol`)",
    "hand model coq/model/Alg.v of Alg.update / Alg.done / the while loop and of each _done, tied by this run's exact history "
    "correspondence (the per-update resid / breakdown flag are READ from the implementation, not recomputed, except for "
    "ConjugateGradient whose full float model is compared in C12)",
    "hand models of GradientMethod / PDHG / PowerMethod _update in coq/model/Alg.v used by the fixed-point theorems (PDHG with "
    "scalar and array steps, coq/model/Alg2.v; elementwise division modelled as scaling by the reciprocal over R)",
    "Stdlib real-number axioms (Reals) as reported by Print Assumptions",
]
PROVED = ["see coq/props/Prop_C15.v (theorem list in obligation_list)"]
VALIDATED = [
    "done() has no side effect in Python (checked on every query of every history; in the model done is a function)",
    "NewtonsMethod, GerchbergSaxton (lamb = 0), PDHG with array steps and step adaptation: early stop = fixed point is PROVED "
    "(C15_newton_early_stop_fixed, C15_gs_stop_fixed, C15_pdhg_array_early_stop_fixed, C15_pdhg_adapt_early_stop_fixed); "
    "GerchbergSaxton with lamb > 0: C15_gs_tikhonov_stop_fixed_partial proves that a stop after an update whose inner CG converged "
    "happens only at x = 0, a fixed point (adjoint pair, unit phases); a stop after a NON-converged inner solve (5 CG steps in "
    "dimension > 5) is covered by the oracle only.  ADMM / AltMin / AugmentedLagrangianMethod: counters and "
    "stop flags by correspondence, early-stop-is-fixed-point by the oracle only",
    "GradientMethod theorems are about the hand model gm__update of coq/model/Alg.v (resid = max(||x-x_old||, ||x-z_old||)/alpha "
    "when accelerating); its tie to alg.py is the history correspondence (stop flags) + the corpus/search oracle here, and the "
    "float trajectory correspondence of C13's own model",
    "App.run returns the algorithm's solution object (identity check)",
    "power iteration in floating point: monotone / bounded up to 1e-12 relative",
]
