"""C03 — operator algebra agrees with matrix algebra and advertised shapes (see props/linop_common.py)."""
from props import linop_common


def run(ctx):
    linop_common.run_linop(ctx, "C03", "Prop_C03.v", 150, 4000, {"shapes", "apply", "dense", "reject"})


def replay(obj):
    return "rerun"      # regenerated deterministically from the recorded seed (vlib/main.py)
