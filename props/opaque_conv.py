"""opaque_conv — run side of the opaque-leaf bridge for the convolution family (see notes/OPAQUE_BRIEF.md).

The Linop classes ConvolveData / ConvolveDataAdjoint / ConvolveFilter / ConvolveFilterAdjoint of /repo are applied to
Gaussian-integer arrays and compared EXACTLY with `orc_conv` (coq/model/OpaqueConv.v: the classes' _apply written with the
C08 function model coq/model/Conv.v), evaluated inside Coq by vm_compute (coq/run/RunOpaqueConv.v: chk_opaque_conv).
The leaf term is the serialisation of the real object (vlib/linser.py), so what is compared is exactly the argument
passing of __init__/_apply/_adjoint_linop: which shape goes where, mode, strides, multi_channel, the captured array.

cases(sp, rng, n)  -> list of dicts with "expr" (+ "info") for coqlit.run_bool_cases (HEADER below)
selftest()         -> runs ~70 random leaves (+ a few trees and rejected constructors) on /repo, prints the disagreements
"""
import os
import sys
import time
import numpy as np
from vlib import core, coqlit as L, linser
from props import C08

HEADER = """From Coq Require Import ZArith List Bool.
From SV Require Import lib.Scalar lib.NdArray model.Block model.Linop model.OpaqueConv run.RunLinop run.RunOpaqueConv.
Import ListNotations.
Local Open Scope Z_scope.
"""

CLASSES = ("ConvolveData", "ConvolveDataAdjoint", "ConvolveFilter", "ConvolveFilterAdjoint")
WORK_CAP = 250000        # (#un-strided output entries) * (#terms per entry): keeps one vm_compute case at a few seconds


def _strides_variant(rng, st):
    """the same strides as a list / tuple / numpy integers (all accepted by the classes)"""
    if st is None:
        return None
    k = rng.choice(["list", "tuple", "npint"])
    if k == "tuple":
        return tuple(st)
    if k == "npint":
        return [np.int64(v) for v in st]
    return list(st)


def _work(c):
    D, b, m, n, s, ci, co, p, off = C08.params_doc(c["dshape"], c["fshape"], c["mode"], c["strides"], c["mc"])
    full = [a + f - 1 for a, f in zip(m, n)]
    return int(np.prod(b or [1])) * ci * co * int(np.prod(full)) * int(np.prod(n))


def gen_config(rng, admissible=True):
    """shapes/mode/strides/multi_channel; admissible = the constructors accept it"""
    while True:
        c = C08.gen_shapes(rng)
        rel = C08.relation(c)
        bad = c["mode"] == "valid" and rel in ("mixed", "n>m")
        if admissible == (not bad) and _work(c) <= WORK_CAP:
            return c


def build(sp, cls, via_H, c, captured):
    """the real operator object: constructed directly, or as the .H of its dual class"""
    kw = dict(mode=c["mode"], strides=c["strides_arg"], multi_channel=c["mc_arg"])
    dual = {"ConvolveData": "ConvolveDataAdjoint", "ConvolveDataAdjoint": "ConvolveData",
            "ConvolveFilter": "ConvolveFilterAdjoint", "ConvolveFilterAdjoint": "ConvolveFilter"}
    name = dual[cls] if via_H else cls
    shape = c["dshape"] if cls.startswith("ConvolveData") else c["fshape"]
    A = getattr(sp.linop, name)(shape, captured, **kw)
    return A.H if via_H else A


def gen_leaf(sp, rng):
    c = gen_config(rng)
    cls = rng.choice(CLASSES)
    via_H = rng.random() < 0.4
    c["strides_arg"] = _strides_variant(rng, c["strides"])
    c["mc_arg"] = (1 if c["mc"] else 0) if rng.random() < 0.15 else c["mc"]       # bool or int flag
    # dtypes: (input, captured) real/real, complex/complex, complex input with a real captured array
    # (ConvolveFilter writes into an array of the captured data's dtype: complex input needs complex data)
    dt = rng.choice(["rr", "cc", "cc", "cr"])
    if cls == "ConvolveFilter" and dt == "cr":
        dt = "cc"
    cap_shape = c["fshape"] if cls.startswith("ConvolveData") else c["dshape"]
    captured = C08.intarr(rng, cap_shape, dt[1] == "c")
    if dt[1] == "c":
        captured = captured.astype(np.complex128)
    A = build(sp, cls, via_H, c, captured)
    assert type(A).__name__ == cls, (type(A).__name__, cls)
    x = C08.intarr(rng, list(A.ishape), dt[0] == "c")
    if dt[0] == "c":
        x = x.astype(np.complex128)
    info = dict(cls=cls, via_H=via_H, D=c["D"], mode=c["mode"], mc=c["mc"], strides=c["strides"], dshape=c["dshape"],
                fshape=c["fshape"], dtypes=dt, ishape=list(A.ishape), oshape=list(A.oshape))
    return A, x, info


def leaf_expr(A, x, y):
    s = linser.Serializer()
    term = s.term(A)
    arrs, _ = s.env_G()
    return "chk_opaque_conv %s %s %s %s %s" % (term, arrs, C08.gz(x), L.zlist([int(v) for v in np.shape(y)]), C08.gz(y))


def tree_expr(T, x, y):
    s = linser.Serializer()
    term = s.term(T)
    arrs, scals = s.env_G()
    return "chk_apply_conv %s %s %s %s %s" % (term, arrs, scals, C08.gz(x), C08.gz(y))


def dot_exact(A, rng, cplx):
    """<A x, y> == <x, A.H y> on Gaussian integers (exact in binary64 at these sizes)"""
    x = C08.intarr(rng, list(A.ishape), cplx).astype(np.complex128 if cplx else np.float64)
    y = C08.intarr(rng, list(A.oshape), cplx).astype(np.complex128 if cplx else np.float64)
    lhs = np.vdot(y, A(x))
    rhs = np.vdot(A.H(y), x)
    return complex(lhs) == complex(rhs), (x, y, lhs, rhs)


def cases(sp, rng, n):
    """n leaf cases, plus n//8 operator trees over convolution leaves and n//8 rejected constructors"""
    out = []
    for _ in range(n):
        A, x, info = gen_leaf(sp, rng)
        y = np.asarray(A(x))
        info["kind"] = "leaf"
        info["nontrivial"] = bool(y.size > 1 and np.any(y != 0))
        ok, wit = dot_exact(A, rng, info["dtypes"] == "cc")
        info["dot_ok"] = bool(ok)
        if not ok:
            info["dot_witness"] = dict(x=repr(wit[0].tolist()), y=repr(wit[1].tolist()), lhs=repr(wit[2]), rhs=repr(wit[3]))
        out.append(dict(expr=leaf_expr(A, x, y), info=info))
    for _ in range(max(1, n // 8)):
        while True:
            A, x, info = gen_leaf(sp, rng)
            # ConvolveFilterAdjoint over REAL data maps a complex input to a complex filter, which its .H (ConvolveFilter over
            # real data) does not accept (it writes into an array of the data's dtype): not a tree the library can run
            if not (info["cls"] == "ConvolveFilterAdjoint" and info["dtypes"] == "cr"):
                break
        kind = rng.choice(["normal", "N", "scaled"])
        if kind == "scaled" and info["cls"] == "ConvolveFilter" and info["dtypes"] != "cc":
            kind = "normal"            # a complex input needs complex captured data for this class
        if kind == "normal":
            T = A.H * A
        elif kind == "N":
            T = A.N
        else:
            T = complex(rng.randint(-2, 2), rng.randint(1, 2)) * A
            x = x.astype(np.complex128)
        y = np.asarray(T(x))
        info.update(kind="tree:" + kind, dot_ok=True, nontrivial=bool(np.any(y != 0)))
        out.append(dict(expr=tree_expr(T, x, y), info=info))
    for _ in range(max(1, n // 8)):
        c = gen_config(rng, admissible=False)
        cls = rng.choice(CLASSES)
        cap_shape = c["fshape"] if cls.startswith("ConvolveData") else c["dshape"]
        captured = np.zeros(cap_shape)
        shape = c["dshape"] if cls.startswith("ConvolveData") else c["fshape"]
        try:
            getattr(sp.linop, cls)(shape, captured, mode=c["mode"], strides=c["strides"], multi_channel=c["mc"])
            raised = False
        except Exception:
            raised = True
        term = "(%s %s (ARef 1 %s) %s %s %s)" % (cls, L.zlist(shape), L.zlist(cap_shape), L.boolean(c["mode"] == "full"),
                                                L.zlist_opt(c["strides"]), L.boolean(c["mc"]))
        expr = "chk_opaque_conv_reject %s" % term
        out.append(dict(expr=expr if raised else "negb (%s)" % expr,
                        info=dict(kind="reject", cls=cls, raised=raised, dshape=c["dshape"], fshape=c["fshape"], mode=c["mode"],
                                  strides=c["strides"], mc=c["mc"], dot_ok=True, nontrivial=True)))
    return out


def _ensure_built():
    """compile the two files of this family if their .vo is missing or stale (dependencies are part of the C08 / C01 cones)"""
    for rel in ("model/OpaqueConv", "run/RunOpaqueConv"):
        v, vo = os.path.join(core.COQ, rel + ".v"), os.path.join(core.COQ, rel + ".vo")
        if not os.path.exists(vo) or os.path.getmtime(vo) < os.path.getmtime(v):
            rc, out, _ = core.sh(["coqc", "-w", "-all", "-Q", ".", "SV", rel + ".v"], cwd=core.COQ, timeout=600)
            if rc != 0:
                raise RuntimeError("coqc %s.v failed:\n%s" % (rel, out[-2000:]))


def selftest(n=64, seed=20261001):
    import random
    t0 = time.time()
    _ensure_built()
    sp = core.import_sigpy()
    ctx = core.Ctx("opaque_conv", "quick", seed)
    rng = random.Random(seed)
    cs = cases(sp, rng, n)
    failing = L.run_bool_cases(ctx, "opaque_conv", HEADER, cs, per_file=8, timeout=1200)
    hist = {}
    for c in cs:
        i = c["info"]
        k = i["kind"] if i["kind"] != "leaf" else "%s%s:%s:%dD:%s:%s" % (i["cls"], ".H-built" if i["via_H"] else "", i["mode"], i["D"],
                                                                        "mc" if i["mc"] else "sc", "strided" if i["strides"] else "s=None")
        hist[k] = hist.get(k, 0) + 1
    dots = [c["info"] for c in cs if not c["info"]["dot_ok"]]
    print("opaque_conv selftest: %d cases (%d leaves, %d trees, %d rejected constructors), %d distinct classes, non-trivial %d"
          % (len(cs), sum(1 for c in cs if c["info"]["kind"] == "leaf"), sum(1 for c in cs if c["info"]["kind"].startswith("tree")),
             sum(1 for c in cs if c["info"]["kind"] == "reject"), len(hist), sum(1 for c in cs if c["info"]["nontrivial"])))
    print("  " + ", ".join("%s x%d" % kv for kv in sorted(hist.items())))
    for i in failing:
        print("DISAGREE", cs[i]["info"])
    for d in dots:
        print("DOT-TEST FAILS ON THE IMPLEMENTATION", d)
    print("disagreements model vs implementation: %d; exact dot-test failures of the implementation: %d; %.1fs"
          % (len(failing), len(dots), time.time() - t0))
    import shutil
    shutil.rmtree(ctx.scratch, ignore_errors=True)
    return len(failing) + len(dots)


if __name__ == "__main__":
    sys.exit(1 if selftest() else 0)
