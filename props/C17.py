"""C17 — ESPIRiT maps are unit-norm or exactly zero, phase-referenced to coil 0, eigenvalues in [0, 1].

Proof: coq/props/Prop_C17.v — the per-voxel computation of EspiritCalib (coq/model/Espirit.v: normalised power
iteration x <- A x / ||A x|| with the coil-axis norm, then `_output`: phase reference to coil 0 and crop by eigenvalue)
over the reals, for ANY per-voxel matrix A, any start and any number >= 1 of updates with non-zero iterate: unit l2
norm; the unimodular phase keeps the norm and makes coil 0 real >= 0; the crop multiplies by exactly 0 or 1, hence
"unit norm or exactly zero"; the eigenvalue estimate is >= 0, and <= 1 from the second update on when A is an l2
contraction (partial: that EspiritCalib's AHA is one is validated numerically, not proved).

Tie: EspiritCalib is run on /repo with hooks that snapshot its own per-voxel operator AHA[r] (closure of the power
method's A), the iterate before/after the last update and the state handed to `_output`.  At sampled voxels the model
on binary64 inside Coq is fed this data and must reproduce (a) one PowerMethod update, (b) `_output` (phase / crop:
zero vs non-zero exactly, values to 5e-5 since the implementation is complex64), (c) the whole voxel from the vector of
ones for small max_iter.

Oracle on the implementation: at every voxel the coil norm is 1 (1e-5) or all coils are exactly 0, zero exactly where
eigenvalue <= crop, coil 0 has imaginary part ~0 and real part >= 0, eigenvalues in [0, 1 + 1e-4], shapes and dtype;
for k-space synthesised from birdcage maps the magnitudes agree with the rss-normalised true maps on interior voxels
(5e-2; validated only).
"""
import inspect, json
import numpy as np
from vlib import core, coqlit as L

HEADER = """From Coq Require Import ZArith List Bool PrimFloat.
From SV Require Import lib.FloatRun model.Espirit run.RunC17.
Import ListNotations.
"""

NORM_TOL = 1e-5
EIG_TOL = 1e-4
MAP_TOL = 5e-2


# ---------------------------------------------------------------- generators
def gen_case(rng, kind=None):
    nd = 3 if rng.random() < 0.12 else 2
    if nd == 2:
        shape = [rng.choice([8, 10, 12, 16, 20, 24]) for _ in range(2)]
        if rng.random() < 0.5:
            shape[1] = shape[0]
    else:
        shape = [rng.choice([6, 8, 10]) for _ in range(3)]
    nc = rng.randint(2, 8)
    kw = rng.choice([2, 3, 4, 5, 6]) if nd == 2 else rng.choice([2, 3])
    cw = rng.choice([kw, kw + 1, kw + 2, min(shape), min(shape) // 2 + kw, 12, 16, 24]) if nd == 2 else rng.choice([kw + 1, kw + 2, 6])
    cw = max(cw, kw)
    if nd == 2 and (cw - kw + 1) ** 2 * nc * kw ** 2 > 60000:
        cw = kw + 4
    kind = kind or rng.choice(["random", "random", "synth", "maps", "lowrank"])
    extra = {}
    if rng.random() < 0.15:
        extra["coil0"] = "dead"      # a nearly dead first (phase-reference) channel: |m0| near the precision of the k-space dtype
    return dict(extra, kind=kind, shape=shape, nc=nc, calib_width=cw, kernel_width=kw,
                thresh=rng.choice([0.0, 0.001, 0.02, 0.02, 0.05, 0.1, 0.3]),
                crop=rng.choice([0.0, 0.5, 0.8, 0.9, 0.95, 0.95, 0.99, 1.5]),
                max_iter=rng.choice([1, 2, 3, 5, 10, 30, 100]), dtype=rng.choice(["complex64", "complex64", "complex64", "complex128"]),
                seed=rng.randrange(0, 2 ** 31))


def gen_recovery_case(rng):
    """the family on which agreement with the true maps is validated (fully sampled, smooth maps, sane parameters)"""
    nd = 3 if rng.random() < 0.15 else 2
    if nd == 2:
        shape = rng.choice([[16, 16], [20, 24], [24, 24], [24, 16], [20, 20]])
        kw = rng.choice([4, 5, 6])
        cw = rng.choice([12, 14, 16, min(shape)])
    else:
        shape = rng.choice([[10, 12, 12], [8, 10, 12]])
        kw = rng.choice([3, 4])
        cw = rng.choice([8, min(shape)])
    c = dict(kind=rng.choice(["synth", "maps"]), shape=shape, nc=rng.choice([4, 5, 6, 8]), calib_width=cw, kernel_width=kw,
             thresh=rng.choice([0.01, 0.02, 0.03]), crop=rng.choice([0.8, 0.9, 0.95]), max_iter=100, dtype="complex64",
             seed=rng.randrange(0, 2 ** 31), recovery=True)
    if rng.random() < 0.35:
        c["kscale"] = rng.choice([1e-6, 1e-4, 1e3])      # ESPIRiT is invariant to the overall scale of k-space
    return c


def corpus():
    return [
        dict(kind="maps", shape=[16, 16], nc=8, calib_width=24, kernel_width=6, thresh=0.02, crop=0.95, max_iter=100,
             dtype="complex128", seed=0),                                                           # the test-suite input (defaults)
        dict(kind="synth", shape=[24, 24], nc=8, calib_width=16, kernel_width=6, thresh=0.02, crop=0.95, max_iter=100,
             dtype="complex64", seed=1, recovery=True),
        dict(kind="maps", shape=[20, 20], nc=8, calib_width=16, kernel_width=6, thresh=0.02, crop=0.9, max_iter=100,
             dtype="complex64", seed=3, recovery=True, kscale=1e-6),                                # tiny k-space, single precision
        dict(kind="random", shape=[8, 8], nc=2, calib_width=4, kernel_width=2, thresh=0.0, crop=0.0, max_iter=1,
             dtype="complex64", seed=2),
        dict(kind="maps", shape=[16, 16], nc=4, calib_width=12, kernel_width=4, thresh=0.02, crop=0.9, max_iter=100,
             dtype="complex64", seed=6, coil0="dead"),                                              # nearly dead reference channel
        dict(kind="synth", shape=[16, 16], nc=4, calib_width=12, kernel_width=4, thresh=0.02, crop=0.9, max_iter=100,
             dtype="complex128", seed=7, coil0="dead"),
        dict(kind="random", shape=[10, 12], nc=3, calib_width=6, kernel_width=3, thresh=0.02, crop=1.5, max_iter=5,
             dtype="complex64", seed=3),                                                            # everything cropped
        dict(kind="synth", shape=[8, 10, 12], nc=4, calib_width=8, kernel_width=3, thresh=0.02, crop=0.9, max_iter=30,
             dtype="complex64", seed=4),
        dict(kind="lowrank", shape=[12, 12], nc=4, calib_width=8, kernel_width=3, thresh=0.1, crop=0.5, max_iter=3,
             dtype="complex64", seed=5),
    ]


def make_ksp(sp, c):
    import sigpy.mri as mr
    rs = np.random.RandomState(c["seed"])
    shape, nc = tuple(c["shape"]), c["nc"]
    axes = tuple(range(-len(shape), 0))
    true = None
    dead = (1e-6 if c["dtype"] == "complex64" else 1e-14) if c.get("coil0") == "dead" else None
    if c["kind"] == "random":
        ksp = rs.standard_normal((nc,) + shape) + 1j * rs.standard_normal((nc,) + shape)
        if dead:
            ksp[0] *= dead
    elif c["kind"] == "lowrank":        # one random image seen through smooth random-phase coil profiles + a little noise
        img = rs.standard_normal(shape) + 1j * rs.standard_normal(shape)
        mps = mr.birdcage_maps((nc,) + shape) * np.exp(1j * rs.uniform(0, 2 * np.pi, (nc,) + (1,) * len(shape)))
        if dead:
            mps[0] *= dead
        ksp = sp.fft(mps * img, axes=axes) + 1e-3 * (rs.standard_normal((nc,) + shape) + 1j * rs.standard_normal((nc,) + shape))
    else:
        mps = mr.birdcage_maps((nc,) + shape)
        if dead:
            mps[0] *= dead
        true = mps / np.sqrt(np.sum(np.abs(mps) ** 2, axis=0))
        img = sp.shepp_logan(shape) if c["kind"] == "synth" else np.ones(shape)
        ksp = sp.fft(mps * img, axes=axes)
        c["_img"] = np.abs(img)
    if c.get("kscale"):
        ksp = ksp * c["kscale"]
    return np.ascontiguousarray(ksp.astype(c["dtype"])), true


# ---------------------------------------------------------------- instrumented run of the real app
def run_app(sp, c, ksp):
    from sigpy.mri.app import EspiritCalib
    app = EspiritCalib(ksp, calib_width=c["calib_width"], thresh=c["thresh"], kernel_width=c["kernel_width"], crop=c["crop"],
                       max_iter=c["max_iter"], device=sp.cpu_device, output_eigenvalue=True, show_pbar=False)
    AHA = inspect.getclosurevars(app.alg.A).nonlocals["AHA"]
    snap = {"x0": app.mps.copy()}
    last = c["max_iter"] - 1

    def pre():
        if app.alg.iter == last:
            snap["pre_last"] = app.mps.copy()

    def post():
        if app.alg.iter == last + 1:
            snap["post_last"] = (app.mps.copy(), np.array(app.alg.max_eig, copy=True))
    orig_output = app._output

    def output():
        snap["final"] = (app.mps.copy(), np.array(app.alg.max_eig, copy=True))
        return orig_output()
    app._pre_update, app._post_update, app._output = pre, post, output
    maps, eig = app.run()
    snap["iters"] = app.alg.iter
    return np.asarray(maps), np.asarray(eig), np.asarray(AHA), snap


# ---------------------------------------------------------------- oracle (the property, in numpy)
def oracle(c, ksp, maps, eig, true):
    bad = []
    shape = tuple(c["shape"])
    if maps.shape != ksp.shape:
        bad.append("maps shape %s" % (maps.shape,))
        return bad, {}
    if maps.dtype != ksp.dtype:
        bad.append("maps dtype %s" % maps.dtype)
    e = np.asarray(eig, dtype=np.float64).reshape(shape) if eig.size == int(np.prod(shape)) else None
    if e is None:
        bad.append("eigenvalue shape %s" % (eig.shape,))
        return bad, {}
    m = maps.astype(np.complex128)
    if not np.all(np.isfinite(m.real) & np.isfinite(m.imag)) or not np.all(np.isfinite(e)):
        bad.append("non-finite map or eigenvalue")
        return bad, {}
    nrm = np.sqrt(np.sum(np.abs(m) ** 2, axis=0))
    zero = np.all(maps == 0, axis=0)
    unit = np.abs(nrm - 1) <= NORM_TOL
    info = {"zero_voxels": int(zero.sum()), "unit_voxels": int((unit & ~zero).sum()), "voxels": int(zero.size),
            "eig_min": float(e.min()), "eig_max": float(e.max())}
    if not np.all(zero | unit):
        k = np.argwhere(~(zero | unit))[0]
        bad.append("norm across coils is %r at voxel %s (neither 1 nor exactly 0)" % (float(nrm[tuple(k)]), tuple(int(v) for v in k)))
    kept = eig.reshape(shape) > c["crop"]          # the comparison the implementation makes (same dtypes)
    if not np.array_equal(kept, ~zero):
        k = np.argwhere(kept != ~zero)[0]
        bad.append("crop: voxel %s is %s although eigenvalue %r %s crop" % (tuple(int(v) for v in k), "zero" if zero[tuple(k)] else "kept",
                                                                          float(e[tuple(k)]), ">" if kept[tuple(k)] else "<="))
    tiny = 1e-5 if maps.dtype == np.complex64 else 1e-12
    if np.max(np.abs(m[0].imag)) > tiny:
        bad.append("phase: coil 0 has imaginary part %r" % float(np.max(np.abs(m[0].imag))))
    if np.min(m[0].real) < 0:
        bad.append("phase: coil 0 has negative real part %r" % float(np.min(m[0].real)))
    hi = 1.0 if c["max_iter"] >= 2 else float(np.sqrt(c["nc"]))      # the first update starts from the un-normalised ones
    if e.min() < 0 or e.max() > hi * (1 + EIG_TOL):
        bad.append("eigenvalue outside [0, %s]: min %r max %r" % ("1" if hi == 1.0 else "sqrt(nc)", float(e.min()), float(e.max())))
    if c.get("recovery") and true is not None:
        interior = np.zeros(shape, bool)
        interior[tuple(slice(n // 4, n - n // 4) for n in shape)] = True
        img = c.get("_img")
        support = img > 0.1 * img.max()
        sel = interior & support & ~zero
        info["recovery_voxels"] = int(sel.sum())
        info["recovery_candidates"] = int((interior & support).sum())
        if sel.sum() * 2 < (interior & support).sum():
            bad.append("recovery: more than half of the interior object voxels are cropped (%d of %d kept)" % (sel.sum(), (interior & support).sum()))
        elif sel.any():
            err = float(np.max(np.abs(np.abs(m) - np.abs(true))[:, sel]))
            info["recovery_err"] = err
            if err > MAP_TOL:
                bad.append("recovery: magnitudes differ from the rss-normalised true maps by %r on interior voxels" % err)
    return bad, info


# ---------------------------------------------------------------- correspondence expressions
def clist(v):
    return L.cflist(np.asarray(v).ravel())


def cmat(a):
    return "[" + "; ".join(clist(row) for row in np.asarray(a)) + "]"


def pick_voxels(rng, shape_rev, eig_rev, crop, n):
    """voxel indices in the implementation's (reversed) order; prefer a mix of kept and cropped voxels"""
    allv = list(np.ndindex(*shape_rev))
    kept = [v for v in allv if eig_rev[v] > crop]
    cut = [v for v in allv if not eig_rev[v] > crop]
    out = []
    for pool in (kept, cut):
        if pool:
            out += [pool[rng.randrange(len(pool))] for _ in range((n + 1) // 2)]
    return out[:n] if out else []


def corr_exprs(rng, c, maps, eig, AHA, snap, nvox):
    atol = 5e-5 if c["dtype"] == "complex64" else 1e-9
    rtol = 5e-5 if c["dtype"] == "complex64" else 1e-9
    T = "%s %s" % (L.flt(atol), L.flt(rtol))
    xfin, efin = snap["final"]
    shape_rev = xfin.shape[:-2]
    eig_rev = efin[..., 0, 0]
    crop_seen = float(np.asarray(c["crop"], dtype=efin.dtype))        # `max_eig > self.crop` compares in max_eig's dtype
    out = []
    for v in pick_voxels(rng, shape_rev, eig_rev, c["crop"], nvox):
        vm = tuple(reversed(v))                                        # index into maps[c, ...] / eig[0, ...]
        expect = maps[(slice(None),) + vm]
        out.append(dict(what="output", voxel=list(v), expr="chk_output %s %s %s %s %s" % (
            T, L.flt(crop_seen), clist(xfin[v][:, 0]), L.flt(float(eig_rev[v])), clist(expect))))
        if "pre_last" in snap and "post_last" in snap:
            xpost, epost = snap["post_last"]
            out.append(dict(what="step", voxel=list(v), expr="chk_step %s %s %s %s %s" % (
                T, cmat(AHA[v]), clist(snap["pre_last"][v][:, 0]), clist(xpost[v][:, 0]), L.flt(float(epost[v][0, 0])))))
        if c["max_iter"] <= 5:
            T4 = "%s %s" % (L.flt(4 * atol), L.flt(4 * rtol))
            out.append(dict(what="voxel", voxel=list(v), expr="chk_voxel %s %d %s %s %s %s %s" % (
                T4, c["max_iter"], cmat(AHA[v]), clist(snap["x0"][v][:, 0]), L.flt(crop_seen), clist(expect),
                L.flt(float(eig[(0,) + vm])))))
    return out


def public(c):
    return {k: v for k, v in c.items() if not k.startswith("_")}


# ---------------------------------------------------------------- the check
def run(ctx):
    ctx.source_hash("sigpy/mri/app.py", "sigpy/alg.py")
    proof_ok = ctx.prove("Prop_C17.v")
    # tie by translation (DESIGN 2.8): gen/Gen_espirit.v is regenerated from mri/app.py (translate_all job "espirit", with job "alg"
    # for the gen_pm_* it applies) and compiled; its lemmas state generated EspiritCalib == hand model (model/Espirit.v, EspiritCalib.v)
    from tools import translate_espirit
    tie_broken = translate_espirit.tie(ctx)    # obligations "translate:sigpy/mri/app.py (...)", "tie:generated EspiritCalib == hand model"
    sp = core.import_sigpy()
    rng = ctx.rng
    n = ctx.n(100, 900)
    n_rec = ctx.n(14, 120)
    cases = corpus()
    while len(cases) < n - n_rec:
        cases.append(gen_case(rng))
    while len(cases) < n:
        cases.append(gen_recovery_case(rng))
    corr, failed, rec_errs = [], [], []
    # crop ties: a case is re-run with crop set to one of the eigenvalues it produced (exactly, in the eigenvalue's own
    # precision): "does not exceed the crop threshold" includes equality, so that voxel must come back exactly zero
    n_tie, max_tie = 0, ctx.n(8, 80)
    qi = 0
    while qi < len(cases):
        c = cases[qi]
        qi += 1
        key = json.dumps(public(c), sort_keys=True)
        try:
            ksp, true = make_ksp(sp, c)
            maps, eig, AHA, snap = run_app(sp, c, ksp)
        except Exception as e:      # noqa
            ctx.count("%s:exception" % c["kind"], key=key, sample=public(c))
            failed.append((c, ["EspiritCalib raised %r" % e], {}))
            continue
        bad, info = oracle(c, ksp, maps, eig, true)
        if snap.get("iters") != c["max_iter"]:
            bad.append("ran %r updates instead of max_iter=%d" % (snap.get("iters"), c["max_iter"]))
        if not np.all(snap["x0"] == 1):
            bad.append("power iteration does not start from ones")
        if c.get("tie_of") is not None:
            info["voxels_with_eigenvalue_equal_to_crop"] = int(np.sum(np.asarray(eig) == np.asarray(c["crop"], dtype=np.asarray(eig).dtype)))
            ctx.coverage["crop_tie_runs"] = ctx.coverage.get("crop_tie_runs", 0) + 1
            ctx.coverage["crop_tie_runs_with_a_tie"] = ctx.coverage.get("crop_tie_runs_with_a_tie", 0) + int(info["voxels_with_eigenvalue_equal_to_crop"] > 0)
        cls = "%s:%dD:%s" % (c["kind"], len(c["shape"]), "recovery" if c.get("recovery") else "crop-tie" if c.get("tie_of") is not None else "invariants")
        ctx.count(cls, key=key, nontrivial=info.get("unit_voxels", 0) > 0,
                  sample={"params": public(c), **info})
        if "recovery_err" in info:
            rec_errs.append(info["recovery_err"])
        if not bad and not c.get("tie_of") and not c.get("recovery") and n_tie < max_tie and int(np.prod(c["shape"])) <= 400:
            ev = np.unique(np.asarray(eig).ravel())
            ev = ev[(ev > 0) & (ev < 1)]
            if ev.size >= 3:
                pick = ev[rng.randrange(ev.size // 4, max(ev.size // 4 + 1, (3 * ev.size) // 4))]
                cases.append(dict(c, crop=float(pick), tie_of=float(c["crop"])))
                n_tie += 1
        if bad:
            failed.append((c, bad, info))
            continue
        for d in corr_exprs(rng, c, maps, eig, AHA, snap, ctx.n(4, 8)):
            if c.get("tie_of") is not None and d["what"] == "voxel":
                # the whole-voxel model recomputes the eigenvalue in binary64; at an exact tie with crop its rounding decides
                # the comparison differently from the implementation's own precision.  The `_output` correspondence (fed the
                # implementation's eigenvalue) and the oracle judge the tie.
                continue
            d["case"] = c
            corr.append(d)
    failing, corr_ok = [], True
    try:
        if not ctx.make(["run/RunC17.vo"]):
            raise RuntimeError("run/RunC17.vo does not build")
        failing = L.run_bool_cases(ctx, "c17", HEADER, corr, per_file=60)
    except RuntimeError as e:
        corr_ok = False
        ctx.notes.append("correspondence could not run: %s" % str(e)[:500])
    nk = {w: sum(1 for d in corr if d["what"] == w) for w in ("output", "step", "voxel")}
    ctx.obligation("corr:_output (phase, crop) == model at %d voxels" % nk["output"],
                   corr_ok and not [i for i in failing if corr[i]["what"] == "output"])
    ctx.obligation("corr:PowerMethod update == model at %d voxels" % nk["step"],
                   corr_ok and not [i for i in failing if corr[i]["what"] == "step"])
    ctx.obligation("corr:whole voxel from ones == model at %d voxels" % nk["voxel"],
                   corr_ok and not [i for i in failing if corr[i]["what"] == "voxel"])
    inv_failed = [f for f in failed if not all(b.startswith("recovery:") for b in f[1])]
    rec_failed = [f for f in failed if any(b.startswith("recovery:") for b in f[1])]
    ctx.obligation("oracle:unit-or-zero, phase reference, crop, eigenvalue range (%d runs)" % len(cases), not inv_failed)
    ctx.obligation("oracle(validated only):magnitudes match the true maps within %g on %d synthesised runs (max %.4f)" % (
        MAP_TOL, len(rec_errs), max(rec_errs or [0])), not rec_failed)
    ctx.coverage["rule"] = (
        "corpus (test-suite input, all-cropped, max_iter 1, 3-D) + seeded runs of EspiritCalib(device=cpu, show_pbar=False, "
        "output_eigenvalue=True): k-space random / low-rank+noise / synthesised from birdcage maps (x Shepp-Logan), 2-D shapes 8..24 "
        "and 3-D 6..12, coils 2..8, calib_width kw..24 (incl. > shape), kernel_width 2..6, thresh 0..0.3, crop 0..1.5, max_iter 1..100, "
        "complex64/complex128; non-trivial = at least one voxel kept with unit norm; distinct = distinct argument tuples; every voxel of "
        "every run is checked by the oracle, %d voxels are replayed in Coq" % len(corr))
    ctx.coverage["disagreements_model_vs_impl"] = len(failing)
    ctx.coverage["disagreements_oracle_vs_impl"] = len(failed)
    ctx.coverage["recovery_max_err"] = max(rec_errs or [0])
    seen = set()
    for c, bad, info in failed:
        for b in bad:
            sig = "C17:" + b.split(" ")[0].rstrip(":")
            if sig in seen:
                continue
            seen.add(sig)
            ctx.violation("EspiritCalib: %s" % b, {"kind": "oracle", "case": public(c),
                                                   "expected": "unit norm across coils or exactly zero, coil 0 real >= 0, eigenvalues in [0,1]"
                                                   + (", magnitudes within %g of the true maps" % MAP_TOL if c.get("recovery") else ""),
                                                   "observed": {"violated": bad, **info}}, signature=sig)
    for i in failing:
        d = corr[i]
        sig = "C17:corr:" + d["what"]
        if sig in seen:
            continue
        seen.add(sig)
        ctx.violation("model and EspiritCalib disagree on %s at voxel %s" % (d["what"], d["voxel"]),
                      {"kind": "correspondence", "broken": "corr:" + d["what"], "case": public(d["case"]), "voxel": d["voxel"],
                       "expected": "the Coq model fed with the implementation's own AHA[r] / iterate reproduces its result",
                       "observed": d["expr"][:1500]}, found_input=False, signature=sig)
    if (not proof_ok or not corr_ok or tie_broken) and not ctx.violations:
        broken = getattr(ctx, "broken_proof", tie_broken or {"theorem": "corr:coq-run", "log": "; ".join(ctx.notes)[-1500:]})
        ctx.violation("proof obligation no longer checks: %s" % broken.get("theorem"), {"kind": "proof", "broken": broken},
                      found_input=False, signature="C17:proof")
    ctx.trusted += TRUSTED
    ctx.proved += PROVED
    ctx.validated_only += VALIDATED


def replay(obj):
    if obj.get("kind") == "proof":
        print("no failing input; broken:", obj.get("broken"))
        return 1
    sp = core.import_sigpy()
    c = dict(obj["case"])
    ksp, true = make_ksp(sp, c)
    try:
        maps, eig, AHA, snap = run_app(sp, c, ksp)
    except Exception as e:      # noqa
        print("case", public(c), "\nraised", repr(e))
        return 1
    bad, info = oracle(c, ksp, maps, eig, true)
    print("case", public(c), "\ninfo", info, "\nviolated:", bad)
    if obj.get("kind") == "correspondence":
        print("(the model-side comparison is re-run by ./check C17; the oracle above is the implementation-side verdict)")
    return 1 if bad else 0


TRUSTED = [
    "Coq 8.16.1 kernel + vm_compute (no native_compute, no extraction); Coq Reals axioms as printed by Print Assumptions",
    "hand model coq/model/Espirit.v of PowerMethod._update with EspiritCalib's norm_func and of EspiritCalib._output at one voxel "
    "(one term for PrimFloat and for R), tied by this run's correspondence on the implementation's own AHA[r] and iterates, and by "
    "translation: tools/translate_espirit.py regenerates it (and coq/model/EspiritCalib.v, the data flow of __init__ around the SVD / "
    "IFFT oracles) from the source text; trusted there: the per-voxel readings of numpy listed in notes/translate_espirit.md",
    "numpy broadcasting of `AHA @ x`, sum over the coil axis, `.T[0]`, and multiplication by a boolean array as modelled (per voxel)",
    "the theorems are over R; complex64 rounding is not modelled (norm 1 is checked to 1e-5 on the implementation); "
    "in floating point 0 * nan = nan, so 'exactly zero' needs a finite iterate (checked: all outputs finite)",
    "non-zero iterate / non-zero coil 0 are hypotheses of the theorems (checked on every run: outputs finite)",
]
PROVED = ["see coq/props/Prop_C17.v (theorem list in obligation_list)"]
VALIDATED = ["eigenvalue <= 1: proved only from the hypothesis that AHA[r] is an l2 contraction; that EspiritCalib's AHA (SVD-truncated "
             "calibration kernels, image-domain Gram scaled by N/kw^d) is one is checked numerically (eig <= 1 + 1e-4 on every run)",
             "agreement with the rss-normalised true maps (5e-2, interior object voxels, fully sampled synthesised data, "
             "calib_width <= shape, thresh <= 0.03, kernel 3..6, crop 0.8..0.95, 4..8 coils)",
             "construction of AHA (calibration matrix, SVD truncation, kernels to image domain): only its data flow is modelled (coq/model/EspiritCalib.v, tied by translation); SVD, IFFT, resize, array_to_blocks, reshape are operations without laws there"]
