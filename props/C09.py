"""C09 — resize / flip / circshift / downsample / upsample / array_to_blocks / blocks_to_array
move exactly the documented elements.

Proof: coq/props/Prop_C09.v (closed forms for the generated block kernels, window
arithmetic of resize, adjoint pairs).  Tie: block kernels are regenerated from
/repo/sigpy/block.py by tools/translate_loops.py on every run; the util functions
and the block wrappers are hand models (coq/model/Rearrange.v, Block.v) compared
exactly with the implementation on labelled integer arrays.
"""
import itertools
import numpy as np
from vlib import core, coqlit as L

HEADER = """From Coq Require Import ZArith List Bool.
From SV Require Import lib.Scalar lib.NdArray run.RunC09.
Import ListNotations.
Local Open Scope Z_scope.
"""


# ---------------------------------------------------------------- reference (the documented closed forms)
def expand(a, b):
    n = max(len(a), len(b))
    return [1] * (n - len(a)) + list(a), [1] * (n - len(b)) + list(b)


def ref_resize(x, oshape, ishift, oshift):
    i1, o1 = expand(x.shape, oshape)
    xi = x.reshape(i1)
    out = np.zeros(o1, dtype=x.dtype)
    if ishift is None and oshift is None:
        # index i//2 of the input aligned with index o//2 of the output
        for k in itertools.product(*[range(n) for n in o1]):
            src = tuple(kk - o // 2 + i // 2 for kk, i, o in zip(k, i1, o1))
            if all(0 <= s < i for s, i in zip(src, i1)):
                out[k] = xi[src]
        return out.reshape(oshape)
    si = list(ishift) if ishift is not None else [max(i // 2 - o // 2, 0) for i, o in zip(i1, o1)]
    so = list(oshift) if oshift is not None else [max(o // 2 - i // 2, 0) for i, o in zip(i1, o1)]
    c = [min(i - a, o - b) for i, a, o, b in zip(i1, si, o1, so)]
    for t in itertools.product(*[range(max(n, 0)) for n in c]):
        out[tuple(b + tt for b, tt in zip(so, t))] = xi[tuple(a + tt for a, tt in zip(si, t))]
    return out.reshape(oshape)


def ref_flip(x, axes):
    ax = range(x.ndim) if axes is None else [a % x.ndim for a in axes]
    out = np.zeros_like(x)
    for k in np.ndindex(*x.shape):
        src = tuple(x.shape[d] - 1 - kk if d in ax else kk for d, kk in enumerate(k))
        out[k] = x[src]
    return out


def ref_circshift(x, shifts, axes):
    ax = list(range(x.ndim)) if axes is None else [a % x.ndim for a in axes]
    tot = [0] * x.ndim
    for a, s in zip(ax, shifts):
        tot[a] += s
    out = np.zeros_like(x)
    for k in np.ndindex(*x.shape):
        out[tuple((kk + t) % n for kk, t, n in zip(k, tot, x.shape))] = x[k]
    return out


def ref_downsample(x, factors, shift):
    shift = [0] * len(factors) if shift is None else shift
    f = list(factors) + [1] * (x.ndim - len(factors))
    s = list(shift) + [0] * (x.ndim - len(factors))
    oshape = [max(0, -(-(n - ss) // ff)) for n, ss, ff in zip(x.shape, s, f)]
    out = np.zeros(oshape, dtype=x.dtype)
    for k in np.ndindex(*oshape):
        out[k] = x[tuple(ss + ff * kk for kk, ss, ff in zip(k, s, f))]
    return out


def ref_upsample(x, oshape, factors, shift):
    shift = [0] * len(factors) if shift is None else shift
    f = list(factors) + [1] * (x.ndim - len(factors))
    s = list(shift) + [0] * (x.ndim - len(factors))
    out = np.zeros(oshape, dtype=x.dtype)
    for k in np.ndindex(*x.shape):
        out[tuple(ss + ff * kk for kk, ss, ff in zip(k, s, f))] = x[k]
    return out


def ref_a2b(x, B, S):
    D = len(B)
    N = [(i - b + s) // s for i, b, s in zip(x.shape[-D:], B, S)]
    bat = x.shape[:-D]
    out = np.zeros(tuple(bat) + tuple(N) + tuple(B), dtype=x.dtype)
    for bidx in np.ndindex(*bat):
        for n in np.ndindex(*N):
            for b in np.ndindex(*B):
                i = tuple(nn * ss + bb for nn, ss, bb in zip(n, S, b))
                if all(ii < m for ii, m in zip(i, x.shape[-D:])):
                    out[bidx + n + b] = x[bidx + i]
    return out


def ref_b2a(y, oshape, B, S):
    D = len(B)
    N = y.shape[-2 * D:-D]
    bat = tuple(oshape[:-D])
    out = np.zeros(oshape, dtype=y.dtype)
    for bidx in np.ndindex(*bat):
        for n in np.ndindex(*N):
            for b in np.ndindex(*B):
                i = tuple(nn * ss + bb for nn, ss, bb in zip(n, S, b))
                if all(ii < m for ii, m in zip(i, oshape[-D:])):
                    out[bidx + i] += y[bidx + n + b]
    return out


# ---------------------------------------------------------------- generators
_CONV = [None]     # element-value stream: when set, the labelled integers are mapped to another element type / value


def labelled(rng, shape):
    n = int(np.prod(shape))
    base = rng.randrange(1, 50)
    a = (np.arange(n, dtype=np.int64) * rng.choice([1, 3, 7]) + base).reshape(shape)
    return a if _CONV[0] is None else _CONV[0](a)


# "all element values": the same cases with complex / single-precision / negative / boolean-like elements (exactly representable)
VALUE_KINDS = [
    ("complex128", lambda a: a * (1 + 2j)),
    ("complex64", lambda a: (a * (1 - 1j)).astype(np.complex64)),
    ("float32", lambda a: (-a).astype(np.float32)),
    ("float64", lambda a: a / 4.0),
    # the same integers in other MEMORY LAYOUTS (numpy-generated inputs are always C-contiguous)
    ("layout-F", lambda a: np.asfortranarray(a.copy())),
    ("layout-T-view", lambda a: np.ascontiguousarray(a.T).T),
    ("layout-strided", lambda a: _strided(a)),
    ("layout-real-part", lambda a: (a.astype(np.float64) + 1j * (a + 2.5)).real),
]


def _strided(a):
    big = np.full([2 * d + 1 for d in a.shape], 7, dtype=a.dtype)
    v = big[tuple(slice(1, 2 * d, 2) for d in a.shape)]
    v[...] = a
    return v


def gen_resize(rng):
    nd = rng.choice([1, 1, 2, 2, 3])
    ish = [rng.randint(1, 7) for _ in range(nd)]
    mode = rng.random()
    if mode < 0.12:      # same shape (incl. explicit shifts: the early-return path)
        osh = list(ish)
    elif mode < 0.22:    # different rank (leading 1s are inserted by _expand_shapes)
        osh = [rng.randint(1, 8) for _ in range(rng.choice([d for d in (1, 2, 3) if d != nd]))]
        if int(np.prod(osh)) != int(np.prod(ish)) and len(osh) < nd and ish[0] != 1:
            ish = [1] * (nd - len(osh)) + ish[nd - len(osh):]
    else:
        osh = [rng.choice([rng.randint(1, 9), n, n + 1, max(1, n - 1)]) for n in ish]
    i1, o1 = expand(ish, osh)
    isf = osf = None
    if rng.random() < 0.4:
        isf = [rng.randint(0, i) for i in i1]
    if rng.random() < 0.4:
        osf = [rng.randint(0, o) for o in o1]
    return dict(op="resize", ish=ish, osh=osh, isf=isf, osf=osf)


def gen_flip(rng):
    nd = rng.choice([1, 2, 3])
    sh = [rng.randint(1, 6) for _ in range(nd)]
    axes = None if rng.random() < 0.25 else rng.sample(range(-nd, nd), rng.choice([0] + list(range(1, nd + 1)) * 2))    # incl. the empty subset
    if axes is not None:      # drop duplicates of the same axis
        seen, keep = set(), []
        for a in axes:
            if a % nd not in seen:
                seen.add(a % nd); keep.append(a)
        axes = keep
    return dict(op="flip", sh=sh, axes=axes)


def gen_circshift(rng):
    nd = rng.choice([1, 2, 3])
    sh = [rng.randint(1, 6) for _ in range(nd)]
    if rng.random() < 0.3:
        axes = None; k = nd
    else:
        k = rng.randint(1, nd)
        axes = [rng.randrange(-nd, nd) for _ in range(k)]
    shifts = [rng.choice([0, 1, -1, rng.randint(-9, 9), rng.randint(-20, 20)]) for _ in range(k)]
    return dict(op="circshift", sh=sh, shifts=shifts, axes=axes)


def gen_down(rng, up=False):
    nd = rng.choice([1, 2, 3])
    ish = [rng.randint(1, 9) for _ in range(nd)]
    k = nd
    f = [rng.randint(1, 4) for _ in range(k)]
    shift = None if rng.random() < 0.4 else [rng.randint(0, min(fk, n) - 1 if rng.random() < 0.7 else n - 1) for fk, n in zip(f, ish)]
    return dict(op="upsample" if up else "downsample", ish=ish, f=f, shift=shift)


def gen_blocks(rng, to_array=False):
    D = rng.choice([1, 1, 2, 2, 3])
    nbat = rng.choice([0, 0, 1, 2])
    bat = [rng.randint(1, 3) for _ in range(nbat)]
    maxn = {1: 9, 2: 6, 3: 4}[D]
    N = [rng.randint(1, maxn) for _ in range(D)]
    B = [rng.randint(1, n) for n in N]
    kind = rng.choice(["overlap", "tile", "gap", "any"])
    if kind == "overlap":
        S = [rng.randint(1, max(1, b - 1)) for b in B]
    elif kind == "tile":
        S = list(B)
    elif kind == "gap":
        S = [b + rng.randint(1, 2) for b in B]
    else:
        S = [rng.randint(1, 5) for _ in B]
    return dict(op="b2a" if to_array else "a2b", bat=bat, N=N, B=B, S=S, kind=kind)


GENS = [("resize", gen_resize, 5), ("flip", gen_flip, 1), ("circshift", gen_circshift, 2),
        ("downsample", lambda r: gen_down(r), 2), ("upsample", lambda r: gen_down(r, True), 2),
        ("a2b", lambda r: gen_blocks(r), 3), ("b2a", lambda r: gen_blocks(r, True), 4)]


# ---------------------------------------------------------------- running one case on the implementation
def run_case(sp, rng, c):
    """returns (input array, impl output, reference output, coq expr)"""
    op = c["op"]
    if op == "resize":
        x = labelled(rng, c["ish"])
        y = sp.resize(x, c["osh"], ishift=c["isf"], oshift=c["osf"])
        r = ref_resize(x, c["osh"], c["isf"], c["osf"])
        e = "chk_resize %s %s %s %s %s %s" % (L.zlist(c["ish"]), L.zlist(c["osh"]), L.zlist_opt(c["isf"]),
                                               L.zlist_opt(c["osf"]), L.zlist(x.ravel()), L.zlist(np.asarray(y).ravel()))
    elif op == "flip":
        x = labelled(rng, c["sh"])
        y = sp.flip(x, c["axes"])
        r = ref_flip(x, c["axes"])
        e = "chk_flip %s %s %s %s" % (L.zlist(c["sh"]), L.zlist_opt(c["axes"]), L.zlist(x.ravel()), L.zlist(np.asarray(y).ravel()))
    elif op == "circshift":
        x = labelled(rng, c["sh"])
        y = sp.circshift(x, c["shifts"], c["axes"])
        r = ref_circshift(x, c["shifts"], c["axes"])
        e = "chk_circshift %s %s %s %s %s" % (L.zlist(c["sh"]), L.zlist(c["shifts"]), L.zlist_opt(c["axes"]),
                                              L.zlist(x.ravel()), L.zlist(np.asarray(y).ravel()))
    elif op == "downsample":
        x = labelled(rng, c["ish"])
        y = sp.downsample(x, c["f"], shift=c["shift"])
        r = ref_downsample(x, c["f"], c["shift"])
        e = "chk_downsample %s %s %s %s %s %s" % (L.zlist(c["ish"]), L.zlist(y.shape), L.zlist(c["f"]),
                                                  L.zlist_opt(c["shift"]), L.zlist(x.ravel()), L.zlist(np.asarray(y).ravel()))
    elif op == "upsample":
        osh = c["ish"]        # the *output* shape of upsample; its input is the downsampled shape
        s = c["shift"] or [0] * len(c["f"])
        insh = [max(0, -(-(n - ss) // ff)) for n, ss, ff in zip(osh, s, c["f"])]
        if any(n == 0 for n in insh):
            return None
        x = labelled(rng, insh)
        y = sp.upsample(x, osh, c["f"], shift=c["shift"])
        r = ref_upsample(x, osh, c["f"], c["shift"])
        e = "chk_upsample %s %s %s %s %s %s" % (L.zlist(insh), L.zlist(osh), L.zlist(c["f"]), L.zlist_opt(c["shift"]),
                                                L.zlist(x.ravel()), L.zlist(np.asarray(y).ravel()))
    elif op == "a2b":
        x = labelled(rng, c["bat"] + c["N"])
        y = sp.array_to_blocks(x, c["B"], c["S"])
        r = ref_a2b(x, c["B"], c["S"])
        e = "chk_a2b %s %s %s %s %s %s" % (L.zlist(x.shape), L.zlist(y.shape), L.zlist(c["B"]), L.zlist(c["S"]),
                                           L.zlist(x.ravel()), L.zlist(np.asarray(y).ravel()))
    elif op == "b2a":
        nb = [(i - b + s) // s for i, b, s in zip(c["N"], c["B"], c["S"])]
        if any(n <= 0 for n in nb):
            return None
        x = labelled(rng, c["bat"] + nb + c["B"])
        osh = c["bat"] + c["N"]
        y = sp.blocks_to_array(x, osh, c["B"], c["S"])
        r = ref_b2a(x, osh, c["B"], c["S"])
        e = "chk_b2a %s %s %s %s %s %s" % (L.zlist(x.shape), L.zlist(osh), L.zlist(c["B"]), L.zlist(c["S"]),
                                           L.zlist(x.ravel()), L.zlist(np.asarray(y).ravel()))
    else:
        raise ValueError(op)
    return x, np.asarray(y), r, e


def nontrivial(c, x, y):
    return x.size > 1 and not (y.shape == x.shape and np.array_equal(x, y))


def corpus_cases():
    return [
        dict(op="resize", ish=[4], osh=[4], isf=[1], osf=[0]),          # F10: same shape, explicit shift
        dict(op="resize", ish=[3, 3], osh=[3, 3], isf=None, osf=[1, 0]),
        dict(op="resize", ish=[5], osh=[2], isf=None, osf=None),
        dict(op="resize", ish=[2], osh=[5], isf=None, osf=None),
        dict(op="resize", ish=[1, 4], osh=[3, 3], isf=None, osf=None),
        dict(op="b2a", bat=[], N=[6], B=[3], S=[1], kind="overlap"),
        dict(op="b2a", bat=[2], N=[7], B=[3], S=[2], kind="overlap"),
        dict(op="a2b", bat=[], N=[7], B=[3], S=[2], kind="overlap"),
        dict(op="a2b", bat=[1, 2], N=[5, 4], B=[2, 3], S=[2, 1], kind="any"),
        dict(op="b2a", bat=[2], N=[4, 3, 3], B=[2, 2, 1], S=[1, 2, 3], kind="any"),
        dict(op="circshift", sh=[5], shifts=[-7], axes=[-1]),
        dict(op="flip", sh=[3, 2], axes=[]),                          # the empty subset of axes: nothing is reversed
        dict(op="upsample", ish=[7], f=[3], shift=[2]),
        dict(op="downsample", ish=[7, 2], f=[3, 1], shift=[2, 0]),
    ]


def run(ctx):
    import json
    from tools import translate_all
    tr_err = translate_all.run(strict=False, only=["block"])
    ctx.source_hash("sigpy/block.py", "sigpy/util.py")
    ctx.obligation("translate:sigpy/block.py", not tr_err)
    # tie by translation (DESIGN 2.8): gen/Gen_util.v is regenerated from util.py (translate_all job "util") and compiled; its
    # lemmas gen_<f>_ok state that resize / flip / circshift / downsample / upsample as written equal model/Rearrange.v
    from tools import translate_util
    tie_broken = translate_util.tie(ctx)    # obligations "translate:sigpy/util.py (...)", "tie:generated == hand model (...)"
    proof_ok = False
    if tr_err:
        ctx.notes.append("translator failed closed: %s" % tr_err)
    else:
        proof_ok = ctx.prove("Prop_C09.v")
    sp = core.import_sigpy()
    rng = ctx.rng
    n = ctx.n(420, 9000)
    cases = list(corpus_cases())
    weights = [g for g in GENS for _ in range(g[2])]
    while len(cases) < n:
        name, g, _ = rng.choice(weights)
        cases.append(g(rng))
    done = []
    for c in cases:
        try:
            r = run_case(sp, rng, c)
        except Exception as e:      # valid input rejected / crashed
            ctx.count(c["op"] + ":exception", key=json.dumps(c, sort_keys=True), sample=c)
            ctx.violation("%s raised %s on a valid input" % (c["op"], type(e).__name__),
                          {"kind": "impl-exception", "case": c, "error": repr(e)}, signature="C09:exception:" + c["op"])
            continue
        if r is None:
            continue
        x, y, ref, expr = r
        ctx.count(c["op"], key=json.dumps(c, sort_keys=True), nontrivial=nontrivial(c, x, y),
                  sample={"params": c, "input": x.ravel().tolist()[:12], "output": y.ravel().tolist()[:12]})
        done.append(dict(case=c, x=x, y=y, ref=ref, expr=expr))
    # (a) implementation vs the documented closed form (oracle; also the source of failing inputs)
    bad_oracle = [d for d in done if d["y"].shape != d["ref"].shape or not np.array_equal(d["y"], d["ref"])]
    # (a') the same closed form on other element types (the Coq correspondence runs on the integer labels)
    import random as _random
    nval = 0
    for k, c in enumerate(cases):
        kind, conv = VALUE_KINDS[k % len(VALUE_KINDS)]
        _CONV[0] = conv
        try:
            r = run_case(sp, _random.Random(k), c)
        except Exception as e:
            ctx.violation("%s raised %s on a valid %s input" % (c["op"], type(e).__name__, kind),
                          {"kind": "impl-exception", "case": c, "dtype": kind, "error": repr(e)}, signature="C09:exception:%s:%s" % (c["op"], kind))
            continue
        finally:
            _CONV[0] = None
        if r is None:
            continue
        x, y, ref, _ = r
        nval += 1
        ctx.count("values:" + kind, key=json.dumps(c, sort_keys=True) + kind, nontrivial=nontrivial(c, x, y))
        if y.shape != ref.shape or not np.array_equal(y, ref):
            bad_oracle.append(dict(case=dict(c, element_type=kind), x=x, y=y, ref=ref, expr=None))
    # (b) implementation vs the Coq model
    failing = []
    corr_ok = True
    try:
        if not tr_err:
            if not ctx.make(["run/RunC09.vo"]):
                raise RuntimeError("run/RunC09.vo does not build")
            failing = L.run_bool_cases(ctx, "c09", HEADER, done)
    except RuntimeError as e:
        corr_ok = False
        ctx.notes.append("correspondence could not run: %s" % str(e)[:500])
    ctx.obligation("corr:model==impl (%d cases)" % len(done), corr_ok and not failing and not tr_err)
    ctx.obligation("oracle:impl==closed-form (%d cases)" % len(done), not bad_oracle)
    ctx.coverage["rule"] = ("seeded generator over 7 functions (resize incl. same-shape/rank-change/explicit shifts, flip, circshift "
                            "incl. negative and >n shifts and negative/repeated axes, down/upsample with shifts, blocks 1-3-D with "
                            "overlap/tile/gap/non-dividing strides and 0-2 batch dims) on labelled integer arrays (Coq correspondence) and, for the closed-form "
                            "oracle, also on complex128 / complex64 / float32 / float64 element values; "
                            "a case is non-trivial when the array has >1 element and the output differs from the input; "
                            "distinct = distinct parameter tuples")
    ctx.coverage["disagreements_model_vs_impl"] = len(failing)
    ctx.coverage["disagreements_oracle_vs_impl"] = len(bad_oracle)
    reported = set()
    for d in bad_oracle:
        c = d["case"]
        sig = "C09:%s:%s" % (c["op"], json.dumps(c, sort_keys=True))
        cls = classify(c) + (":" + c["element_type"] if c.get("element_type") else "")
        if cls in reported:
            continue
        reported.add(cls)
        ctx.violation("%s moves the wrong elements (%s)" % (c["op"], cls),
                      {"kind": "oracle", "case": c, "input": jl(d["x"]), "observed": jl(d["y"]),
                       "expected": jl(d["ref"])}, signature="C09:" + cls)
    for i in failing:
        d = done[i]
        c = d["case"]
        cls = classify(c)
        if cls in reported:
            continue
        reported.add(cls)
        agree = d["y"].shape == d["ref"].shape and np.array_equal(d["y"], d["ref"])
        ctx.violation("model and implementation disagree on %s (%s)" % (c["op"], cls),
                      {"kind": "correspondence", "broken": "corr:" + c["op"], "case": c, "input": d["x"].tolist(),
                       "observed": d["y"].tolist(), "closed_form": d["ref"].tolist()},
                      found_input=not agree, signature="C09:" + cls)
    if not proof_ok or tr_err or not corr_ok or tie_broken:
        # a proof obligation / a translator / the tie generated == hand model broke and no failing input was exhibited above
        if not ctx.violations:
            broken = getattr(ctx, "broken_proof", tie_broken or {"theorem": "translate:sigpy/block.py" if tr_err else "corr:coq-run",
                                                                 "log": str(tr_err)})
            ctx.violation("proof obligation no longer checks: %s" % broken.get("theorem"),
                          {"kind": "proof", "broken": broken}, found_input=False, signature="C09:proof")
    ctx.trusted += TRUSTED
    ctx.proved += PROVED
    ctx.validated_only += VALIDATED


def jl(a):
    """JSON-able nested list (complex entries as [re, im])"""
    a = np.asarray(a)
    if np.iscomplexobj(a):
        return np.stack([a.real, a.imag], axis=-1).tolist()
    return a.tolist()


def classify(c):
    op = c["op"]
    if op == "resize":
        i1, o1 = expand(c["ish"], c["osh"])
        return "resize:%s:%s" % ("same-shape" if i1 == o1 else "diff-shape",
                                 "shifts" if (c["isf"] is not None or c["osf"] is not None) else "default")
    if op in ("a2b", "b2a"):
        return "%s:%dD" % (op, len(c["B"]))
    return op


def replay(obj):
    sp = core.import_sigpy()
    import random
    c = obj["case"]
    _CONV[0] = dict(VALUE_KINDS).get(c.get("element_type"))
    try:
        r = run_case(sp, random.Random(0), c)
    finally:
        _CONV[0] = None
    x, y, ref, _ = r
    ok = y.shape == ref.shape and np.array_equal(y, ref)
    print("case", c, "\ninput", jl(x), "\nobserved", jl(y), "\nexpected", jl(ref), "\nagree:", ok)
    return 0 if ok else 1


TRUSTED = [
    "Coq 8.16.1 kernel + vm_compute (no native_compute, no extraction)",
    "tools/translate_loops.py (Python ast -> LoopIR) and LoopIR.exec as the reading of numba `for ... in range`",
    "hand models coq/model/Rearrange.v and Block.v wrappers, tied by this run's exact correspondence; Rearrange.v also by "
    "gen/Gen_util.v: the util functions regenerated from the source text on every run (tools/translate_util.py) with lemmas "
    "gen_<f>_ok : generated = hand model; trusted there: the translator's reading of the accepted Python fragment (notes/translate_util.md)",
    "numpy basic slicing / roll / reshape semantics as modelled in Rearrange.v",
]
PROVED = ["see coq/props/Prop_C09.v (theorem list in obligation_list)"]
VALIDATED = [
             "util.resize/flip/circshift/downsample/upsample: model == implementation by correspondence "
             "(and model == translated source text, gen/Gen_util.v)"]
