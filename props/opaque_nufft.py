"""opaque_nufft — run side of the opaque-leaf bridge for the NUFFT family (see notes/OPAQUE_BRIEF.md).

The REAL classes sp.linop.NUFFT / sp.linop.NUFFTAdjoint of /repo (built directly, or obtained as the .H of the dual class)
are applied to random complex arrays and compared with `orc_nufft` (coq/model/OpaqueNufft.v: the classes' _apply written
with the C06 function model coq/model/Nufft.v), evaluated inside Coq by vm_compute on hardware floats
(coq/run/RunOpaqueNufft.v: chk_opaque_nufft).  The leaf term is the serialisation of the real object (vlib/linser.py), so
what is compared is the argument passing of __init__ / _apply / _adjoint_linop: which shape goes where (ishape of NUFFT,
oshape AND input shape of NUFFTAdjoint), the captured coordinate array, the oversamp / width codes, the ignored
toeplitz flag.  Oracle data are passed exactly as props/C06.py does (its helpers are imported): numpy.pi, the
implementation's Kaiser-Bessel values at the bit-exact kernel arguments, numpy's sinh at the apodisation arguments,
DFT twiddle tables of the oversampled lengths.  Float arithmetic is not exact: agreement is 1e-6 (complex128 data) /
1e-4 (complex64 data) relative to the largest entry, as in C06.

cases(sp, rng, n)  -> list of dicts with "expr" (+ "info") for coqlit.run_bool_cases (HEADER below)
selftest()         -> runs ~64 random leaves (+ .H term checks and rejected constructors) on /repo, prints the disagreements
"""
import math
import os
import sys
import time
import numpy as np
from vlib import core, coqlit as L, linser
from props import C06

HEADER = """From Coq Require Import ZArith List Bool PrimFloat.
From SV Require Import lib.Scalar lib.NdArray lib.FloatRun model.Block model.Linop model.OpaqueNufft run.RunC06 run.RunOpaqueNufft.
Import ListNotations.
Local Open Scope Z_scope.
"""
PI = float(np.pi)
OVERSAMPS = [1.25, 1.25, 1.5, 2.0, 1.375, 1.3]
WIDTHS = [4, 4, 4.0, 3, 3.0, 6, 5, 2.5, 4.5]          # python ints as well as floats (the default is the int 4)
KINDS = ["NUFFT", "NUFFT:toeplitz", "NUFFT.H", "NUFFT:toeplitz.H", "NUFFTAdjoint", "NUFFTAdjoint.H"]


def real_branch(shape, oversamp, width):
    """the range in which nufft stays in the reals (coq/model/OpaqueNufft.nufft_real_okb)"""
    r = ((width / oversamp) * (oversamp - 0.5)) ** 2 - 0.8
    if r < 0:
        return False
    beta = np.pi * r ** 0.5
    for i in shape:
        os_i = math.ceil(oversamp * i)
        for k in range(i):
            if beta ** 2 - (np.pi * width * (k - i // 2) / os_i) ** 2 < 0:
                return False
    return True


def gen_config(rng):
    nd = rng.choice([1, 1, 2, 2, 3])
    if nd == 1:
        grid = [rng.choice([1, 2, 3, 4, 5, 6, 7, 8, 9, 11])]
    elif nd == 2:
        grid = [rng.randint(1, 6), rng.randint(1, 6)]
    else:
        grid = [rng.randint(1, 3), rng.randint(1, 3), rng.randint(1, 4)]
    bat = rng.choice([[], [], [2], [1], [3], [2, 1], [1, 2]])
    if nd == 3 and len(bat) == 2:
        bat = bat[:1]
    mx = {1: 9, 2: 5, 3: 3}[nd]
    pts = rng.choice([[rng.randint(1, mx)], [rng.randint(1, mx)], [2, rng.randint(1, max(1, mx // 2))], [1, 1, 2], [1], []])
    while True:
        oversamp = rng.choice(OVERSAMPS)
        width = rng.choice(WIDTHS)
        if real_branch(grid, oversamp, float(width)):
            break
    return dict(nd=nd, grid=grid, bat=bat, pts=pts, oversamp=oversamp, width=width, ckind=rng.choice(C06.KINDS),
                c64=rng.random() < 0.15, default_args=rng.random() < 0.2)


def build(sp, kind, c, coord):
    """the real operator object: constructed directly, or as the .H of the dual class"""
    shape = c["bat"] + c["grid"]
    if c["default_args"]:
        kw = {}
    else:
        kw = dict(oversamp=c["oversamp"], width=c["width"])
    base = kind.split(".")[0]
    if base.startswith("NUFFTAdjoint"):
        A = sp.linop.NUFFTAdjoint(shape, coord, **kw)
    else:
        A = sp.linop.NUFFT(shape, coord, toeplitz=base.endswith(":toeplitz"), **kw)
    return (A.H if kind.endswith(".H") else A), A


def env_literals(sp, S, A, c):
    """pi, Kaiser-Bessel table, sinh table, twiddle table, coordinate arrays, parameter codes"""
    oversamp, width = float(A.oversamp), float(A.width)
    shape = c["bat"] + c["grid"]
    beta_i, beta_g = C06.capture_beta(sp, A.oversamp, A.width)
    beta = beta_g if type(A).__name__ == "NUFFTAdjoint" else beta_i
    scoord = sp.fourier._scale_coord(A.coord, shape, A.oversamp)
    os_axes = [math.ceil(A.oversamp * n) for n in c["grid"]]
    coords = "[" + "; ".join("(%d, (%s, %s))" % (t, L.zlist(a.shape), L.flist(np.ravel(a))) for t, a in S.arrays.values()) + "]"
    params = "[" + "; ".join("(%d, %s)" % (code, L.flt(key[1])) for key, code in S.params.items()) + "]"
    return "%s %s %s %s %s %s" % (L.flt(PI), C06.kb_table(sp, scoord, width, beta), C06.sinh_table(c["grid"], oversamp, width, beta),
                                  C06.tw_table(os_axes), coords, params), params


def leaf_case(sp, rng, nrng, kind):
    c = gen_config(rng)
    if c["default_args"]:
        c["oversamp"], c["width"] = 1.25, 4
        if not real_branch(c["grid"], 1.25, 4.0):
            c["default_args"] = False
    coord = C06.gen_coord(rng, nrng, c["grid"], int(np.prod(c["pts"])), c["ckind"]).reshape(c["pts"] + [c["nd"]])
    A, A0 = build(sp, kind, c, coord)
    S = linser.Serializer()
    term = S.term(A)
    dt = np.complex64 if c["c64"] else np.complex128
    x = np.asarray(C06.crandn(nrng, tuple(A.ishape), dt))       # 0-d arrays stay arrays (a numpy scalar would mean scaling)
    y = np.asarray(A(x.copy()))
    assert list(y.shape) == list(A.oshape)
    env, params = env_literals(sp, S, A, c)
    tol = 1e-4 if c["c64"] else 1e-6
    expr = "chk_opaque_nufft %s %s %s %s %s %s %s" % (term, env, L.zlist(A.oshape), L.zlist(A.ishape), L.cflist(x.ravel()),
                                                      L.cflist(y.ravel()), L.flt(tol))
    if kind.endswith(".H"):
        # the object returned by _adjoint_linop of the dual class serialises to adj(dual) (same Serializer: same tags/codes)
        S2 = linser.Serializer()
        t0 = S2.term(A0)
        tH = S2.term(A0.H)
        expr = "(chk_adj_term %s %s && %s)" % (t0, tH, expr)
    # numeric dot test of the implementation on the same operator (C01 oracle)
    u = np.asarray(C06.crandn(nrng, tuple(A.oshape)))
    v = np.asarray(C06.crandn(nrng, tuple(A.ishape)))
    lhs, rhs = np.vdot(u, A(v.copy())), np.vdot(A.H(u.copy()), v)
    dot = float(abs(lhs - rhs) / max(np.linalg.norm(u) * np.linalg.norm(np.asarray(A(v.copy()))), 1e-30))
    info = dict(kind="leaf", cls=type(A).__name__, built=kind, nd=c["nd"], grid=c["grid"], bat=c["bat"], pts=c["pts"],
                oversamp=float(A.oversamp), width=A.width, width_type=type(A.width).__name__, coords=c["ckind"], c64=c["c64"],
                default_args=c["default_args"], toeplitz=bool(getattr(A, "toeplitz", False)), dot=dot, dot_ok=dot <= 1e-9,
                nontrivial=bool(np.any(y != 0)))
    # negative controls (must evaluate to false): the output scaled by 1.001; the two parameter codes exchanged
    swapped = "[" + "; ".join("(%d, %s)" % (code, L.flt(A.width if key[0] == "oversamp" else A.oversamp)) for key, code in S.params.items()) + "]"
    controls = ["chk_opaque_nufft %s %s %s %s %s %s %s" % (term, env, L.zlist(A.oshape), L.zlist(A.ishape), L.cflist(x.ravel()),
                                                           L.cflist(1.001 * y.ravel()), L.flt(tol)),
                "chk_opaque_nufft %s %s %s %s %s %s %s" % (term, env.replace(params, swapped), L.zlist(A.oshape), L.zlist(A.ishape),
                                                           L.cflist(x.ravel()), L.cflist(y.ravel()), L.flt(tol))]
    return dict(expr=expr, info=info, controls=controls)


def reject_case(sp, rng, nrng):
    """constructor calls whose _apply cannot run: ndim outside 1..3, fewer image axes than ndim, complex beta.
    (the constructors themselves do not validate: the failure surfaces at apply time)"""
    what = rng.choice(["ndim4", "ndim0", "short", "complex-beta"])
    kw = {}
    if what == "ndim4":
        shape, coord = [2, 2, 2, 2], nrng.standard_normal((3, 4))
    elif what == "ndim0":
        shape, coord = [3, 4], nrng.standard_normal((3, 0))
    elif what == "short":
        shape, coord = [5], nrng.standard_normal((3, 2))
    else:
        shape, coord, kw = [5, 6], nrng.standard_normal((3, 2)), dict(width=1)
    cls = rng.choice(["NUFFT", "NUFFTAdjoint"])
    A = getattr(sp.linop, cls)(shape, coord, **kw)
    raised = False
    try:
        A(C06.crandn(nrng, list(A.ishape)))
    except Exception:
        raised = True
    S = linser.Serializer()
    term = S.term(A)
    params = "[" + "; ".join("(%d, %s)" % (code, L.flt(key[1])) for key, code in S.params.items()) + "]"
    expr = "chk_rejected %s %s %s" % (L.flt(PI), term, params) if raised else "false"
    return dict(expr=expr, info=dict(kind="reject", what=what, cls=cls, python_raised=raised, dot_ok=True, nontrivial=True))


def cases(sp, rng, n):
    nrng = np.random.default_rng(rng.randrange(2 ** 31))
    out = []
    for k in range(n):
        out.append(leaf_case(sp, rng, nrng, KINDS[k % len(KINDS)]))
    for _ in range(max(2, n // 10)):
        out.append(reject_case(sp, rng, nrng))
    return out


def _ensure_built():
    for rel in ("model/OpaqueNufft", "run/RunOpaqueNufft"):
        v, vo = os.path.join(core.COQ, rel + ".v"), os.path.join(core.COQ, rel + ".vo")
        if not os.path.exists(vo) or os.path.getmtime(vo) < os.path.getmtime(v):
            rc, out, _ = core.sh(["coqc", "-w", "-all", "-Q", ".", "SV", rel + ".v"], cwd=core.COQ, timeout=600)
            if rc != 0:
                raise RuntimeError("coqc %s.v failed:\n%s" % (rel, out[-2000:]))


def selftest(n=66, seed=20261001):
    import random
    import shutil
    t0 = time.time()
    _ensure_built()
    sp = core.import_sigpy()
    ctx = core.Ctx("opaque_nufft", "quick", seed)
    rng = random.Random(seed)
    cs = cases(sp, rng, n)
    failing = L.run_bool_cases(ctx, "opaque_nufft", HEADER, cs, per_file=6, timeout=1500)
    # negative controls: perturbed expectations / exchanged parameter codes of the first leaves must be REJECTED by the checker
    ctl = [dict(expr=e) for c in cs[:4] if "controls" in c for e in c["controls"]]
    ctl_failing = L.run_bool_cases(ctx, "opaque_nufft_ctl", HEADER, ctl, per_file=4, timeout=1500)
    ctl_missed = len(ctl) - len(ctl_failing)
    hist = {}
    for c in cs:
        i = c["info"]
        k = "reject:%s" % i["what"] if i["kind"] == "reject" else "%s:%dD:bat%d:pts%d%s" % (
            i["built"], i["nd"], len(i["bat"]), len(i["pts"]), ":c64" if i["c64"] else "")
        if i["kind"] == "leaf" and i["default_args"]:
            k += ":defaults"
        hist[k] = hist.get(k, 0) + 1
    dots = [c["info"] for c in cs if not c["info"]["dot_ok"]]
    print("opaque_nufft selftest: %d cases (%d leaves, %d rejected constructors), %d distinct classes, non-trivial %d"
          % (len(cs), sum(1 for c in cs if c["info"]["kind"] == "leaf"), sum(1 for c in cs if c["info"]["kind"] == "reject"),
             len(hist), sum(1 for c in cs if c["info"]["nontrivial"])))
    print("  " + ", ".join("%s x%d" % kv for kv in sorted(hist.items())))
    for i in failing:
        print("DISAGREE", cs[i]["info"])
    for d in dots:
        print("DOT-TEST FAILS ON THE IMPLEMENTATION", d)
    print("disagreements model vs implementation: %d; dot-test failures of the implementation (1e-9): %d; worst dot %.2e; %.1fs"
          % (len(failing), len(dots), max([c["info"].get("dot", 0.0) for c in cs] + [0.0]), time.time() - t0))
    print("negative controls (scaled output, exchanged oversamp/width codes): %d of %d rejected" % (len(ctl_failing), len(ctl)))
    shutil.rmtree(ctx.scratch, ignore_errors=True)
    return len(failing) + len(dots) + ctl_missed


if __name__ == "__main__":
    sys.exit(1 if selftest() else 0)
