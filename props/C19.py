"""C19 — Bloch simulators are unitary and invert the SLR pulse design.

Proof: coq/props/Prop_C19.v over R (complex numbers as pairs, real cos/sin): every coded step multiplies
|a|^2+|b|^2 by |alpha|^2+|beta|^2; per simulator the exact product formula over ANY waveform (=1 for abrm_hp,
blochsim, abrm_ptx; prod(cos^2+rho^2 sin^2) with the epsilon regulariser for abrm, abrm_nd); zero RF => b = 0;
composition; ab2rf's peeling inverts the forward hard-pulse recursion.
Tie: the same Gallina terms on PrimFloat (coq/run/RunC19.v), cos/sin supplied as a table that the model looks up by
the angle it computes itself; (a, b) of the implementation compared with the model per position (1e-9).
Oracle on the implementation: | |a|^2+|b|^2 - 1 |, zero pulse, composition, b2rf + abrm_hp round trip of |B| (1e-6).
"""
import json, math
import numpy as np
from vlib import core, coqlit as L

HEADER = """From Coq Require Import ZArith List Bool PrimFloat.
From SV Require Import lib.FloatRun model.Bloch run.RunC19.
Import ListNotations.
"""
EPS = 1e-16
GAM = 267.522 * 1e6 / 1000
TOL_UNIT = 1e-9
TOL_SLR = 1e-6
SIMS = ["abrm", "abrm_nd", "abrm_hp", "blochsim", "abrm_ptx"]


# ---------------------------------------------------------------- literals
def cx(z):
    z = complex(z)
    return "(%s, %s)" % (L.flt(z.real), L.flt(z.imag))


def table(entries):
    """entries: iterable of angles -> Coq Tab with exact cos/sin of those angles (deduplicated)"""
    seen, out = set(), []
    for t in entries:
        t = float(t)
        if t in seen:
            continue
        seen.add(t)
        out.append("(%s, (%s, %s))" % (L.flt(t), L.flt(math.cos(t)), L.flt(math.sin(t))))
    return "[" + "; ".join(out) + "]"


def c2l(v):
    return [[float(np.real(z)), float(np.imag(z))] for z in np.asarray(v).ravel()]


def l2c(l):
    return np.array([complex(a, b) for a, b in l], dtype=np.complex128)


# ---------------------------------------------------------------- generators
def gen_rf(rng, nprng, nt, kind):
    if kind == "zero":
        return np.zeros(nt, dtype=np.complex128)
    scale = {"small": 0.02, "medium": 0.5, "large": 4.0}[kind]
    rf = scale * (nprng.normal(size=nt) + 1j * nprng.normal(size=nt))
    if kind != "large" and rng.random() < 0.3:
        rf = rf.real.astype(np.complex128)           # real pulse
    if nt > 2 and rng.random() < 0.4:
        rf[rng.randrange(nt)] = 0.0                   # a silent sample
    return rf


def gen_case(rng, sim):
    nprng = np.random.default_rng(rng.getrandbits(32))
    nt = rng.choice([1, 1, 2, 3, 4, 5, 8, 8, 13, 16, 16, 32, 32, 64, 128, 256])
    npos = rng.randint(1, 3) if nt <= 64 else 1
    kind = rng.choice(["zero", "small", "medium", "medium", "large"])
    rf = gen_rf(rng, nprng, nt, kind)
    c = dict(sim=sim, kind=kind, nt=nt, rf=c2l(rf))
    if sim == "abrm":
        x = nprng.uniform(-nt / 2, nt / 2, size=npos)
        if rng.random() < 0.3:
            x[0] = rng.choice([0.0, 1.0, -1.0, float(nt) / 2])
        c.update(x=x.tolist(), balanced=rng.random() < 0.4)
    elif sim in ("abrm_nd", "blochsim"):
        ndim = rng.randint(1, 3)
        x = nprng.uniform(-8, 8, size=(npos, ndim))
        g = nprng.normal(size=(nt, ndim)) * rng.choice([0.0, 0.05, 0.5])
        if rng.random() < 0.2:
            x[0, :] = 0.0
        c.update(x=x.tolist(), g=g.tolist(), ndim=ndim, oned=(sim == "blochsim" and ndim == 1 and rng.random() < 0.5))
    elif sim == "abrm_hp":
        x = nprng.uniform(-nt / 2, nt / 2, size=npos)
        g = (np.ones(nt) * 2 * np.pi / nt) if rng.random() < 0.5 else nprng.normal(size=nt) * 0.3
        c.update(x=x.tolist(), g=g.tolist(), dom0dt=rng.choice([0, 0, 0.01, -0.2]))
    elif sim == "abrm_ptx":
        dim = rng.choice([1, 2])
        ns = dim * dim
        nc = rng.randint(1, 3)
        ndim = rng.randint(1, 3)
        amp = {"zero": 0.0, "small": 0.02, "medium": 0.5, "large": 3.0}[kind]
        b1 = amp * (nprng.normal(size=(nc, nt)) + 1j * nprng.normal(size=(nc, nt)))
        if nt > 2 and rng.random() < 0.4:
            b1[:, rng.randrange(nt)] = 0.0
        x = nprng.uniform(-0.1, 0.1, size=(ns, ndim))
        if rng.random() < 0.3:
            x[0, :] = 0.0                                        # phi = 0 when b1 is silent there
        g = nprng.normal(size=(nt, ndim)) * rng.choice([0.0, 1.0, 10.0])
        sens = None
        if rng.random() < 0.5:
            sens = nprng.normal(size=(nc, dim, dim)) + 1j * nprng.normal(size=(nc, dim, dim))
        fmap = None
        if rng.random() < 0.4:
            fmap = nprng.normal(size=ns) * 50.0
        c.update(nt=nt, b1=[c2l(r) for r in b1], x=x.tolist(), g=g.tolist(), dt=rng.choice([4e-6, 1e-5]),
                 sens=None if sens is None else [[c2l(rr) for rr in s] for s in sens],
                 fmap=None if fmap is None else fmap.tolist(), dim=dim)
        del c["rf"]
    return c


def corpus_cases():
    one = [[1.0, 0.0]]
    return [
        dict(sim="abrm", kind="zero", nt=1, rf=[[0.0, 0.0]], x=[1.0], balanced=False),     # a = -1, b = 0: correct
        dict(sim="abrm", kind="zero", nt=4, rf=[[0.0, 0.0]] * 4, x=[0.0, 0.5], balanced=True),
        dict(sim="abrm", kind="medium", nt=1, rf=one, x=[0.0], balanced=False),
        dict(sim="abrm_nd", kind="medium", nt=2, rf=[[0.3, 0.1], [0.0, 0.0]], x=[[0.0, 0.0]], g=[[0.1, 0.2], [0.3, 0.0]], ndim=2, oned=False),
        dict(sim="abrm_hp", kind="medium", nt=2, rf=[[0.3, 0.1], [0.0, 2.0]], x=[0.25], g=[math.pi, math.pi], dom0dt=0),
        dict(sim="blochsim", kind="large", nt=1, rf=[[0.0, 4.0]], x=[[1.0]], g=[[0.5]], ndim=1, oned=False),
        dict(sim="blochsim", kind="medium", nt=3, rf=[[0.1, 0.0], [0.2, 0.0], [0.3, 0.0]], x=[[2.0]], g=[[0.5], [0.1], [-0.2]], ndim=1, oned=True),
    ]


# ---------------------------------------------------------------- running the implementation
def mods():
    from sigpy.mri.rf import sim, optcont, slr
    return sim, optcont, slr


def _args(c, sl=None):
    """the argument arrays of one call (kept so that the same objects can be handed over twice)"""
    s = c["sim"]
    sl = sl or slice(None)
    if s == "abrm_ptx":
        b1 = np.array([l2c(r) for r in c["b1"]])[:, sl]
        x, g = np.array(c["x"], dtype=float), np.array(c["g"], dtype=float)[sl]
        sens = None if c["sens"] is None else np.array([[l2c(rr) for rr in sp] for sp in c["sens"]])
        fmap = None if c["fmap"] is None else np.array(c["fmap"], dtype=float)
        return dict(b1=b1, x=x, g=g, sens=sens, fmap=fmap)
    rf = l2c(c["rf"])[sl]
    if s == "abrm":
        return dict(rf=rf, x=np.array(c["x"], dtype=float))
    if s == "abrm_nd":
        return dict(rf=rf, x=np.array(c["x"], dtype=float), g=np.array(c["g"], dtype=float)[sl])
    if s == "abrm_hp":
        return dict(rf=rf, g=np.array(c["g"], dtype=float)[sl], x=np.array(c["x"], dtype=float))
    x, g = np.array(c["x"], dtype=float), np.array(c["g"], dtype=float)[sl]
    if c.get("oned"):
        x, g = np.ascontiguousarray(x[:, 0]), np.ascontiguousarray(g[:, 0])
    return dict(rf=rf, x=x, g=g)


def _call(c, A):
    sim, optcont, _ = mods()
    s = c["sim"]
    if s == "abrm_ptx":
        a, b, _, _ = sim.abrm_ptx(A["b1"], A["x"], A["g"], c["dt"], fmap=A["fmap"], sens=A["sens"])
    elif s == "abrm":
        a, b = sim.abrm(A["rf"], A["x"], c["balanced"])
    elif s == "abrm_nd":
        a, b = sim.abrm_nd(A["rf"], A["x"], A["g"])
    elif s == "abrm_hp":
        a, b = sim.abrm_hp(A["rf"], A["g"], A["x"], c["dom0dt"])
    else:
        a, b = optcont.blochsim(A["rf"], A["x"], A["g"])
    return np.asarray(a).ravel().astype(complex), np.asarray(b).ravel().astype(complex)


def run_impl(c, sl=None):
    """(a, b) per position as 1-D complex arrays; sl = slice over time (for the composition oracle)"""
    return _call(c, _args(c, sl))


def reuse_oracle(c, a, b):
    """the same argument OBJECTS handed over twice: identical rotations, arguments untouched (a simulator that scales / shifts the
    caller's position or waveform array in place is invisible to calls on fresh arrays)"""
    A = _args(c)
    snap = {k: (None if v is None else np.array(v, copy=True)) for k, v in A.items()}
    a1, b1 = _call(c, A)
    a2, b2 = _call(c, A)
    bad = []
    for k, v in A.items():
        if v is not None and not np.array_equal(v, snap[k]):
            bad.append(("argument-unchanged (%s)" % k, "the caller's array as passed", "modified in place"))
    d = float(max(np.max(np.abs(a1 - a2)), np.max(np.abs(b1 - b2)), np.max(np.abs(a1 - a)), np.max(np.abs(b1 - b))))
    if d > 0:
        bad.append(("same-arguments-same-rotation", 0.0, d))
    return bad


def ptx_rows(c):
    """bxy-relevant per-position data exactly as abrm_ptx prepares it"""
    dim, ns = c["dim"], c["dim"] ** 2
    nc = len(c["b1"])
    if c["sens"] is None:
        sens = np.ones((ns, nc))
    else:
        sens = np.array([[l2c(rr) for rr in sp] for sp in c["sens"]])
        sens = np.reshape(np.transpose(sens), (ns, nc))
    boff = np.zeros(ns)
    if c["fmap"] is not None and np.sum(np.abs(c["fmap"])) != 0:
        boff = np.array(c["fmap"], dtype=float).flatten() / GAM * 2 * np.pi
    return sens, boff


# ---------------------------------------------------------------- Coq expression (inputs, trig tables, impl output)
def coq_expr(c, a, b):
    s = c["sim"]
    if s == "abrm_ptx":
        b1 = np.array([l2c(r) for r in c["b1"]])
        x, g = np.array(c["x"], dtype=float), np.array(c["g"], dtype=float)
        sens, boff = ptx_rows(c)
        dtgam = c["dt"] * GAM
        bxy = sens @ b1
        bz = x @ g.T + boff[:, None]
        pos = []
        for p in range(x.shape[0]):
            phi = dtgam * np.sqrt(np.abs(bxy[p]) ** 2 + bz[p] ** 2)
            pos.append("(%s, %s, %s, %s, %s, %s)" % (L.flist(x[p]), L.cflist(sens[p]), L.flt(boff[p]), table(phi / 2), cx(a[p]), cx(b[p])))
        b1g = "[" + "; ".join("(%s, %s)" % (L.cflist(b1[:, t]), L.flist(g[t])) for t in range(b1.shape[1])) + "]"
        return "chk_abrm_ptx %s %s [%s]" % (L.flt(dtgam), b1g, "; ".join(pos))
    rf = l2c(c["rf"])
    nt = len(rf)
    pos = []
    if s == "abrm":
        x = np.array(c["x"], dtype=float)
        g = np.ones(nt) * 2 * np.pi / nt
        for p in range(len(x)):
            om = x[p] * g
            phi = np.sqrt(np.abs(rf) ** 2 + om ** 2) + EPS
            keys = list(phi / 2)
            if c["balanced"]:
                keys.append((abs(x[p] * (-2 * np.pi / 2)) + EPS) / 2)
            pos.append("(%s, %s, %s, %s)" % (L.flt(x[p]), table(keys), cx(a[p]), cx(b[p])))
        return "chk_abrm %s %s %s [%s]" % (L.flt(np.pi), L.cflist(rf), L.boolean(c["balanced"]), "; ".join(pos))
    if s in ("abrm_nd", "blochsim"):
        x, g = np.array(c["x"], dtype=float), np.array(c["g"], dtype=float)
        for p in range(x.shape[0]):
            om = g @ x[p]
            if s == "abrm_nd":
                keys = list(np.sqrt(np.abs(rf) ** 2 + om ** 2) / 2)
            else:
                keys = list(np.abs(rf) / 2) + list(om) + [float(np.sum(g, 0) @ x[p]) / 2]
            pos.append("(%s, %s, %s, %s)" % (L.flist(x[p]), table(keys), cx(a[p]), cx(b[p])))
        rfg = "[" + "; ".join("(%s, %s)" % (cx(rf[t]), L.flist(g[t])) for t in range(nt)) + "]"
        return "chk_%s %s [%s]" % (s, rfg, "; ".join(pos))
    if s == "abrm_hp":
        x, g = np.array(c["x"], dtype=float), np.array(c["g"], dtype=float)
        d = float(c["dom0dt"])
        for p in range(len(x)):
            keys = list(np.abs(rf) / 2) + list(x[p] * g + d) + [(x[p] * np.sum(g) + nt * d) / 2]
            pos.append("(%s, %s, %s, %s)" % (L.flt(x[p]), table(keys), cx(a[p]), cx(b[p])))
        rfg = "[" + "; ".join("(%s, %s)" % (cx(rf[t]), L.flt(g[t])) for t in range(nt)) + "]"
        return "chk_abrm_hp %s %s [%s]" % (rfg, L.flt(d), "; ".join(pos))
    raise ValueError(s)


# ---------------------------------------------------------------- oracle on the implementation
def compose(a1, b1, a2, b2):
    """first column of M2*M1 with M = [[a, -conj b], [b, conj a]]"""
    return a2 * a1 - np.conj(b2) * b1, b2 * a1 + np.conj(a2) * b1


def oracle(c, a, b):
    bad = []
    s = c["sim"]
    if not (np.all(np.isfinite(a)) and np.all(np.isfinite(b))):
        return [("finite", "finite a, b", "nan/inf")]
    dev = float(np.max(np.abs(np.abs(a) ** 2 + np.abs(b) ** 2 - 1)))
    if dev > TOL_UNIT:
        bad.append(("unitarity", "| |a|^2+|b|^2 - 1 | <= %g" % TOL_UNIT, dev))
    if c["kind"] == "zero":
        if float(np.max(np.abs(b))) > 1e-12:
            bad.append(("zero-pulse b=0", 0.0, float(np.max(np.abs(b)))))
        if float(np.max(np.abs(np.abs(a) - 1))) > TOL_UNIT:
            bad.append(("zero-pulse |a|=1", 1.0, float(np.max(np.abs(np.abs(a) - 1)))))
    nt = c["nt"]
    if s != "abrm" and nt >= 2:                 # abrm's gradient 2*pi/N depends on the length: no composition there
        k = max(1, nt // 3)
        a1, b1 = run_impl(c, slice(0, k))
        a2, b2 = run_impl(c, slice(k, None))
        if s == "abrm_ptx":                      # state (sa, sb) = (a, -conj b) is the first column
            sa, sb = compose(a1, -np.conj(b1), a2, -np.conj(b2))
            ea, eb = sa, -np.conj(sb)
        else:
            ea, eb = compose(a1, b1, a2, b2)
        d = float(max(np.max(np.abs(ea - a)), np.max(np.abs(eb - b))))
        if d > TOL_UNIT:
            bad.append(("composition", "sim(w1++w2) = sim(w2) o sim(w1) (split at %d)" % k, d))
    return bad


# ---------------------------------------------------------------- SLR
def slr_polys(rng):
    """beta polynomials: dzrf designs for every ptype x ftype, and random complex ones with max|B| < 1"""
    _, _, slr = mods()
    out = []
    for pt in ("ex", "se", "inv", "sat"):
        for ft in ("ms", "pm", "min", "max", "ls"):
            # lengths with small and with large prime factors (FFT sizes inside b2a / mag2mp are multiples of the length)
            n, tb = rng.choice([(16, 4), (32, 4), (64, 8), (64, 4), (48, 6), (26, 4), (34, 4), (38, 4), (52, 4), (58, 6), (46, 4)])
            bsf, d1, d2 = slr.calc_ripples(pt, 0.01, 0.01)
            try:
                if ft == "ms":
                    b = slr.msinc(n, tb / 4)
                elif ft == "pm":
                    b = slr.dzlp(n, tb, d1, d2)
                elif ft == "min":
                    b = slr.dzmp(n, tb, d1, d2)[::-1]
                elif ft == "max":
                    b = slr.dzmp(n, tb, d1, d2)
                else:
                    b = slr.dzls(n, tb, d1, d2)
            except ValueError:          # scipy's filter designer rejects the band edges: not an SLR question
                continue
            out.append(dict(kind="dzrf:%s:%s" % (pt, ft), n=n, tb=tb, ptype=pt, ftype=ft, b=c2l(bsf * np.asarray(b))))
    nprng = np.random.default_rng(rng.getrandbits(32))
    for _ in range(14):
        n = rng.choice([1, 2, 3, 4, 8, 16, 32, 64, 5, 7, 11, 13, 17, 19, 23, 29, 31, 37, 26, 39])
        b = nprng.normal(size=n) + 1j * nprng.normal(size=n)
        b = b / np.max(np.abs(np.fft.fft(b, 16 * n))) * rng.uniform(0.05, 0.97)
        out.append(dict(kind="random-complex", n=n, b=c2l(b)))
        if n >= 4 and len(out) % 3 == 0:
            # the same coefficient MAGNITUDES with other phases, designed right after each other in one process: the minimum-phase
            # alpha depends on |B(w)| on the circle, not on the coefficient magnitudes
            k = np.arange(n)
            for nm, bv in (("conj", np.conj(b)), ("alternating-sign", b * (-1.0) ** k), ("quarter-turns", b * (1j) ** k)):
                # (multiplication by +-1, +-i and conjugation are exact: the magnitudes are bit-identical, and the frequency
                # response is only reflected / shifted by a multiple of pi/2, so max|B| is unchanged)
                out.append(dict(kind="random-complex:" + nm, n=n, b=c2l(bv)))
    return out


def slr_oracle(c):
    """returns (in_quantifier, bad, rf, a_poly)"""
    sim, _, slr = mods()
    b = l2c(c["b"])
    n = len(b)
    bfmax = float(np.max(np.abs(np.fft.fft(b, 16 * n))))
    if bfmax >= 1:
        return False, [], None, None
    a_poly = slr.b2a(b)
    rf = slr.ab2rf(a_poly, b)
    bad = []
    rf2 = slr.b2rf(b)
    if np.max(np.abs(rf2 - rf)) > 0:
        bad.append(("b2rf == ab2rf(b2a(b), b)", 0.0, float(np.max(np.abs(rf2 - rf)))))
    if c["kind"].startswith("dzrf"):
        rfd = slr.dzrf(c["n"], c["tb"], ptype=c["ptype"], ftype=c["ftype"])
        if np.max(np.abs(rfd - rf)) > 1e-12:
            bad.append(("dzrf == b2rf(bsf*filter)", 0.0, float(np.max(np.abs(rfd - rf)))))
    x = np.arange(-n / 2, n / 2, 0.25)
    g = np.ones(n) * 2 * np.pi / n
    a_s, b_s = sim.abrm_hp(rf, g, x)
    om = x * 2 * np.pi / n
    B = np.array([np.sum(b * np.exp(-1j * w * np.arange(n))) for w in om])
    d = float(np.max(np.abs(np.abs(b_s) - np.abs(B))))
    if not np.isfinite(d) or d > TOL_SLR:
        bad.append(("|B| round trip through b2rf + abrm_hp", "<= %g" % TOL_SLR, d))
    if float(np.max(np.abs(rf))) >= 2 * math.pi:
        bad.append(("|theta_j| < pi", "< 2*pi", float(np.max(np.abs(rf)))))
    return True, bad, rf, a_poly


def slr_expr(c, rf, a_poly):
    b = l2c(c["b"])
    exp = "[" + "; ".join("(%s, %s)" % (L.flt(math.cos(abs(r) / 2)), cx(np.exp(1j * np.angle(r)) * math.sin(abs(r) / 2))) for r in rf) + "]"
    return "chk_ab2cs %s %s %s" % (L.cflist(a_poly), L.cflist(b), exp)


# ---------------------------------------------------------------- the check
def run(ctx):
    ctx.source_hash("sigpy/mri/rf/sim.py", "sigpy/mri/rf/optcont.py", "sigpy/mri/rf/slr.py")
    proof_ok = ctx.prove("Prop_C19.v")
    # tie by translation (DESIGN 2.8): gen/Gen_bloch.v is regenerated from sim.py / optcont.py / slr.py (translate_all job
    # "bloch") and compiled; its lemmas state generated loop bodies / loops / functions == coq/model/Bloch.v (and ab2rf == Slr2.ab2rf)
    from tools import translate_bloch
    tie_broken = translate_bloch.tie(ctx)    # obligations "translate:sigpy/mri/rf/sim.py, ..." and "tie:generated == hand model (...)"
    core.import_sigpy()
    rng = ctx.rng
    n = ctx.n(240, 4000)
    cases = list(corpus_cases())
    while len(cases) < n:
        cases.append(gen_case(rng, SIMS[len(cases) % len(SIMS)]))
    done, reported, n_bad = [], set(), 0
    for c in cases:
        key = json.dumps(c, sort_keys=True)
        try:
            a, b = run_impl(c)
            bad = oracle(c, a, b) + reuse_oracle(c, a, b)
        except Exception as e:
            ctx.count(c["sim"] + ":exception", key=key, sample={k: v for k, v in c.items() if k in ("sim", "kind", "nt")})
            n_bad += 1
            sig = "C19:%s:exception" % c["sim"]
            if sig not in reported:
                reported.add(sig)
                ctx.violation("%s raised %s on a valid input" % (c["sim"], type(e).__name__),
                              {"kind": "impl-exception", "case": c, "expected": "(a, b)", "observed": repr(e)}, signature=sig)
            continue
        ctx.count("%s:%s" % (c["sim"], c["kind"]), key=key, nontrivial=(c["kind"] != "zero" or c["nt"] > 1),
                  sample={"sim": c["sim"], "kind": c["kind"], "nt": c["nt"], "positions": len(a),
                          "a0": [a[0].real, a[0].imag], "b0": [b[0].real, b[0].imag]})
        if bad:
            n_bad += 1
            for cond, exp, obs in bad:
                sig = "C19:%s:%s" % (c["sim"], cond.split(" ")[0])
                if sig in reported:
                    continue
                reported.add(sig)
                ctx.violation("%s violates %s" % (c["sim"], cond),
                              {"kind": "oracle", "case": c, "condition": cond, "expected": exp, "observed": obs,
                               "a": c2l(a), "b": c2l(b)}, signature=sig)
        done.append(dict(case=c, expr=coq_expr(c, a, b), oracle_bad=bool(bad), kind="sim"))
    ctx.obligation("oracle:unitarity/zero-pulse/composition on the implementation (%d cases)" % len(cases), n_bad == 0)

    # SLR: round trip and ab2rf correspondence
    n_slr_bad, n_slr = 0, 0
    for c in slr_polys(rng):
        key = json.dumps(c, sort_keys=True)
        try:
            inq, bad, rf, a_poly = slr_oracle(c)
        except Exception as e:
            inq, bad, rf, a_poly = True, [("exception", "an RF pulse", repr(e))], None, None
        if not inq:
            ctx.count("slr:max|B|>=1(outside quantifier)", nontrivial=False)
            continue
        n_slr += 1
        ctx.count("slr:" + c["kind"].split(":")[0], key=key, nontrivial=c["n"] > 1,
                  sample={"kind": c["kind"], "n": c["n"], "max_rf": None if rf is None else float(np.max(np.abs(rf)))})
        if bad:
            n_slr_bad += 1
            sig = "C19:slr:%s" % bad[0][0].split(" ")[0]
            if sig not in reported:
                reported.add(sig)
                ctx.violation("SLR: %s fails" % bad[0][0],
                              {"kind": "oracle-slr", "case": c, "condition": bad[0][0], "expected": bad[0][1],
                               "observed": bad[0][2]}, signature=sig)
        if rf is not None:
            done.append(dict(case=c, expr=slr_expr(c, rf, a_poly), oracle_bad=bool(bad), kind="slr"))
    ctx.obligation("oracle:b2rf/ab2rf round trip of |B| through abrm_hp (%d polynomials)" % n_slr, n_slr_bad == 0)

    failing, corr_ok = [], True
    try:
        if not ctx.make(["run/RunC19.vo"]):
            raise RuntimeError("run/RunC19.vo does not build")
        failing = L.run_bool_cases(ctx, "c19", HEADER, done, per_file=12)
    except RuntimeError as e:
        corr_ok = False
        ctx.notes.append("correspondence could not run: %s" % str(e)[:500])
    ctx.obligation("corr:model==impl (%d cases)" % len(done), corr_ok and not failing)
    ctx.coverage["disagreements_model_vs_impl"] = len(failing)
    ctx.coverage["disagreements_oracle_vs_impl"] = n_bad + n_slr_bad
    for i in failing:
        d = done[i]
        c = d["case"]
        name = c["sim"] if d["kind"] == "sim" else "ab2rf"
        sig = "C19:corr:%s" % name
        if sig in reported or d["oracle_bad"] or any(x.startswith("C19:%s:" % (name if d["kind"] == "sim" else "slr")) for x in reported):
            continue
        reported.add(sig)
        ctx.violation("model and implementation disagree on %s (the numeric oracle holds on this input)" % name,
                      {"kind": "correspondence", "broken": "corr:" + name, "case": c}, found_input=False, signature=sig)
    if (not proof_ok or not corr_ok or tie_broken) and not ctx.violations:
        broken = getattr(ctx, "broken_proof", tie_broken or {"theorem": "corr:coq-run", "log": "; ".join(ctx.notes)[-1500:]})
        ctx.violation("proof obligation no longer checks: %s" % broken.get("theorem"),
                      {"kind": "proof", "broken": broken}, found_input=False, signature="C19:proof")

    ctx.coverage["rule"] = (
        "seeded waveforms of length 1..256 (zero / small / medium / >pi flips, real and complex, silent samples) for abrm (1-D, "
        "balanced on/off, x incl. 0 and +-1), abrm_nd and blochsim (1-3 gradient dims, 1-D call form), abrm_hp (with off-resonance), "
        "abrm_ptx (1-3 coils, 1 or 4 positions, sens / fmap on and off, phi = 0 samples), 1-3 positions each; SLR: dzrf designs for "
        "ptype ex/se/inv/sat x ftype ms/pm/min/max/ls and random complex polynomials with max|B| < 1 (polynomials with max|B| >= 1 "
        "are outside the quantifier and only counted); non-trivial = not the single-sample zero pulse; distinct = distinct inputs")
    ctx.trusted += TRUSTED
    ctx.proved += PROVED
    ctx.validated_only += VALIDATED


def replay(obj):
    core.import_sigpy()
    if obj.get("kind") == "proof" or "case" not in obj:
        print("no failing input; broken:", obj.get("broken"))
        return 1
    c = obj["case"]
    if "sim" not in c:
        inq, bad, rf, _ = slr_oracle(c)
        print("polynomial", c["kind"], "n", c["n"], "in quantifier:", inq, "\nviolated:", bad)
        return 1 if bad else 0
    try:
        a, b = run_impl(c)
    except Exception as e:
        print("raised", repr(e)); return 1
    bad = oracle(c, a, b)
    print("sim", c["sim"], "kind", c["kind"], "nt", c["nt"], "\na", a, "\nb", b, "\n|a|^2+|b|^2", np.abs(a) ** 2 + np.abs(b) ** 2,
          "\nviolated:", bad)
    return 1 if bad else 0


TRUSTED = [
    "Coq 8.16.1 kernel + vm_compute (no native_compute, no extraction); Coq Reals axioms as printed by Print Assumptions",
    "hand model coq/model/Bloch.v of abrm / abrm_nd / abrm_hp / abrm_ptx / blochsim / ab2rf for one spatial position, tied by this "
    "run's correspondence AND by translation (tools/translate_bloch.py regenerates gen/Gen_bloch.v from the source on every run; "
    "lemmas generated == hand model; the readings the translator trusts are listed in notes/translate_bloch.md); numpy broadcasting over positions, complex arithmetic, np.abs/np.angle/np.exp as read in the model "
    "(exp(1j*angle(r)) = r/|r|, 1 at r = 0)",
    "float runs: cos/sin are data (python math.cos/sin of the angle the harness recomputes; the model looks the table up by its own angle)",
]
PROVED = ["coq/props/Prop_C19.v: su2 step/run norm identity; exact norm product formulas for abrm (incl. rewinder) and abrm_nd with the "
          "epsilon regulariser, bounds prod rho^2 <= norm <= 1 and exact unitarity at eps = 0; exact unitarity of abrm_hp, blochsim, abrm_ptx "
          "for any input; zero RF => b = 0 (abrm, abrm_nd, abrm_hp, blochsim; |a| = 1 for the last two); composition = ordered SU(2) product "
          "(generic, abrm_nd, and the whole functions abrm_hp / blochsim incl. the closing total-phase factor / abrm_ptx); abrm_ptx zero RF => b = 0; "
          "ab2rf inverts the forward hard-pulse recursion on the RF samples themselves (|theta_j| < pi; atan2 / angle defined from atan, "
          "C19_arctan2_inverts_polar, C19_exp_angle_is_unit_phasor, C19_ab2rf_last_line(_converse), C19_ab2rf_inverts); hard-pulse simulation of "
          "the designed pulse evaluates the forward SLR polynomials (C19_abrm_hp_evaluates_forward_slr, C19_slr_inverted_by_hard_pulse_simulation); "
          "the earlier *_partial statements are kept beside the full ones"]
VALIDATED = ["b2a / mag2mp (log/FFT/exp minimum-phase alpha) — numerical, validated only through the |B| round trip (1e-6)",
             "SLR realisability: that an arbitrary admissible (A, B) IS the forward recursion of some hard-pulse train is not proved (ab2rf is proved "
             "to invert the forward recursion; the |B| round trip validates the rest numerically)",
             "abrm: its rewinder gradient depends on the waveform length, so composition is proved for the sample loop, not for the whole function"]
