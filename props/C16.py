"""C16 — SENSE operator = explicit multi-coil encoding; coil batching invisible; recons minimise it.

Proof: coq/props/Prop_C16.v (batched == explicit for every batch size, forward and adjoint; weighted
least-squares identity).  Tie: the operator tree returned by sigpy.mri.linop.Sense is serialised and
compared exactly with the modelled factory tree (coq/model/Sense.v); its denotation and the explicit /
batched encoding are evaluated in Coq on PrimFloat (single-coil Fourier matrix measured on the
implementation) and compared with the implementation's output.
"""
import json
import numpy as np
from vlib import core, coqlit as L, linser

HEADER = """From Coq Require Import ZArith List Bool PrimFloat.
From SV Require Import lib.Scalar lib.NdArray lib.FloatRun model.Linop run.RunLinop run.RunC16.
Import ListNotations.
Local Open Scope Z_scope.
"""


def crand(rng, shape, ints=False):
    n = int(np.prod(shape))
    if ints:
        a = np.array([rng.randint(-3, 3) for _ in range(n)], float) + 1j * np.array([rng.randint(-3, 3) for _ in range(n)], float)
    else:
        a = np.array([rng.uniform(-1, 1) for _ in range(n)]) + 1j * np.array([rng.uniform(-1, 1) for _ in range(n)])
    return a.reshape(shape)


def gen_case(rng):
    nd = rng.choice([2, 2, 2, 3])
    while True:
        ish = [rng.randint(1, 4) for _ in range(nd)]
        if 2 <= int(np.prod(ish)) <= 12:
            break
    nc = rng.randint(1, 4)
    noncart = rng.random() < 0.35
    coord = None
    if noncart:
        npts = rng.randint(2, 6)
        coord = np.array([[rng.uniform(-n / 2, n / 2) for n in ish] for _ in range(npts)])
    kshape = [coord.shape[0]] if noncart else list(ish)
    wkind = rng.choice(["none", "none", "plain", "plain", "coil"])
    weights = None
    if wkind == "plain":
        weights = np.array([rng.choice([0.0, 0.25, 1.0, 2.0, rng.uniform(0.1, 3)]) for _ in range(int(np.prod(kshape)))]).reshape(kshape)
    elif wkind == "coil":
        weights = np.array([rng.uniform(0.1, 3) for _ in range(nc * int(np.prod(kshape)))]).reshape([nc] + kshape)
    return dict(ish=ish, nc=nc, coord=coord, weights=weights, wkind=wkind)


def explicit(sp, c, mps, x):
    """y_c = sqrt(w) * F(m_c * x) with the library's single-coil transform"""
    out = []
    for k in range(c["nc"]):
        img = mps[k] * x
        if c["coord"] is None:
            yk = sp.fft(img, axes=range(-len(c["ish"]), 0))
        else:
            yk = sp.nufft(img, c["coord"])
        out.append(yk)
    y = np.array(out)
    if c["weights"] is not None:
        y = y * c["weights"] ** 0.5
    return y


def single_coil_matrix(sp, c):
    n = int(np.prod(c["ish"]))
    cols = []
    for j in range(n):
        e = np.zeros(n, complex); e[j] = 1
        img = e.reshape(c["ish"])
        yk = sp.fft(img, axes=range(-len(c["ish"]), 0)) if c["coord"] is None else sp.nufft(img, c["coord"])
        cols.append(np.asarray(yk).ravel())
    return np.array(cols).T


def run(ctx):
    proof_ok = ctx.prove("Prop_C16.v")
    # tie by translation (DESIGN 2.8): gen/Gen_sense.v is regenerated from sigpy/mri/linop.py + sigpy/mri/app.py (translate_all job
    # "sense") and compiled; its `gen_*_ok` lemmas state that Sense / the recon apps' set-up as written in the source equal the
    # terms of model/Sense.v (sense_factory) and model/SenseRecon.v; proofs/SenseFactory.v: sense_factory = sense_tree on the slices
    from tools import translate_sense
    tie_broken = translate_sense.tie(ctx)   # obligations "translate:sigpy/mri/linop.py (...)", "translate:sigpy/mri/app.py (...)", "tie:..."
    sp = core.import_sigpy()
    import sigpy.mri as mr
    rng = ctx.rng
    ctx.source_hash("sigpy/mri/linop.py", "sigpy/mri/app.py")
    n = ctx.n(40, 800)
    cases, meta, bad = [], [], {}

    def add(expr, cls, info):
        cases.append({"expr": expr}); meta.append((cls, info))

    for it in range(n):
        c = gen_case(rng)
        nc, ish = c["nc"], c["ish"]
        mps = crand(rng, [nc] + ish)
        x = crand(rng, ish)
        desc = {"ishape": ish, "coils": nc, "noncart": c["coord"] is not None, "weights": c["wkind"],
                "coord": None if c["coord"] is None else c["coord"].tolist()}
        try:
            ref = explicit(sp, c, mps, x)
            A0 = mr.linop.Sense(mps, coord=c["coord"], weights=c["weights"])
            y0 = np.asarray(A0(x))
            yv = crand(rng, y0.shape)
            z0 = np.asarray(A0.H(yv))
            tol = 1e-5
            if y0.shape != ref.shape or not np.allclose(y0, ref, rtol=tol, atol=tol * (1 + np.abs(ref).max())):
                bad.setdefault("explicit", ("Sense differs from the explicit multi-coil encoding", {"kind": "oracle", "case": desc}))
            for b in range(1, nc + 1):
                ctx.count("sense:%s:%s:batch" % ("noncart" if c["coord"] is not None else "cart", c["wkind"]),
                          key=json.dumps([desc, b], sort_keys=True), sample=dict(desc, coil_batch_size=b))
                A = mr.linop.Sense(mps, coord=c["coord"], weights=c["weights"], coil_batch_size=b)
                y = np.asarray(A(x))
                z = np.asarray(A.H(yv))
                if y.shape != y0.shape or not np.allclose(y, y0, rtol=1e-6, atol=1e-7 * (1 + np.abs(y0).max())):
                    bad.setdefault("batch-forward", ("coil_batch_size=%d changes the forward result (shape %s vs %s)" % (b, y.shape, y0.shape),
                                                     {"kind": "oracle", "case": desc, "coil_batch_size": b}))
                elif z.shape != z0.shape or not np.allclose(z, z0, rtol=1e-5, atol=1e-6 * (1 + np.abs(z0).max())):
                    bad.setdefault("batch-adjoint", ("coil_batch_size=%d changes the adjoint result" % b,
                                                     {"kind": "oracle", "case": desc, "coil_batch_size": b}))
                # ---- tree correspondence (exact) ----
                S = linser.Serializer()
                T = S.term(A)
                leaves = collect_multiply_arrays(A)
                ms = [S.aref(m) for m, _ in leaves]
                ws = ["None" if w is None else "(Some %s)" % S.aref(w) for _, w in leaves]
                if c["coord"] is None:
                    fleaf = "(fun osh => FFT osh (Some %s) true)" % L.zlist(list(range(-len(ish), 0)))
                else:
                    nuf = first_of(A, "NUFFT")
                    fleaf = "(fun osh => NUFFT osh %s %d %d false)" % (S.aref(nuf.coord), S.code("oversamp", nuf.oversamp), S.code("nwidth", nuf.width))
                add("chk_sense_tree %s %s [%s] %s [%s]" % (T, L.zlist(ish), "; ".join(ms), fleaf, "; ".join(ws)), "tree",
                    dict(desc, coil_batch_size=b))
                add("chk_shapes %s %s" % (T, S.shapes_lit(A)), "shapes", dict(desc, coil_batch_size=b))
            # ---- explicit / batched encoding evaluated in Coq (weights without a coil axis) ----
            if c["wkind"] != "coil" and it % 2 == 0:
                Fm = single_coil_matrix(sp, c)
                kshape = list(y0.shape[1:])
                sqw = np.ones(kshape) if c["weights"] is None else c["weights"] ** 0.5
                rows = "[" + "; ".join(L.cflist(r) for r in Fm) + "]"
                add("chk_sense_explicit 0x1p-22 0x1p-20 %s %s %d %s %s %s %s %s" % (
                    L.zlist(ish), L.zlist(kshape), nc, rows, L.cflist(mps.ravel()), L.cflist(sqw.ravel()), L.cflist(x.ravel()),
                    L.cflist(y0.ravel())), "explicit", desc)
                b = rng.randint(1, nc)
                add("chk_sense_batched 0x1p-22 0x1p-20 %s %s %d %d %s %s %s %s %s" % (
                    L.zlist(ish), L.zlist(kshape), nc, b, rows, L.cflist(mps.ravel()), L.cflist(sqw.ravel()), L.cflist(x.ravel()),
                    L.cflist(y0.ravel())), "batched", dict(desc, coil_batch_size=b))
        except Exception as e:
            bad.setdefault("exception", ("Sense raised %r" % e, {"kind": "impl-exception", "case": desc, "error": repr(e)}))
    # ---- reconstructions minimise the documented objective ----
    recon_fail = recon_checks(ctx, sp, mr, rng)
    bad.update(recon_fail)
    failing, corr_ok = [], True
    try:
        if not ctx.make(["run/RunC16.vo"]):
            raise RuntimeError("run/RunC16.vo does not build")
        failing = L.run_bool_cases(ctx, "c16", HEADER, cases, per_file=30, timeout=1500)
    except RuntimeError as e:
        corr_ok = False
        ctx.notes.append("correspondence could not run: %s" % str(e)[:600])
    by_cls, fail_cls = {}, {}
    for cls, _ in meta:
        by_cls[cls] = by_cls.get(cls, 0) + 1
    for i in failing:
        fail_cls.setdefault(meta[i][0], []).append(i)
    for cls, cnt in sorted(by_cls.items()):
        ctx.obligation("corr:%s (%d cases)" % (cls, cnt), corr_ok and cls not in fail_cls)
    ctx.obligation("oracle:explicit encoding, batch invariance, recon optimality", not bad)
    ctx.coverage["rule"] = ("seeded SENSE configurations: 2-D/3-D image shapes (odd/even, <= 12 voxels), 1-4 coils, every coil_batch_size in 1..num_coils, "
                            "Cartesian and non-Cartesian, weights none / k-space / per-coil; recon apps on small consistent problems; "
                            "distinct = distinct (configuration, batch size)")
    for k, (what, rep) in bad.items():
        ctx.violation("C16: " + what, rep, signature="C16:" + k)
    for cls, idxs in fail_cls.items():
        ctx.violation("C16: model and implementation disagree (%s), e.g. %s" % (cls, meta[idxs[0]][1]),
                      {"kind": "correspondence", "broken": "corr:" + cls, "case": meta[idxs[0]][1]}, found_input=False,
                      signature="C16:corr:" + cls)
    if (not proof_ok or not corr_ok or tie_broken) and not ctx.violations:
        broken = getattr(ctx, "broken_proof", tie_broken or {"theorem": "corr:coq-run"})
        ctx.violation("proof obligation no longer checks: %s" % broken.get("theorem"), {"kind": "proof", "broken": broken},
                      found_input=False, signature="C16:proof")
    ctx.trusted += ["Coq kernel + vm_compute (PrimFloat for running)", "hand model coq/model/Sense.v + Linop.v, tied by exact tree comparison",
                    "tools/translate_sense.py (fail-closed reading of Sense and of the recon apps' __init__; readings of numpy slicing / "
                    "** 0.5 / unary minus / to_device as the abstract array names of model/Sense.v `aops`: notes/translate_sense.md)",
                    "single-coil Fourier matrix measured on the implementation (FFT: C05, NUFFT: C06)", "vlib/linser.py"]
    ctx.validated_only += ["SenseRecon / L1WaveletRecon / TotalVariationRecon optimality is checked numerically on small problems (KKT / solver agreement); "
                           "the link objective = C14 instance is by construction of the apps", "tseg, comm branches are outside the model (the translation fixes tseg = comm = None and does not read those branches)",
                           "model/SenseRecon.v (what the recon apps hand to LinearLeastSquares) is tied to the source text by translation only"]
    ctx.proved += ["gen/Gen_sense.v: Sense as written in sigpy/mri/linop.py (incl. transp_nufft, per-coil weight slicing) = sense_factory; "
                   "_estimate_weights / SenseRecon / L1WaveletRecon / TotalVariationRecon set-up = model/SenseRecon.v",
                   "proofs/SenseFactory.v sense_factory_is_tree: for coil_batch_size >= 1 the factory is sense_tree applied to "
                   "maps[c*b:(c+1)*b], sqrt(weights) resp. sqrt(weights[c*b:(c+1)*b]), c = 0 .. ceil(nc/b)-1"]


def collect_multiply_arrays(A):
    """per batch: (maps slice array, sqrt-weights array or None) in batch order"""
    n = type(A).__name__
    if n == "Vstack":
        out = []
        for a in A.linops:
            out += collect_multiply_arrays(a)
        return out
    ops = A.linops
    m = ops[-1].mult
    w = ops[0].mult if len(ops) == 3 else None
    return [(m, w)]


def first_of(A, name):
    if type(A).__name__ == name:
        return A
    for a in getattr(A, "linops", []):
        r = first_of(a, name)
        if r is not None:
            return r
    return None


def recon_checks(ctx, sp, mr, rng):
    bad = {}
    reps = ctx.n(2, 12)
    for r in range(reps):
        ish = [rng.randint(3, 4), rng.randint(3, 4)]
        nc = rng.randint(2, 3)
        mps = crand(rng, [nc] + ish)
        x_true = crand(rng, ish)
        ksp = sp.fft(mps * x_true, axes=[-1, -2])
        lam = rng.choice([0.0, 0.05])
        for b in (None, 1):
            ctx.count("recon:SenseRecon", key=(r, b), sample={"ishape": ish, "coils": nc, "lamda": lam, "coil_batch_size": b})
            try:
                x = mr.app.SenseRecon(ksp.copy(), mps, lamda=lam, coil_batch_size=b, max_iter=200, show_pbar=False).run()
            except Exception as e:
                bad.setdefault("recon-exception", ("SenseRecon raised %r" % e, {"kind": "impl-exception"}))
                continue
            A = mr.linop.Sense(mps)
            g = A.H(A(x) - ksp) + lam * x
            if np.linalg.norm(g) > 1e-4 * (1 + np.linalg.norm(A.H(ksp))):
                bad.setdefault("senserecon", ("SenseRecon output is not a minimiser (normal-equation residual %.2e)" % np.linalg.norm(g),
                                              {"kind": "oracle", "ishape": ish, "coils": nc, "lamda": lam}))
            if lam == 0 and np.linalg.norm(x - x_true) > 1e-3 * np.linalg.norm(x_true):
                bad.setdefault("senserecon-consistent", ("SenseRecon does not reproduce the image for consistent fully determined data",
                                                         {"kind": "oracle", "ishape": ish, "coils": nc}))
        # explicit non-binary weights (density compensation / soft gating): the caller's arrays are left alone and a
        # second reconstruction from the same arrays gives the same image, which minimises the weighted objective
        w = np.array([rng.uniform(0.2, 2.0) for _ in range(int(np.prod(ish)))]).reshape(ish)
        k0, w0, m0 = ksp.copy(), w.copy(), mps.copy()
        ctx.count("recon:SenseRecon-weighted", key=(r, "w"), sample={"ishape": ish, "coils": nc, "weights": "non-binary"})
        try:
            xs = [mr.app.SenseRecon(ksp, mps, lamda=0.05, weights=w, show_pbar=False, **kw).run()
                  for kw in ({"max_iter": 200}, {"coil_batch_size": 1, "max_iter": 200}, {"solver": "GradientMethod", "max_iter": 3000})]
            if not (np.array_equal(ksp, k0) and np.array_equal(w, w0) and np.array_equal(mps, m0)):
                bad.setdefault("recon-mutates-input", ("SenseRecon modified the k-space / weights / maps arrays passed by the caller",
                                                       {"kind": "oracle", "ishape": ish, "coils": nc}))
            A = mr.linop.Sense(mps, weights=w)
            yw = k0 * w ** 0.5
            for x in xs:
                g = A.H(A(x) - yw) + 0.05 * x
                if np.linalg.norm(g) > 2e-3 * (1 + np.linalg.norm(A.H(yw))):
                    bad.setdefault("senserecon-weighted", ("weighted SenseRecon output is not a minimiser of sum w|FSx-y|^2/2 + lamda/2|x|^2 "
                                                           "(normal-equation residual %.2e)" % np.linalg.norm(g),
                                                           {"kind": "oracle", "ishape": ish, "coils": nc}))
                    break
        except Exception as e:
            bad.setdefault("recon-exception", ("weighted SenseRecon raised %r" % e, {"kind": "impl-exception"}))
        # L1WaveletRecon with a unitary (Haar, even sizes) transform: every solver incl. ADMM with a non-default rho must reach
        # the same value of 1/2||Ax-y||^2 + lamda||Wx||_1
        ish_e = [4, 4]
        mps_e = crand(rng, [nc] + ish_e)
        ksp_e = sp.fft(mps_e * crand(rng, ish_e), axes=[-1, -2])
        W = sp.linop.Wavelet(ish_e, wave_name="haar")
        A_e = mr.linop.Sense(mps_e)
        lw = 0.3
        objs = {}
        for name, kw in (("GradientMethod", dict(solver="GradientMethod", max_iter=4000)),
                         ("PDHG", dict(solver="PrimalDualHybridGradient", max_iter=4000)),
                         ("ADMM-rho1", dict(solver="ADMM", max_iter=400, rho=1)),
                         ("ADMM-rho4", dict(solver="ADMM", max_iter=600, rho=4))):
            ctx.count("recon:L1WaveletRecon", key=(r, name), sample={"ishape": ish_e, "coils": nc, "lamda": lw, "solver": name})
            try:
                x = mr.app.L1WaveletRecon(ksp_e.copy(), mps_e, lw, wave_name="haar", show_pbar=False, **kw).run()
                objs[name] = 0.5 * np.linalg.norm(A_e(x) - ksp_e) ** 2 + lw * np.abs(W(x)).sum()
            except Exception as e:
                bad.setdefault("recon-exception", ("L1WaveletRecon(%s) raised %r" % (name, e), {"kind": "impl-exception"}))
        if objs:
            best = min(objs.values())
            for name, v in objs.items():
                if v > best + 2e-3 * (1 + best):
                    bad.setdefault("l1waveletrecon", ("L1WaveletRecon solver %s does not reach the documented minimum (%g vs %g)" % (name, v, best),
                                                      {"kind": "oracle", "ishape": ish_e, "coils": nc, "lamda": lw, "objectives": objs}))
        # non-Cartesian SenseRecon without weights, with k-space samples that are exactly zero in every coil
        # (blanked readout points): they still belong to the data term
        npts = 24
        coord = np.array([[rng.uniform(-n / 2, n / 2) for n in ish] for _ in range(npts)])
        A_nc = mr.linop.Sense(mps, coord=coord)
        y_nc = np.asarray(A_nc(x_true)).copy()
        y_nc[:, : npts // 3] = 0
        ctx.count("recon:SenseRecon-noncart-zeros", key=(r, "nc"), sample={"ishape": ish, "coils": nc, "npts": npts, "zeroed": npts // 3})
        try:
            for kw in ({}, {"coil_batch_size": 1}):
                x = mr.app.SenseRecon(y_nc.copy(), mps, lamda=0.1, coord=coord, max_iter=300, show_pbar=False, **kw).run()
                g = A_nc.H(A_nc(x) - y_nc) + 0.1 * x
                if np.linalg.norm(g) > 5e-3 * (1 + np.linalg.norm(A_nc.H(y_nc))):
                    bad.setdefault("senserecon-noncart", ("non-Cartesian SenseRecon (no weights, some samples exactly zero) does not minimise "
                                                          "1/2||Ax-y||^2 + lamda/2||x||^2 (normal-equation residual %.2e)" % np.linalg.norm(g),
                                                          {"kind": "oracle", "ishape": ish, "coils": nc, "coord": coord.tolist()}))
                    break
        except Exception as e:
            bad.setdefault("recon-exception", ("non-Cartesian SenseRecon raised %r" % e, {"kind": "impl-exception"}))
        # a silent first coil (its map is zero) with undersampled Cartesian data and no weights given: the sampling mask is estimated
        # from ALL channels; and a caller-supplied (Jacobi) preconditioner P for the CG / ADMM solvers
        mps_d = mps.copy()
        mps_d[0] = 0
        msk = np.ones(ish)
        msk[::2, 0] = 0
        ksp_d = sp.fft(mps_d * x_true, axes=[-1, -2]) * msk
        A_d = mr.linop.Sense(mps_d, weights=msk)
        for name, kw in (("dead-coil", {}), ("dead-coil-batched", {"coil_batch_size": 1})):
            ctx.count("recon:SenseRecon-" + name, key=(r, name), sample={"ishape": ish, "coils": nc})
            try:
                x = mr.app.SenseRecon(ksp_d.copy(), mps_d, lamda=0.1, max_iter=300, show_pbar=False, **kw).run()
                g = A_d.H(A_d(x) - ksp_d) + 0.1 * x
                if not np.all(np.isfinite(x)) or np.linalg.norm(g) > 1e-3 * (1 + np.linalg.norm(A_d.H(ksp_d))):
                    bad.setdefault("senserecon-dead-coil", ("SenseRecon with a silent first coil and an undersampled mask does not minimise the masked objective "
                                                            "(normal-equation residual %.2e)" % float(np.linalg.norm(g)),
                                                            {"kind": "oracle", "ishape": ish, "coils": nc, "variant": name}))
            except Exception as e:
                bad.setdefault("recon-exception", ("SenseRecon (silent first coil) raised %r" % e, {"kind": "impl-exception"}))
        dP = 1.0 / (np.sum(np.abs(mps) ** 2, axis=0) + 0.05)
        for name, kw in (("CG+P", {}), ("ADMM+P", {"solver": "ADMM", "max_iter": 60})):
            ctx.count("recon:SenseRecon-preconditioned", key=(r, name), sample={"ishape": ish, "coils": nc, "solver": name})
            try:
                x = mr.app.SenseRecon(ksp.copy(), mps, lamda=0.05, P=sp.linop.Multiply(ish, dP), show_pbar=False, **dict({"max_iter": 200}, **kw)).run()
                A = mr.linop.Sense(mps)
                g = A.H(A(x) - ksp) + 0.05 * x
                if not np.all(np.isfinite(x)) or np.linalg.norm(g) > 2e-3 * (1 + np.linalg.norm(A.H(ksp))):
                    bad.setdefault("senserecon-preconditioned", ("SenseRecon(%s) with a Jacobi preconditioner is not a minimiser (normal-equation residual %.2e)"
                                                                 % (name, float(np.linalg.norm(g))), {"kind": "oracle", "ishape": ish, "coils": nc, "solver": name}))
            except Exception as e:
                bad.setdefault("recon-exception", ("preconditioned SenseRecon raised %r" % e, {"kind": "impl-exception"}))
        # scale of the data: the reconstruction is linear in the k-space data, recon(s*y) = s*recon(y), also for tiny s and in single precision
        for sc, dt, tolr in ((1e-9, np.complex128, 1e-5), (1e-12, np.complex128, 1e-5), (1e-6, np.complex64, 2e-3)):
            ctx.count("recon:SenseRecon-scaled", key=(r, sc, str(dt)), sample={"ishape": ish, "coils": nc, "scale": sc, "dtype": np.dtype(dt).name})
            try:
                x1 = mr.app.SenseRecon(ksp.astype(dt), mps.astype(dt), lamda=0.05, max_iter=200, show_pbar=False).run()
                xs = mr.app.SenseRecon((ksp * sc).astype(dt), mps.astype(dt), lamda=0.05, max_iter=200, show_pbar=False).run()
                e = float(np.linalg.norm(np.asarray(xs) / sc - np.asarray(x1)) / (np.linalg.norm(x1) + 1e-300))
                if not e <= tolr:
                    bad.setdefault("senserecon-scale", ("SenseRecon is not homogeneous in the k-space data: recon(%g*y)/%g differs from recon(y) by %.3g (%s)"
                                                        % (sc, sc, e, np.dtype(dt).name),
                                                        {"kind": "oracle", "ishape": ish, "coils": nc, "scale": sc, "dtype": np.dtype(dt).name, "relative_difference": e}))
            except Exception as ex:
                bad.setdefault("recon-exception", ("SenseRecon on scaled data raised %r" % ex, {"kind": "impl-exception"}))
        # dominant l2 term (lamda above the largest eigenvalue of A^H A): default step sizes must account for it
        A = mr.linop.Sense(mps)
        lbig = 2.0 * float(np.max(np.sum(np.abs(mps) ** 2, axis=0)))          # ||A^H A|| = max_r sum_c |S_c(r)|^2 for Cartesian SENSE
        for name, kw in (("default", {}), ("GradientMethod", {"solver": "GradientMethod", "max_iter": 400})):
            ctx.count("recon:SenseRecon-dominant-l2", key=(r, name), sample={"ishape": ish, "coils": nc, "lamda": lbig, "solver": name})
            try:
                x = mr.app.SenseRecon(ksp.copy(), mps, lamda=lbig, show_pbar=False, **kw).run()
                g = A.H(A(x) - ksp) + lbig * x
                if not np.all(np.isfinite(x)) or np.linalg.norm(g) > 1e-3 * (1 + np.linalg.norm(A.H(ksp))):
                    bad.setdefault("senserecon-dominant-l2", ("SenseRecon(%s) with lamda = %.3g > ||A^H A|| is not a minimiser (normal-equation residual %.2e)"
                                                              % (name, lbig, float(np.linalg.norm(g))),
                                                              {"kind": "oracle", "ishape": ish, "coils": nc, "lamda": lbig, "solver": name}))
            except Exception as e:
                bad.setdefault("recon-exception", ("SenseRecon(%s, dominant lamda) raised %r" % (name, e), {"kind": "impl-exception"}))
        # TV on 2-D and 3-D images: every solver must reach the minimum of the DOCUMENTED objective
        # 1/2||Ax-y||^2 + lamda ||Gx||_1, G = circular first differences along EVERY image axis (written out here, independent of
        # sigpy's FiniteDifference), computed by an independent dense ADMM with exact solves
        for ish_tv in (ish, [2, 3, 3] if r % 2 == 0 else [3, 2, 2]):
            mps_tv = mps if ish_tv is ish else crand(rng, [nc] + ish_tv)
            x_tv = crand(rng, ish_tv)
            ksp_tv = sp.fft(mps_tv * x_tv, axes=list(range(-len(ish_tv), 0)))
            lam = 0.05 if ish_tv is ish else 0.3
            A_tv = mr.linop.Sense(mps_tv)
            N = int(np.prod(ish_tv))
            Ad = linser_dense(A_tv)
            eye = np.eye(N).reshape([N] + ish_tv)
            Gd = np.concatenate([(eye - np.roll(eye, 1, axis=1 + a)).reshape(N, N).T for a in range(len(ish_tv))], axis=0)
            yv = ksp_tv.ravel()
            F = lambda xx: 0.5 * np.linalg.norm(Ad @ xx - yv) ** 2 + lam * np.abs(Gd @ xx).sum()       # noqa: E731
            rho = 1.0
            H = np.linalg.inv(Ad.conj().T @ Ad + rho * Gd.conj().T @ Gd + 1e-12 * np.eye(N))
            xr, v, u = np.zeros(N, complex), np.zeros(Gd.shape[0], complex), np.zeros(Gd.shape[0], complex)
            for _ in range(3000):
                xr = H @ (Ad.conj().T @ yv + rho * Gd.conj().T @ (v - u))
                w = Gd @ xr + u
                v = w * np.maximum(1 - (lam / rho) / np.maximum(np.abs(w), 1e-300), 0)
                u = u + Gd @ xr - v
            fref = F(xr)
            # the same maps stored channel-LAST and handed over as a channel-first VIEW (equal values, non-contiguous): the operator
            # blocks then produce non-contiguous outputs wherever the maps' layout propagates
            mps_view = np.moveaxis(np.ascontiguousarray(np.moveaxis(mps_tv, 0, -1)), -1, 0)
            for solver, lay in (("PrimalDualHybridGradient", "C"), ("ADMM", "C"), ("PrimalDualHybridGradient", "channel-last view")):
                ctx.count("recon:TotalVariationRecon:%dD%s" % (len(ish_tv), "" if lay == "C" else ":maps-view"), key=(r, solver, len(ish_tv), lay),
                          sample={"ishape": ish_tv, "coils": nc, "lamda": lam, "solver": solver, "maps_layout": lay})
                try:
                    x = mr.app.TotalVariationRecon(ksp_tv.copy(), mps_tv if lay == "C" else mps_view, lam, solver=solver,
                                                   max_iter=3000 if solver[0] == "P" else 400, show_pbar=False).run()
                    fx = F(np.asarray(x).ravel())
                    if not fx <= fref + 3e-3 * (1 + fref):
                        bad.setdefault("tvrecon", ("TotalVariationRecon(%s) on a %d-D image does not reach the minimum of 1/2||Ax-y||^2 + lamda||Gx||_1 "
                                                   "with differences along every image axis (%g vs %g)" % (solver, len(ish_tv), fx, fref),
                                                   {"kind": "oracle", "ishape": ish_tv, "coils": nc, "lamda": lam, "solver": solver,
                                                    "maps_layout": lay, "objective": fx, "reference": fref}))
                except Exception as e:
                    bad.setdefault("recon-exception", ("TotalVariationRecon raised %r" % e, {"kind": "impl-exception"}))
    return bad


def linser_dense(A):
    from vlib import linser
    return linser.dense(A)


def replay(obj):
    return "rerun"      # regenerated deterministically from the recorded seed (vlib/main.py)
