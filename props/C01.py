"""C01 — every operator's adjoint is its true adjoint (see props/linop_common.py).

Besides the operator-tree machinery this file runs one extra stream: the Wavelet / InverseWavelet operators with the
NON-orthogonal wavelet names PyWavelets offers (biorthogonal families).  The class accepts them, returns the inverse
transform as `.H`, and for those families the inverse is not the adjoint — an open known finding of the pinned tree
(known_findings.json, signature C01:wavelet-nonorthogonal-adjoint); the operator trees of the main stream use the
orthogonal families only (C10's domain).
"""
import json
import numpy as np
from vlib import core
from props import linop_common

NONORTH = ["bior2.2", "rbio1.3", "bior3.5", "bior1.3", "rbio2.4", "bior4.4", "rbio3.1"]


def nonorthogonal_wavelet_stream(ctx):
    sp = core.import_sigpy()
    import pywt
    rng = ctx.rng
    first = None
    for k in range(ctx.n(24, 200)):
        name = NONORTH[k % len(NONORTH)]
        if pywt.Wavelet(name).orthogonal:
            continue
        nd = rng.choice([1, 1, 2])
        sh = [rng.randint(24, 48) for _ in range(nd)]
        axes = None if rng.random() < 0.5 else [rng.randrange(-nd, nd)]
        inverse = bool(k % 2)
        W = sp.linop.Wavelet(sh, wave_name=name, axes=axes)
        A = W.H if inverse else W
        rs = np.random.RandomState(rng.randrange(2 ** 31))
        x = rs.randn(*A.ishape) + 1j * rs.randn(*A.ishape)
        y = rs.randn(*A.oshape) + 1j * rs.randn(*A.oshape)
        lhs, rhs = np.vdot(y, A(x)), np.vdot(A.H(y), x)
        err = abs(lhs - rhs) / (np.linalg.norm(A(x)) * np.linalg.norm(y) + 1e-30)
        ctx.count("C01:wavelet-nonorthogonal:" + ("inverse" if inverse else "forward"),
                  key=json.dumps([name, sh, axes, inverse]), nontrivial=True,
                  sample={"wave_name": name, "shape": sh, "axes": axes, "dot_error": float(err)})
        if err > 1e-9 and first is None:
            first = dict(kind="oracle", operator="%s(%s, wave_name=%r, axes=%r)" % ("Wavelet" if not inverse else "Wavelet.H = InverseWavelet", sh, name, axes),
                         lhs=str(lhs), rhs=str(rhs), relative_error=float(err), x=np.ravel(x)[:8].tolist().__repr__())
    if first is not None:
        ctx.violation("C01: Wavelet with a non-orthogonal (biorthogonal) wavelet name: .H is the inverse transform, not the adjoint",
                      first, signature="C01:wavelet-nonorthogonal-adjoint")


def run(ctx):
    linop_common.run_linop(ctx, "C01", "Prop_C01.v", 150, 4000, {"adj", "shapes", "applyH", "dot"})
    nonorthogonal_wavelet_stream(ctx)


def replay(obj):
    return "rerun"      # regenerated deterministically from the recorded seed (vlib/main.py)
