"""C01 — every operator's adjoint is its true adjoint (see props/linop_common.py).

Besides the operator-tree machinery this file runs one extra stream: the Wavelet / InverseWavelet operators with the
NON-orthogonal wavelet names PyWavelets offers (biorthogonal families).  The class accepts them, returns the inverse
transform as `.H`, and for those families the inverse is not the adjoint — an open known finding of the pinned tree
(known_findings.json, signature C01:wavelet-nonorthogonal-adjoint); the operator trees of the main stream use the
orthogonal families only (C10's domain).
"""
import json
import numpy as np
from vlib import core
from props import linop_common

NONORTH = ["bior2.2", "rbio1.3", "bior3.5", "bior1.3", "rbio2.4", "bior4.4", "rbio3.1"]


def nonorthogonal_wavelet_stream(ctx):
    sp = core.import_sigpy()
    import pywt
    rng = ctx.rng
    first = None
    for k in range(ctx.n(24, 200)):
        name = NONORTH[k % len(NONORTH)]
        if pywt.Wavelet(name).orthogonal:
            continue
        nd = rng.choice([1, 1, 2])
        sh = [rng.randint(24, 48) for _ in range(nd)]
        axes = None if rng.random() < 0.5 else [rng.randrange(-nd, nd)]
        inverse = bool(k % 2)
        W = sp.linop.Wavelet(sh, wave_name=name, axes=axes)
        A = W.H if inverse else W
        rs = np.random.RandomState(rng.randrange(2 ** 31))
        x = rs.randn(*A.ishape) + 1j * rs.randn(*A.ishape)
        y = rs.randn(*A.oshape) + 1j * rs.randn(*A.oshape)
        lhs, rhs = np.vdot(y, A(x)), np.vdot(A.H(y), x)
        err = abs(lhs - rhs) / (np.linalg.norm(A(x)) * np.linalg.norm(y) + 1e-30)
        ctx.count("C01:wavelet-nonorthogonal:" + ("inverse" if inverse else "forward"),
                  key=json.dumps([name, sh, axes, inverse]), nontrivial=True,
                  sample={"wave_name": name, "shape": sh, "axes": axes, "dot_error": float(err)})
        if err > 1e-9 and first is None:
            first = dict(kind="oracle", operator="%s(%s, wave_name=%r, axes=%r)" % ("Wavelet" if not inverse else "Wavelet.H = InverseWavelet", sh, name, axes),
                         lhs=str(lhs), rhs=str(rhs), relative_error=float(err), x=np.ravel(x)[:8].tolist().__repr__())
    if first is not None:
        ctx.violation("C01: Wavelet with a non-orthogonal (biorthogonal) wavelet name: .H is the inverse transform, not the adjoint",
                      first, signature="C01:wavelet-nonorthogonal-adjoint")


def interp_leaf_stream(ctx):
    """Interpolate / Gridding leaves over the parameter space of C07's generator (1-3 grid dims, batch axes, 1-2-D point sets,
    coordinates on the ties of the kernel window, negative / far outside, per-axis widths and params, both kernels): the
    random operator trees reach the 3-D / tie combinations only rarely.  Dot test <A x, y> = <x, A^H y> and A.H.H = A in numpy."""
    sp = core.import_sigpy()
    from props import C07
    rng = ctx.rng
    bad = None
    for k in range(ctx.n(60, 1500)):
        c = C07.gen_case(rng)
        ish = c["bat"] + c["grid"]
        kw = dict(kernel=c["kernel"], width=c["width"], param=c["param"])
        A = sp.linop.Interpolate(ish, c["coord"], **kw) if c["op"] == "interp" else sp.linop.Gridding(ish, c["coord"], **kw)
        rs = np.random.RandomState(rng.randrange(2 ** 31))
        x = rs.randint(-4, 5, A.ishape) + 1j * rs.randint(-4, 5, A.ishape)
        y = rs.randint(-4, 5, A.oshape) + 1j * rs.randint(-4, 5, A.oshape)
        Ax, AHy = np.asarray(A(x)), np.asarray(A.H(y))
        lhs, rhs = np.vdot(y, Ax), np.vdot(AHy, x)
        scale = np.linalg.norm(Ax) * np.linalg.norm(y) + np.linalg.norm(AHy) * np.linalg.norm(x) + 1e-30
        ok = abs(lhs - rhs) <= 1e-9 * scale and list(A.H.oshape) == list(A.ishape) and list(A.H.ishape) == list(A.oshape) \
            and np.allclose(np.asarray(A.H.H(x)), Ax, rtol=1e-12, atol=1e-12)
        ctx.count("C01:leaf-stream:%s:%s:%dD" % (c["op"], c["kernel"], len(c["grid"])), key=json.dumps(C07.describe(c), sort_keys=True),
                  nontrivial=bool(np.any(Ax != 0)), sample={"grid": c["grid"], "batch": c["bat"], "kernel": c["kernel"], "width": c["width"], "param": c["param"]})
        if not ok and bad is None:
            bad = dict(kind="oracle", case=C07.describe(c), operator=repr(A), lhs=str(lhs), rhs=str(rhs),
                       x=np.ravel(x).tolist().__repr__(), y=np.ravel(y).tolist().__repr__())
    if bad is not None:
        ctx.violation("C01: <A x, y> != <x, A^H y> for an Interpolate / Gridding leaf", bad, signature="C01:dot:interp-leaf")


# per-family leaf-level correspondence: the REAL leaf class (all parameter kinds it accepts, far beyond what the operator
# trees reach: repeated / wrapped axes, 0-d arrays, multi-channel strided convolutions, per-axis widths, 3-D grids, every
# orthogonal wavelet, complex64 data, rejected parameters ...) against its function model orc_<family> — the very terms
# orc_std dispatches to (coq/model/OpaqueStd.v) — evaluated inside Coq; props/opaque_<family>.py, coq/run/RunOpaque<Family>.v
LEAF_FAMILIES = [("fourier", "Fourier", 15), ("conv", "Conv", 8), ("interp", "Interp", 24), ("wavelet", "Wavelet", 20),
                 ("nufft", "Nufft", 6)]


def opaque_leaf_streams(ctx):
    import importlib
    import warnings
    from vlib import coqlit as L
    sp = core.import_sigpy()
    n = ctx.n(20, 300)
    built = ctx.make(["run/RunOpaque%s.vo" % Fam for _, Fam, _ in LEAF_FAMILIES])      # one make call for the five run files
    for fam, Fam, per_file in LEAF_FAMILIES:
        mod = importlib.import_module("props.opaque_" + fam)
        ok, failing, cs = True, [], []
        try:
            if not built and not ctx.make(["run/RunOpaque%s.vo" % Fam]):     # attribute a build failure to its family
                raise RuntimeError("run/RunOpaque%s.vo does not build" % Fam)
            with warnings.catch_warnings():
                warnings.simplefilter("ignore")
                cs = mod.cases(sp, ctx.rng, n)
            failing = L.run_bool_cases(ctx, "c01_leaf_" + fam, mod.HEADER, cs, per_file=per_file, timeout=1500)
        except Exception as e:          # generator / Coq failure: fail closed
            ok = False
            ctx.notes.append("leaf stream %s could not run: %s" % (fam, repr(e)[:600]))
        for c in cs:
            i = c.get("info", {})
            ctx.count("C01:opaque-leaf:%s:%s" % (fam, i.get("cls") or i.get("kind") or (i.get("params") or {}).get("kind", "leaf")),
                      key=c["expr"][:3000], nontrivial=bool(i.get("nontrivial", True)), sample={k: i[k] for k in list(i)[:8]})
        ctx.obligation("corr:%s leaf classes == function model (%d cases)" % (fam, len(cs)), ok and not failing)
        if failing or not ok:
            i = failing[0] if failing else None
            ctx.violation(("C01: leaf class and function model disagree (%s family), e.g. %s" % (fam, str(cs[i].get("info"))[:600])) if i is not None
                          else "C01: the %s leaf correspondence could not run (its model no longer builds / the generator raised): %s" % (fam, ctx.notes[-1][:300]),
                          {"kind": "correspondence", "broken": "corr:%s leaf classes == function model" % fam,
                           "case": None if i is None else cs[i].get("info"), "coq_expr": None if i is None else cs[i]["expr"][:4000],
                           "n_disagreements": len(failing)},
                          found_input=False, signature="C01:corr:opaque-leaf-%s" % fam)
        # the helpers also run the numpy dot test / normal test on the same leaves (implementation-side oracle)
        bad = [c["info"] for c in cs if c.get("info", {}).get("dot_ok") is False or c.get("info", {}).get("oracle")]
        ctx.obligation("oracle:%s leaf classes pass the dot test (%d leaves)" % (fam, len(cs)), not bad)
        if bad:
            ctx.violation("C01: <A x, y> != <x, A^H y> for a %s leaf" % fam, {"kind": "oracle", "case": bad[0]},
                          signature="C01:dot:opaque-leaf-%s" % fam)


def large_leaf_stream(ctx):
    """a few LARGE leaves (dozens of batch signals, thousands of samples): size-dependent code paths of the library-backed classes are
    judged by the dot test too"""
    sp = core.import_sigpy()
    rs = np.random.RandomState(ctx.rng.randrange(2 ** 31))
    cr = lambda sh: rs.standard_normal(sh) + 1j * rs.standard_normal(sh)      # noqa: E731
    lin = sp.linop
    ops = [("ConvolveData:batch40", lambda: lin.ConvolveData([40, 64], cr([5]), mode="full")),
           ("ConvolveData:batch40:valid", lambda: lin.ConvolveData([40, 64], cr([5]), mode="valid", strides=[2])),
           ("ConvolveFilter:batch40", lambda: lin.ConvolveFilter([5], cr([40, 64]), mode="full")),
           ("ConvolveData:long", lambda: lin.ConvolveData([6000], cr([9]))),
           ("FFT:large", lambda: lin.FFT([258, 258])), ("IFFT:large", lambda: lin.IFFT([66, 1026], axes=[-1, -2])),
           ("Vstack:FiniteDifference", lambda: lin.FiniteDifference([40, 30]))]
    bad = None
    for name, mk in ops:
        A = mk()
        x, y = cr(A.ishape), cr(A.oshape)
        Ax, AHy = np.asarray(A(x)), np.asarray(A.H(y))
        lhs, rhs = np.vdot(y, Ax), np.vdot(AHy, x)
        sc = np.linalg.norm(Ax) * np.linalg.norm(y) + 1e-300
        ctx.count("C01:large-leaf:" + name, key=name, nontrivial=True)
        if abs(lhs - rhs) > 1e-9 * sc and bad is None:
            bad = dict(kind="oracle", operator=repr(A), name=name, relative_error=float(abs(lhs - rhs) / sc), data="numpy RandomState stream of this run")
    if bad is not None:
        ctx.violation("C01: <A x, y> != <x, A^H y> for a large leaf (%s)" % bad["name"], bad, signature="C01:dot:large-leaf")


def run(ctx):
    linop_common.run_linop(ctx, "C01", "Prop_C01.v", 150, 4000, {"adj", "shapes", "applyH", "dot"})
    opaque_leaf_streams(ctx)
    interp_leaf_stream(ctx)
    large_leaf_stream(ctx)
    nonorthogonal_wavelet_stream(ctx)


def replay(obj):
    return "rerun"      # regenerated deterministically from the recorded seed (vlib/main.py)
