"""C01 — every operator's adjoint is its true adjoint (see props/linop_common.py)."""
from props import linop_common


def run(ctx):
    linop_common.run_linop(ctx, "C01", "Prop_C01.v", 150, 4000, {"adj", "shapes", "applyH", "dot"})


def replay(obj):
    return "rerun"      # regenerated deterministically from the recorded seed (vlib/main.py)
