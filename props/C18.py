"""C18 — Poisson-disc masks are binary, calibrated, cropped, hit the acceleration (or raise), reproducible.

Proof: coq/props/Prop_C18.v — `_poisson` of coq/model/Poisson.v as a state machine over (mask, pxs, pys,
num_actives) consuming an ARBITRARY stream of random draws with explicit fuel: for every stream and fuel the
mask is 0/1, the calibration block is 1, 1-entries and active points lie on in-range grid positions, the corner
crop zeroes everything outside r < 1; `poisson` (the slope bisection, floats as an abstract grid ordered by an
integer rank) returns normally only when |actual - accel| < tol, otherwise raises, and the loop terminates
(the rank gap of the interval strictly decreases on every iteration that does not leave).

Tie: (a) the pure-Python body `_poisson.py_func` is run with np.random.seed/randint/random wrapped to RECORD the
stream it consumes; the same stream is replayed through the Coq model on PrimFloat inside Coq (cos/sin/pow(.,.5) as
tables of the values libm returned) and the final mask and the number of draws are compared exactly;
(b) the slope search is replayed inside Coq on the actual accelerations observed in the real `poisson` (read from its
frame) and the outcome, number of `_poisson` calls and the exact slopes are compared; (c) crop + sum on small masks; (d) the
radius grid r and the radius arrays of the first slope (read from the frame / the arguments of the first `_poisson` call) against
coq/model/PoissonFront.v on PrimFloat, bit for bit; (e) tools/translate_poisson.py regenerates both functions from the source text
(gen/Gen_poisson.v) with lemmas `generated = hand model`.

Oracle on the implementation (jitted, end to end, inside a watchdog subprocess): entries in {0,1}, requested dtype and
shape, acceleration within tol or ValueError, calibration block sampled, nothing outside the ellipse when crop_corner,
same arguments + seed => same mask, np.random.get_state() unchanged; a call that does not come back within the time
limit is reported as a violation with its arguments.
"""
import json, os, select, subprocess, sys, time
import numpy as np

if __name__ != "__main__":
    from vlib import core, coqlit as L

HEADER = """From Coq Require Import ZArith List Bool PrimFloat.
From SV Require Import lib.FloatRun model.Poisson run.RunC18.
Import ListNotations.
Local Open Scope Z_scope.
"""

DTYPES = ["complex128", "complex64", "float64", "float32", "int64", "uint8"]
CALL_TIMEOUT = 90.0          # hard limit (seconds) without progress (40 _poisson evaluations, or the whole call) inside the worker
MAX_REPLAY_DRAWS = 9000      # longest recorded stream that is replayed inside Coq
MAX_EVALS = 1150             # a terminating bisection of [0, n], n <= 128, on binary64 makes at most 7 + 1075 evaluations
                             # (the width halves down to the smallest subnormal); more means the search does not terminate


class SearchRunaway(Exception):
    pass


# ---------------------------------------------------------------- shared numpy definitions (the documented formulas)
def radius_field(ny, nx, cy, cx):
    """r of poisson(): normalised elliptical distance from the calibration block"""
    y, x = np.mgrid[:ny, :nx]
    x = np.maximum(abs(x - nx / 2) - cx / 2, 0)
    x = x / x.max()
    y = np.maximum(abs(y - ny / 2) - cy / 2, 0)
    y = y / y.max()
    return np.sqrt(x ** 2 + y ** 2)


def calib_slices(ny, nx, cy, cx):
    return (slice(int(ny / 2 - cy / 2), int(ny / 2 + cy / 2)), slice(int(nx / 2 - cx / 2), int(nx / 2 + cx / 2)))


# ---------------------------------------------------------------- recording the stream of _poisson.py_func
class Recorder:
    """wraps np.random.seed / randint / random (module attributes used by the pure-Python body)"""

    def __init__(self):
        self.rec = []

    def __enter__(self):
        self.o = (np.random.seed, np.random.randint, np.random.random)
        o_seed, o_ri, o_r = self.o
        rec = self.rec

        def seed(s):
            rec.append(("s", int(s)))
            return o_seed(s)

        def randint(lo, hi):
            v = o_ri(lo, hi)
            rec.append(("i", int(lo), int(hi), int(v)))
            return v

        def random():
            v = o_r()
            rec.append(("f", float(v)))
            return v
        np.random.seed, np.random.randint, np.random.random = seed, randint, random
        return self

    def __exit__(self, *a):
        np.random.seed, np.random.randint, np.random.random = self.o


def run_pyfunc(samp, c):
    """one call of the pure-Python kernel on a recorded stream; returns (mask, rec, rx, ry)"""
    ny, nx, cy, cx = c["ny"], c["nx"], c["cy"], c["cx"]
    r = radius_field(ny, nx, cy, cx)
    rx = np.clip((1 + r * c["slope"]) * nx / max(nx, ny), 1, None)
    ry = np.clip((1 + r * c["slope"]) * ny / max(nx, ny), 1, None)
    state = np.random.get_state()
    try:
        with Recorder() as R:
            m = samp._poisson.py_func(nx, ny, c["ma"], rx, ry, (cy, cx), c["seed"])
    finally:
        np.random.set_state(state)
    return np.asarray(m), R.rec, rx, ry


def corr_expr(c, m, rec, rx, ry):
    """Coq boolean: the model replayed on the recorded stream reproduces mask and draw count"""
    draws = [d for d in rec if d[0] != "s"]
    items, tpow, tcos, tsin = [], {}, {}, {}
    fl = []
    for d in draws:
        if d[0] == "i":
            items.append("DInt %s" % L.z(d[3]))
        else:
            items.append("DFloat %s" % L.flt(d[1]))
            fl.append(d[1])
    # libm tables: exactly the calls the body makes, on exactly these arguments
    k = 0
    while k + 1 < len(fl):
        u1, u2 = fl[k], fl[k + 1]
        a = u1 * 3 + 1
        tpow[a] = a ** 0.5
        t = 2 * np.pi * u2
        tcos[float(t)] = float(np.cos(t))
        tsin[float(t)] = float(np.sin(t))
        k += 2

    def tbl(d):
        return "[" + "; ".join("(%s, %s)" % (L.flt(a), L.flt(b)) for a, b in d.items()) + "]"
    return "chk_poisson %d %d %d %d %d %s %s %s %s %s [%s] %s %d" % (
        c["nx"], c["ny"], c["ma"], c["cy"], c["cx"], L.flist(rx.ravel()), L.flist(ry.ravel()),
        tbl(tpow), tbl(tcos), tbl(tsin), "; ".join(items), L.zlist(m.astype(int).ravel()), len(draws))


def gen_corr_case(rng):
    ny = rng.choice([4, 6, 8, 9, 10, 12, 13, 16])
    nx = ny if rng.random() < 0.5 else rng.choice([4, 5, 8, 11, 12, 16])
    cy = rng.choice([0, 0, 1, 2, 3, ny // 2])
    cx = rng.choice([0, 0, 1, 2, 3, nx // 2])
    return dict(ny=ny, nx=nx, cy=cy, cx=cx, slope=rng.choice([0.5, 1.0, 2.0, 3.0, 4.5, 8.0, float(max(nx, ny))]),
                ma=rng.choice([1, 2, 3, 5, 10, 30]), seed=rng.randrange(0, 2 ** 31))


def pyfunc_oracle(c, m):
    bad = []
    if not np.all((m == 0) | (m == 1)):
        bad.append("non-binary")
    if not np.all(m[calib_slices(c["ny"], c["nx"], c["cy"], c["cx"])] == 1):
        bad.append("calibration block not fully sampled")
    if m.shape != (c["ny"], c["nx"]):
        bad.append("shape")
    return bad


# ---------------------------------------------------------------- end-to-end worker (runs in a subprocess)
def e2e_one(samp, c):
    """run poisson() on one case; every observation is made on the real implementation"""
    import sys as _sys
    shape = (c["ny"], c["nx"])
    calib = (c["cy"], c["cx"])
    dtype = np.dtype(c["dtype"])
    kw = dict(calib=calib, dtype=dtype, crop_corner=c["crop"], seed=c["seed"], tol=c["tol"])
    if c.get("ma") is not None:
        kw["max_attempts"] = c["ma"]
    out = {"status": None}
    trace = {"slopes": [], "raw": [], "ind": None}
    jit = samp._poisson

    def spy(*a):
        f = _sys._getframe(1)
        sl = float(f.f_locals["slope"])
        # the same slope 25 times in a row: the midpoint equals the end point it has just replaced, so the loop state
        # (slope_min, slope_max) can never change again
        if len(trace["slopes"]) >= MAX_EVALS or (len(trace["slopes"]) >= 25 and all(v == sl for v in trace["slopes"][-25:])):
            raise SearchRunaway()
        trace["slopes"].append(sl)
        if len(trace["slopes"]) % 40 == 0 and c.get("_heartbeat"):
            _sys.stdout.write(json.dumps({"hb": len(trace["slopes"])}) + "\n")      # progress: the parent restarts its clock
            _sys.stdout.flush()
        if trace["ind"] is None:
            trace["ind"] = (np.asarray(f.f_locals["r"]) < 1)
            if c["ny"] * c["nx"] <= 600:       # the radius grid and the radii of the first slope, for the front-end correspondence
                trace["front"] = {"slope": sl, "r": np.asarray(f.f_locals["r"], float).ravel().tolist(),
                                  "rx": np.asarray(a[3], float).ravel().tolist(), "ry": np.asarray(a[4], float).ravel().tolist()}
        m = jit(*a)
        if c["ny"] * c["nx"] <= 600:
            trace["raw"].append(np.array(m, copy=True))
        prev = f.f_locals.get("actual_accel")
        trace.setdefault("actuals", [])
        if prev is not None and len(trace["slopes"]) > 1:
            trace["actuals"].append(float(prev))
        return m
    # prior state of numpy's global generator
    np.random.seed(c["prior"])
    for _ in range(c["prior"] % 7):
        np.random.random()
    if c["prior"] % 3 == 1:
        np.random.randn()           # an odd number of normal draws leaves a cached Box-Muller value in the state (has_gauss = 1)
    st0 = np.random.get_state()
    samp._poisson = spy
    t0 = time.time()
    try:
        mask = samp.poisson(shape, c["accel"], **kw)
        out["status"] = "returned"
    except ValueError as e:
        out["status"] = "valueerror"
        out["msg"] = str(e)[:200]
        tb = e.__traceback__
        while tb.tb_next is not None:
            tb = tb.tb_next
        last = tb.tb_frame.f_locals.get("actual_accel")
        if last is not None:
            trace.setdefault("actuals", []).append(float(last))
        mask = None
    except SearchRunaway:
        out["status"] = "timeout"
        out["msg"] = "%d _poisson evaluations and still searching (a terminating bisection makes at most %d; the same slope " \
                     "25 times in a row means the interval no longer moves): last slopes %r" % (
                         len(trace["slopes"]), MAX_EVALS, trace["slopes"][-3:])
        trace["slopes"] = trace["slopes"][-5:]
        trace["actuals"] = trace.get("actuals", [])[-5:]
        mask = None
    except Exception as e:       # noqa
        out["status"] = "exception"
        out["msg"] = repr(e)[:300]
        mask = None
    finally:
        samp._poisson = jit
    out["seconds"] = round(time.time() - t0, 3)
    st1 = np.random.get_state()
    out["state_unchanged"] = bool(st0[0] == st1[0] and np.array_equal(st0[1], st1[1]) and st0[2:] == st1[2:])
    out["slopes"] = trace["slopes"]
    out["front"] = trace.get("front")
    out["nev"] = len(trace["slopes"])
    bad = []
    if out["status"] == "returned":
        size = c["ny"] * c["nx"]
        # the last actual acceleration is the one of the returned mask (same expression as the code)
        re = np.real(mask).astype(np.float64)
        trace.setdefault("actuals", []).append(float(size / np.sum(re)) if np.sum(re) != 0 else float("inf"))
        out["sum"] = float(np.sum(re))
        out["accel_actual"] = trace["actuals"][-1]
        if tuple(mask.shape) != shape:
            bad.append("shape %s" % (mask.shape,))
        if mask.dtype != dtype:
            bad.append("dtype %s" % mask.dtype)
        if not np.all((mask == 0) | (mask == 1)):
            bad.append("non-binary")
        if not abs(out["accel_actual"] - c["accel"]) < c["tol"]:
            bad.append("acceleration %r not within tol" % out["accel_actual"])
        r = radius_field(c["ny"], c["nx"], c["cy"], c["cx"])
        inside = r < 1 if c["crop"] else np.ones(shape, bool)
        blk = np.zeros(shape, bool)
        blk[calib_slices(c["ny"], c["nx"], c["cy"], c["cx"])] = True
        if not np.all(re[blk & inside] == 1):
            bad.append("calibration block not fully sampled")
        out["calib_points"] = int(np.sum(blk & inside))
        if c["crop"] and np.any(re[~inside] != 0):
            bad.append("sample outside the region r < 1 kept by the crop")
        out["outside_points"] = int(np.sum(~inside))
        if c["crop"]:
            # the TRUE inscribed ellipse on the code's own grid convention: ((x - nx/2)/(nx/2))^2 + ((y - ny/2)/(ny/2))^2 < 1.
            # It is evaluated with the code's expression for calib = (0, 0), for which the two regions coincide bit for bit.
            ell = radius_field(c["ny"], c["nx"], 0, 0) < 1
            n_out = int(np.sum(re[~ell] != 0))
            out["outside_true_ellipse"] = n_out
            if n_out:
                yy, xx = np.argwhere((re != 0) & ~ell)[0]
                bad.append("ellipse: %d samples outside the inscribed ellipse, e.g. mask[%d, %d] (calib %s)" % (
                    n_out, yy, xx, "non-zero: the crop uses calib-shifted coordinates" if (c["cy"] or c["cx"]) else "= (0, 0)"))
        # same arguments + seed => identical mask
        if c["seed"] is not None:
            np.random.seed((c["prior"] * 7 + 3) % (2 ** 31))
            try:
                mask2 = samp.poisson(shape, c["accel"], **kw)
                if not (mask2.dtype == mask.dtype and np.array_equal(mask, mask2)):
                    bad.append("not reproducible")
            except Exception as e:   # noqa
                bad.append("second call raised %r" % e)
        if size <= 600 and trace["raw"]:
            out["small"] = {"raw": trace["raw"][-1].astype(int).ravel().tolist(),
                            "ind": trace["ind"].astype(int).ravel().tolist() if c["crop"] else [1] * size,
                            "final": re.astype(int).ravel().tolist()}
    elif out["status"] == "valueerror":
        if c["accel"] > 1 and "Cannot generate mask" not in out.get("msg", ""):
            bad.append("unexpected ValueError: %s" % out.get("msg"))
        if c["accel"] <= 1 and "accel must be greater than 1" not in out.get("msg", ""):
            bad.append("unexpected ValueError: %s" % out.get("msg"))
    elif out["status"] == "timeout":
        bad.append("the slope search does not terminate: " + out["msg"])
    else:
        bad.append("raised " + out.get("msg", "?"))
    if c["accel"] <= 1 and out["status"] != "valueerror":
        bad.append("accel <= 1 accepted")
    if c["seed"] is not None and not out["state_unchanged"]:
        bad.append("numpy global RNG state changed")
    out["actuals"] = trace.get("actuals", [])
    out["bad"] = bad
    return out


def worker_main():
    sys.path.insert(0, os.environ.get("SIGPY_REPO", "/repo"))
    import sigpy.mri.samp as samp
    sys.stdout.write(json.dumps({"ready": os.path.abspath(samp.__file__)}) + "\n")
    sys.stdout.flush()
    for line in sys.stdin:
        c = json.loads(line)
        c["_heartbeat"] = True
        res = e2e_one(samp, c)
        sys.stdout.write(json.dumps(res) + "\n")
        sys.stdout.flush()


class Worker:
    """subprocess with a parent-side time limit per case: a call that never returns cannot hang the check"""

    def __init__(self, tag):
        import shutil, tempfile
        self.cache = tempfile.mkdtemp(prefix="numba_c18_%s_" % tag, dir=core.BUILD)
        self.p = None
        self.buf = b""
        self._rm = lambda: shutil.rmtree(self.cache, ignore_errors=True)

    def start(self):
        env = dict(os.environ)
        env["NUMBA_CACHE_DIR"] = self.cache
        env["PYTHONPATH"] = core.REPO
        env["SIGPY_REPO"] = core.REPO
        self.p = subprocess.Popen([sys.executable, "-W", "ignore", os.path.abspath(__file__), "--worker"],
                                  stdin=subprocess.PIPE, stdout=subprocess.PIPE, stderr=subprocess.DEVNULL, env=env)
        self.buf = b""
        r = self._readline(120.0)
        if r is None or "ready" not in r:
            raise RuntimeError("C18 worker did not start")
        if not os.path.abspath(r["ready"]).startswith(os.path.abspath(core.REPO)):
            raise RuntimeError("worker imported sigpy from %s" % r["ready"])

    def _readline(self, timeout):
        end = time.time() + timeout
        fd = self.p.stdout.fileno()
        while b"\n" not in self.buf:
            left = end - time.time()
            if left <= 0:
                return None
            rd, _, _ = select.select([fd], [], [], left)
            if not rd:
                return None
            chunk = os.read(fd, 1 << 16)
            if not chunk:
                return None
            self.buf += chunk
        line, self.buf = self.buf.split(b"\n", 1)
        return json.loads(line.decode())

    def call(self, c, timeout):
        if self.p is None or self.p.poll() is not None:
            self.start()
        self.p.stdin.write((json.dumps(c) + "\n").encode())
        self.p.stdin.flush()
        r = self._readline(timeout)
        while r is not None and "hb" in r:         # the search is still making evaluations: the limit is per 40 evaluations;
            r = self._readline(timeout)            # runaway searches are cut by the evaluation-count rules inside the worker
        if r is None:
            alive = self.p.poll() is None
            self.kill()
            return {"status": "timeout" if alive else "crashed", "bad": [
                "poisson() made no progress for %.0f s (no _poisson evaluation finished; does not terminate)" % timeout if alive
                else "worker process died"], "slopes": [], "actuals": [], "nev": 0}
        return r

    def kill(self):
        if self.p is not None:
            try:
                self.p.kill()
                self.p.wait(10)
            except Exception:   # noqa
                pass
        self.p = None

    def close(self):
        self.kill()
        self._rm()


def run_e2e(cases, timeout, jobs=3):
    """run the cases in `jobs` watchdog subprocesses; results in case order"""
    from concurrent.futures import ThreadPoolExecutor
    results = [None] * len(cases)
    chunks = [list(range(k, len(cases), jobs)) for k in range(jobs)]

    def do(chunk_tag):
        tag, idxs = chunk_tag
        w = Worker(str(tag))
        try:
            for i in idxs:
                results[i] = w.call(cases[i], timeout)
        finally:
            w.close()
    with ThreadPoolExecutor(max_workers=jobs) as ex:
        list(ex.map(do, [(k, ch) for k, ch in enumerate(chunks) if ch]))
    return results


# ---------------------------------------------------------------- end-to-end generators
def corpus_e2e():
    base = dict(cy=0, cx=0, dtype="complex128", crop=True, seed=0, ma=None, prior=11)
    return [
        dict(base, ny=32, nx=32, accel=4, tol=1e-3, kind="corpus:F11"),             # pinned tree: never terminated
        dict(base, ny=32, nx=32, accel=4.0, tol=1e-6, kind="corpus:unreachable"),
        dict(base, ny=60, nx=60, accel=6, tol=0.1, seed=80, kind="corpus:test-suite"),
        dict(base, ny=120, nx=120, accel=6, tol=0.1, seed=80, kind="corpus:test-suite"),
        dict(base, ny=64, nx=48, accel=3, tol=0.1, cy=10, cx=8, kind="corpus:rect-calib"),
        dict(base, ny=32, nx=32, accel=1.0, tol=0.1, kind="reject:accel<=1"),
        dict(base, ny=32, nx=32, accel=0.5, tol=0.1, kind="reject:accel<=1"),
        dict(base, ny=32, nx=32, accel=11.5, tol=0.1, crop=False, dtype="float32", kind="corpus:high-accel"),
        dict(base, ny=16, nx=16, accel=2, tol=0.2, cy=4, cx=4, kind="corpus:small"),
        dict(base, ny=20, nx=24, accel=2.5, tol=0.2, cy=5, cx=3, crop=True, seed=None, kind="seed-none"),
    ]


def gen_e2e_case(rng):
    sizes = [16, 20, 24, 32, 40, 48, 64, 96, 128]
    ny = rng.choice(sizes)
    nx = ny if rng.random() < 0.45 else rng.choice(sizes)
    accel = rng.choice([round(rng.uniform(2.2, 12.0), 2), round(rng.uniform(2.2, 8.0), 2), float(rng.randint(3, 12))])
    if rng.random() < 0.12:
        # accelerations below what radius 1 can give are unreachable; the search then walks slope_max down through the
        # subnormals (about 1080 evaluations) before raising: terminating but slow, so only on small shapes
        accel = round(rng.uniform(1.05, 2.2), 2)
        ny = rng.choice([16, 20, 24, 32])
        nx = ny if rng.random() < 0.5 else rng.choice([16, 24, 40])
    big = ny * nx >= 96 * 96
    if rng.random() < 0.35:
        cy = cx = 0
    else:
        cy = rng.choice([2, 3, 4, 6, 8, ny // 4, ny // 3])
        cx = rng.choice([2, 3, 4, 6, 8, nx // 4, nx // 3])
    tol = rng.choice([0.1, 0.1, 0.2, 0.05, 0.5, 0.3, 0.01, 1e-3] if not big else [0.1, 0.2, 0.3])
    seed = None if rng.random() < 0.06 else rng.randrange(0, 2 ** 31)
    return dict(ny=ny, nx=nx, accel=accel, cy=cy, cx=cx, tol=tol, dtype=rng.choice(DTYPES), crop=rng.random() < 0.6,
                seed=seed, ma=rng.choice([None, None, None, 10, 30, 5]), prior=rng.randrange(0, 2 ** 31), kind="random")


def search_expr(c, r):
    kind = {"returned": 0, "valueerror": 1}[r["status"]]
    return "chk_search %d %s %s %s %d %d %s" % (max(c["ny"], c["nx"]), L.flt(c["accel"]), L.flt(c["tol"]),
                                                 L.flist(r["actuals"]), kind, r["nev"], L.flist(r["slopes"]))


def e2e_class(c):
    return "%s:%s:%s" % ("square" if c["ny"] == c["nx"] else "rect", "crop" if c["crop"] else "nocrop",
                         "calib" if (c["cy"] or c["cx"]) else "nocalib")


# ---------------------------------------------------------------- the check
def run(ctx):
    ctx.source_hash("sigpy/mri/samp.py")
    # tie by translation (DESIGN 2.8): gen/Gen_poisson.v is regenerated from samp.py (translate_all job "poisson") and compiled;
    # its lemmas state generated _poisson / poisson == coq/model/Poisson.v + model/PoissonFront.v (for every POps)
    from tools import translate_poisson
    tie_broken = translate_poisson.tie(ctx)    # obligations "translate:sigpy/mri/samp.py (...)", "tie:generated == hand model (...)"
    proof_ok = ctx.prove("Prop_C18.v")
    sp = core.import_sigpy()
    import sigpy.mri.samp as samp
    rng = ctx.rng
    # ---- (1) end-to-end sweep on the jitted implementation, in watchdog subprocesses (started first: runs while we prepare)
    n_e2e = ctx.n(70, 1500)
    e2e_cases = corpus_e2e()
    while len(e2e_cases) < n_e2e:
        e2e_cases.append(gen_e2e_case(rng))
    from concurrent.futures import ThreadPoolExecutor
    pool = ThreadPoolExecutor(max_workers=1)
    fut = pool.submit(run_e2e, e2e_cases, CALL_TIMEOUT, 3 if ctx.quick() else 8)
    # ---- (2) pure-Python kernel on recorded streams vs the Coq model
    n_corr = ctx.n(36, 400)
    corr = []
    py_bad = []
    corpus = [dict(ny=8, nx=8, cy=2, cx=2, slope=2.0, ma=10, seed=3), dict(ny=12, nx=16, cy=0, cx=0, slope=8.0, ma=30, seed=3),
              dict(ny=16, nx=16, cy=4, cx=4, slope=4.0, ma=30, seed=0), dict(ny=9, nx=5, cy=3, cx=1, slope=1.0, ma=2, seed=7),
              dict(ny=4, nx=4, cy=0, cx=0, slope=0.5, ma=1, seed=1),
              # 5707 draws on a 4 x 12 grid: far more outer iterations than pixels (samples accepted in pixels already set)
              dict(ny=4, nx=12, cy=2, cx=0, slope=2.0, ma=30, seed=151201803)]
    budget = n_long = idx = 0
    while len(corr) < n_corr:
        c = corpus[idx] if idx < len(corpus) else gen_corr_case(rng)
        idx += 1
        m, rec, rx, ry = run_pyfunc(samp, c)
        ndraw = sum(1 for d in rec if d[0] != "s")
        nseed = sum(1 for d in rec if d[0] == "s")
        ok_contract = all((d[0] != "i" or d[1] <= d[3] < d[2]) and (d[0] != "f" or 0.0 <= d[1] < 1.0) for d in rec)
        bad = pyfunc_oracle(c, m)
        if nseed != 1 or not rec or rec[0] != ("s", int(c["seed"])):
            bad.append("np.random.seed not called exactly once, first, with the seed")
        if not ok_contract:
            bad.append("recorded draw outside its documented range")
        jm = np.asarray(samp._poisson(c["nx"], c["ny"], c["ma"], rx, ry, (c["cy"], c["cx"]), c["seed"]))
        jbad = pyfunc_oracle(c, jm)
        ctx.count("kernel:%s" % ("calib" if (c["cy"] or c["cx"]) else "nocalib"), key=json.dumps(c, sort_keys=True),
                  nontrivial=ndraw > 10 and m.sum() > 0,
                  sample={"params": c, "draws": ndraw, "samples": int(m.sum()), "jit_samples": int(jm.sum())})
        d = dict(case=c, m=m, rec=rec, bad=bad + ["jit: " + b for b in jbad], ndraw=ndraw)
        if ndraw > MAX_REPLAY_DRAWS:
            # very long runs are only checked by the oracle (a multi-megabyte list literal overflows coqc's stack)
            ctx.count("kernel:too-long-for-replay", key=json.dumps(c, sort_keys=True), nontrivial=False)
            if d["bad"]:
                py_bad.append(d)
            n_long += 1
            if n_long > 4 * n_corr:
                break
            continue
        d["expr"] = corr_expr(c, m, rec, rx, ry)
        corr.append(d)
        if d["bad"]:
            py_bad.append(d)
        budget += ndraw
        if budget > ctx.n(90000, 1500000):
            break
    failing, corr_ok = [], True
    try:
        if not ctx.make(["run/RunC18.vo"]):
            raise RuntimeError("run/RunC18.vo does not build")
        failing = L.run_bool_cases(ctx, "c18k", HEADER, corr, per_file=3)
    except RuntimeError as e:
        corr_ok = False
        ctx.notes.append("kernel correspondence could not run: %s" % str(e)[:500])
    ctx.obligation("corr:_poisson.py_func stream replay == model (%d runs, %d draws)" % (len(corr), sum(d["ndraw"] for d in corr)),
                   corr_ok and not failing)
    ctx.obligation("oracle:_poisson kernel binary+calibrated (%d runs, py_func and jitted)" % len(corr), not py_bad)
    # ---- (3) collect the end-to-end results
    res = fut.result()
    pool.shutdown()
    e2e_bad, search_cases, crop_cases, front_cases = [], [], [], []
    n_ret = n_val = 0
    for c, r in zip(e2e_cases, res):
        cls = e2e_class(c)
        ctx.count("e2e:%s:%s" % (cls, r["status"]), key=json.dumps(c, sort_keys=True), nontrivial=r["status"] == "returned",
                  sample={"params": c, "status": r["status"], "accel_actual": r.get("accel_actual"), "calls": r.get("nev")})
        n_ret += r["status"] == "returned"
        n_val += r["status"] == "valueerror"
        if r["bad"]:
            e2e_bad.append((c, r))
        if r["status"] in ("returned", "valueerror") and c["accel"] > 1 and len(r["actuals"]) == r["nev"] and r["nev"] > 0:
            search_cases.append(dict(case=c, res=r, expr=search_expr(c, r)))
        elif r["status"] in ("returned", "valueerror") and c["accel"] > 1:
            e2e_bad.append((c, dict(r, bad=["could not observe the search (calls %d, accelerations %d)" % (r["nev"], len(r["actuals"]))])))
        if r.get("front") and all(np.all(np.isfinite(r["front"][k])) for k in ("r", "rx", "ry")):
            fr = r["front"]
            front_cases.append(dict(case=c, res=r, expr="chk_front %d %d %d %d %s %s %s %s" % (
                c["ny"], c["nx"], c["cy"], c["cx"], L.flt(fr["slope"]), L.flist(fr["r"]), L.flist(fr["rx"]), L.flist(fr["ry"]))))
        if r.get("small"):
            s = r["small"]
            crop_cases.append(dict(case=c, res=r, expr="chk_crop_sum %d %d %s %s %s %d" % (
                c["nx"], c["ny"], L.zlist(s["raw"]), L.zlist(s["ind"]), L.zlist(s["final"]), int(r["sum"]))))
    sfail, cfail, ffail, s_ok = [], [], [], True
    try:
        sfail = L.run_bool_cases(ctx, "c18s", HEADER, search_cases, per_file=100)
        cfail = L.run_bool_cases(ctx, "c18c", HEADER, crop_cases, per_file=20) if crop_cases else []
        # the lines model/Poisson.v leaves abstract (radius grid, radii of a slope) against model/PoissonFront.v, exactly
        if front_cases and not ctx.make(["run/RunC18Front.vo"]):
            raise RuntimeError("run/RunC18Front.vo does not build")
        ffail = L.run_bool_cases(ctx, "c18f", HEADER.replace("run.RunC18.", "run.RunC18 run.RunC18Front."), front_cases,
                                 per_file=4) if front_cases else []
    except RuntimeError as e:
        s_ok = False
        ctx.notes.append("search correspondence could not run: %s" % str(e)[:500])
    ctx.obligation("corr:poisson slope search == model (%d searches)" % len(search_cases), s_ok and not sfail)
    ctx.obligation("corr:crop+sum == model (%d masks)" % len(crop_cases), s_ok and not cfail)
    ctx.obligation("corr:radius grid r and radii of the first slope == model/PoissonFront.v, bit for bit (%d grids)" % len(front_cases),
                   s_ok and not ffail and bool(front_cases))
    known_only = lambda c, r: all(b.startswith("ellipse:") and (c["cy"] or c["cx"]) for b in r["bad"])      # noqa
    hard_bad = [(c, r) for c, r in e2e_bad if not known_only(c, r)]
    ctx.obligation("oracle:poisson end-to-end (%d calls: %d returned, %d ValueError)" % (len(e2e_cases), n_ret, n_val), not hard_bad)
    n_ell = sum(1 for c, r in e2e_bad if any(b.startswith("ellipse:") for b in r["bad"]) and (c["cy"] or c["cx"]))
    # discharged when the only masks with samples outside the true ellipse belong to the listed known finding (calib != 0);
    # a sample outside it with calib == (0, 0) -- where the code's region IS the ellipse -- fails the obligation
    ctx.obligation("oracle:no sample outside the true inscribed ellipse when crop_corner (except the listed known finding "
                   "C18:crop-ellipse-with-calib: %d masks with calib != 0)" % n_ell,
                   not any(b.startswith("ellipse:") and not (c["cy"] or c["cx"]) for c, r in e2e_bad for b in r["bad"]))
    ctx.coverage["masks_with_samples_outside_true_ellipse"] = n_ell
    ctx.obligation("coverage:at least half of the valid requests return a mask", n_ret * 2 >= sum(1 for c in e2e_cases if c["accel"] > 1))
    ctx.coverage["rule"] = (
        "kernel: seeded shapes 4..16 (square/rectangular), calib 0..n/2 incl. odd, slopes 0.5..max(n), max_attempts 1..30, seeds; "
        "non-trivial = more than 10 draws and at least one sample.  end-to-end: corpus (F11 input, test-suite inputs, accel<=1) + "
        "seeded shapes 16..128 square/rectangular, accel in (1,12], calib 0..n/3, tol 1e-3..0.5, 6 dtypes, crop on/off, seeds incl. None, "
        "random prior numpy RNG state; non-trivial = a mask was returned; distinct = distinct argument tuples")
    ctx.coverage["disagreements_model_vs_impl"] = len(failing) + len(sfail) + len(cfail) + len(ffail)
    ctx.coverage["disagreements_oracle_vs_impl"] = len(hard_bad) + len(py_bad)
    ctx.coverage["e2e_returned"] = n_ret
    ctx.coverage["e2e_valueerror"] = n_val
    ctx.coverage["e2e_max_seconds"] = max([r.get("seconds", 0) for r in res] or [0])
    # ---- violations
    seen = set()
    for c, r in e2e_bad:
        for b in r["bad"]:
            key = "nontermination" if r["status"] == "timeout" else b.split(" ")[0]
            sig = "C18:poisson-nontermination" if r["status"] == "timeout" else "C18:e2e:" + key
            if b.startswith("ellipse:"):
                # with calib != 0 the code crops a rounded rectangle that contains the ellipse: recorded as an OPEN known
                # finding (not going to be repaired); with calib == (0, 0) the two regions coincide and this is a hard violation
                sig = "C18:crop-ellipse-with-calib" if (c["cy"] or c["cx"]) else "C18:crop-ellipse"
            if sig in seen:
                continue
            seen.add(sig)
            ctx.violation("poisson(%s, %s): %s" % ((c["ny"], c["nx"]), c["accel"], b),
                          {"kind": "e2e", "case": c, "expected": "mask in {0,1} with |size/sum - accel| < tol, calibration sampled, "
                           "cropped, reproducible, RNG state untouched; or ValueError; within the time limit",
                           "observed": {k: v for k, v in r.items() if k not in ("small", "front")}}, signature=sig)
    for d in py_bad:
        sig = "C18:kernel:" + d["bad"][0].split(" ")[0]
        if sig in seen:
            continue
        seen.add(sig)
        ctx.violation("_poisson: %s" % d["bad"][0], {"kind": "kernel", "case": d["case"], "expected": "binary mask, calibration block = 1",
                                                     "observed": d["m"].astype(int).tolist(), "violated": d["bad"]}, signature=sig)
    for i in failing:
        d = corr[i]
        if "C18:corr:kernel" in seen:
            break
        seen.add("C18:corr:kernel")
        ctx.violation("model and _poisson.py_func disagree on a recorded stream", {
            "kind": "kernel", "broken": "corr:_poisson", "case": d["case"], "observed": d["m"].astype(int).tolist(),
            "draws": d["ndraw"], "expected": "the Coq model replayed on the same stream yields the same mask and consumes the same draws"},
            found_input=bool(d["bad"]), signature="C18:corr:kernel")
    for lst, name in ((sfail, "search"), (cfail, "crop"), (ffail, "front")):
        for i in lst:
            d = {"search": search_cases, "crop": crop_cases, "front": front_cases}[name][i]
            sig = "C18:corr:" + name
            if sig in seen:
                break
            seen.add(sig)
            ctx.violation("model and poisson() disagree on the %s" % name, {
                "kind": "e2e", "broken": "corr:" + name, "case": d["case"],
                "observed": {k: v for k, v in d["res"].items() if k not in ("small", "front")},
                "expected": "model search on the observed accelerations: same outcome, number of calls and slopes; crop and sum; "
                            "radius grid and radii of the first slope equal to model/PoissonFront.v"},
                found_input=bool(d["res"]["bad"]), signature=sig)
    if (not proof_ok or not corr_ok or not s_ok or tie_broken) and not ctx.violations:
        broken = getattr(ctx, "broken_proof", tie_broken or {"theorem": "corr:coq-run", "log": "; ".join(ctx.notes)[-1500:]})
        ctx.violation("proof obligation no longer checks: %s" % broken.get("theorem"), {"kind": "proof", "broken": broken},
                      found_input=False, signature="C18:proof")
    ctx.trusted += TRUSTED
    ctx.proved += PROVED
    ctx.validated_only += VALIDATED


def replay(obj):
    if obj.get("kind") == "proof":
        print("no failing input; broken:", obj.get("broken"))
        return 1
    c = obj["case"]
    if obj.get("kind") == "kernel":
        core.import_sigpy()
        import sigpy.mri.samp as samp
        m, rec, rx, ry = run_pyfunc(samp, c)
        jm = np.asarray(samp._poisson(c["nx"], c["ny"], c["ma"], rx, ry, (c["cy"], c["cx"]), c["seed"]))
        bad = pyfunc_oracle(c, m) + ["jit: " + b for b in pyfunc_oracle(c, jm)]
        print("case", c, "\ndraws", len(rec) - 1, "\nmask\n", m.astype(int), "\nviolated:", bad)
        return 1 if bad else 0
    r = run_e2e([c], CALL_TIMEOUT, 1)[0]
    r.pop("small", None)
    r.pop("front", None)
    for k in ("slopes", "actuals"):
        if len(r.get(k, [])) > 12:
            r[k] = r[k][:6] + ["... %d more ..." % (len(r[k]) - 12)] + r[k][-6:]
    print("case", c, "\nobserved", json.dumps(r, indent=1), "\nviolated:", r["bad"])
    return 1 if r["bad"] else 0


TRUSTED = [
    "Coq 8.16.1 kernel + vm_compute (no native_compute, no extraction); Coq Reals axioms only in the non-vacuity instance",
    "hand model coq/model/Poisson.v of _poisson / poisson (line by line, one term for PrimFloat and for the abstract ops), "
    "tied by this run's stream-replay and search-replay correspondences and, since tools/translate_poisson.py, by gen/Gen_poisson.v: "
    "_poisson and poisson regenerated from the source text on every run with lemmas `generated = hand model` (model/Poisson.v; the "
    "lines it leaves abstract -- parameter check, radius grid, radii, crop region, midpoint -- against model/PoissonFront.v); trusted "
    "there: the translator's reading of the accepted Python fragment (notes/translate_poisson.md)",
    "libm cos/sin/pow(.,0.5) enter the replay as tables of the values returned on this run; x**2 is modelled as x*x; "
    "lib/FloatRun.float_to_Z_floor/ceil, Z_to_float; int(x) = truncation",
    "the float grid of the bisection is abstract: comparisons induced by an integer rank and rank lo <= rank(mid) <= rank hi "
    "(monotone rounding of (hi+lo)/2) are hypotheses of the termination theorem, satisfied by the Z instance (Example)",
    "numba executes the kernel like its pure-Python body (py_func) up to its private random generator; numpy's/numba's "
    "Mersenne twisters are outside the model (the theorems quantify over every stream)",
]
PROVED = ["see coq/props/Prop_C18.v (theorem list in obligation_list)"]
VALIDATED = ["numpy global RNG state untouched; same arguments + seed => same mask (run-time facts about numba's private generator)",
             "jitted kernel == pure-Python body (both satisfy the oracle; only py_func is replayed in Coq)",
             "calibration block is inside r < 1 (hypothesis of the crop theorem; checked on every returned mask)",
             "crop_corner keeps exactly {r < 1} with r from calib-shifted coordinates (proved: 0 wherever r >= 1); this is the true "
             "inscribed ellipse only for calib = (0, 0) -- with calib != 0 samples outside the ellipse occur (open known finding "
             "C18:crop-ellipse-with-calib)"]


if __name__ == "__main__" and len(sys.argv) > 1 and sys.argv[1] == "--worker":
    worker_main()
