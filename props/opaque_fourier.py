"""Opaque-leaf correspondence for the Fourier family: sigpy.linop.FFT / IFFT  vs  model/OpaqueFourier.orc_fourier.

The theorems of coq/proofs/OpaqueFourier.v (apair_fft, apair_ifft, normal_fft, normal_ifft, nodes_fourier) speak about
`orc_fourier tw isc inv L`, i.e. about `fourier.fft/ifft(input, axes=L.axes, center=L.center)` as modelled by
coq/model/Fourier.v.  This module ties that denotation to the REAL classes: for random leaves (all parameter kinds the
classes accept: axes None / empty / negative / unsorted / repeated / wrapped modulo ndim, size-1 and odd axes, batch
axes, center True and False, 0-d arrays) it evaluates `orc_fourier` inside Coq (vm_compute on binary64 complex pairs, twiddle
tables supplied as exact literals and validated in Coq) and compares with `sp.linop.FFT(...)(x)`; it also compares the
advertised shapes, the terms of `.H` and `.N` with the modelled `adj` / `normal`, and checks that the parameters on which
the real class raises are exactly those the model's validity predicate (`proven_node_fourier` + `wf`) rejects.

    cases(sp, rng, n)  -> list of {"expr": <Coq bool term>, "info": {...}}   for coqlit.run_bool_cases (header HEADER)
    selftest()         -> runs ~60 random leaves on /repo, prints the number of disagreements (must be 0)
"""
import os
import sys
import time
import numpy as np
from vlib import core, coqlit as L
from vlib.linser import Serializer
from props.C05 import tw_table

HEADER = """From Coq Require Import ZArith List Bool PrimFloat.
From SV Require Import lib.Scalar lib.NdArray lib.FloatRun model.Linop model.Fourier model.OpaqueFourier run.RunC05 run.RunOpaqueFourier.
Import ListNotations.
Local Open Scope Z_scope.
"""

MAXSIZE = 160
DTYPES = ["complex128"] * 5 + ["complex64", "float64", "float32"]


def tol_of(dtype):
    return 1e-9 if dtype == "complex128" else 1e-4      # fourier.fft casts every non-complex input to complex64


# ---------------------------------------------------------------- generators
def gen_shape(rng, nd):
    while True:
        sh = [rng.choice([1, 2, 3, 4, 5, 6, 7, 8, rng.randint(1, 5)]) for _ in range(nd)]
        if int(np.prod(sh, dtype=int)) <= MAXSIZE:
            return sh


AXES_KINDS = ["none", "empty", "distinct", "distinct", "dup", "dup", "wrap", "all-neg"]


def gen_axes(rng, nd, kind):
    """returns the python `axes` argument (None or a list of ints)"""
    if kind == "none":
        return None
    if kind == "empty" or nd == 0:
        return []
    if kind == "all-neg":
        ax = [a - nd for a in range(nd)]
        rng.shuffle(ax)
        return ax
    sub = rng.sample(range(nd), rng.randint(1, nd))
    ax = [a if rng.random() < 0.5 else a - nd for a in sub]
    if kind == "dup":                      # repeat some axes, with either sign
        for _ in range(rng.randint(1, 2)):
            a = rng.choice(sub)
            ax.append(a if rng.random() < 0.5 else a - nd)
    if kind == "wrap":                     # outside [-ndim, ndim): accepted by center=True (a % ndim), rejected by numpy
        k = rng.randrange(len(ax))
        ax[k] = ax[k] + nd * rng.choice([-2, 1, 2])
    rng.shuffle(ax)
    return ax


def gen_leaf(rng):
    nd = rng.choice([0, 1, 1, 2, 2, 2, 3, 3, 4])
    shape = gen_shape(rng, nd)
    kind = rng.choice(AXES_KINDS)
    return dict(cls=rng.choice(["FFT", "IFFT"]), shape=shape, axes=gen_axes(rng, nd, kind), center=rng.random() < 0.5,
                kind=kind, dtype=rng.choice(DTYPES))


def corpus():
    c = []
    for cls in ("FFT", "IFFT"):
        for center in (True, False):
            c.append(dict(cls=cls, shape=[3], axes=None, center=center, kind="none", dtype="complex128"))
            c.append(dict(cls=cls, shape=[5, 4], axes=[-2], center=center, kind="distinct", dtype="complex128"))
            c.append(dict(cls=cls, shape=[3, 4], axes=[0, 0], center=center, kind="dup", dtype="complex128"))
            c.append(dict(cls=cls, shape=[2, 5], axes=[1, -1, 0], center=center, kind="dup", dtype="complex128"))
            c.append(dict(cls=cls, shape=[3, 1, 4], axes=[2, -3], center=center, kind="distinct", dtype="complex64"))
            c.append(dict(cls=cls, shape=[2, 3], axes=[2], center=center, kind="wrap", dtype="complex128"))
            c.append(dict(cls=cls, shape=[2, 3], axes=[-3, 1], center=center, kind="wrap", dtype="complex128"))
            c.append(dict(cls=cls, shape=[], axes=None, center=center, kind="none", dtype="complex128"))
            c.append(dict(cls=cls, shape=[], axes=[], center=center, kind="empty", dtype="complex128"))
            c.append(dict(cls=cls, shape=[4, 3], axes=[], center=center, kind="empty", dtype="float64"))
    c.append(dict(cls="FFT", shape=[3, 0], axes=None, center=True, kind="bad-shape", dtype="complex128"))
    return c


def make_input(rng, c):
    r = np.random.RandomState(rng.randrange(2 ** 31))
    sh = tuple(c["shape"])
    if c["dtype"].startswith("complex"):
        x = r.randn(*sh) + 1j * r.randn(*sh)
    else:
        x = r.randn(*sh)
    return np.asarray(x).astype(c["dtype"])


def term_of(c):
    return "(%s %s %s %s)" % (c["cls"], L.zlist(c["shape"]), L.zlist_opt(c["axes"]), L.boolean(c["center"]))


def relerr(a, b):
    a = np.asarray(a); b = np.asarray(b)
    if a.shape != b.shape:
        return float("inf")
    sc = max(float(np.max(np.abs(a), initial=0.0)), float(np.max(np.abs(b), initial=0.0)), 1e-300)
    return float(np.max(np.abs(a - b), initial=0.0)) / sc


def impl_oracle(sp, rng, A, c):
    """dot test <A x, y> = <x, A.H y>, A.H A x = x = A.N x on the real class (complex128 data); list of failures"""
    r = np.random.RandomState(rng.randrange(2 ** 31))
    sh = tuple(c["shape"])
    x = np.asarray(r.randn(*sh) + 1j * r.randn(*sh))
    y = np.asarray(r.randn(*sh) + 1j * r.randn(*sh))
    bad = []
    lhs, rhs = np.vdot(y, A(x)), np.vdot(A.H(y), x)
    sc = max(abs(lhs), abs(rhs), float(np.linalg.norm(x) * np.linalg.norm(y)), 1e-300)
    if not abs(lhs - rhs) <= 1e-9 * sc:
        bad.append(("adjoint", complex(lhs), complex(rhs)))
    for nm, z in (("normal", A.N(x)), ("AHA", A.H(A(x)))):
        if not relerr(x, z) <= 1e-9:
            bad.append((nm, relerr(x, z)))
    return bad


def one_case(sp, rng, c):
    """-> dict(expr=..., info=...).  info['status'] is 'accepted' or 'rejected'; info['oracle'] lists failures of the
    implementation-side dot test / normal test."""
    x = make_input(rng, c)
    info = dict(c)
    cls = getattr(sp.linop, c["cls"])
    try:
        A = cls(tuple(c["shape"]), axes=None if c["axes"] is None else list(c["axes"]), center=c["center"])
        y = np.asarray(A(x))
    except Exception as e:        # the class rejects these parameters (constructor or first application)
        info.update(status="rejected", error=type(e).__name__)
        return dict(expr="chk_opaque_fourier_rejected %s" % term_of(c), info=info)
    S = Serializer()
    T = S.term(A)
    assert T == term_of(c), (T, term_of(c))
    TH, TN = S.term(A.H), S.term(A.N)
    try:
        orc_fail = impl_oracle(sp, rng, A, c)
    except Exception as e:        # A accepted these parameters but A.H / A.N raised on them: a failure of the implementation oracle
        orc_fail = [("exception", repr(e)[:300])]
    info.update(status="accepted", oracle=orc_fail, out_dtype=str(y.dtype))
    expr = "andb (chk_opaque_fourier %s %s %s %s %s %s %s) (chk_opaque_fourier_adj_normal %s %s %s)" % (
        T, tw_table(c["shape"]), L.flt(tol_of(c["dtype"])), L.zlist(A.oshape), L.zlist(A.ishape),
        L.cflist(np.asarray(x).ravel()), L.cflist(y.ravel()), T, TH, TN)
    return dict(expr=expr, info=info)


def cases(sp, rng, n):
    """n random leaves of the family (after the fixed corpus), each as a Coq boolean for coqlit.run_bool_cases"""
    out = [one_case(sp, rng, c) for c in corpus()]
    while len(out) < n:
        out.append(one_case(sp, rng, gen_leaf(rng)))
    return out


# ---------------------------------------------------------------- self test
def _ensure_built():
    """compile the three files with coqc if a .vo is missing or older than its source (the generated Makefile may
    not list them yet)"""
    for rel in ("model/OpaqueFourier", "proofs/OpaqueFourier", "run/RunOpaqueFourier"):
        v, vo = os.path.join(core.COQ, rel + ".v"), os.path.join(core.COQ, rel + ".vo")
        if not os.path.exists(vo) or os.path.getmtime(vo) < os.path.getmtime(v):
            rc, out, _ = core.sh(["coqc", "-w", "-all", "-Q", ".", "SV", rel + ".v"], cwd=core.COQ, timeout=600)
            if rc != 0:
                raise RuntimeError("coqc %s failed:\n%s" % (rel, out[-3000:]))


def selftest(n=110, seed=20261001):
    t0 = time.time()
    _ensure_built()
    sp = core.import_sigpy()
    ctx = core.Ctx("opaque_fourier", "quick", seed)
    cs = cases(sp, ctx.rng, n)
    failing = L.run_bool_cases(ctx, "opaque_fourier", HEADER, cs, per_file=15)
    acc = [c for c in cs if c["info"]["status"] == "accepted"]
    rej = [c for c in cs if c["info"]["status"] == "rejected"]
    orc_bad = [c for c in acc if c["info"]["oracle"]]
    hist = {}
    for c in cs:
        k = "%s:%s:%s:%s" % (c["info"]["cls"], "center" if c["info"]["center"] else "plain", c["info"]["kind"], c["info"]["status"])
        hist[k] = hist.get(k, 0) + 1
    for k in sorted(hist):
        print("  %-40s %d" % (k, hist[k]))
    for i in failing:
        print("DISAGREE", cs[i]["info"])
    for c in orc_bad:
        print("IMPLEMENTATION ORACLE FAILED", c["info"])
    print("opaque_fourier selftest: %d leaves (%d accepted, %d rejected by the class), model-vs-class disagreements: %d, "
          "implementation dot/normal-test failures: %d, %.1f s"
          % (len(cs), len(acc), len(rej), len(failing), len(orc_bad), time.time() - t0))
    return len(failing) + len(orc_bad)


if __name__ == "__main__":
    sys.exit(1 if selftest(*(int(a) for a in sys.argv[1:3])) else 0)
