"""C02 — operators are C-linear and deterministic; operators, proxes and array functions never
mutate their inputs or the arrays they were built from.

Proof part: coq/props/Prop_C02.v (linearity of every expression tree).  Run-time part: every operator
tree of the shared generator is applied to a*x+y, twice, after .H/.N were cached, with byte snapshots of
the input and of every captured array; every Prox class and every public array function of sigpy /
sigpy.mri.util is called on C-ordered, F-ordered and strided-view arguments with snapshots before/after.
"""
import numpy as np
from props import linop_common
from vlib import core


def has_single_precision_leaf(A):
    """does the operator graph contain a leaf that computes a real-dtype input in single precision (fft-based ones)?"""
    n = type(A).__name__
    if any(w in n for w in ("FFT", "NUFFT", "Wavelet", "Interpolate", "Gridding")):
        return True
    subs = list(getattr(A, "linops", [])) + ([A.A] if hasattr(A, "A") and n == "Conj" else [])
    return any(has_single_precision_leaf(a) for a in subs)


def layouts(a, rng):
    """the same values in different memory layouts (all writable)"""
    out = [("C", np.ascontiguousarray(a.copy()))]
    if a.ndim >= 2:
        out.append(("F", np.asfortranarray(a.copy())))
    big = np.zeros(tuple(2 * n for n in a.shape), dtype=a.dtype)
    view = big[tuple(slice(None, None, 2) for _ in a.shape)]
    view[...] = a
    out.append(("strided-view", view))
    return out


def snapshot(args):
    snaps = []
    for a in args:
        if isinstance(a, np.ndarray):
            base = a.base if a.base is not None else a
            snaps.append((a, a.copy(), base, base.copy() if isinstance(base, np.ndarray) else None))
    return snaps


def changed(snaps):
    for a, a0, base, base0 in snaps:
        if not np.array_equal(a, a0, equal_nan=True):
            return True
        if base0 is not None and not np.array_equal(base, base0, equal_nan=True):
            return True
    return False


def function_cases(sp, rng):
    """(name, callable(args) , argument builder) for the public array functions"""
    import sigpy.mri.util as mutil
    r = lambda *s: (np.array([rng.uniform(-1, 1) for _ in range(int(np.prod(s)))]).reshape(s)
                    + 1j * np.array([rng.uniform(-1, 1) for _ in range(int(np.prod(s)))]).reshape(s))
    rr = lambda *s: np.array([rng.uniform(-1, 1) for _ in range(int(np.prod(s)))]).reshape(s)
    cases = []
    A = lambda name, f, args: cases.append((name, f, args))
    A("util.vec", lambda a, b: sp.util.vec([a, b]), [r(2, 3), r(4)])
    A("util.split", lambda a: sp.util.split(a, [[2, 3], [4]]), [r(10)])
    A("util.rss", lambda a: sp.util.rss(a), [r(3, 4)])
    A("util.resize-pad", lambda a: sp.util.resize(a, [5, 6]), [r(3, 4)])
    A("util.resize-same", lambda a: sp.util.resize(a, [3, 4]), [r(3, 4)])
    A("util.resize-crop", lambda a: sp.util.resize(a, [2, 2]), [r(3, 4)])
    A("util.flip", lambda a: sp.util.flip(a, axes=[-1]), [r(3, 4)])
    A("util.circshift", lambda a: sp.util.circshift(a, [1, -2]), [r(3, 4)])
    A("util.downsample", lambda a: sp.util.downsample(a, [2, 1]), [r(4, 3)])
    A("util.upsample", lambda a: sp.util.upsample(a, [4, 6], [2, 2]), [r(2, 3)])
    A("util.leja", lambda a: sp.util.leja(a), [r(6)])
    A("fourier.fft", lambda a: sp.fft(a, axes=[-1]), [r(3, 4)])
    A("fourier.fft-oshape", lambda a: sp.fft(a, oshape=[5, 4]), [r(3, 4)])
    A("fourier.fft-nocenter", lambda a: sp.fft(a, center=False), [r(3, 4)])
    A("fourier.ifft", lambda a: sp.ifft(a), [r(3, 4)])
    A("fourier.fft-real", lambda a: sp.fft(a), [rr(3, 4)])
    A("fourier.nufft", lambda a, c: sp.nufft(a, c), [r(6, 5), rr(7, 2) * 3])
    A("fourier.nufft_adjoint", lambda a, c: sp.nufft_adjoint(a, c, oshape=[6, 5]), [r(7), rr(7, 2) * 3])
    # parameter values at which an internal zero-pad / crop is the identity (util.resize then returns a VIEW of the argument)
    A("fourier.nufft-oversamp1", lambda a, c: sp.nufft(a, c, oversamp=1.0, width=3), [r(6, 5), rr(7, 2) * 3])
    A("fourier.nufft-oversamp1-batch", lambda a, c: sp.nufft(a, c, oversamp=1, width=4), [r(2, 6), rr(5, 1) * 3])
    A("fourier.nufft_adjoint-oversamp1", lambda a, c: sp.nufft_adjoint(a, c, oshape=[6, 5], oversamp=1.0, width=3), [r(7), rr(7, 2) * 3])
    A("fourier.fft-oshape-same", lambda a: sp.fft(a, oshape=[3, 4]), [r(3, 4)])
    A("fourier.ifft-oshape-same", lambda a: sp.ifft(a, oshape=[3, 4], center=True), [r(3, 4)])
    A("fourier.estimate_shape", lambda c: sp.estimate_shape(c), [rr(7, 2) * 3])
    A("fourier.toeplitz_psf", lambda c: sp.fourier.toeplitz_psf(c, [4, 4]), [rr(5, 2) * 2])
    A("thresh.soft_thresh", lambda a: sp.thresh.soft_thresh(0.3, a), [r(3, 4)])
    A("thresh.hard_thresh", lambda a: sp.thresh.hard_thresh(0.3, a), [r(3, 4)])
    A("thresh.l1_proj", lambda a: sp.thresh.l1_proj(1.0, a), [r(3, 4)])
    A("thresh.l1_proj-feasible", lambda a: sp.thresh.l1_proj(100.0, a), [r(3, 4)])
    A("thresh.l2_proj", lambda a: sp.thresh.l2_proj(0.5, a), [r(3, 4)])
    A("thresh.linf_proj", lambda a, b: sp.thresh.linf_proj(0.3, a, bias=b), [r(3, 4), r(3, 4)])
    A("thresh.psd_proj", lambda a: sp.thresh.psd_proj(a), [r(4, 4)])
    A("interp.interpolate", lambda a, c: sp.interpolate(a, c), [r(2, 6, 5), rr(4, 2) * 3])
    A("interp.interpolate-kb", lambda a, c: sp.interpolate(a, c, kernel="kaiser_bessel", width=3, param=5.0), [r(6, 5), rr(4, 2) * 3])
    A("interp.gridding", lambda a, c: sp.gridding(a, c, [2, 6, 5]), [r(2, 4), rr(4, 2) * 3])
    A("conv.convolve", lambda a, f: sp.convolve(a, f), [r(5, 6), r(2, 3)])
    A("conv.convolve-valid-strided", lambda a, f: sp.convolve(a, f, mode="valid", strides=[2, 1]), [r(5, 6), r(2, 3)])
    A("conv.convolve-mc", lambda a, f: sp.convolve(a, f, multi_channel=True), [r(2, 3, 6), r(4, 3, 2)])
    A("conv.convolve_data_adjoint", lambda o, f: sp.convolve_data_adjoint(o, f, [5, 6]), [r(6, 8), r(2, 3)])
    A("conv.convolve_filter_adjoint", lambda o, d: sp.convolve_filter_adjoint(o, d, [2, 3]), [r(6, 8), r(5, 6)])
    A("block.array_to_blocks", lambda a: sp.array_to_blocks(a, [2, 3], [1, 2]), [r(2, 4, 6)])
    A("block.blocks_to_array", lambda a: sp.blocks_to_array(a, [4, 6], [2, 3], [1, 2]), [r(3, 2, 2, 3)])
    A("wavelet.fwt", lambda a: sp.fwt(a), [r(6, 5)])
    A("wavelet.fwt-axes", lambda a: sp.fwt(a, wave_name="haar", axes=[-1], level=1), [r(6, 5)])
    A("wavelet.iwt", lambda a: sp.iwt(a, [6, 5], sp.wavelet.get_wavelet_shape([6, 5])[1]), [r(*sp.wavelet.get_wavelet_shape([6, 5])[0])])
    A("mri.util.get_cov", lambda a: mutil.get_cov(a), [r(3, 4, 5)])
    A("mri.util.whiten", lambda a, c: mutil.whiten(a, c), [r(3, 4, 5), np.eye(3) + 0j])
    # shapes for which the [num_coils, -1] reshape inside the function is a VIEW in every layout: 2-D data, a single coil
    hpd = lambda n: (lambda m: m @ m.conj().T + n * np.eye(n))(r(n, n))          # noqa: E731
    A("mri.util.whiten-2d", lambda a, c: mutil.whiten(a, c), [r(3, 7), hpd(3)])
    A("mri.util.whiten-1coil", lambda a, c: mutil.whiten(a, c), [r(1, 6), hpd(1)])
    A("mri.util.whiten-realcov", lambda a, c: mutil.whiten(a, c), [r(2, 5), np.real(hpd(2))])
    A("mri.util.get_cov-2d", lambda a: mutil.get_cov(a), [r(3, 9)])
    A("mri.util.get_cov-1coil", lambda a: mutil.get_cov(a), [r(1, 6)])
    return cases


def prox_cases(sp, rng):
    P = sp.prox
    r = lambda *s: (np.array([rng.uniform(-1, 1) for _ in range(int(np.prod(s)))]).reshape(s)
                    + 1j * np.array([rng.uniform(-1, 1) for _ in range(int(np.prod(s)))]).reshape(s))
    sh = [3, 4]
    y, b = r(*sh), r(*sh)
    Q, _ = np.linalg.qr(r(4, 4))
    U = sp.linop.MatMul([4, 1], Q)
    out = [
        ("NoOp", P.NoOp(sh), sh, []), ("L1Reg", P.L1Reg(sh, 0.4), sh, []), ("L2Reg", P.L2Reg(sh, 0.4, y=y), sh, [y]),
        ("L2Reg-proxh", P.L2Reg(sh, 0.4, y=y, proxh=P.L1Reg(sh, 0.2)), sh, [y]),
        ("L2Proj", P.L2Proj(sh, 0.7, y=y), sh, [y]), ("LInfProj", P.LInfProj(sh, 0.3, bias=b), sh, [b]),
        ("L1Proj", P.L1Proj(sh, 1.0), sh, []), ("L1Proj-feasible", P.L1Proj(sh, 100.0), sh, []),
        ("BoxConstraint", P.BoxConstraint(sh, -0.2, 0.3), sh, []), ("PsdProj", P.PsdProj([4, 4]), [4, 4], []),
        ("Conj-L1", P.Conj(P.L1Reg(sh, 0.4)), sh, []), ("Stack", P.Stack([P.L1Reg([3], 0.2), P.L2Reg([2, 2], 0.3)]), [7], []),
        ("Unitary", P.UnitaryTransform(P.L1Reg([4, 1], 0.3), U), [4, 1], [Q]),
    ]
    return out


def run(ctx):
    linop_common.run_linop(ctx, "C02", "Prop_C02.v", 120, 3000, {"apply", "linear", "pure"})
    sp = core.import_sigpy()
    rng = ctx.rng
    ctx.source_hash("sigpy/prox.py", "sigpy/fourier.py", "sigpy/thresh.py", "sigpy/interp.py", "sigpy/conv.py",
                    "sigpy/wavelet.py", "sigpy/mri/util.py")
    bad = {}
    reps = ctx.n(1, 6)
    nfun = 0
    for _ in range(reps):
        for name, f, args in function_cases(sp, rng):
            lay = [layouts(a, rng) for a in args]
            first = None
            for k in range(max(len(l) for l in lay)):
                cur = [l[min(k, len(l) - 1)][1] for l in lay]
                tag = "/".join(l[min(k, len(l) - 1)][0] for l in lay)
                snaps = snapshot(cur)
                try:
                    o1 = f(*cur)
                    o2 = f(*cur)
                except Exception as e:
                    bad.setdefault("exception:" + name, ("%s raised %r on layout %s" % (name, e, tag), {"function": name, "layout": tag}))
                    continue
                nfun += 1
                ctx.count("C02:function:" + name, key=(name, tag), sample={"function": name, "layout": tag,
                                                                            "shapes": [list(a.shape) for a in cur]})
                if changed(snaps):
                    bad.setdefault("mutation:" + name, ("%s modified an argument (layout %s)" % (name, tag),
                                                        {"function": name, "layout": tag, "args": [a.tolist().__repr__()[:400] for _, a, _, _ in snaps]}))
                same = all(np.array_equal(np.asarray(a), np.asarray(b)) for a, b in zip(flat(o1), flat(o2)))
                if not same:
                    bad.setdefault("determinism:" + name, ("%s returned different results on equal inputs" % name, {"function": name, "layout": tag}))
                # equal VALUES in another memory layout (Fortran order, strided view) must give equal results
                if first is None:
                    first = o1
                else:
                    for a, b in zip(flat(first), flat(o1)):
                        a, b = np.asarray(a), np.asarray(b)
                        if a.shape != b.shape or not np.allclose(a, b, rtol=1e-6 if a.dtype in (np.complex64, np.float32) else 1e-10, atol=1e-9):
                            bad.setdefault("layout:" + name, ("%s gives a different result for the same values stored in layout %s" % (name, tag),
                                                              {"function": name, "layout": tag}))
                            break
        for name, p, sh, captured in prox_cases(sp, rng):
            x = (np.array([rng.uniform(-1, 1) for _ in range(int(np.prod(sh)))]) + 1j * np.array([rng.uniform(-1, 1) for _ in range(int(np.prod(sh)))])).reshape(sh)
            if name == "PsdProj":
                x = x + x.conj().T
            firstp = None
            for tag, xv in layouts(x, rng):
                snaps = snapshot([xv] + captured)
                try:
                    o1 = p(0.7, xv)
                    o2 = p(0.7, xv)
                except Exception as e:
                    bad.setdefault("exception:prox." + name, ("prox %s raised %r" % (name, e), {"prox": name, "layout": tag}))
                    continue
                nfun += 1
                ctx.count("C02:prox:" + name, key=(name, tag), sample={"prox": name, "layout": tag, "shape": sh})
                if changed(snaps):
                    bad.setdefault("mutation:prox." + name, ("prox %s modified its input or an array it was built from" % name, {"prox": name, "layout": tag}))
                if not np.array_equal(o1, o2):
                    bad.setdefault("determinism:prox." + name, ("prox %s not deterministic" % name, {"prox": name}))
                if firstp is None:
                    firstp = np.asarray(o1)
                elif firstp.shape != np.asarray(o1).shape or not np.allclose(firstp, o1, rtol=1e-10, atol=1e-10):
                    bad.setdefault("layout:prox." + name, ("prox %s gives a different result for the same values stored in layout %s" % (name, tag),
                                                           {"prox": name, "layout": tag}))
    # dedicated stream: Conj / scaling / stacking of genuinely complex operators applied to arrays stored in a REAL dtype
    from vlib import lingen
    for k in range(ctx.n(60, 1500)):
        try:
            A = lingen.gen_tree(sp, rng, rng.choice([0, 1, 1, 2]), None, lingen.EXACT_LEAVES, True, [])
            kind = rng.choice(["conj", "conj", "lscale", "rscale", "conjH"])
            c = complex(rng.randint(-3, 3), rng.randint(1, 3))
            B = {"conj": lambda: sp.linop.Conj(A), "conjH": lambda: sp.linop.Conj(A).H.H, "lscale": lambda: c * A, "rscale": lambda: A * c}[kind]()
            if int(np.prod(B.ishape)) > 64 or int(np.prod(B.oshape)) > 96:
                continue
            xr = lingen.gint(rng, B.ishape, False, -4, 4)              # float64
            xc = xr.astype(np.complex128)
            y2 = lingen.gint(rng, B.ishape, True, -4, 4)
            a = complex(rng.randint(-3, 3), rng.randint(-3, 3))
            ctx.count("C02:real-dtype:" + kind, key=(kind, repr(B)[:120], k), sample={"kind": kind, "operator": repr(B)[:160]})
            o_r, o_c = np.asarray(B(xr)), np.asarray(B(xc))
            # fft / nufft compute a real-dtype input in complex64 BY DESIGN: single-precision tolerance for trees that contain them
            single = has_single_precision_leaf(B)     # (repr of a stack does not show its blocks: walk the graph)
            t1, t2 = (3e-4, 3e-4) if single else (1e-10, 1e-9)
            sc = 1 + (float(np.abs(o_c).max()) if o_c.size else 0.0)
            if o_r.shape != o_c.shape or not np.allclose(o_r, o_c, rtol=t1, atol=t1 * sc):
                bad.setdefault("real-dtype:" + kind, ("%s applied to a real-dtype array differs from the same values stored as complex (max diff %.3g): "
                                                      "the imaginary part is dropped or not conjugated" % (kind, float(np.abs(o_r - o_c).max()) if o_r.shape == o_c.shape else -1),
                                                      {"operator": repr(B), "input": xr.tolist().__repr__()}))
            l, r = np.asarray(B(a * xr + y2)), a * o_r + np.asarray(B(y2))
            if not np.allclose(l, r, rtol=t2, atol=t2 * (1 + float(np.abs(r).max()) if r.size else 1.0)):
                bad.setdefault("real-dtype-linear:" + kind, ("%s is not linear when x is stored in a real dtype" % kind, {"operator": repr(B)}))
        except Exception as e:
            bad.setdefault("real-dtype-exception", ("operator raised %r on a real-dtype input" % e, {"error": repr(e)}))
    # history determinism: operators that differ only in a parameter (convolution strides, modes) applied in interleaved order --
    # an operator must give the same output for the same input whatever other operators ran in between
    try:
        lin = sp.linop
        pool = []
        for D, dsh, fsh, strides in ((1, [8], [3], ([1], [2], [3], [4])), (1, [6], [3], ([2], [3])), (2, [5, 6], [2, 3], ([1, 2], [2, 1], [2, 2], [1, 1]))):
            filt = lingen.gint(rng, fsh, True, -3, 3)
            data = lingen.gint(rng, dsh, True, -3, 3)
            for mode in ("full", "valid"):
                for st in strides:
                    pool.append(lin.ConvolveData(dsh, filt, mode=mode, strides=st).H)
                    pool.append(lin.ConvolveFilter(fsh, data, mode=mode, strides=st).H)
                    pool.append(lin.ConvolveData(dsh, filt, mode=mode, strides=st))
        rng.shuffle(pool)
        ins = [lingen.gint(rng, list(B.ishape), True, -4, 4) for B in pool]
        first = [np.asarray(B(x.copy())).copy() for B, x in zip(pool, ins)]
        for rnd_ in range(2):
            order = list(range(len(pool)))
            rng.shuffle(order)
            for i in order:
                again = np.asarray(pool[i](ins[i].copy()))
                ctx.count("C02:history:conv", key=(i, rnd_), nontrivial=True)
                if again.shape != first[i].shape or not np.array_equal(again, first[i]):
                    bad.setdefault("history-determinism:conv", ("%r gives a different output for the same input after other convolution operators (other strides / modes) "
                                                                "were applied in between (max diff %.3g)" % (pool[i], float(np.abs(again - first[i]).max()) if again.shape == first[i].shape else -1),
                                                                {"operator": repr(pool[i]), "input": ins[i].tolist().__repr__(),
                                                                 "first_output": first[i].tolist().__repr__(), "later_output": again.tolist().__repr__()}))
    except Exception as e:
        bad.setdefault("history-exception", ("the interleaved convolution stream raised %r" % e, {"error": repr(e)}))
    new_static = static_scan(ctx)
    ctx.obligation("static:in-place writes through parameter aliases match the reviewed baseline", not new_static)
    if new_static and not any(k.startswith("mutation") for k in bad):
        r = new_static[0]
        bad["static:%s:%s" % (r["file"], r["function"])] = (
            "new in-place write through a parameter alias in %s:%s line %d (`%s`); the snapshot sweep found no mutated argument"
            % (r["file"], r["function"], r["line"], r["code"]), {"static_reports": new_static, "found_input": False})
    ctx.obligation("sweep:no public function / prox mutates its arguments (%d calls)" % nfun, not any(k.startswith("mutation") for k in bad))
    ctx.obligation("sweep:functions deterministic and total on valid input", not any(not k.startswith("mutation") for k in bad))
    for k, (what, rep) in bad.items():
        ctx.violation("C02: " + what, dict(rep, kind="oracle", facet=k), signature="C02:" + k,
                      found_input=rep.get("found_input", True))
    ctx.validated_only.append("non-mutation (aliasing / in-place updates) is decided dynamically by byte snapshots, not by a theorem")
    ctx.proved.append("linearity of every Conj/+/composition tree over any commutative *-ring; linearity of the re-indexing / gather / finite-sum leaf families")


# reviewed in-place writes through a parameter of the pinned tree: documented output parameters of private helpers / kernels,
# and one false positive of the view heuristic (an integer taken from a shape list)
STATIC_BASELINE = {
    ("sigpy/fourier.py", "_apodize", "input"),
    ("sigpy/block.py", "_array_to_blocks1", "output"), ("sigpy/block.py", "_array_to_blocks2", "output"),
    ("sigpy/block.py", "_array_to_blocks3", "output"), ("sigpy/block.py", "_blocks_to_array1", "output"),
    ("sigpy/block.py", "_blocks_to_array2", "output"), ("sigpy/block.py", "_blocks_to_array3", "output"),
    ("sigpy/linop.py", "_hstack_params", "shapes"), ("sigpy/linop.py", "_vstack_params", "shapes"),
    ("sigpy/mri/app.py", "EspiritCalib._output", "self.mps"),       # the app's own result buffer
}


def static_scan(ctx):
    """support tool: new in-place writes through parameter aliases (tools/alias_scan.py) are leads for the sweep"""
    import re
    from tools import alias_scan
    new = []
    try:
        reports = alias_scan.scan_repo(core.REPO)
    except SyntaxError as e:
        ctx.notes.append("alias scan: source does not parse: %s" % e)
        return [{"file": "?", "function": "?", "what": "source does not parse", "code": str(e), "line": 0}]
    for r in reports:
        for root in re.findall(r"'([^']+)'", r["what"]):
            if (r["file"], r["function"].split(".")[-1] if False else r["function"], root) not in STATIC_BASELINE:
                new.append(r)
    ctx.coverage["static_alias_reports"] = len(reports)
    return new


def flat(o):
    if isinstance(o, (list, tuple)):
        out = []
        for v in o:
            out += flat(v)
        return out
    return [o]


def replay(obj):
    return "rerun"      # regenerated deterministically from the recorded seed (vlib/main.py)
